package main

// C12 — a host-supplied OS mediates all file, environment, process and stdio access.
//
// Real code: risor.NewConfig/WithOS/WithImporter/WithConcurrency, compiler, vm.New/Run/RunCode/
// Call/Clone, risor.EvalCode/Eval/Call with risor.WithVM, the os, filepath and fmt modules, file objects,
// print/printf and the shell-style builtins, all in-process.  Every case is a host-level history (create
// a VM with or without WithOS, run, clone, call, RunCode with WithOS, re-enter the machine through risor's
// top-level API with or without risor.WithOS, fire a kept script callback through the clone-call function
// with a context of the host's own; each run with or without an OS in the context)
// of one script, in which one operation sits at the bottom of a random nesting of execution
// contexts (closure call, builtin callback, try, defer, spawn, go, f.spawn, clone-call,
// imported-module function, imported-module body).
//
// Observation: recording os.OS objects (each wraps a risor VirtualOS over an in-memory file
// system; every OS-interface call and every call on a file it handed out is logged), plus
// sentinels in the real process: an environment variable, the working directory, a file tree
// that exists with the same absolute paths (and different contents) inside the recording OSes,
// the process's stdout/stderr/stdin, pid, hostname.
//
// Verdicts: the merged call log of every executing event must equal the trace of the Lean Impl
// model (Mismatch otherwise); the Spec is evaluated on the real results: if the host supplied an
// OS for the run, every call must have landed on a supplied recording OS, the calls the
// operation needs must all be in the recording, nothing in the real process may have changed
// and no real value may show in the script's result.

import (
	"bytes"
	"context"
	"encoding/json"
	"errors"
	"fmt"
	"io"
	"io/fs"
	"os"
	"os/exec"
	"os/user"
	"path/filepath"
	"regexp"
	"sort"
	"strconv"
	"strings"
	"sync"
	"time"

	"github.com/risor-io/risor"
	"github.com/risor-io/risor/compiler"
	"github.com/risor-io/risor/object"
	ros "github.com/risor-io/risor/os"
	"github.com/risor-io/risor/parser"
	"github.com/risor-io/risor/vm"
)

func init() {
	commands["C12"] = c12_runC12
	childCommands["C12-child"] = c12Child
}

// ---------------------------------------------------------------- operation table

type c12Op struct {
	name, gofn, expr string
	args             []string
	flags            string // t = wrapped in try, r = safe on the real OS, g = uses gf, x = exit (child process), v = metacharacter argument, taken verbatim
}

var c12Ops = []c12Op{
	{"os_args", "modules/os.Args", "os.args()", []string{}, ""},
	{"os_chdir", "modules/os.Chdir", "os.chdir({0})", []string{"S"}, ""},
	{"cd", "modules/os.Chdir", "cd({0})", []string{"S"}, ""},
	{"os_chdir_bad", "modules/os.Chdir", "os.chdir(1)", []string{}, "t"},
	{"os_create", "modules/os.Create", "os.create({0}).close()", []string{"FN"}, ""},
	{"os_create_bad", "modules/os.Create", "os.create()", []string{}, "t"},
	{"os_current_user", "modules/os.CurrentUser", "os.current_user()", []string{}, ""},
	{"os_environ", "modules/os.Environ", "os.environ()", []string{}, ""},
	{"os_getenv", "modules/os.Getenv", "os.getenv({0})", []string{"K"}, "r"},
	{"getenv", "modules/os.Getenv", "getenv({0})", []string{"K"}, "r"},
	{"os_getenv_unset", "modules/os.Getenv", "os.getenv({0})", []string{"KN"}, "r"},
	{"os_getenv_bad", "modules/os.Getenv", "os.getenv()", []string{}, "t"},
	{"os_getpid", "modules/os.Getpid", "os.getpid()", []string{}, "r"},
	{"os_getuid", "modules/os.Getuid", "os.getuid()", []string{}, "r"},
	{"os_getwd", "modules/os.Getwd", "os.getwd()", []string{}, "r"},
	{"os_hostname", "modules/os.Hostname", "os.hostname()", []string{}, "r"},
	{"os_lookup_gid", "modules/os.LookupGid", "os.lookup_gid({0})", []string{"=100"}, ""},
	{"os_lookup_gid_missing", "modules/os.LookupGid", "os.lookup_gid({0})", []string{"=777"}, "t"},
	{"os_lookup_group", "modules/os.LookupGroup", "os.lookup_group({0})", []string{"=staff"}, ""},
	{"os_lookup_group_missing", "modules/os.LookupGroup", "os.lookup_group({0})", []string{"=nogrp"}, "t"},
	{"os_lookup_uid", "modules/os.LookupUid", "os.lookup_uid({0})", []string{"=1000"}, ""},
	{"os_lookup_uid_missing", "modules/os.LookupUid", "os.lookup_uid({0})", []string{"=777"}, "t"},
	{"os_lookup_user", "modules/os.LookupUser", "os.lookup_user({0})", []string{"=alice"}, ""},
	{"os_lookup_user_missing", "modules/os.LookupUser", "os.lookup_user({0})", []string{"=nobody9"}, "t"},
	{"os_mkdir", "modules/os.Mkdir", "os.mkdir({0})", []string{"ND"}, ""},
	{"os_mkdir_perm", "modules/os.Mkdir", "os.mkdir({0}, 448)", []string{"ND"}, ""},
	{"os_mkdir_bad", "modules/os.Mkdir", "os.mkdir({0}, \"x\")", []string{"ND"}, "t"},
	{"os_mkdir_all", "modules/os.MkdirAll", "os.mkdir_all({0})", []string{"NDX"}, ""},
	{"os_mkdir_all_perm", "modules/os.MkdirAll", "os.mkdir_all({0}, 448)", []string{"NDX"}, ""},
	{"os_mkdir_temp", "modules/os.MkdirTemp", "os.mkdir_temp(\"\", {0})", []string{"=pat"}, ""},
	{"os_mkdir_temp_dir", "modules/os.MkdirTemp", "os.mkdir_temp({0}, {1})", []string{"D", "=pat"}, "t"},
	{"os_open", "modules/os.Open", "os.open({0}).close()", []string{"FA"}, ""},
	{"bopen", "modules/os.Open", "open({0}).close()", []string{"FA"}, ""},
	{"os_open_missing", "modules/os.Open", "os.open({0})", []string{"FM"}, "t"},
	{"os_read_dir0", "modules/os.ReadDir", "len(os.read_dir())", []string{}, ""},
	{"os_read_dir", "modules/os.ReadDir", "len(os.read_dir({0}))", []string{"D"}, ""},
	{"ls0", "modules/os.ReadDir", "len(ls())", []string{}, ""},
	{"ls", "modules/os.ReadDir", "len(ls({0}))", []string{"D"}, ""},
	{"os_read_dir_missing", "modules/os.ReadDir", "os.read_dir({0})", []string{"FM"}, "t"},
	{"os_read_file", "modules/os.ReadFile", "string(os.read_file({0}))", []string{"FA"}, "r"},
	{"os_read_file_missing", "modules/os.ReadFile", "os.read_file({0})", []string{"FM"}, "t"},
	{"os_remove", "modules/os.Remove", "os.remove({0})", []string{"FA"}, ""},
	{"os_remove_missing", "modules/os.Remove", "os.remove({0})", []string{"FM"}, "t"},
	{"os_remove_all", "modules/os.RemoveAll", "os.remove_all({0})", []string{"D"}, ""},
	{"os_rename", "modules/os.Rename", "os.rename({0}, {1})", []string{"FA", "FN"}, ""},
	{"os_rename_bad", "modules/os.Rename", "os.rename({0})", []string{"FA"}, "t"},
	{"os_setenv", "modules/os.Setenv", "os.setenv({0}, {1})", []string{"K", "=newval"}, ""},
	{"setenv", "modules/os.Setenv", "setenv({0}, {1})", []string{"K", "=newval"}, ""},
	{"os_setenv_new", "modules/os.Setenv", "os.setenv({0}, {1})", []string{"KN", "=fresh"}, ""},
	{"os_stat", "modules/os.Stat", "os.stat({0}).size", []string{"FA"}, "r"},
	{"os_stat_missing", "modules/os.Stat", "os.stat({0})", []string{"FM"}, "t"},
	{"os_symlink", "modules/os.Symlink", "os.symlink({0}, {1})", []string{"FA", "FN"}, ""},
	{"os_temp_dir", "modules/os.TempDir", "os.temp_dir()", []string{}, ""},
	{"os_unsetenv", "modules/os.Unsetenv", "os.unsetenv({0})", []string{"K"}, ""},
	{"unsetenv", "modules/os.Unsetenv", "unsetenv({0})", []string{"K"}, ""},
	{"os_user_cache_dir", "modules/os.UserCacheDir", "os.user_cache_dir()", []string{}, ""},
	{"os_user_config_dir", "modules/os.UserConfigDir", "os.user_config_dir()", []string{}, ""},
	{"os_user_home_dir", "modules/os.UserHomeDir", "os.user_home_dir()", []string{}, ""},
	{"os_write_file", "modules/os.WriteFile", "os.write_file({0}, \"data\")", []string{"FN"}, ""},
	{"os_write_file_perm", "modules/os.WriteFile", "os.write_file({0}, \"data\", 384)", []string{"FN"}, ""},
	{"os_write_file_bytes", "modules/os.WriteFile", "os.write_file({0}, byte_slice(\"data\"))", []string{"FN"}, ""},
	{"os_write_file_over", "modules/os.WriteFile", "os.write_file({0}, \"clobber\")", []string{"FA"}, ""},
	{"os_write_file_bad", "modules/os.WriteFile", "os.write_file({0}, 1)", []string{"FN"}, "t"},
	{"os_stdout_write", "modules/os.Module", "os.stdout.write(\"x\")", []string{}, "r"},
	{"os_stderr_write", "modules/os.Module", "os.stderr.write(\"e\")", []string{}, "r"},
	{"os_stdin_read", "modules/os.Module", "string(os.stdin.read())", []string{}, "r"},
	{"os_stdout_attr", "modules/os.Module", "os.stdout.name()", []string{}, "r"},
	{"cat", "modules/os.Cat", "cat({0}, {1})", []string{"FA", "FB"}, ""},
	{"cat1", "modules/os.Cat", "cat({0})", []string{"FA"}, "r"},
	{"cat_missing", "modules/os.Cat", "cat({0}, {1})", []string{"FM", "FA"}, "t"},
	{"cat_bad", "modules/os.Cat", "cat()", []string{}, "t"},
	{"cp", "modules/os.Copy", "cp({0}, {1})", []string{"FA", "FN"}, ""},
	{"cp_over", "modules/os.Copy", "cp({0}, {1})", []string{"FA", "FB"}, ""},
	{"cp_missing", "modules/os.Copy", "cp({0}, {1})", []string{"FM", "FN"}, "t"},
	{"fp_abs_rel", "modules/filepath.Abs", "filepath.abs(\"rel/x\")", []string{}, "r"},
	{"fp_abs_abs", "modules/filepath.Abs", "filepath.abs(\"/abs/./x\")", []string{}, "r"},
	{"fp_base", "modules/filepath.Base", "filepath.base({0})", []string{"FA"}, "r"},
	{"fp_clean", "modules/filepath.Clean", "filepath.clean(\"a/../b\")", []string{}, "r"},
	{"fp_dir", "modules/filepath.Dir", "filepath.dir({0})", []string{"FA"}, "r"},
	{"fp_ext", "modules/filepath.Ext", "filepath.ext({0})", []string{"FA"}, "r"},
	{"fp_is_abs", "modules/filepath.IsAbs", "filepath.is_abs({0})", []string{"FA"}, "r"},
	{"fp_join", "modules/filepath.Join", "filepath.join(\"a\", \"b\", \"..\", \"c\")", []string{}, "r"},
	{"fp_match", "modules/filepath.Match", "filepath.match(\"*.txt\", \"a.txt\")", []string{}, "r"},
	{"fp_rel", "modules/filepath.Rel", "filepath.rel(\"/a/b\", \"/a/c/d\")", []string{}, "r"},
	{"fp_split", "modules/filepath.Split", "filepath.split({0})", []string{"FA"}, "r"},
	{"fp_split_list", "modules/filepath.SplitList", "filepath.split_list(\"/a:/b\")", []string{}, "r"},
	{"fp_walk_dir", "modules/filepath.WalkDir", "filepath.walk_dir({0}, func(p, d, e) { getenv({1}) })", []string{"D", "K"}, ""},
	{"fp_walk_dir_missing", "modules/filepath.WalkDir", "filepath.walk_dir({0}, func(p, d, e) { getenv({1}) })", []string{"FM", "K"}, "t"},
	{"fp_walk_dir_bad", "modules/filepath.WalkDir", "filepath.walk_dir({0}, 1)", []string{"D"}, "t"},
	{"printf", "modules/fmt.Printf", "printf(\"x=%d.\", 3)", []string{}, ""},
	{"fmt_printf", "modules/fmt.Printf", "fmt.printf(\"%s-%v.\", \"a\", [1])", []string{}, ""},
	{"printf_bad", "modules/fmt.Printf", "printf()", []string{}, "t"},
	{"print", "modules/fmt.Println", "print(\"a\", 1)", []string{}, ""},
	{"print0", "modules/fmt.Println", "print()", []string{}, ""},
	{"fmt_println", "modules/fmt.Println", "fmt.println(\"hello\")", []string{}, ""},
	{"fmt_errorf", "modules/fmt.Errorf", "string(fmt.errorf(\"e%d\", 1))", []string{}, "r"},
	{"errorf", "modules/fmt.Errorf", "string(errorf(\"e%d\", 2))", []string{}, "r"},
	{"fmt_sprintf", "modules/fmt.Sprintf", "fmt.sprintf(\"s%d\", 1)", []string{}, "r"},
	{"sprintf", "modules/fmt.Sprintf", "sprintf(\"s%d\", 2)", []string{}, "r"},
	{"file_name", "object.File.GetAttr", "func() { f := os.open({0}); r := f.name(); f.close(); return r }()", []string{"FA"}, ""},
	{"file_stat", "object.File.GetAttr", "func() { f := os.open({0}); r := f.stat().size; f.close(); return r }()", []string{"FA"}, ""},
	{"file_position", "object.File.GetAttr", "func() { f := os.open({0}); r := f.position; f.close(); return r }()", []string{"FA"}, ""},
	{"file_read_all", "object.File.GetAttr", "func() { f := os.open({0}); r := string(f.read()); f.close(); return r }()", []string{"FA"}, ""},
	{"file_read_bs", "object.File.GetAttr", "func() { f := os.open({0}); r := string(f.read(byte_slice(4))); f.close(); return r }()", []string{"FA"}, ""},
	{"file_read_buf", "object.File.GetAttr", "func() { f := os.open({0}); r := string(f.read(buffer())); f.close(); return r }()", []string{"FA"}, ""},
	{"file_write", "object.File.GetAttr", "func() { f := os.create({0}); r := f.write(\"hello\"); f.close(); return r }()", []string{"FN"}, ""},
	{"file_close_twice", "object.File.GetAttr", "func() { f := os.open({0}); f.close(); f.close(); return 1 }()", []string{"FA"}, ""},
	{"file_seek", "object.File.GetAttr", "func() { f := os.open({0}); r := f.seek(2, 0); f.close(); return r }()", []string{"FA"}, ""},
	{"file_read_lines", "object.File.GetAttr", "func() { f := os.open({0}); r := len(f.read_lines()); f.close(); return r }()", []string{"FA"}, ""},
	{"file_iter", "object.FileIter.Next", "func() { f := os.open({0}); n := 0; for _, l := range f { n++ }; f.close(); return n }()", []string{"FA"}, ""},
	{"file_stdout_write", "object.File.GetAttr", "func() { f := os.stdout; f.write(\"a\"); f.write(\"b\"); return 2 }()", []string{}, "r"},
	{"gf_read", "object.File.GetAttr", "string(gf.read())", []string{}, "g"},
	{"gf_stat", "object.File.GetAttr", "gf.stat().size", []string{}, "g"},
	{"gf_seek", "object.File.GetAttr", "gf.seek(0, 0)", []string{}, "g"},
	{"gf_name", "object.File.GetAttr", "gf.name()", []string{}, "g"},
	{"os_exit", "modules/os.Exit", "os.exit()", []string{}, "x"},
	{"os_exit_0", "modules/os.Exit", "os.exit(0)", []string{}, "x"},
	{"os_exit_3", "modules/os.Exit", "os.exit(3)", []string{}, "xt"},
	{"os_exit_err", "modules/os.Exit", "os.exit(errors.new(\"boom\"))", []string{}, "xt"},
	{"os_exit_bad", "modules/os.Exit", "os.exit(\"s\")", []string{}, "t"},
	// arguments with shell metacharacters (flag v: the host OS must receive the script's argument verbatim and nothing else);
	// MF:<shape> / MD:<shape> = file / directory form of the shape, see sym
	{"sh_cd_star", "modules/os.Chdir", "cd({0})", []string{"MD:star"}, "tv"},
	{"sh_cd_quest", "modules/os.Chdir", "cd({0})", []string{"MD:quest"}, "tv"},
	{"sh_cd_bracket", "modules/os.Chdir", "cd({0})", []string{"MD:bracket"}, "tv"},
	{"sh_cd_env", "modules/os.Chdir", "cd({0})", []string{"MD:env"}, "tv"},
	{"sh_cd_envb", "modules/os.Chdir", "cd({0})", []string{"MD:envb"}, "tv"},
	{"sh_cd_envhost", "modules/os.Chdir", "cd({0})", []string{"MD:envhost"}, "tv"},
	{"sh_cd_tilde", "modules/os.Chdir", "cd({0})", []string{"MD:tilde"}, "tv"},
	{"sh_cd_rel", "modules/os.Chdir", "cd({0})", []string{"MD:rel"}, "tv"},
	{"sh_ls_star", "modules/os.ReadDir", "len(ls({0}))", []string{"MD:star"}, "tv"},
	{"sh_ls_quest", "modules/os.ReadDir", "len(ls({0}))", []string{"MD:quest"}, "tv"},
	{"sh_ls_bracket", "modules/os.ReadDir", "len(ls({0}))", []string{"MD:bracket"}, "tv"},
	{"sh_ls_env", "modules/os.ReadDir", "len(ls({0}))", []string{"MD:env"}, "tv"},
	{"sh_ls_envb", "modules/os.ReadDir", "len(ls({0}))", []string{"MD:envb"}, "tv"},
	{"sh_ls_envhost", "modules/os.ReadDir", "len(ls({0}))", []string{"MD:envhost"}, "tv"},
	{"sh_ls_tilde", "modules/os.ReadDir", "len(ls({0}))", []string{"MD:tilde"}, "tv"},
	{"sh_ls_rel", "modules/os.ReadDir", "len(ls({0}))", []string{"MD:rel"}, "tv"},
	{"sh_cat_star", "modules/os.Cat", "cat({0})", []string{"MF:star"}, "tv"},
	{"sh_cat_quest", "modules/os.Cat", "cat({0})", []string{"MF:quest"}, "tv"},
	{"sh_cat_bracket", "modules/os.Cat", "cat({0})", []string{"MF:bracket"}, "tv"},
	{"sh_cat_env", "modules/os.Cat", "cat({0})", []string{"MF:env"}, "tv"},
	{"sh_cat_envb", "modules/os.Cat", "cat({0})", []string{"MF:envb"}, "tv"},
	{"sh_cat_envhost", "modules/os.Cat", "cat({0})", []string{"MF:envhost"}, "tv"},
	{"sh_cat_tilde", "modules/os.Cat", "cat({0})", []string{"MF:tilde"}, "tv"},
	{"sh_cat_rel", "modules/os.Cat", "cat({0})", []string{"MF:rel"}, "tv"},
	{"sh_cp_src_star", "modules/os.Copy", "cp({0}, {1})", []string{"MF:star", "FN"}, "tv"},
	{"sh_cp_src_quest", "modules/os.Copy", "cp({0}, {1})", []string{"MF:quest", "FN"}, "tv"},
	{"sh_cp_src_bracket", "modules/os.Copy", "cp({0}, {1})", []string{"MF:bracket", "FN"}, "tv"},
	{"sh_cp_src_env", "modules/os.Copy", "cp({0}, {1})", []string{"MF:env", "FN"}, "tv"},
	{"sh_cp_src_envb", "modules/os.Copy", "cp({0}, {1})", []string{"MF:envb", "FN"}, "tv"},
	{"sh_cp_src_envhost", "modules/os.Copy", "cp({0}, {1})", []string{"MF:envhost", "FN"}, "tv"},
	{"sh_cp_src_tilde", "modules/os.Copy", "cp({0}, {1})", []string{"MF:tilde", "FN"}, "tv"},
	{"sh_cp_src_rel", "modules/os.Copy", "cp({0}, {1})", []string{"MF:rel", "FN"}, "tv"},
	{"sh_cp_dst_star", "modules/os.Copy", "cp({0}, {1})", []string{"FA", "MF:star"}, "tv"},
	{"sh_cp_dst_quest", "modules/os.Copy", "cp({0}, {1})", []string{"FA", "MF:quest"}, "tv"},
	{"sh_cp_dst_bracket", "modules/os.Copy", "cp({0}, {1})", []string{"FA", "MF:bracket"}, "tv"},
	{"sh_cp_dst_env", "modules/os.Copy", "cp({0}, {1})", []string{"FA", "MF:env"}, "tv"},
	{"sh_cp_dst_envb", "modules/os.Copy", "cp({0}, {1})", []string{"FA", "MF:envb"}, "tv"},
	{"sh_cp_dst_envhost", "modules/os.Copy", "cp({0}, {1})", []string{"FA", "MF:envhost"}, "tv"},
	{"sh_cp_dst_tilde", "modules/os.Copy", "cp({0}, {1})", []string{"FA", "MF:tilde"}, "tv"},
	{"sh_cp_dst_rel", "modules/os.Copy", "cp({0}, {1})", []string{"FA", "MF:rel"}, "tv"},
	{"sh_bopen_star", "modules/os.Open", "open({0}).close()", []string{"MF:star"}, "tv"},
	{"sh_bopen_quest", "modules/os.Open", "open({0}).close()", []string{"MF:quest"}, "tv"},
	{"sh_bopen_bracket", "modules/os.Open", "open({0}).close()", []string{"MF:bracket"}, "tv"},
	{"sh_bopen_env", "modules/os.Open", "open({0}).close()", []string{"MF:env"}, "tv"},
	{"sh_bopen_envb", "modules/os.Open", "open({0}).close()", []string{"MF:envb"}, "tv"},
	{"sh_bopen_envhost", "modules/os.Open", "open({0}).close()", []string{"MF:envhost"}, "tv"},
	{"sh_bopen_tilde", "modules/os.Open", "open({0}).close()", []string{"MF:tilde"}, "tv"},
	{"sh_bopen_rel", "modules/os.Open", "open({0}).close()", []string{"MF:rel"}, "tv"},
	{"sh_os_chdir_star", "modules/os.Chdir", "os.chdir({0})", []string{"MD:star"}, "tv"},
	{"sh_os_chdir_quest", "modules/os.Chdir", "os.chdir({0})", []string{"MD:quest"}, "tv"},
	{"sh_os_chdir_bracket", "modules/os.Chdir", "os.chdir({0})", []string{"MD:bracket"}, "tv"},
	{"sh_os_chdir_env", "modules/os.Chdir", "os.chdir({0})", []string{"MD:env"}, "tv"},
	{"sh_os_chdir_envb", "modules/os.Chdir", "os.chdir({0})", []string{"MD:envb"}, "tv"},
	{"sh_os_chdir_envhost", "modules/os.Chdir", "os.chdir({0})", []string{"MD:envhost"}, "tv"},
	{"sh_os_chdir_tilde", "modules/os.Chdir", "os.chdir({0})", []string{"MD:tilde"}, "tv"},
	{"sh_os_chdir_rel", "modules/os.Chdir", "os.chdir({0})", []string{"MD:rel"}, "tv"},
	{"sh_os_read_dir_star", "modules/os.ReadDir", "len(os.read_dir({0}))", []string{"MD:star"}, "tv"},
	{"sh_os_read_dir_quest", "modules/os.ReadDir", "len(os.read_dir({0}))", []string{"MD:quest"}, "tv"},
	{"sh_os_read_dir_bracket", "modules/os.ReadDir", "len(os.read_dir({0}))", []string{"MD:bracket"}, "tv"},
	{"sh_os_read_dir_env", "modules/os.ReadDir", "len(os.read_dir({0}))", []string{"MD:env"}, "tv"},
	{"sh_os_read_dir_envb", "modules/os.ReadDir", "len(os.read_dir({0}))", []string{"MD:envb"}, "tv"},
	{"sh_os_read_dir_envhost", "modules/os.ReadDir", "len(os.read_dir({0}))", []string{"MD:envhost"}, "tv"},
	{"sh_os_read_dir_tilde", "modules/os.ReadDir", "len(os.read_dir({0}))", []string{"MD:tilde"}, "tv"},
	{"sh_os_read_dir_rel", "modules/os.ReadDir", "len(os.read_dir({0}))", []string{"MD:rel"}, "tv"},
	{"sh_os_read_file_star", "modules/os.ReadFile", "string(os.read_file({0}))", []string{"MF:star"}, "tv"},
	{"sh_os_read_file_quest", "modules/os.ReadFile", "string(os.read_file({0}))", []string{"MF:quest"}, "tv"},
	{"sh_os_read_file_bracket", "modules/os.ReadFile", "string(os.read_file({0}))", []string{"MF:bracket"}, "tv"},
	{"sh_os_read_file_env", "modules/os.ReadFile", "string(os.read_file({0}))", []string{"MF:env"}, "tv"},
	{"sh_os_read_file_envb", "modules/os.ReadFile", "string(os.read_file({0}))", []string{"MF:envb"}, "tv"},
	{"sh_os_read_file_envhost", "modules/os.ReadFile", "string(os.read_file({0}))", []string{"MF:envhost"}, "tv"},
	{"sh_os_read_file_tilde", "modules/os.ReadFile", "string(os.read_file({0}))", []string{"MF:tilde"}, "tv"},
	{"sh_os_read_file_rel", "modules/os.ReadFile", "string(os.read_file({0}))", []string{"MF:rel"}, "tv"},
	{"sh_os_open_star", "modules/os.Open", "os.open({0}).close()", []string{"MF:star"}, "tv"},
	{"sh_os_open_quest", "modules/os.Open", "os.open({0}).close()", []string{"MF:quest"}, "tv"},
	{"sh_os_open_bracket", "modules/os.Open", "os.open({0}).close()", []string{"MF:bracket"}, "tv"},
	{"sh_os_open_env", "modules/os.Open", "os.open({0}).close()", []string{"MF:env"}, "tv"},
	{"sh_os_open_envb", "modules/os.Open", "os.open({0}).close()", []string{"MF:envb"}, "tv"},
	{"sh_os_open_envhost", "modules/os.Open", "os.open({0}).close()", []string{"MF:envhost"}, "tv"},
	{"sh_os_open_tilde", "modules/os.Open", "os.open({0}).close()", []string{"MF:tilde"}, "tv"},
	{"sh_os_open_rel", "modules/os.Open", "os.open({0}).close()", []string{"MF:rel"}, "tv"},
	{"sh_os_stat_star", "modules/os.Stat", "os.stat({0}).size", []string{"MF:star"}, "tv"},
	{"sh_os_stat_quest", "modules/os.Stat", "os.stat({0}).size", []string{"MF:quest"}, "tv"},
	{"sh_os_stat_bracket", "modules/os.Stat", "os.stat({0}).size", []string{"MF:bracket"}, "tv"},
	{"sh_os_stat_env", "modules/os.Stat", "os.stat({0}).size", []string{"MF:env"}, "tv"},
	{"sh_os_stat_envb", "modules/os.Stat", "os.stat({0}).size", []string{"MF:envb"}, "tv"},
	{"sh_os_stat_envhost", "modules/os.Stat", "os.stat({0}).size", []string{"MF:envhost"}, "tv"},
	{"sh_os_stat_tilde", "modules/os.Stat", "os.stat({0}).size", []string{"MF:tilde"}, "tv"},
	{"sh_os_stat_rel", "modules/os.Stat", "os.stat({0}).size", []string{"MF:rel"}, "tv"},
}

// c12Plain: the ordinary-argument operation each metacharacter operation must behave like (checked against Lean's Op.plain)
var c12Plain = map[string]string{
	"sh_cd_star": "cd",
	"sh_cd_quest": "cd",
	"sh_cd_bracket": "cd",
	"sh_cd_env": "cd",
	"sh_cd_envb": "cd",
	"sh_cd_envhost": "cd",
	"sh_cd_tilde": "cd",
	"sh_cd_rel": "cd",
	"sh_ls_star": "ls",
	"sh_ls_quest": "ls",
	"sh_ls_bracket": "ls",
	"sh_ls_env": "ls",
	"sh_ls_envb": "ls",
	"sh_ls_envhost": "ls",
	"sh_ls_tilde": "ls",
	"sh_ls_rel": "ls",
	"sh_cat_star": "cat1",
	"sh_cat_quest": "cat1",
	"sh_cat_bracket": "cat1",
	"sh_cat_env": "cat1",
	"sh_cat_envb": "cat1",
	"sh_cat_envhost": "cat1",
	"sh_cat_tilde": "cat1",
	"sh_cat_rel": "cat1",
	"sh_cp_src_star": "cp",
	"sh_cp_src_quest": "cp",
	"sh_cp_src_bracket": "cp",
	"sh_cp_src_env": "cp",
	"sh_cp_src_envb": "cp",
	"sh_cp_src_envhost": "cp",
	"sh_cp_src_tilde": "cp_missing",
	"sh_cp_src_rel": "cp_missing",
	"sh_cp_dst_star": "cp",
	"sh_cp_dst_quest": "cp",
	"sh_cp_dst_bracket": "cp",
	"sh_cp_dst_env": "cp",
	"sh_cp_dst_envb": "cp",
	"sh_cp_dst_envhost": "cp",
	"sh_cp_dst_tilde": "cp",
	"sh_cp_dst_rel": "cp",
	"sh_bopen_star": "bopen",
	"sh_bopen_quest": "bopen",
	"sh_bopen_bracket": "bopen",
	"sh_bopen_env": "bopen",
	"sh_bopen_envb": "bopen",
	"sh_bopen_envhost": "bopen",
	"sh_bopen_tilde": "os_open_missing",
	"sh_bopen_rel": "os_open_missing",
	"sh_os_chdir_star": "os_chdir",
	"sh_os_chdir_quest": "os_chdir",
	"sh_os_chdir_bracket": "os_chdir",
	"sh_os_chdir_env": "os_chdir",
	"sh_os_chdir_envb": "os_chdir",
	"sh_os_chdir_envhost": "os_chdir",
	"sh_os_chdir_tilde": "os_chdir",
	"sh_os_chdir_rel": "os_chdir",
	"sh_os_read_dir_star": "os_read_dir",
	"sh_os_read_dir_quest": "os_read_dir",
	"sh_os_read_dir_bracket": "os_read_dir",
	"sh_os_read_dir_env": "os_read_dir",
	"sh_os_read_dir_envb": "os_read_dir",
	"sh_os_read_dir_envhost": "os_read_dir",
	"sh_os_read_dir_tilde": "os_read_dir",
	"sh_os_read_dir_rel": "os_read_dir",
	"sh_os_read_file_star": "os_read_file",
	"sh_os_read_file_quest": "os_read_file",
	"sh_os_read_file_bracket": "os_read_file",
	"sh_os_read_file_env": "os_read_file",
	"sh_os_read_file_envb": "os_read_file",
	"sh_os_read_file_envhost": "os_read_file",
	"sh_os_read_file_tilde": "os_read_file",
	"sh_os_read_file_rel": "os_read_file",
	"sh_os_open_star": "os_open",
	"sh_os_open_quest": "os_open",
	"sh_os_open_bracket": "os_open",
	"sh_os_open_env": "os_open",
	"sh_os_open_envb": "os_open",
	"sh_os_open_envhost": "os_open",
	"sh_os_open_tilde": "os_open_missing",
	"sh_os_open_rel": "os_open_missing",
	"sh_os_stat_star": "os_stat",
	"sh_os_stat_quest": "os_stat",
	"sh_os_stat_bracket": "os_stat",
	"sh_os_stat_env": "os_stat",
	"sh_os_stat_envb": "os_stat",
	"sh_os_stat_envhost": "os_stat",
	"sh_os_stat_tilde": "os_stat",
	"sh_os_stat_rel": "os_stat",
}

func (o *c12Op) has(f byte) bool { return strings.IndexByte(o.flags, f) >= 0 }

// ---------------------------------------------------------------- the world: sentinels in the real process

const (
	c12EnvKey    = "VERIF_C12_KEY"
	c12EnvNew    = "VERIF_C12_NEW"
	c12RealEnv   = "REAL-ENV-VALUE"
	c12RealStdin = "REAL-STDIN\n"
)

type c12World struct {
	T                      string // temp root; the same absolute paths exist inside every recording OS
	oldWD                  string
	oldOut, oldErr, oldIn  *os.File
	outF, errF, inF        *os.File
	before                 map[string]string
	realPid, realHost, uid string
	realUser               string // name of the user the harness runs as

	mu  sync.Mutex
	log []string // merged call log of all recording OSes, in call order
	gen int      // current case; entries of recording OSes created for earlier cases are dropped
}

func (w *c12World) sym(a string) string {
	switch a {
	case "FA":
		return w.T + "/dir/a.txt"
	case "FB":
		return w.T + "/dir/b.txt"
	case "FM":
		return w.T + "/dir/missing.txt"
	case "FN":
		return w.T + "/dir/new.txt"
	case "D":
		return w.T + "/dir"
	case "S":
		return w.T + "/dir/sub"
	case "ND":
		return w.T + "/dir/newdir"
	case "NDX":
		return w.T + "/dir/newdir/x/y"
	case "K":
		return c12EnvKey
	case "KN":
		return c12EnvNew
	}
	if strings.HasPrefix(a, "=") {
		return a[1:]
	}
	if strings.HasPrefix(a, "MF:") || strings.HasPrefix(a, "MD:") {
		if p, ok := c12MetaArg(w.T, a[1] == 'D', a[3:]); ok {
			return p
		}
	}
	panic("unknown symbolic argument " + a)
}

// c12MetaShapes: shapes of path arguments that a shell would expand. The first six exist, under exactly
// that name, in every recording OS's file system (<T>/meta, see reset) and in no real directory; what a
// shell-like expansion against the REAL process would produce from them does exist for real (<T>/meta/a.txt,
// b.txt, REAL-ONLY.txt, sub; the real variable VERIF_C12_KEY; the real working directory <T>/cwd with
// a.txt, …, sub). "tilde" and "rel" are relative names that exist in no recording OS.
var c12MetaShapes = []string{"star", "quest", "bracket", "env", "envb", "envhost", "tilde", "rel"}

func c12MetaArg(T string, dir bool, shape string) (string, bool) {
	m := T + "/meta/"
	var f, d string
	switch shape {
	case "star":
		f, d = m+"*.txt", m+"s*"
	case "quest":
		f, d = m+"?.txt", m+"su?"
	case "bracket":
		f, d = m+"[ab].txt", m+"[s]ub"
	case "env":
		f, d = m+"$"+c12EnvKey+".txt", m+"$"+c12EnvKey
	case "envb":
		f, d = m+"${"+c12EnvKey+"}.txt", m+"${"+c12EnvKey+"}"
	case "envhost":
		f, d = m+"$OTHER.txt", m+"$OTHER"
	case "tilde":
		f, d = "~/a.txt", "~"
	case "rel":
		f, d = "*.txt", "s*"
	default:
		return "", false
	}
	if dir {
		return d, true
	}
	return f, true
}

func (w *c12World) buildTree() {
	os.RemoveAll(filepath.Join(w.T, "dir"))
	os.MkdirAll(filepath.Join(w.T, "dir", "sub"), 0o755)
	os.MkdirAll(filepath.Join(w.T, "cwd"), 0o755)
	os.WriteFile(filepath.Join(w.T, "dir", "a.txt"), []byte("REAL-FILE-A\nline2\n"), 0o644)
	os.WriteFile(filepath.Join(w.T, "dir", "b.txt"), []byte("REAL-FILE-B\n"), 0o644)
	// what the metacharacter arguments would expand to against the real process (see c12MetaShapes)
	os.MkdirAll(filepath.Join(w.T, "meta", "sub"), 0o755)
	for _, f := range []string{"a.txt", "b.txt", "REAL-ONLY.txt", c12RealEnv + ".txt", ".txt"} {
		os.WriteFile(filepath.Join(w.T, "meta", f), []byte("REAL-FILE-META\n"), 0o644)
	}
	os.MkdirAll(filepath.Join(w.T, "meta", c12RealEnv), 0o755)
	// second part (VirtualOS sessions): the relative paths the sessions use exist, with real content,
	// below both working directories the real process is put into; a second temp dir and two home dirs
	for _, cwd := range []string{"cwd", "cwd2"} {
		for _, d := range []string{"work/data", "data", "in", "sub"} {
			os.MkdirAll(filepath.Join(w.T, cwd, d), 0o755)
		}
		for _, f := range []string{"a.txt", "b.txt", "c.txt", "notes.txt", "work/a.txt", "work/data/a.txt", "data/a.txt", "in/c.txt"} {
			os.WriteFile(filepath.Join(w.T, cwd, f), []byte("REAL-FILE-BELOW-"+cwd+"\n"), 0o644)
		}
	}
	for _, d := range []string{"tmp1", "tmp2", "home1/.cache", "home1/.config", "home2/.cache", "home2/.config"} {
		os.MkdirAll(filepath.Join(w.T, d), 0o755)
	}
}

func c12Snapshot(root string, skip map[string]bool) map[string]string {
	s := map[string]string{}
	filepath.WalkDir(root, func(p string, d fs.DirEntry, err error) error {
		if err != nil {
			return nil
		}
		if skip[p] {
			return nil
		}
		if d.Type()&fs.ModeSymlink != 0 {
			t, _ := os.Readlink(p)
			s[p] = "link:" + t
		} else if d.IsDir() {
			s[p] = "dir"
		} else {
			b, _ := os.ReadFile(p)
			s[p] = "file:" + string(b)
		}
		return nil
	})
	return s
}

func c12Diff(a, b map[string]string) string {
	var out []string
	for k, v := range a {
		if x, ok := b[k]; !ok {
			out = append(out, "removed "+k)
		} else if x != v {
			out = append(out, "changed "+k)
		}
	}
	for k := range b {
		if _, ok := a[k]; !ok {
			out = append(out, "added "+k)
		}
	}
	sort.Strings(out)
	return strings.Join(out, "; ")
}

var c12OuterTmp string

func c12NewWorld() (*c12World, error) {
	T, err := os.MkdirTemp("", "verif-c12-")
	if err != nil {
		return nil, err
	}
	if r, err := filepath.EvalSymlinks(T); err == nil {
		T = r
	}
	w := &c12World{T: T}
	w.buildTree()
	w.oldWD, _ = os.Getwd()
	if err := os.Chdir(filepath.Join(T, "cwd")); err != nil {
		return nil, err
	}
	os.Setenv(c12EnvKey, c12RealEnv)
	os.Unsetenv(c12EnvNew)
	c12OuterTmp = os.Getenv("TMPDIR")
	os.Setenv("TMPDIR", filepath.Join(T, "dir", "sub")) // a real MkdirTemp("") would land inside the watched tree
	w.oldOut, w.oldErr, w.oldIn = os.Stdout, os.Stderr, os.Stdin
	w.outF, _ = os.Create(filepath.Join(T, "real-stdout"))
	w.errF, _ = os.Create(filepath.Join(T, "real-stderr"))
	os.WriteFile(filepath.Join(T, "real-stdin"), []byte(c12RealStdin), 0o644)
	w.inF, _ = os.Open(filepath.Join(T, "real-stdin"))
	os.Stdout, os.Stderr, os.Stdin = w.outF, w.errF, w.inF
	w.realPid = strconv.Itoa(os.Getpid())
	w.realHost, _ = os.Hostname()
	w.uid = strconv.Itoa(os.Getuid())
	if u, err := user.Current(); err == nil {
		w.realUser = u.Username
	} else {
		w.realUser = "nobody"
	}
	w.before = w.snap()
	return w, nil
}

func (w *c12World) snap() map[string]string {
	return c12Snapshot(w.T, map[string]bool{filepath.Join(w.T, "real-stdout"): true, filepath.Join(w.T, "real-stderr"): true})
}

func (w *c12World) close() {
	os.Stdout, os.Stderr, os.Stdin = w.oldOut, w.oldErr, w.oldIn
	w.outF.Close()
	w.errF.Close()
	w.inF.Close()
	os.Chdir(w.oldWD)
	os.Unsetenv(c12EnvKey)
	if c12OuterTmp != "" {
		os.Setenv("TMPDIR", c12OuterTmp) // the driver's scratch directory (everything else is read-only)
	} else {
		os.Unsetenv("TMPDIR")
	}
	os.RemoveAll(w.T)
}

// realEffects reports every way in which the real process differs from its pristine state and
// restores it.
func (w *c12World) realEffects() []string {
	var eff []string
	if v, ok := os.LookupEnv(c12EnvKey); !ok || v != c12RealEnv {
		eff = append(eff, fmt.Sprintf("real environment variable %s changed to %q (set=%v)", c12EnvKey, v, ok))
		os.Setenv(c12EnvKey, c12RealEnv)
	}
	if v, ok := os.LookupEnv(c12EnvNew); ok {
		eff = append(eff, fmt.Sprintf("real environment variable %s was set to %q", c12EnvNew, v))
		os.Unsetenv(c12EnvNew)
	}
	if wd, _ := os.Getwd(); wd != filepath.Join(w.T, "cwd") {
		eff = append(eff, "real working directory changed to "+strings.ReplaceAll(wd, w.T, "<T>"))
		os.Chdir(filepath.Join(w.T, "cwd"))
	}
	if st, err := w.outF.Stat(); err == nil && st.Size() > 0 {
		b, _ := os.ReadFile(w.outF.Name())
		eff = append(eff, fmt.Sprintf("real stdout received %q", string(b)))
		w.outF.Truncate(0)
		w.outF.Seek(0, 0)
	}
	if st, err := w.errF.Stat(); err == nil && st.Size() > 0 {
		b, _ := os.ReadFile(w.errF.Name())
		eff = append(eff, fmt.Sprintf("real stderr received %q", string(b)))
		w.errF.Truncate(0)
		w.errF.Seek(0, 0)
	}
	if pos, err := os.Stdin.Seek(0, io.SeekCurrent); err == nil && pos != 0 {
		eff = append(eff, "real stdin was read")
		os.Stdin.Seek(0, 0)
	}
	after := w.snap()
	if d := c12Diff(w.before, after); d != "" {
		eff = append(eff, "real files changed: "+strings.ReplaceAll(d, w.T, "<T>"))
		w.buildTree()
		for k := range after {
			if _, ok := w.before[k]; !ok {
				os.RemoveAll(k)
			}
		}
		w.before = w.snap()
	}
	return eff
}

// leaks reports real-process values visible in a script result.
func (w *c12World) leaks(result string) []string {
	var l []string
	if strings.Contains(result, "REAL-") {
		l = append(l, "real sentinel content")
	}
	if result == w.realPid {
		l = append(l, "real pid")
	}
	if w.realHost != "" && result == w.realHost {
		l = append(l, "real hostname")
	}
	if strings.Contains(result, w.T+"/cwd") {
		l = append(l, "real working directory")
	}
	return l
}

func (w *c12World) add(gen int, entry string) {
	w.mu.Lock()
	if gen == w.gen {
		w.log = append(w.log, entry)
	}
	w.mu.Unlock()
}

func (w *c12World) nextCase() int {
	w.mu.Lock()
	w.gen++
	w.log = nil
	g := w.gen
	w.mu.Unlock()
	// fresh handles for the code under test (see realEffects: the harness keeps its own)
	if f, err := os.OpenFile(filepath.Join(w.T, "real-stdout"), os.O_WRONLY|os.O_APPEND, 0o644); err == nil {
		os.Stdout = f
	}
	if f, err := os.OpenFile(filepath.Join(w.T, "real-stderr"), os.O_WRONLY|os.O_APPEND, 0o644); err == nil {
		os.Stderr = f
	}
	if f, err := os.Open(filepath.Join(w.T, "real-stdin")); err == nil {
		os.Stdin = f
	}
	return g
}

func (w *c12World) takeLog() []string {
	w.mu.Lock()
	l := w.log
	w.log = nil
	w.mu.Unlock()
	return l
}

func c12Esc(s string) string {
	s = strings.ReplaceAll(s, "\\", "\\\\")
	s = strings.ReplaceAll(s, "\n", "\\n")
	s = strings.ReplaceAll(s, "\t", "\\t")
	return s
}

// ---------------------------------------------------------------- in-memory file system

type c12Node struct {
	dir  bool
	link string
	data []byte
	mode fs.FileMode
}

type c12FS struct {
	mu    sync.Mutex
	nodes map[string]*c12Node
}

func c12Norm(p string) string { return filepath.Clean("/" + p) }

func (m *c12FS) parentOK(p string) bool {
	par := filepath.Dir(p)
	n, ok := m.nodes[par]
	return ok && n.dir
}

func c12PathErr(op, p string, err error) error { return &fs.PathError{Op: op, Path: p, Err: err} }

func (m *c12FS) Create(name string) (ros.File, error) {
	m.mu.Lock()
	defer m.mu.Unlock()
	p := c12Norm(name)
	if !m.parentOK(p) {
		return nil, c12PathErr("create", p, fs.ErrNotExist)
	}
	if n, ok := m.nodes[p]; ok && n.dir {
		return nil, c12PathErr("create", p, errors.New("is a directory"))
	}
	n := &c12Node{mode: 0o644}
	m.nodes[p] = n
	return &c12File{fs: m, n: n, name: filepath.Base(p)}, nil
}
func (m *c12FS) Mkdir(name string, perm ros.FileMode) error {
	m.mu.Lock()
	defer m.mu.Unlock()
	p := c12Norm(name)
	if _, ok := m.nodes[p]; ok {
		return c12PathErr("mkdir", p, fs.ErrExist)
	}
	if !m.parentOK(p) {
		return c12PathErr("mkdir", p, fs.ErrNotExist)
	}
	m.nodes[p] = &c12Node{dir: true, mode: perm | fs.ModeDir}
	return nil
}
func (m *c12FS) MkdirAll(path string, perm ros.FileMode) error {
	m.mu.Lock()
	defer m.mu.Unlock()
	p := c12Norm(path)
	var todo []string
	for q := p; ; q = filepath.Dir(q) {
		if n, ok := m.nodes[q]; ok {
			if !n.dir {
				return c12PathErr("mkdir", q, errors.New("not a directory"))
			}
			break
		}
		todo = append(todo, q)
		if q == "/" {
			break
		}
	}
	for _, q := range todo {
		m.nodes[q] = &c12Node{dir: true, mode: perm | fs.ModeDir}
	}
	return nil
}
func (m *c12FS) Open(name string) (ros.File, error) {
	m.mu.Lock()
	defer m.mu.Unlock()
	p := c12Norm(name)
	n, ok := m.nodes[p]
	if !ok {
		return nil, c12PathErr("open", p, fs.ErrNotExist)
	}
	return &c12File{fs: m, n: n, name: filepath.Base(p)}, nil
}
func (m *c12FS) OpenFile(name string, flag int, perm ros.FileMode) (ros.File, error) {
	if flag&os.O_CREATE != 0 {
		m.mu.Lock()
		_, ok := m.nodes[c12Norm(name)]
		m.mu.Unlock()
		if !ok {
			return m.Create(name)
		}
	}
	return m.Open(name)
}
func (m *c12FS) ReadFile(name string) ([]byte, error) {
	m.mu.Lock()
	defer m.mu.Unlock()
	p := c12Norm(name)
	n, ok := m.nodes[p]
	if !ok {
		return nil, c12PathErr("open", p, fs.ErrNotExist)
	}
	if n.dir {
		return nil, c12PathErr("read", p, errors.New("is a directory"))
	}
	return append([]byte{}, n.data...), nil
}
func (m *c12FS) Remove(name string) error {
	m.mu.Lock()
	defer m.mu.Unlock()
	p := c12Norm(name)
	n, ok := m.nodes[p]
	if !ok {
		return c12PathErr("remove", p, fs.ErrNotExist)
	}
	if n.dir {
		for k := range m.nodes {
			if strings.HasPrefix(k, p+"/") {
				return c12PathErr("remove", p, errors.New("directory not empty"))
			}
		}
	}
	delete(m.nodes, p)
	return nil
}
func (m *c12FS) RemoveAll(path string) error {
	m.mu.Lock()
	defer m.mu.Unlock()
	p := c12Norm(path)
	for k := range m.nodes {
		if k == p || strings.HasPrefix(k, p+"/") {
			delete(m.nodes, k)
		}
	}
	return nil
}
func (m *c12FS) Rename(oldpath, newpath string) error {
	m.mu.Lock()
	defer m.mu.Unlock()
	o, n := c12Norm(oldpath), c12Norm(newpath)
	node, ok := m.nodes[o]
	if !ok {
		return c12PathErr("rename", o, fs.ErrNotExist)
	}
	if !m.parentOK(n) {
		return c12PathErr("rename", n, fs.ErrNotExist)
	}
	delete(m.nodes, o)
	m.nodes[n] = node
	return nil
}
func (m *c12FS) info(p string, n *c12Node) ros.FileInfo {
	mode := n.mode
	if n.link != "" {
		mode |= fs.ModeSymlink
	}
	return ros.NewFileInfo(ros.GenericFileInfoOpts{Name: filepath.Base(p), Size: int64(len(n.data)), Mode: mode, IsDir: n.dir})
}
func (m *c12FS) Stat(name string) (ros.FileInfo, error) {
	m.mu.Lock()
	defer m.mu.Unlock()
	p := c12Norm(name)
	n, ok := m.nodes[p]
	if !ok {
		return nil, c12PathErr("stat", p, fs.ErrNotExist)
	}
	return m.info(p, n), nil
}
func (m *c12FS) Symlink(oldname, newname string) error {
	m.mu.Lock()
	defer m.mu.Unlock()
	n := c12Norm(newname)
	if _, ok := m.nodes[n]; ok {
		return c12PathErr("symlink", n, fs.ErrExist)
	}
	if !m.parentOK(n) {
		return c12PathErr("symlink", n, fs.ErrNotExist)
	}
	m.nodes[n] = &c12Node{link: oldname, mode: 0o777}
	return nil
}
func (m *c12FS) WriteFile(name string, data []byte, perm ros.FileMode) error {
	m.mu.Lock()
	defer m.mu.Unlock()
	p := c12Norm(name)
	if !m.parentOK(p) {
		return c12PathErr("open", p, fs.ErrNotExist)
	}
	if n, ok := m.nodes[p]; ok {
		if n.dir {
			return c12PathErr("open", p, errors.New("is a directory"))
		}
		n.data = append([]byte{}, data...)
		return nil
	}
	m.nodes[p] = &c12Node{data: append([]byte{}, data...), mode: perm}
	return nil
}
func (m *c12FS) children(p string) []string {
	var out []string
	for k := range m.nodes {
		if k != p && filepath.Dir(k) == p {
			out = append(out, k)
		}
	}
	sort.Strings(out)
	return out
}
func (m *c12FS) entry(p string) ros.DirEntry {
	n := m.nodes[p]
	fi := ros.NewFileInfo(ros.GenericFileInfoOpts{Name: filepath.Base(p), Size: int64(len(n.data)), Mode: n.mode, IsDir: n.dir})
	return ros.NewDirEntry(ros.GenericDirEntryOpts{Name: filepath.Base(p), Mode: n.mode, Info: fi})
}
func (m *c12FS) ReadDir(name string) ([]ros.DirEntry, error) {
	m.mu.Lock()
	defer m.mu.Unlock()
	p := c12Norm(name)
	n, ok := m.nodes[p]
	if !ok {
		return nil, c12PathErr("open", p, fs.ErrNotExist)
	}
	if !n.dir {
		return nil, c12PathErr("readdir", p, errors.New("not a directory"))
	}
	var out []ros.DirEntry
	for _, c := range m.children(p) {
		out = append(out, m.entry(c))
	}
	return out, nil
}
func (m *c12FS) WalkDir(root string, fn ros.WalkDirFunc) error {
	m.mu.Lock()
	p := c12Norm(root)
	if _, ok := m.nodes[p]; !ok {
		m.mu.Unlock()
		return c12PathErr("lstat", p, fs.ErrNotExist)
	}
	// snapshot the visit order, then call back without holding the lock
	var order []string
	var rec func(q string)
	rec = func(q string) {
		order = append(order, q)
		if m.nodes[q].dir {
			for _, c := range m.children(q) {
				rec(c)
			}
		}
	}
	rec(p)
	ents := make([]ros.DirEntry, len(order))
	for i, q := range order {
		ents[i] = m.entry(q)
	}
	m.mu.Unlock()
	for i, q := range order {
		if err := fn(q, ents[i], nil); err != nil {
			if err == fs.SkipDir || err == fs.SkipAll {
				return nil
			}
			return err
		}
	}
	return nil
}

type c12File struct {
	fs     *c12FS
	n      *c12Node
	name   string
	pos    int
	closed bool
}

func (f *c12File) Read(p []byte) (int, error) {
	f.fs.mu.Lock()
	defer f.fs.mu.Unlock()
	if f.closed {
		return 0, fs.ErrClosed
	}
	if f.n.dir {
		return 0, errors.New("is a directory")
	}
	if f.pos >= len(f.n.data) {
		return 0, io.EOF
	}
	n := copy(p, f.n.data[f.pos:])
	f.pos += n
	return n, nil
}
func (f *c12File) Write(p []byte) (int, error) {
	f.fs.mu.Lock()
	defer f.fs.mu.Unlock()
	if f.closed {
		return 0, fs.ErrClosed
	}
	d := f.n.data
	if f.pos > len(d) {
		d = append(d, make([]byte, f.pos-len(d))...)
	}
	d = append(d[:f.pos], p...)
	f.n.data = d
	f.pos += len(p)
	return len(p), nil
}
func (f *c12File) Seek(off int64, whence int) (int64, error) {
	f.fs.mu.Lock()
	defer f.fs.mu.Unlock()
	switch whence {
	case io.SeekStart:
		f.pos = int(off)
	case io.SeekCurrent:
		f.pos += int(off)
	case io.SeekEnd:
		f.pos = len(f.n.data) + int(off)
	}
	if f.pos < 0 {
		f.pos = 0
	}
	return int64(f.pos), nil
}
func (f *c12File) Close() error { f.closed = true; return nil }
func (f *c12File) Stat() (fs.FileInfo, error) {
	f.fs.mu.Lock()
	defer f.fs.mu.Unlock()
	return ros.NewFileInfo(ros.GenericFileInfoOpts{Name: f.name, Size: int64(len(f.n.data)), Mode: f.n.mode, IsDir: f.n.dir}), nil
}

// ---------------------------------------------------------------- recording OS

// c12RecOS logs every call of the os.OS interface (and of the files it hands out) and serves it
// from a risor VirtualOS over an in-memory file system.
type c12RecOS struct {
	gen   int
	id    string
	w     *c12World
	inner *ros.VirtualOS
	mem   *c12FS
	exits []int
}

var _ ros.OS = (*c12RecOS)(nil)

func c12NewRecOS(w *c12World, id string, gen int) *c12RecOS {
	o := &c12RecOS{id: id, w: w, gen: gen}
	o.reset()
	return o
}

func (o *c12RecOS) reset() {
	T := o.w.T
	m := &c12FS{nodes: map[string]*c12Node{"/": {dir: true, mode: fs.ModeDir | 0o755}}}
	m.MkdirAll(T+"/dir/sub", 0o755)
	m.MkdirAll(T+"/cwd", 0o755)
	m.WriteFile(T+"/dir/a.txt", []byte("HOST-"+o.id+"-FILE-A\nline2\n"), 0o644)
	m.WriteFile(T+"/dir/b.txt", []byte("HOST-"+o.id+"-FILE-B\n"), 0o644)
	m.MkdirAll(T+"/meta", 0o755)
	for _, sh := range c12MetaShapes[:6] {
		f, _ := c12MetaArg(T, false, sh)
		d, _ := c12MetaArg(T, true, sh)
		m.WriteFile(f, []byte("HOST-"+o.id+"-META-"+sh+"\n"), 0o644)
		m.MkdirAll(d, 0o755)
	}
	o.mem = m
	o.exits = nil
	o.inner = ros.NewVirtualOS(context.Background(),
		ros.WithMounts(map[string]*ros.Mount{"/": {Source: m, Target: "/", Type: "mem"}}),
		ros.WithCwd(T+"/dir"),
		ros.WithEnvironment(map[string]string{c12EnvKey: "HOST-" + o.id + "-ENV", "OTHER": "x"}),
		ros.WithTmp(T+"/dir/sub"), ros.WithPid(424242), ros.WithUid(4242), ros.WithHostname("host-"+o.id),
		ros.WithUserCacheDir("/host/cache"), ros.WithUserConfigDir("/host/config"), ros.WithUserHomeDir("/host/home"),
		ros.WithArgs([]string{"host-" + o.id + "-arg"}),
		ros.WithStdin(ros.NewBufferFile([]byte("HOST-"+o.id+"-STDIN\n"))),
		ros.WithStdout(ros.NewBufferFile(nil)), ros.WithStderr(ros.NewBufferFile(nil)))
}

// settle puts the file system, environment, working directory and streams back into their initial state and
// keeps what was recorded
func (o *c12RecOS) settle() {
	ex := o.exits
	o.reset()
	o.exits = ex
}

func (o *c12RecOS) rec(method string, args ...string) {
	for i := range args {
		args[i] = c12Esc(args[i])
	}
	o.w.add(o.gen, o.id+":"+method+"("+strings.Join(args, ",")+")")
}

type c12RecFile struct {
	ros.File
	o *c12RecOS
}

func (f *c12RecFile) Read(p []byte) (int, error) {
	f.o.w.add(f.o.gen, f.o.id+":F.Read")
	return f.File.Read(p)
}
func (f *c12RecFile) Write(p []byte) (int, error) {
	f.o.rec("F.Write", string(p))
	return f.File.Write(p)
}
func (f *c12RecFile) Close() error { f.o.rec("F.Close"); return f.File.Close() }
func (f *c12RecFile) Stat() (fs.FileInfo, error) {
	f.o.rec("F.Stat")
	return f.File.Stat()
}
func (f *c12RecFile) Seek(off int64, whence int) (int64, error) {
	f.o.rec("F.Seek", strconv.FormatInt(off, 10), strconv.Itoa(whence))
	if s, ok := f.File.(io.Seeker); ok {
		return s.Seek(off, whence)
	}
	return 0, errors.New("not seekable")
}

func (o *c12RecOS) wrap(f ros.File, err error) (ros.File, error) {
	if err != nil || f == nil {
		return nil, err
	}
	return &c12RecFile{File: f, o: o}, nil
}
func c12_itoa(n int) string { return strconv.Itoa(n) }

func (o *c12RecOS) Args() []string         { o.rec("Args"); return o.inner.Args() }
func (o *c12RecOS) Chdir(dir string) error { o.rec("Chdir", dir); return o.inner.Chdir(dir) }
func (o *c12RecOS) Create(name string) (ros.File, error) {
	o.rec("Create", name)
	return o.wrap(o.inner.Create(name))
}
func (o *c12RecOS) Environ() []string { o.rec("Environ"); return o.inner.Environ() }
func (o *c12RecOS) Exit(code int) {
	o.rec("Exit", c12_itoa(code))
	o.exits = append(o.exits, code)
}
func (o *c12RecOS) Getenv(key string) string { o.rec("Getenv", key); return o.inner.Getenv(key) }
func (o *c12RecOS) Getpid() int              { o.rec("Getpid"); return o.inner.Getpid() }
func (o *c12RecOS) Getuid() int              { o.rec("Getuid"); return o.inner.Getuid() }
func (o *c12RecOS) Getwd() (string, error)   { o.rec("Getwd"); return o.inner.Getwd() }
func (o *c12RecOS) Hostname() (string, error) {
	o.rec("Hostname")
	return o.inner.Hostname()
}
func (o *c12RecOS) LookupEnv(key string) (string, bool) {
	o.rec("LookupEnv", key)
	return o.inner.LookupEnv(key)
}
func (o *c12RecOS) Mkdir(name string, perm ros.FileMode) error {
	o.rec("Mkdir", name, c12_itoa(int(perm)))
	return o.inner.Mkdir(name, perm)
}
func (o *c12RecOS) MkdirAll(path string, perm ros.FileMode) error {
	o.rec("MkdirAll", path, c12_itoa(int(perm)))
	return o.inner.MkdirAll(path, perm)
}
func (o *c12RecOS) MkdirTemp(dir, pattern string) (string, error) {
	o.rec("MkdirTemp", dir, pattern)
	return o.inner.MkdirTemp(dir, pattern)
}
func (o *c12RecOS) Open(name string) (ros.File, error) {
	o.rec("Open", name)
	return o.wrap(o.inner.Open(name))
}
func (o *c12RecOS) OpenFile(name string, flag int, perm ros.FileMode) (ros.File, error) {
	o.rec("OpenFile", name, c12_itoa(flag), c12_itoa(int(perm)))
	return o.wrap(o.inner.OpenFile(name, flag, perm))
}
func (o *c12RecOS) ReadFile(name string) ([]byte, error) {
	o.rec("ReadFile", name)
	return o.inner.ReadFile(name)
}
func (o *c12RecOS) Remove(name string) error { o.rec("Remove", name); return o.inner.Remove(name) }
func (o *c12RecOS) RemoveAll(path string) error {
	o.rec("RemoveAll", path)
	return o.inner.RemoveAll(path)
}
func (o *c12RecOS) Rename(a, b string) error { o.rec("Rename", a, b); return o.inner.Rename(a, b) }
func (o *c12RecOS) Setenv(k, v string) error { o.rec("Setenv", k, v); return o.inner.Setenv(k, v) }
func (o *c12RecOS) Stat(name string) (ros.FileInfo, error) {
	o.rec("Stat", name)
	return o.inner.Stat(name)
}
func (o *c12RecOS) Symlink(a, b string) error { o.rec("Symlink", a, b); return o.inner.Symlink(a, b) }
func (o *c12RecOS) TempDir() string           { o.rec("TempDir"); return o.inner.TempDir() }
func (o *c12RecOS) Unsetenv(k string) error   { o.rec("Unsetenv", k); return o.inner.Unsetenv(k) }
func (o *c12RecOS) UserCacheDir() (string, error) {
	o.rec("UserCacheDir")
	return o.inner.UserCacheDir()
}
func (o *c12RecOS) UserConfigDir() (string, error) {
	o.rec("UserConfigDir")
	return o.inner.UserConfigDir()
}
func (o *c12RecOS) UserHomeDir() (string, error) {
	o.rec("UserHomeDir")
	return o.inner.UserHomeDir()
}
func (o *c12RecOS) WriteFile(name string, data []byte, perm ros.FileMode) error {
	o.rec("WriteFile", name, c12_itoa(int(perm)))
	return o.inner.WriteFile(name, data, perm)
}
func (o *c12RecOS) ReadDir(name string) ([]ros.DirEntry, error) {
	o.rec("ReadDir", name)
	return o.inner.ReadDir(name)
}
func (o *c12RecOS) WalkDir(root string, fn ros.WalkDirFunc) error {
	o.rec("WalkDir", root)
	return o.inner.WalkDir(root, fn)
}
func (o *c12RecOS) Stdin() ros.File {
	o.rec("Stdin")
	return &c12RecFile{File: o.inner.Stdin(), o: o}
}
func (o *c12RecOS) Stdout() ros.File {
	o.rec("Stdout")
	return &c12RecFile{File: o.inner.Stdout(), o: o}
}
func (o *c12RecOS) Stderr() ros.File {
	o.rec("Stderr")
	return &c12RecFile{File: o.inner.Stderr(), o: o}
}
func (o *c12RecOS) PathSeparator() rune     { o.rec("PathSeparator"); return '/' }
func (o *c12RecOS) PathListSeparator() rune { o.rec("PathListSeparator"); return ':' }

func (o *c12RecOS) user(name, uid string) ros.User {
	return &ros.UserWrapper{User: &user.User{Uid: uid, Gid: "100", Username: name, Name: "Host " + o.id + " " + name, HomeDir: "/host/home/" + name}}
}
func (o *c12RecOS) CurrentUser() (ros.User, error) {
	o.rec("CurrentUser")
	return o.user("alice", "1000"), nil
}
func (o *c12RecOS) LookupUser(name string) (ros.User, error) {
	o.rec("LookupUser", name)
	if name == "alice" {
		return o.user("alice", "1000"), nil
	}
	return nil, fmt.Errorf("user %s not found", name)
}
func (o *c12RecOS) LookupUid(uid string) (ros.User, error) {
	o.rec("LookupUid", uid)
	if uid == "1000" {
		return o.user("alice", "1000"), nil
	}
	return nil, fmt.Errorf("uid %s not found", uid)
}
func (o *c12RecOS) LookupGroup(name string) (ros.Group, error) {
	o.rec("LookupGroup", name)
	if name == "staff" {
		return &ros.GroupWrapper{Group: &user.Group{Gid: "100", Name: "staff"}}, nil
	}
	return nil, fmt.Errorf("group %s not found", name)
}
func (o *c12RecOS) LookupGid(gid string) (ros.Group, error) {
	o.rec("LookupGid", gid)
	if gid == "100" {
		return &ros.GroupWrapper{Group: &user.Group{Gid: "100", Name: "staff"}}, nil
	}
	return nil, fmt.Errorf("gid %s not found", gid)
}

// ---------------------------------------------------------------- scripts

// in-memory importer: the source of imported modules never touches a file system
type c12Importer struct {
	sources map[string]string
	names   []string
}

func (i *c12Importer) Import(ctx context.Context, name string) (*object.Module, error) {
	src, ok := i.sources[name]
	if !ok {
		return nil, fmt.Errorf("import error: module %q not found", name)
	}
	ast, err := parser.Parse(ctx, src)
	if err != nil {
		return nil, err
	}
	code, err := compiler.Compile(ast, compiler.WithGlobalNames(i.names))
	if err != nil {
		return nil, err
	}
	return object.NewModule(name, code), nil
}

type c12Script struct {
	main    string
	modules map[string]string
}

func c12Quote(s string) string { return strconv.Quote(s) }

// c12Build places the operation's expression at the bottom of the nesting `path`
// (outermost first) and returns the main source and the imported modules.
func c12Build(w *c12World, op *c12Op, path string) c12Script {
	x := op.expr
	for i, a := range op.args {
		x = strings.ReplaceAll(x, "{"+strconv.Itoa(i)+"}", c12Quote(w.sym(a)))
	}
	if op.has('t') {
		x = "try(func() { return " + x + " }, func(e) { return \"ERR:\" + string(e) })"
	}
	mods := map[string]string{}
	var needs []string // modules the current expression refers to
	imports := func() string {
		s := ""
		for _, m := range needs {
			s += "import " + m + "\n"
		}
		return s
	}
	// Only the four gf_* operations refer to the variable `gf`; for them every wrapper re-binds it as a
	// parameter, so no closure ever captures a variable from further than its immediate parent (deeper
	// captures are a separate known defect of the compiler, C02, and would crash here for reasons that
	// have nothing to do with the OS).  All other operations are closed expressions.
	P, A := "", "" // parameter list / argument list of the wrappers
	if op.has('g') {
		P, A = "gf", "gf"
	}
	sep := func(a, b string) string {
		if a == "" {
			return b
		}
		return a + ", " + b
	}
	for i := len(path) - 1; i >= 0; i-- {
		switch path[i] {
		case 'c':
			x = "func(" + P + ") { return " + x + " }(" + A + ")"
		case 'b':
			if op.has('g') {
				x = "[gf].map(func(gf) { return " + x + " })[0]"
			} else {
				x = "[0].map(func(_v) { return " + x + " })[0]"
			}
		case 't': // never generated for gf operations
			x = "try(func() { return " + x + " })"
		case 'd': // never generated for gf operations
			x = "func() { defer func() { " + x + " }(); return 0 }()"
		case 's':
			x = "spawn(" + sep("func("+P+") { return "+x+" }", A) + ").wait()"
		case 'g':
			// an error raised inside the goroutine would end it before the send and leave the receiver waiting for
			// the deadline (it happens when a changed tree lets an operation such as a user lookup reach the real
			// OS, where it fails): the goroutine reports the error through the channel instead (not for the gf
			// operations, whose wrappers must all take gf as a parameter)
			y := x
			if !op.has('g') {
				y = "try(func() { return " + x + " }, func(e) { return \"ERR:\" + string(e) })"
			}
			x = "func(" + P + ") { ch := chan(1); go func(" + sep(P, "ch") + ") { r := " + y + "; ch <- r }(" + sep(A, "ch") + "); return <-ch }(" + A + ")"
		case 'm':
			x = "func(" + P + ") { return " + x + " }.spawn(" + A + ").wait()"
		case 'k':
			x = "clonecall(" + sep("func("+P+") { return "+x+" }", A) + ")"
		case 'i':
			name := fmt.Sprintf("m%d", len(mods))
			mods[name] = imports() + "func f(" + P + ") { return " + x + " }\n"
			x = name + ".f(" + A + ")"
			needs = []string{name}
		case 'I':
			name := fmt.Sprintf("m%d", len(mods))
			mods[name] = imports() + "r := " + x + "\n"
			x = name + ".r"
			needs = []string{name}
		}
	}
	main := imports()
	if op.has('g') {
		main += "gf := os.open(" + c12Quote(w.sym("FA")) + ")\n"
	} else {
		main += "gf := nil\n"
	}
	// register(entry): a host builtin that keeps the clone-call function of the context it is called with
	// together with the function, so that the host can fire the callback later (event F)
	// mark(): a host builtin that does something only inside risor.Call (event L), where the top-level code and
	// entry() run within one host call: it puts the recording OSes' file systems back into their initial state,
	// as the harness does between any two executing events, and separates the two parts of the call log
	main += "func entry() { mark(); return " + x + " }\nregister(entry)\n" + x + "\n"
	return c12Script{main: main, modules: mods}
}

// ---------------------------------------------------------------- cases and their execution

type c12Case struct {
	Events []string `json:"events"` // N:<o> R:<c> C:<c> K U O:<o>:<c> E:<o>:<c> L:<o>:<c> F:<c>
	Path   string   `json:"path"`
	Op     string   `json:"op"`
}

func (c c12Case) key() string {
	p := c.Path
	if p == "" {
		p = "-"
	}
	return "events=" + strings.Join(c.Events, ",") + " path=" + p + " op=" + c.Op
}

type c12EvResult struct {
	Log     []string `json:"log"`
	Result  string   `json:"result"`
	Err     string   `json:"err"`
	Effects []string `json:"effects"`
	Leaks   []string `json:"leaks"`
}

func c12OpByName(n string) *c12Op {
	for i := range c12Ops {
		if c12Ops[i].name == n {
			return &c12Ops[i]
		}
	}
	return nil
}

// collapse runs of F.Read on the same OS into one F.Read*
func c12Canon(log []string, T string) []string {
	var out []string
	for _, l := range log {
		l = strings.ReplaceAll(l, T, "<T>")
		if strings.HasSuffix(l, ":F.Read") {
			l += "*"
			if len(out) > 0 && out[len(out)-1] == l {
				continue
			}
		}
		out = append(out, l)
	}
	return out
}

// separator between the two parts (top-level code, entry()) of the call log of a risor.Call event
const c12LogSep = "--"

func c12DropSep(log []string) []string {
	out := log[:0]
	for _, l := range log {
		if l != c12LogSep {
			out = append(out, l)
		}
	}
	return out
}

// c12RunCase executes the history on the real code and returns one result per executing event.
func c12RunCase(w *c12World, cs c12Case) []c12EvResult {
	res := c12RunCaseD(w, cs, 10*time.Second)
	// Timing is never a verdict: the deadline only bounds the wait.  A case that ran into it (a stalled
	// scheduler on a loaded machine) is run once more with a much longer bound before anything is said.
	for _, r := range res {
		if strings.Contains(r.Err, "deadline exceeded") {
			c12Retries++
			return c12RunCaseD(w, cs, 90*time.Second)
		}
	}
	return res
}

var c12Retries int

func c12RunCaseD(w *c12World, cs c12Case, deadline time.Duration) (results []c12EvResult) {
	op := c12OpByName(cs.Op)
	script := c12Build(w, op, cs.Path)
	gen := w.nextCase()
	oses := map[string]*c12RecOS{}
	getOS := func(id string) *c12RecOS {
		if id == "-" {
			return nil
		}
		if o, ok := oses[id]; ok {
			return o
		}
		o := c12NewRecOS(w, id, gen)
		oses[id] = o
		return o
	}
	clonecall := object.NewBuiltin("clonecall", func(ctx context.Context, args ...object.Object) object.Object {
		fn, ok := args[0].(*object.Function)
		if !ok {
			return object.Errorf("clonecall: expected a function")
		}
		call, ok := object.GetCloneCallFunc(ctx)
		if !ok {
			return object.Errorf("clonecall: no clone-call function in the context")
		}
		res, err := call(ctx, fn, args[1:])
		if err != nil {
			return object.NewError(err)
		}
		return res
	})
	// the host keeps, per machine, the clone-call function handed to its builtin during the machine's
	// latest top-level run, and the script function to call back
	type c12Reg struct {
		call object.CallFunc
		fn   *object.Function
	}
	regs := map[*vm.VirtualMachine]c12Reg{}
	var running *vm.VirtualMachine
	register := object.NewBuiltin("register", func(ctx context.Context, args ...object.Object) object.Object {
		fn, ok := args[0].(*object.Function)
		if !ok {
			return object.Errorf("register: expected a function")
		}
		if call, ok := object.GetCloneCallFunc(ctx); ok && running != nil {
			regs[running] = c12Reg{call, fn}
		}
		return object.Nil
	})
	inAPICall := false
	mark := object.NewBuiltin("mark", func(ctx context.Context, args ...object.Object) object.Object {
		if inAPICall {
			for _, o := range oses {
				o.settle()
			}
			w.add(gen, c12LogSep)
		}
		return object.Nil
	})
	baseOpts := func(osID string) []risor.Option {
		opts := []risor.Option{risor.WithConcurrency(), risor.WithGlobal("clonecall", clonecall), risor.WithGlobal("register", register), risor.WithGlobal("mark", mark)}
		if o := getOS(osID); o != nil {
			opts = append(opts, risor.WithOS(o))
		}
		return opts
	}
	names := risor.NewConfig(baseOpts("-")...).GlobalNames()
	imp := &c12Importer{sources: script.modules, names: names}

	bg, cancelAll := context.WithTimeout(context.Background(), deadline)
	defer cancelAll()
	mkctx := func(id string) context.Context {
		ctx := bg
		if o := getOS(id); o != nil {
			ctx = ros.WithOS(ctx, o)
		}
		return ctx
	}
	var mainCode *compiler.Code
	compileMain := func() error {
		cfg := risor.NewConfig(append(baseOpts("-"), risor.WithImporter(imp))...)
		ast, err := parser.Parse(bg, script.main)
		if err != nil {
			return err
		}
		mainCode, err = compiler.Compile(ast, cfg.CompilerOpts()...)
		return err
	}
	if err := compileMain(); err != nil {
		return []c12EvResult{{Err: "compile: " + err.Error() + "\n" + script.main}}
	}
	var pool []*vm.VirtualMachine
	cur := 0
	// all machines of a history are configured from one risor.Config (one globals map, hence one `os`
	// module object); an evaluation through risor's API on an existing machine passes the same globals
	var sharedGlobals map[string]any
	apiOpts := func(m *vm.VirtualMachine, osID string, minimal bool) []risor.Option {
		opts := []risor.Option{risor.WithVM(m), risor.WithoutDefaultGlobals()}
		if !minimal {
			opts = append(opts, risor.WithGlobals(sharedGlobals), risor.WithConcurrency(), risor.WithImporter(imp))
		}
		if o := getOS(osID); o != nil {
			opts = append(opts, risor.WithOS(o))
		}
		return opts
	}
	finish := func(res object.Object, err error) {
		r := c12EvResult{}
		if err != nil {
			r.Err = err.Error()
		}
		if res != nil {
			r.Result = res.Inspect()
			if s, ok := res.(*object.String); ok {
				r.Result = s.Value()
			}
		}
		r.Log = c12DropSep(c12Canon(w.takeLog(), w.T))
		r.Effects = w.realEffects()
		r.Leaks = w.leaks(r.Result)
		for _, l := range r.Log {
			if strings.Contains(l, "REAL-") {
				r.Leaks = append(r.Leaks, "real sentinel content passed to the host OS in "+l)
				break
			}
		}
		for _, o := range oses {
			o.reset()
		}
		results = append(results, r)
	}
	protect := func(f func() (object.Object, error)) (res object.Object, err error) {
		defer func() {
			if r := recover(); r != nil {
				err = fmt.Errorf("panic: %v", r)
			}
		}()
		return f()
	}
	for evIdx, ev := range cs.Events {
		f := strings.Split(ev, ":")
		if len(pool) > 0 {
			running = pool[cur]
		}
		switch f[0] {
		case "N":
			cfg := risor.NewConfig(append(baseOpts(f[1]), risor.WithImporter(imp))...)
			sharedGlobals = cfg.Globals()
			pool = []*vm.VirtualMachine{vm.New(mainCode, cfg.VMOpts()...)}
			cur = 0
		case "E":
			// risor.EvalCode / risor.Eval on the existing machine; the form varies with the position of the event:
			// precompiled code with the full option set, precompiled code with nothing but WithVM (+ WithOS), source text
			m := pool[cur]
			form := (evIdx + len(cs.Path)) % 3
			for _, later := range cs.Events[evIdx+1:] {
				// vm.Clone() activates the code the machine was created with (vm.main), not the code of its latest
				// RunCode: a clone made after an evaluation of freshly compiled source has no `entry` — a matter of
				// the VM's life cycle, not of the OS; such histories use the precompiled code
				if later == "K" && form == 2 {
					form = 0
				}
			}
			finish(protect(func() (object.Object, error) {
				switch form {
				case 0:
					return risor.EvalCode(mkctx(f[2]), mainCode, apiOpts(m, f[1], false)...)
				case 1:
					return risor.EvalCode(mkctx(f[2]), mainCode, apiOpts(m, f[1], true)...)
				default:
					return risor.Eval(mkctx(f[2]), script.main, apiOpts(m, f[1], false)...)
				}
			}))
		case "L":
			m := pool[cur]
			finish(protect(func() (object.Object, error) {
				inAPICall = true
				defer func() { inAPICall = false }()
				return risor.Call(mkctx(f[2]), mainCode, "entry", nil, apiOpts(m, f[1], (evIdx+len(cs.Path))%2 == 1)...)
			}))
		case "F":
			// the host fires the kept callback with a context of its own: derived from the harness's background
			// context (not from any evaluation context), carrying an OS or not
			reg, ok := regs[pool[cur]]
			if !ok {
				results = append(results, c12EvResult{Err: "no callback registered for this machine (harness defect)"})
				continue
			}
			finish(protect(func() (object.Object, error) {
				return reg.call(mkctx(f[1]), reg.fn, nil)
			}))
		case "R":
			m := pool[cur]
			finish(protect(func() (object.Object, error) {
				if err := m.Run(mkctx(f[1])); err != nil {
					return nil, err
				}
				tos, _ := m.TOS()
				return tos, nil
			}))
		case "O":
			m := pool[cur]
			finish(protect(func() (object.Object, error) {
				if err := m.RunCode(mkctx(f[2]), mainCode, vm.WithOS(getOS(f[1]))); err != nil {
					return nil, err
				}
				tos, _ := m.TOS()
				return tos, nil
			}))
		case "C":
			m := pool[cur]
			finish(protect(func() (object.Object, error) {
				obj, err := m.Get("entry")
				if err != nil {
					return nil, err
				}
				fn, ok := obj.(*object.Function)
				if !ok {
					return nil, fmt.Errorf("entry is %T", obj)
				}
				return m.Call(mkctx(f[1]), fn, nil)
			}))
		case "K":
			c, err := pool[cur].Clone()
			if err != nil {
				results = append(results, c12EvResult{Err: "clone: " + err.Error()})
				return
			}
			pool = append(pool, c)
			cur = len(pool) - 1
		case "U":
			cur = 0
		}
	}
	return results
}

// ---------------------------------------------------------------- child process (exit operations)

// harness C12-child <cases.json> <out.jsonl>: runs each case and appends one JSON line per case.
func c12Child(args []string) {
	if len(args) != 2 {
		os.Exit(2)
	}
	b, err := os.ReadFile(args[0])
	if err != nil {
		os.Exit(2)
	}
	var cases []c12Case
	if err := json.Unmarshal(b, &cases); err != nil {
		os.Exit(2)
	}
	out, err := os.OpenFile(args[1], os.O_CREATE|os.O_WRONLY|os.O_APPEND, 0o644)
	if err != nil {
		os.Exit(2)
	}
	w, err := c12NewWorld()
	if err != nil {
		os.Exit(2)
	}
	for i, cs := range cases {
		// announce the case first: if the process dies inside it the parent knows which one it was
		fmt.Fprintf(out, "{\"start\":%d}\n", i)
		res := c12RunCase(w, cs)
		for j := range res {
			for k := range res[j].Log {
				res[j].Log[k] = strings.ReplaceAll(res[j].Log[k], w.T, "<T>")
			}
		}
		line, _ := json.Marshal(map[string]any{"done": i, "results": res})
		out.Write(append(line, '\n'))
	}
	out.Close()
	w.close()
	os.Exit(0)
}

// ---------------------------------------------------------------- generation

var c12PathLetters = []byte("cbtdsgmkiI")

// c12FixPath: wrong argument counts/types and os.exit(3)/os.exit(err) end in a fatal evaluation error that
// `try` does not catch (observed on the real code); inside `go func(){ ...; ch <- r }()` the send never
// happens and the receiver would wait for the deadline, so these operations use spawn().wait() instead.
func (o *c12Op) fatal() bool {
	return strings.HasSuffix(o.name, "_bad") || (o.has('x') && o.has('t'))
}

func c12FixPath(op *c12Op, p string) string {
	if op.fatal() {
		return strings.ReplaceAll(p, "g", "s")
	}
	return p
}

func c12GenPath(r *RNG, op *c12Op, multiExec bool) string {
	depth := 0
	switch x := r.Intn(100); {
	case x < 12:
		depth = 0
	case x < 40:
		depth = 1
	case x < 70:
		depth = 2
	case x < 90:
		depth = 3
	default:
		depth = 4 + r.Intn(2)
	}
	var p []byte
	// 'I' (module body, executed once by the import statement) only as an outermost prefix, and only
	// when the history executes the script once and the operation does not need the top-level `gf`
	allowI := !multiExec && !op.has('g')
	for len(p) < depth {
		l := c12PathLetters[r.Intn(len(c12PathLetters))]
		if op.has('g') && (l == 't' || l == 'd') {
			continue
		}
		if l == 'I' {
			onlyI := true
			for _, q := range p {
				if q != 'I' {
					onlyI = false
				}
			}
			if !allowI || !onlyI {
				continue
			}
		}
		p = append(p, l)
	}
	return string(p)
}

// c12Hist builds well-formed histories: the root VM runs first (Call needs `entry`), and `Run` is used at
// most once per VM and never after RunCode: a second vm.Run resumes at the saved instruction pointer (the
// REPL behaviour) and executes nothing, which is a VM-lifecycle matter outside this property.
type c12Hist struct {
	evs []string
	ran []bool // per VM of the pool: has executed top-level code (Run or RunCode)
	cur int
}

func (h *c12Hist) start(vmOS, ctxOS string) {
	h.evs = []string{"N:" + vmOS, "R:" + ctxOS}
	h.ran = []bool{true}
	h.cur = 0
}
func (h *c12Hist) clone() {
	h.evs = append(h.evs, "K")
	h.ran = append(h.ran, false)
	h.cur = len(h.ran) - 1
}
func (h *c12Hist) root()               { h.evs = append(h.evs, "U"); h.cur = 0 }
func (h *c12Hist) call(c string)       { h.evs = append(h.evs, "C:"+c) }
func (h *c12Hist) runCode(o, c string) { h.evs = append(h.evs, "O:"+o+":"+c); h.ran[h.cur] = true }
func (h *c12Hist) eval(o, c string)    { h.evs = append(h.evs, "E:"+o+":"+c); h.ran[h.cur] = true }
func (h *c12Hist) apiCall(o, c string) { h.evs = append(h.evs, "L:"+o+":"+c); h.ran[h.cur] = true }

// a callback can only be fired on a machine whose top-level code has run (it registers the callback)
func (h *c12Hist) callback(c string) bool {
	if !h.ran[h.cur] {
		return false
	}
	h.evs = append(h.evs, "F:"+c)
	return true
}
func (h *c12Hist) run(c string) bool {
	if h.ran[h.cur] {
		return false
	}
	h.evs = append(h.evs, "R:"+c)
	h.ran[h.cur] = true
	return true
}

func c12GenEvents(r *RNG, supplied bool) []string {
	ids := []string{"A", "B", "C"}
	pickOS := func() string { return ids[r.Intn(len(ids))] }
	vmOS := "-"
	if supplied && r.Intn(3) != 1 {
		vmOS = pickOS()
	}
	ctxOS := func() string {
		if !supplied {
			return "-"
		}
		// a context OS is required when the root VM has none and the case must be supplied throughout
		if vmOS == "-" || r.Chance(50) {
			return pickOS()
		}
		return "-"
	}
	var h c12Hist
	h.start(vmOS, ctxOS())
	n := 0
	switch x := r.Intn(100); {
	case x < 35:
		n = 0
	case x < 60:
		n = 1
	case x < 80:
		n = 2
	default:
		n = 3 + r.Intn(4)
	}
	// the OS named by an API evaluation: when the case is supplied throughout the machine either has an OS
	// already (vmOS given: every clone inherits one) or the context carries one, so naming none is allowed
	optOS := func() string {
		if supplied && r.Chance(45) {
			return pickOS()
		}
		return "-"
	}
	for i := 0; i < n; i++ {
		switch x := r.Intn(100); {
		case x < 26:
			h.clone()
			if r.Chance(70) {
				h.call(ctxOS())
			}
		case x < 42:
			h.call(ctxOS())
		case x < 50:
			if !h.run(ctxOS()) {
				h.call(ctxOS())
			}
		case x < 58:
			h.root()
		case x < 68:
			h.eval(optOS(), ctxOS())
		case x < 74:
			h.apiCall(optOS(), ctxOS())
		case x < 88:
			if !h.callback(ctxOS()) {
				h.call(ctxOS())
			}
		default:
			if supplied {
				h.runCode(pickOS(), ctxOS())
			} else {
				h.call("-")
			}
		}
	}
	return h.evs
}

// c12GenMixed: every VM creation and every run independently with or without an OS
func c12GenMixed(r *RNG) []string {
	ids := []string{"-", "-", "A", "B"}
	pick := func() string { return ids[r.Intn(len(ids))] }
	var h c12Hist
	h.start(pick(), pick())
	for i, n := 0, 1+r.Intn(4); i < n; i++ {
		switch r.Intn(8) {
		case 0:
			h.clone()
			h.call(pick())
		case 1:
			h.call(pick())
		case 2:
			if !h.run(pick()) {
				h.call(pick())
			}
		case 3:
			h.root()
		case 4:
			h.eval(pick(), pick())
		case 5:
			h.apiCall(pick(), pick())
		case 6:
			if !h.callback(pick()) {
				h.call(pick())
			}
		default:
			h.runCode([]string{"A", "B"}[r.Intn(2)], pick())
		}
	}
	return h.evs
}

func c12TopRuns(evs []string) int {
	n := 0
	for _, e := range evs {
		if e[0] == 'R' || e[0] == 'O' || e[0] == 'E' || e[0] == 'L' {
			n++
		}
	}
	return n
}

// c12OneTopRun turns every top-level run after the first into a Call of entry()
func c12OneTopRun(evs []string) []string {
	out := make([]string, 0, len(evs))
	seen := false
	for _, e := range evs {
		if e[0] == 'R' || e[0] == 'O' || e[0] == 'E' || e[0] == 'L' {
			if seen {
				f := strings.Split(e, ":")
				e = "C:" + f[len(f)-1]
			}
			seen = true
		}
		out = append(out, e)
	}
	return out
}

// c12Normalize makes a history executable for the operation: risor.Call (L) runs the top-level code and then
// entry(), so an operation that ends the top-level code in a fatal error never reaches entry() — such
// operations are evaluated with risor.EvalCode (E) instead; a callback (F) needs a machine whose top-level
// code has run (it registers the callback), otherwise the host calls entry() directly (C).
func c12Normalize(op *c12Op, evs []string) []string {
	out := make([]string, 0, len(evs))
	var ran []bool
	cur := 0
	for _, e := range evs {
		switch e[0] {
		case 'N':
			ran, cur = []bool{false}, 0
		case 'K':
			ran = append(ran, false)
			cur = len(ran) - 1
		case 'U':
			cur = 0
		case 'L':
			if op.fatal() {
				e = "E" + e[1:]
			}
			ran[cur] = true
		case 'R', 'O', 'E':
			ran[cur] = true
		case 'F':
			if !ran[cur] {
				e = "C" + e[1:]
			}
		}
		out = append(out, e)
	}
	return out
}

func c12ExecCount(evs []string) int {
	n := 0
	for _, e := range evs {
		if e[0] == 'R' || e[0] == 'C' || e[0] == 'O' || e[0] == 'E' || e[0] == 'F' {
			n++
		}
		if e[0] == 'L' { // risor.Call: the top-level code, then entry()
			n += 2
		}
	}
	return n
}

// ---------------------------------------------------------------- the check

type c12Expect struct {
	trace  []string
	acc    string
	gfOK   bool
	specOK bool
	stale  bool // guard of the known finding C12-std-stream-attr-cached
}

func c12ParseReply(reply string) ([]c12Expect, error) {
	if reply == "-" {
		return nil, nil
	}
	if strings.HasPrefix(reply, "error") {
		return nil, errors.New(reply)
	}
	var out []c12Expect
	for _, f := range strings.Split(reply, "\t") {
		p := strings.Split(f, "#")
		if len(p) != 5 {
			return nil, fmt.Errorf("malformed reply field %q", f)
		}
		e := c12Expect{acc: p[1], gfOK: p[2] == "true", specOK: p[3] == "true", stale: p[4] == "true"}
		if p[0] != "-" {
			e.trace = strings.Split(p[0], "|")
		}
		if e.acc == "-" {
			e.acc = ""
		}
		out = append(out, e)
	}
	return out, nil
}

// instantiate the model's symbolic arguments with the case's concrete ones
func c12Inst(w *c12World, op *c12Op, entry string) string {
	for i := len(op.args) - 1; i >= 0; i-- {
		entry = strings.ReplaceAll(entry, "$"+strconv.Itoa(i), c12Esc(w.sym(op.args[i])))
	}
	entry = strings.ReplaceAll(entry, "$gf", w.sym("FA"))
	entry = strings.ReplaceAll(entry, "@wd", w.T+"/dir")
	return strings.ReplaceAll(entry, w.T, "<T>")
}

func c12Judge(e *Env, w *c12World, cs c12Case, exp []c12Expect, res []c12EvResult, killedAt int) {
	op := c12OpByName(cs.Op)
	key := cs.key()
	nontrivial := false
	for _, x := range exp {
		if len(x.trace) > 0 {
			nontrivial = true
		}
	}
	e.R.Case(key, nontrivial)
	e.R.H("op", cs.Op)
	if op.has('v') {
		for _, a := range op.args {
			if strings.HasPrefix(a, "MF:") || strings.HasPrefix(a, "MD:") {
				e.R.H("metachar_argument", map[string]string{"star": "wildcard *", "quest": "wildcard ?", "bracket": "wildcard [..]", "env": "$NAME set in the real process and in the host OS",
					"envb": "${NAME}", "envhost": "$NAME set only in the host OS", "tilde": "leading ~ (relative, not in the host FS)", "rel": "relative wildcard (not in the host FS)"}[a[3:]]+
					map[bool]string{true: ", directory", false: ", file"}[a[1] == 'D'])
			}
		}
	} else {
		e.R.H("metachar_argument", "none")
	}
	e.R.H("go_function", op.gofn)
	e.R.H("path_depth", strconv.Itoa(len(cs.Path)))
	for i := 0; i < len(cs.Path); i++ {
		e.R.H("context_kind", map[byte]string{'c': "closure call", 'b': "builtin callback (list.map)", 't': "try callback", 'd': "deferred call",
			's': "spawn()", 'g': "go statement", 'm': "func.spawn()", 'k': "clone-call (host callback)", 'i': "imported module function", 'I': "imported module body"}[cs.Path[i]])
	}
	if cs.Path == "" {
		e.R.H("context_kind", "top level")
	}
	e.R.H("history_exec_events", strconv.Itoa(c12ExecCount(cs.Events)))
	for _, ev := range cs.Events {
		f := strings.Split(ev, ":")
		switch f[0] {
		case "N":
			e.R.H("event", "New "+map[bool]string{true: "with WithOS", false: "without OS"}[f[1] != "-"])
		case "R", "C":
			e.R.H("event", map[string]string{"R": "Run", "C": "Call"}[f[0]]+" "+map[bool]string{true: "ctx with OS", false: "bare ctx"}[f[1] != "-"])
		case "K":
			e.R.H("event", "Clone")
		case "U":
			e.R.H("event", "back to root VM")
		case "O":
			e.R.H("event", "RunCode with WithOS")
		case "E", "L":
			e.R.H("event", map[string]string{"E": "risor.EvalCode/Eval + WithVM", "L": "risor.Call + WithVM"}[f[0]]+" "+
				map[bool]string{true: "with WithOS", false: "without WithOS"}[f[1] != "-"]+", "+map[bool]string{true: "ctx with OS", false: "bare ctx"}[f[2] != "-"])
		case "F":
			e.R.H("event", "host fires kept callback (clone-call function), own ctx "+map[bool]string{true: "with OS", false: "bare"}[f[1] != "-"])
		}
	}
	if killedAt >= 0 {
		e.R.Spec(key, "the harness child process died while running this case: the real os.Exit (or a crash) was reached", "")
		e.R.Mismatch(key, "process died", "model: Exit is served by the host OS", "child process")
		return
	}
	if len(res) == 1 && strings.HasPrefix(res[0].Err, "compile: ") {
		e.R.Mismatch(key, res[0].Err, "-", "generated script does not compile (harness defect)")
		return
	}
	if len(res) != len(exp) {
		e.R.Mismatch(key, fmt.Sprintf("%d executing events", len(res)), fmt.Sprintf("%d", len(exp)), "event count")
		return
	}
	for i := range res {
		r, x := res[i], exp[i]
		evKey := fmt.Sprintf("%s [exec event %d]", key, i+1)
		// ---- Impl correspondence: the recording equals the model's trace (real-OS entries are not recordable)
		var want []string
		modelReal := false
		for _, t := range x.trace {
			if strings.HasPrefix(t, "R:") || strings.HasPrefix(t, "!") {
				modelReal = true
				continue
			}
			want = append(want, c12Inst(w, op, t))
		}
		got := strings.Join(r.Log, " | ")
		agrees := got == strings.Join(want, " | ")
		if !agrees {
			e.R.Mismatch(evKey, got, strings.Join(want, " | "), "call log of the recording OSes vs Impl model trace (result="+c12_trunc(r.Result, 60)+" err="+c12_trunc(r.Err, 80)+")")
		}
		realSeen := len(r.Effects) > 0 || len(r.Leaks) > 0
		if !modelReal && realSeen {
			agrees = false
			e.R.Mismatch(evKey, "real OS reached: "+strings.Join(append(r.Effects, r.Leaks...), "; "), "model: no call on the real OS", "real-OS detectors vs Impl model")
		}
		if modelReal && !realSeen && !strings.Contains(cs.Path, "d") && (cs.Op == "os_getenv" || cs.Op == "getenv" || cs.Op == "os_read_file" || cs.Op == "cat1" || cs.Op == "os_getwd" || cs.Op == "os_getpid" || cs.Op == "fp_abs_rel") {
			e.R.Mismatch(evKey, "no real value visible in result "+c12_trunc(r.Result, 60), "model: served by the real OS", "real-OS detectors vs Impl model (detector self-check)")
		}
		if modelReal {
			e.R.H("resolved_os", "real (nothing supplied)")
		} else if len(x.trace) > 0 {
			e.R.H("resolved_os", "host-supplied")
		} else {
			e.R.H("resolved_os", "no OS call")
		}
		if r.Err != "" && op.fatal() && !strings.Contains(r.Err, "panic") && !strings.Contains(r.Err, "deadline") {
			e.R.H("outcome", "fatal script error (expected: bad arguments / non-zero exit)")
		} else if r.Err != "" {
			e.R.H("outcome", "script error")
			if !strings.Contains(r.Err, "panic") {
				e.R.Mismatch(evKey, "script failed: "+c12_trunc(r.Err, 200), "ok", "the generated script must evaluate (harness or code defect)")
			}
		} else {
			e.R.H("outcome", "ok")
		}
		if strings.Contains(r.Err, "panic") {
			e.R.Mismatch(evKey, c12_trunc(r.Err, 200), "no panic", "panic inside risor")
		}
		// ---- Spec on the real results
		if x.acc == "" || !x.gfOK {
			e.R.H("spec", "not applicable (no OS supplied for this run)")
			continue
		}
		e.R.H("spec", "applicable")
		var bad []string
		if realSeen {
			bad = append(bad, "the real operating system was reached: "+strings.Join(append(r.Effects, r.Leaks...), "; "))
		}
		for _, l := range r.Log {
			id := l[:strings.Index(l, ":")]
			isGFFile := op.has('g') && strings.HasPrefix(l[len(id)+1:], "F.")
			if !strings.Contains(x.acc, id) && !isGFFile {
				bad = append(bad, "call "+l+" landed on an OS that was not supplied for this run (supplied: "+x.acc+")")
			}
		}
		// completeness: every call the operation needs is in the recording
		need := map[string]int{}
		for _, t := range c12FreshTrace(op) {
			if t == "Stdin()" || t == "Stdout()" || t == "Stderr()" {
				continue // fetching the stream object; the reads/writes on it are what must be served
			}
			need[c12Inst(w, op, t)]++
		}
		for _, t := range []string(nil) {
			t = strings.TrimPrefix(t, "R:")
			if j := strings.Index(t, ":"); j >= 0 && j <= 1 {
				t = t[j+1:]
			}
			need[c12Inst(w, op, t)]++
		}
		for _, l := range r.Log {
			need[l[strings.Index(l, ":")+1:]]--
		}
		for _, k := range sortedKeys(need) {
			if need[k] > 0 {
				bad = append(bad, "operation "+k+" was not served by any recording OS")
			}
		}
		// a metacharacter argument must reach the OS verbatim: the hosts' OSes are asked for nothing but what the
		// operation needs (as often as this event executes it), whichever of them is asked
		if op.has('v') {
			allowed := map[string]int{}
			for _, t := range want {
				allowed[t[strings.Index(t, ":")+1:]]++
			}
			for _, l := range r.Log {
				k := l[strings.Index(l, ":")+1:]
				if allowed[k] == 0 {
					bad = append(bad, "the host OS was asked for "+k+", which the script did not pass (its path argument must reach the OS verbatim)")
				} else {
					allowed[k]--
				}
			}
		}
		// the recording must contain the calls the operation needs *on a supplied OS*; a stream attribute
		// served from the module object's cache shows as a missing Stdin()/Stdout()/Stderr() call
		if len(bad) > 0 {
			finding := ""
			// attribution (AGENT_GUIDE): the case satisfies the finding's guard, the real code agrees with
			// the Impl model on it, and the Impl model itself violates the Spec there
			if x.stale && agrees && !x.specOK {
				finding = "C12-std-stream-attr-cached"
			}
			e.R.Spec(evKey, strings.Join(bad, "; ")+" [result="+c12_trunc(r.Result, 60)+"]", finding)
		} else if !x.specOK {
			e.R.Mismatch(evKey, "real results satisfy the Spec", "Impl model trace violates the Spec", "Spec on Go results vs Spec on the model trace")
		}
	}
}

// c12FreshCalls: the calls an operation needs when nothing is cached, as the Lean model lists them for a
// single top-level run on a fresh VM (filled from the oracle at start-up); this is the Spec's notion of
// "every effect must be in the recording".
var c12Fresh = map[string][]string{}

func c12FreshTrace(op *c12Op) []string { return c12Fresh[op.name] }

func c12_trunc(s string, n int) string {
	if len(s) > n {
		return s[:n] + "…"
	}
	return s
}

func c12_runC12(e *Env) {
	e.R.Rule = "a case is (host history, nesting path, operation): the history creates a VM with or without risor.WithOS, then runs/clones/calls/" +
		"RunCodes it with or without an OS in the context, re-enters it through risor.EvalCode/Eval/Call + risor.WithVM with or without risor.WithOS " +
		"(three forms: precompiled code with all options, with WithVM only, source text), and fires the script callback that a host builtin kept together " +
		"with the clone-call function of the machine's latest top-level run, with a context of the host's own (bare or carrying an OS); the path nests closure call, list.map callback, try, defer, spawn(), go, f.spawn(), " +
		"clone-call, imported-module function and imported-module body to depth 0-5 around one of the operations (every exported function of the " +
		"os, filepath and fmt modules, the shell-style builtins, print/printf, every file method, with argument shapes incl. error paths); " +
		"the path-taking builtins cd/ls/cat/cp/open and os.chdir/read_dir/read_file/open/stat also with arguments made of shell metacharacters (wildcards *, ?, [..]; $NAME and ${NAME} " +
		"of a variable set in the real process and in the host OS, or only in the host OS; leading ~; relative wildcards): names that exist literally only in the recording OSes' file " +
		"systems while what a shell would expand them to exists only in the real process; the host OS must be asked for the script's argument verbatim and for nothing else; " +
		"directed part: every operation x every single context kind x both routes x {top-level run, cloned VM call}; random part seeded. " +
		"Non-trivial when the operation performs >= 1 OS call in the model; distinct by the (history, path, operation) triple. " +
		"Second part (the OS implementation risor ships for hosts): a case is a session = (VirtualOS configuration {every option set, only mounts}, " +
		"route {risor.WithOS, OS in the context}, 1-7 script operations): os.chdir/cd, os.setenv/unsetenv with relative, absolute, dotted, empty and " +
		"non-existent arguments, followed by every observing operation (os.getwd, filepath.abs, getenv, environ, temp/home/cache/config dir, hostname, " +
		"pid, uid, args, user lookups, every file operation with relative and absolute paths over two mounts, mkdir_temp, stdio); every session is run " +
		"twice, with the real process in two different working directories / environments / temp / home directories holding look-alike files; " +
		"directed part: every state-changing operation x every argument x every observer, every operation alone; random part seeded; a violating " +
		"session is shrunk step by step before it is reported. Non-trivial when the model predicts >= 1 answer. " +
		"Third part (process level, every session in a child process): a case is (subset of the 15 option groups of NewVirtualOS given or left at their default " +
		"{exit handler, stdin, stdout, stderr, args, pid, uid, hostname, cwd, environment, tmp, user dirs, mounts, current user, group}, route, execution context " +
		"{top level, closure, builtin callback, spawn(), go, f.spawn(), clone-call, imported-module function/body, host-level Clone()+Call(), nested 0-3}, " +
		"1-7 operations: os.exit with every argument form {none, 0, non-zero incl. 255/256/-1/2^40, error value, wrong type, two arguments}, pid, uid, hostname, " +
		"args, stdin/stdout/stderr, print/printf/fmt.println, current user and user/group lookups, cwd and environment); directed: every exit form alone, " +
		"every {handler, stdin, stdout, stderr} combination x {no, every} other option x every exit form, every context kind x every exit form x {without, with} handler, " +
		"every observer under each option alone/missing; random part seeded (thorough: all 2^15 option subsets); the parent judges from the child's records and exit status " +
		"whether the script terminated the real process"
	w, err := c12NewWorld()
	if err != nil {
		e.R.Note("cannot create the sentinel world: %v", err)
		e.R.Mismatch("setup", err.Error(), "-", "harness setup")
		return
	}
	defer w.close()

	// the Go operation table and the Lean one must be the same table
	reply := e.O.Ask("C12", "ops")
	lean := map[string]string{}
	for _, f := range strings.Split(reply, ",") {
		p := strings.Split(f, "=")
		if len(p) == 3 {
			lean[p[0]] = p[1]
		}
	}
	for _, op := range c12Ops {
		if lean[op.name] != op.gofn {
			e.R.Mismatch("op table "+op.name, op.gofn, lean[op.name], "harness operation table vs Lean Op.goFn")
		}
		delete(lean, op.name)
	}
	for k := range lean {
		e.R.Mismatch("op table "+k, "-", "present", "operation in the Lean table but not in the harness")
	}
	// the metacharacter operations and the ordinary-argument operations they must behave like: same table on both sides
	{
		leanPlain := map[string]string{}
		for _, f := range strings.Split(e.O.Ask("C12", "shellops"), ",") {
			p := strings.Split(f, "=")
			if len(p) == 3 {
				leanPlain[p[0]] = p[1]
				if p[2] != "true" {
					e.R.Mismatch("shell op "+p[0], "calls differ from "+p[1], "same calls", "Lean: Op.calls of a metacharacter operation vs its plain operation")
				}
			}
		}
		for _, op := range c12Ops {
			if op.has('v') != (c12Plain[op.name] != "") || leanPlain[op.name] != c12Plain[op.name] {
				e.R.Mismatch("shell op table "+op.name, c12Plain[op.name], leanPlain[op.name], "harness table of metacharacter operations vs Lean shellOps/Op.plain")
			}
			if pl := c12Plain[op.name]; pl != "" && (c12OpByName(pl) == nil || c12OpByName(pl).gofn != op.gofn) {
				e.R.Mismatch("shell op table "+op.name, op.gofn, pl, "plain operation has another Go function")
			}
		}
	}

	{
		var rq []string
		for _, op := range c12Ops {
			rq = append(rq, "C12\thist\tN:A,R:-\t-\t"+op.name)
		}
		for i, rep := range e.O.AskBatch(rq) {
			x, err := c12ParseReply(rep)
			if err != nil || len(x) != 1 {
				e.R.Mismatch("fresh trace "+c12Ops[i].name, "-", rep, "oracle reply")
				continue
			}
			var calls []string
			for _, t := range x[0].trace {
				if j := strings.Index(t, ":"); j == 1 {
					t = t[2:]
				}
				if !(c12Ops[i].has('g') && strings.HasPrefix(t, "Open($gf)")) {
					calls = append(calls, t)
				}
			}
			c12Fresh[c12Ops[i].name] = calls
		}
	}
	var cases []c12Case
	// directed: every operation in every single context kind, under both routes, at top level and in a cloned VM
	singles := []string{"", "c", "b", "t", "d", "s", "g", "m", "k", "i", "I"}
	histories := [][]string{
		{"N:A", "R:-"},             // WithOS
		{"N:-", "R:A"},             // OS in the context
		{"N:A", "R:-", "K", "C:-"}, // cloned VM, WithOS route
		{"N:-", "R:A", "K", "C:B"}, // cloned VM, context route
		{"N:A", "R:B"},             // both
		{"N:-", "R:A", "C:B"},      // same VM, two runs with different context OSes
		{"N:A", "R:-", "O:B:-"},    // same VM, WithOS changed by a later RunCode
		{"N:A", "R:-", "E:-:-"},    // machine built with an OS, re-entered through risor.EvalCode/Eval + WithVM naming none
		{"N:-", "E:A:-", "L:-:-"},  // OS given by the first API evaluation, re-entered through risor.Call + WithVM naming none
		{"N:A", "R:-", "F:-"},      // the host fires the kept callback with a bare context of its own
		{"N:-", "R:A", "F:B"},      // … with a context of its own that carries another OS
		{"N:A", "R:B", "K", "R:-", "U", "F:-", "E:C:-", "F:-"}, // callbacks of the root machine around a clone's run and a re-option
	}
	// histories in which some run has no OS supplied (only operations that are harmless on the real OS)
	mixedHist := [][]string{
		{"N:-", "R:-", "C:A"},
		{"N:-", "R:-", "O:B:-", "K", "C:B"},
		{"N:-", "R:-", "K", "C:A"},
		{"N:-", "R:A", "C:-"},
		{"N:-", "R:A", "F:-"},          // the run was supplied through its context, the later callback is not
		{"N:-", "R:-", "F:A", "E:-:-"}, // only the callback is supplied
	}
	for i := range c12Ops {
		op := &c12Ops[i]
		for _, p := range singles {
			for hi, h := range histories {
				if p == "I" && (op.has('g') || c12ExecCount(h) > 1) {
					continue
				}
				if op.has('g') && (p == "t" || p == "d" || c12TopRuns(h) > 1) {
					continue
				}
				if e.Quick && hi >= 2 && (i+len(p)+hi)%3 != 0 {
					continue
				}
				if c12FixPath(op, p) != p {
					continue
				}
				cases = append(cases, c12Case{Events: c12Normalize(op, h), Path: p, Op: op.name})
			}
		}
		if op.has('r') {
			for _, p := range []string{"", "s", "i", "c"} {
				for _, h := range mixedHist {
					cases = append(cases, c12Case{Events: h, Path: p, Op: op.name})
				}
			}
		}
		// nothing supplied: only operations that are harmless on the real OS
		if op.has('r') {
			for _, p := range []string{"", "s", "i"} {
				cases = append(cases, c12Case{Events: []string{"N:-", "R:-", "K", "C:-"}, Path: p, Op: op.name})
			}
		}
	}
	// random
	rng := e.Rng.Fork()
	n := 9000
	if !e.Quick {
		n = 150000
	}
	for i := 0; i < n; i++ {
		op := &c12Ops[rng.Intn(len(c12Ops))]
		supplied := !(op.has('r') && rng.Chance(12))
		evs := c12GenEvents(rng, supplied)
		if op.has('r') && rng.Chance(15) {
			evs = c12GenMixed(rng)
		}
		if op.has('g') {
			// which VM's globals hold which `gf` after a clone re-runs the top-level code is a question of
			// global sharing between clones (C07/C14), not of OS mediation: keep one top-level run
			evs = c12OneTopRun(evs)
		}
		evs = c12Normalize(op, evs)
		p := c12FixPath(op, c12GenPath(rng, op, c12ExecCount(evs) > 1))
		cases = append(cases, c12Case{Events: evs, Path: p, Op: op.name})
	}

	// oracle
	reqs := make([]string, len(cases))
	for i, c := range cases {
		p := c.Path
		if p == "" {
			p = "-"
		}
		reqs[i] = "C12\thist\t" + strings.Join(c.Events, ",") + "\t" + p + "\t" + c.Op
	}
	stage := func(s string) {
		if os.Getenv("VERIF_C12_DEBUG") != "" {
			fmt.Fprintln(w.oldErr, "C12 stage:", s)
		}
	}
	stage(fmt.Sprintf("asking the oracle about %d cases", len(reqs)))
	replies := e.O.AskBatch(reqs)
	stage("oracle answered")

	// exit operations run in child processes
	var childIdx []int
	for i, c := range cases {
		if c12OpByName(c.Op).has('x') {
			childIdx = append(childIdx, i)
		}
	}
	childRes := map[int][]c12EvResult{}
	killed := map[int]bool{}
	c12RunChildren(e, w, cases, childIdx, childRes, killed)
	stage("children done")

	var dbg *os.File
	if p := os.Getenv("VERIF_C12_DEBUG"); p != "" {
		dbg, _ = os.Create(p)
		defer dbg.Close()
	}
	for i, c := range cases {
		exp, err := c12ParseReply(replies[i])
		if err != nil {
			e.R.Mismatch(c.key(), "-", replies[i], "oracle reply")
			continue
		}
		if c12OpByName(c.Op).has('x') {
			if killed[i] {
				c12Judge(e, w, c, exp, nil, 0)
			} else if r, ok := childRes[i]; ok {
				c12Judge(e, w, c, exp, r, -1)
			} else {
				e.R.Mismatch(c.key(), "no result from the child process", "-", "child process")
			}
			continue
		}
		if dbg != nil {
			fmt.Fprintln(dbg, i, c.key())
		}
		t0 := time.Now()
		res := c12RunCase(w, c)
		if dbg != nil && time.Since(t0) > 2*time.Second {
			fmt.Fprintln(dbg, "SLOW", time.Since(t0).Round(time.Millisecond), c.key())
		}
		c12Judge(e, w, c, exp, res, -1)
	}
	stage("VirtualOS sessions")
	c12RunVirtualSessions(e, w)
	stage("VirtualOS process sessions")
	c12RunProcessSessions(e, w)
	if c12Retries > 0 {
		e.R.Note("%d case(s) ran into the 10 s bound and were re-run with a 90 s bound", c12Retries)
	}
	e.R.Note("%d cases (%d in child processes: os.exit); sentinel tree %s", len(cases), len(childIdx), "<T> = temp dir with dir/a.txt, dir/b.txt, dir/sub, cwd")
}

// c12RunChildren runs the exit cases in child processes, a batch at a time; a batch whose child dies
// is resumed after the case that killed it.
func c12RunChildren(e *Env, w *c12World, cases []c12Case, idx []int, out map[int][]c12EvResult, killed map[int]bool) {
	self, err := os.Executable()
	if err != nil {
		e.R.Note("cannot find own executable: %v", err)
		return
	}
	dir, err := os.MkdirTemp("", "verif-c12-child-")
	if err != nil {
		return
	}
	defer os.RemoveAll(dir)
	round := 0
	for len(idx) > 0 && round < 200 {
		round++
		batch := idx
		if len(batch) > 400 {
			batch = batch[:400]
		}
		var cs []c12Case
		for _, i := range batch {
			cs = append(cs, cases[i])
		}
		in := filepath.Join(dir, fmt.Sprintf("in-%d.json", round))
		res := filepath.Join(dir, fmt.Sprintf("out-%d.jsonl", round))
		b, _ := json.Marshal(cs)
		os.WriteFile(in, b, 0o644)
		ctx, cancel := context.WithTimeout(context.Background(), 120*time.Second)
		cmd := exec.CommandContext(ctx, self, "C12-child", in, res)
		cmd.Stdout, cmd.Stderr = nil, nil
		cmd.Dir = dir
		// the child builds its own sentinel world; it must not do so inside the parent's watched tree
		// (TMPDIR of the parent points into it), or a child killed by a real os.Exit leaves files there
		cmd.Env = append(os.Environ(), "TMPDIR="+dir)
		cmd.Run()
		cancel()
		data, _ := os.ReadFile(res)
		started, done := -1, -1
		for _, line := range bytes.Split(data, []byte("\n")) {
			if len(line) == 0 {
				continue
			}
			var m struct {
				Start   *int          `json:"start"`
				Done    *int          `json:"done"`
				Results []c12EvResult `json:"results"`
			}
			if json.Unmarshal(line, &m) != nil {
				continue
			}
			if m.Start != nil {
				started = *m.Start
			}
			if m.Done != nil {
				done = *m.Done
				out[batch[done]] = m.Results
			}
		}
		if done == len(batch)-1 {
			idx = idx[len(batch):]
			continue
		}
		// the child died inside case `started` (or before starting anything)
		if started > done {
			killed[batch[started]] = true
			idx = idx[started+1:]
		} else {
			e.R.Note("child process produced no usable output in round %d", round)
			idx = idx[len(batch):]
		}
	}
}

// ================================================================ second part: VirtualOS sessions
//
// The first part shows on which os.OS object every call of a script lands.  What hosts hand to
// risor.WithOS is, in practice, risor's own os.VirtualOS; the mediation is empty if that object
// answers a call by asking the real process (its working directory, environment, temp dir, home,
// pid, host name, users, files).  A session is a short script of state-changing and observing
// operations evaluated under a plain VirtualOS (two mounts over recording in-memory file systems).
//
// Verdicts.  Impl correspondence: every answer (and every path handed to a mount's file system)
// equals the Lean model of VirtualOS (lean/RisorModel/C12/Virtual.lean).  Spec, on the real results:
// the session is run twice, with the real process in two different states (working directory,
// environment, TMPDIR, HOME, look-alike files below both working directories); the answers and the
// paths the mounts receive must be the same in both, contain no value of the real process, and the
// real process must be unchanged afterwards.

type c12VOp struct {
	name   string
	expr   string
	model  string   // operation of the Lean model (V.VOp)
	args   []string // argument pools: D dir, P path, K key, V value, PAT, TD, U, UID, G, GID
	change bool     // changes the state of the VirtualOS
	both   bool     // two-path operation that resolves both paths before touching a file system
}

var c12VOps = []c12VOp{
	{"os.chdir", "os.chdir({0})", "chdir", []string{"D"}, true, false},
	{"cd", "cd({0})", "chdir", []string{"D"}, true, false},
	{"os.setenv", "os.setenv({0}, {1})", "setenv", []string{"K", "V"}, true, false},
	{"setenv", "setenv({0}, {1})", "setenv", []string{"K", "V"}, true, false},
	{"os.unsetenv", "os.unsetenv({0})", "unsetenv", []string{"K"}, true, false},
	{"unsetenv", "unsetenv({0})", "unsetenv", []string{"K"}, true, false},
	{"os.getwd", "os.getwd()", "getwd", nil, false, false},
	{"filepath.abs", "filepath.abs({0})", "abs", []string{"P"}, false, false},
	{"os.getenv", "os.getenv({0})", "getenv", []string{"K"}, false, false},
	{"getenv", "getenv({0})", "getenv", []string{"K"}, false, false},
	{"os.environ", "\"\\n\".join(sorted(os.environ()))", "environ", nil, false, false},
	{"os.temp_dir", "os.temp_dir()", "tempdir", nil, false, false},
	{"os.user_home_dir", "os.user_home_dir()", "homedir", nil, false, false},
	{"os.user_cache_dir", "os.user_cache_dir()", "cachedir", nil, false, false},
	{"os.user_config_dir", "os.user_config_dir()", "configdir", nil, false, false},
	{"os.hostname", "os.hostname()", "hostname", nil, false, false},
	{"os.getpid", "os.getpid()", "getpid", nil, false, false},
	{"os.getuid", "os.getuid()", "getuid", nil, false, false},
	{"os.args", "\"\\n\".join(os.args())", "args", nil, false, false},
	{"os.current_user", "os.current_user().home_dir", "lookup", nil, false, false},
	{"os.lookup_user", "os.lookup_user({0}).home_dir", "lookup", []string{"U"}, false, false},
	{"os.lookup_uid", "os.lookup_uid({0}).username", "lookup", []string{"UID"}, false, false},
	{"os.lookup_group", "os.lookup_group({0}).gid", "lookup", []string{"G"}, false, false},
	{"os.lookup_gid", "os.lookup_gid({0}).name", "lookup", []string{"GID"}, false, false},
	{"os.read_file", "string(os.read_file({0}))", "file", []string{"P"}, false, false},
	{"cat", "cat({0})", "file", []string{"P"}, false, false},
	{"os.write_file", "os.write_file({0}, \"data\")", "file", []string{"P"}, false, false},
	{"os.stat", "os.stat({0}).size", "file", []string{"P"}, false, false},
	{"os.mkdir", "os.mkdir({0})", "file", []string{"P"}, false, false},
	{"os.mkdir_all", "os.mkdir_all({0})", "file", []string{"P"}, false, false},
	{"os.remove", "os.remove({0})", "file", []string{"P"}, false, false},
	{"os.remove_all", "os.remove_all({0})", "file", []string{"P"}, false, false},
	{"os.read_dir", "len(os.read_dir({0}))", "file", []string{"P"}, false, false},
	{"ls", "len(ls({0}))", "file", []string{"P"}, false, false},
	{"os.create", "os.create({0}).close()", "file", []string{"P"}, false, false},
	{"os.open", "os.open({0}).close()", "file", []string{"P"}, false, false},
	{"open", "open({0}).close()", "file", []string{"P"}, false, false},
	{"create+read", "func() { f := os.create({0}); f.write(\"hello\"); f.close(); return string(os.read_file({0})) }()", "file", []string{"P"}, false, false},
	{"filepath.walk_dir", "filepath.walk_dir({0}, func(p, d, e) { })", "file", []string{"P"}, false, false},
	{"os.rename", "os.rename({0}, {1})", "file", []string{"P", "P"}, false, true},
	{"os.symlink", "os.symlink({0}, {1})", "file", []string{"P", "P"}, false, true},
	{"cp", "cp({0}, {1})", "file", []string{"P", "P"}, false, false},
	{"cat2", "cat({0}, {1})", "file", []string{"P", "P"}, false, false},
	{"os.read_dir0", "len(os.read_dir())", "filecwd", nil, false, false},
	{"ls0", "len(ls())", "filecwd", nil, false, false},
	{"os.mkdir_temp", "os.mkdir_temp({0}, {1})", "mkdirtemp", []string{"TD", "PAT"}, false, false},
	{"print", "print(\"out\")", "opaque", nil, false, false},
	{"printf", "printf(\"x=%d.\", 3)", "opaque", nil, false, false},
	{"os.stdout.write", "os.stdout.write(\"x\")", "opaque", nil, false, false},
	{"os.stderr.write", "os.stderr.write(\"e\")", "opaque", nil, false, false},
	{"os.stdin.read", "string(os.stdin.read())", "opaque", nil, false, false},
}

func c12VOpByName(n string) *c12VOp {
	for i := range c12VOps {
		if c12VOps[i].name == n {
			return &c12VOps[i]
		}
	}
	return nil
}

// argument pools; "<T>" stands for the temp root of the run (the same absolute paths exist, with other
// content, in the real file system)
var c12VPools = map[string][]string{
	"D": {"work", "work/data", "/work", "/work/data", "..", ".", "data", "../mnt", "/", "/mnt", "/mnt/in", "in", "nowhere/deep",
		"work/", "./work", "", "<T>/dir", "sub"},
	"P": {"a.txt", "data/a.txt", "work/data/a.txt", "/work/data/a.txt", "../b.txt", "./a.txt", "new.txt", "sub/new.txt", "/mnt/in/c.txt",
		"c.txt", "in/c.txt", ".", "..", "/", "work", "data/", "notes.txt", "", "<T>/dir/a.txt", "<T>/dir/new.txt", "/mnt", "b.txt"},
	"K":   {c12EnvKey, c12EnvNew, "OTHER", "HOME", "TMPDIR"},
	"V":   {"newval", "", "v2"},
	"PAT": {"pat", "x-*"},
	"TD":  {"", "", "", "work"},
	"U":   {"root", "alice", "<user>"},
	"UID": {"0", "1000", "<uid>"},
	"G":   {"root", "staff"},
	"GID": {"0", "100"},
}

type c12VStep struct {
	Op   string
	Args []string // with "<T>", "<user>", "<uid>" still symbolic
}

func (s c12VStep) text() string {
	x := c12VOpByName(s.Op).expr
	for i, a := range s.Args {
		x = strings.ReplaceAll(x, "{"+strconv.Itoa(i)+"}", c12Quote(a))
	}
	return x
}

type c12VCase struct {
	Cfg   string // full | bare
	Route string // W (risor.WithOS) | X (OS in the context)
	Steps []c12VStep
}

func (c c12VCase) key() string {
	var t []string
	for _, s := range c.Steps {
		t = append(t, s.text())
	}
	return "virtual-os session cfg=" + c.Cfg + " route=" + map[string]string{"W": "WithOS", "X": "context"}[c.Route] + " script: " + strings.Join(t, "; ")
}

// the two states of the real process a session is evaluated in
type c12RealState struct {
	cwd string // below <T>
	env map[string]string
}

func (w *c12World) realStates() [2]c12RealState {
	T := w.T
	return [2]c12RealState{
		{"cwd", map[string]string{c12EnvKey: c12RealEnv, "TMPDIR": T + "/tmp1", "HOME": T + "/home1",
			"XDG_CACHE_HOME": T + "/home1/.cache", "XDG_CONFIG_HOME": T + "/home1/.config"}},
		{"cwd2", map[string]string{c12EnvKey: "REAL-ENV-VALUE-B", "TMPDIR": T + "/tmp2", "HOME": T + "/home2",
			"XDG_CACHE_HOME": T + "/home2/.cache", "XDG_CONFIG_HOME": T + "/home2/.config"}},
	}
}

// enter puts the real process into state k and returns the function that checks that the code under test
// left it there (reporting what it changed) and puts the process back into the state of the first part.
func (w *c12World) enter(k int) func() []string {
	st := w.realStates()[k]
	old := map[string]*string{}
	for key, v := range st.env {
		if cur, ok := os.LookupEnv(key); ok {
			c := cur
			old[key] = &c
		} else {
			old[key] = nil
		}
		os.Setenv(key, v)
	}
	os.Chdir(filepath.Join(w.T, st.cwd))
	envBefore := os.Environ()
	sort.Strings(envBefore)
	return func() []string {
		var eff []string
		if wd, _ := os.Getwd(); wd != filepath.Join(w.T, st.cwd) {
			eff = append(eff, "real working directory changed to "+strings.ReplaceAll(wd, w.T, "<T>"))
		}
		envAfter := os.Environ()
		sort.Strings(envAfter)
		if strings.Join(envBefore, "\x00") != strings.Join(envAfter, "\x00") {
			eff = append(eff, "real environment changed: "+c12EnvDiff(envBefore, envAfter))
			os.Clearenv()
			for _, kv := range envBefore {
				if i := strings.Index(kv, "="); i > 0 {
					os.Setenv(kv[:i], kv[i+1:])
				}
			}
		}
		for key, v := range old {
			if v == nil {
				os.Unsetenv(key)
			} else {
				os.Setenv(key, *v)
			}
		}
		os.Chdir(filepath.Join(w.T, "cwd"))
		return eff
	}
}

func c12EnvDiff(a, b []string) string {
	in := func(l []string, x string) bool {
		for _, y := range l {
			if y == x {
				return true
			}
		}
		return false
	}
	var d []string
	for _, x := range a {
		if !in(b, x) {
			d = append(d, "-"+x)
		}
	}
	for _, x := range b {
		if !in(a, x) {
			d = append(d, "+"+x)
		}
	}
	return c12_trunc(strings.Join(d, " "), 300)
}

// realTokens: values of the real process that no answer under a VirtualOS may contain
func (w *c12World) realTokens() []string {
	return []string{w.T + "/cwd", w.T + "/tmp1", w.T + "/tmp2", w.T + "/home", "REAL-"}
}

// recording file system of one mount
type c12VFS struct {
	*c12FS
	target string
	log    func(string)
}

func (f *c12VFS) rec(p string) { f.log(f.target + ":" + p) }
func (f *c12VFS) Create(n string) (ros.File, error) {
	f.rec(n)
	return f.c12FS.Create(n)
}
func (f *c12VFS) Mkdir(n string, p ros.FileMode) error    { f.rec(n); return f.c12FS.Mkdir(n, p) }
func (f *c12VFS) MkdirAll(n string, p ros.FileMode) error { f.rec(n); return f.c12FS.MkdirAll(n, p) }
func (f *c12VFS) Open(n string) (ros.File, error)         { f.rec(n); return f.c12FS.Open(n) }
func (f *c12VFS) OpenFile(n string, fl int, p ros.FileMode) (ros.File, error) {
	f.rec(n)
	return f.c12FS.OpenFile(n, fl, p)
}
func (f *c12VFS) ReadFile(n string) ([]byte, error)        { f.rec(n); return f.c12FS.ReadFile(n) }
func (f *c12VFS) Remove(n string) error                    { f.rec(n); return f.c12FS.Remove(n) }
func (f *c12VFS) RemoveAll(n string) error                 { f.rec(n); return f.c12FS.RemoveAll(n) }
func (f *c12VFS) Rename(a, b string) error                 { f.rec(a); f.rec(b); return f.c12FS.Rename(a, b) }
func (f *c12VFS) Stat(n string) (ros.FileInfo, error)      { f.rec(n); return f.c12FS.Stat(n) }
func (f *c12VFS) Symlink(a, b string) error                { f.rec(a); f.rec(b); return f.c12FS.Symlink(a, b) }
func (f *c12VFS) ReadDir(n string) ([]ros.DirEntry, error) { f.rec(n); return f.c12FS.ReadDir(n) }
func (f *c12VFS) WriteFile(n string, d []byte, p ros.FileMode) error {
	f.rec(n)
	return f.c12FS.WriteFile(n, d, p)
}
func (f *c12VFS) WalkDir(n string, fn ros.WalkDirFunc) error { f.rec(n); return f.c12FS.WalkDir(n, fn) }

var _ ros.FS = (*c12VFS)(nil)

// the configuration of the VirtualOS of a session, as sent to the model
type c12VCfg struct {
	cwd, tmp, home, cache, config, host string
	env                                 map[string]string
	pid, uid                            int
	args                                []string
	mounts                              []string
}

func c12VConfig(name string) c12VCfg {
	if name == "bare" {
		return c12VCfg{cwd: "/", env: map[string]string{}, mounts: []string{"/", "/mnt"}}
	}
	return c12VCfg{cwd: "/work", tmp: "/tmp", home: "/home/u", cache: "/home/u/.cache", config: "/home/u/.config", host: "virt-host",
		env: map[string]string{c12EnvKey: "VIRT-ENV", "OTHER": "x"}, pid: 424242, uid: 4242, args: []string{"virt-arg", "second"},
		mounts: []string{"/", "/mnt"}}
}

func (w *c12World) vsubst(a string) string {
	a = strings.ReplaceAll(a, "<T>", w.T)
	a = strings.ReplaceAll(a, "<user>", w.realUser)
	a = strings.ReplaceAll(a, "<uid>", w.uid)
	return a
}

// realLookup: what the real user database answers to a lookup step ("" for other steps and for misses)
func (w *c12World) realLookup(s c12VStep) string {
	arg := ""
	if len(s.Args) > 0 {
		arg = w.vsubst(s.Args[0])
	}
	switch s.Op {
	case "os.current_user":
		if u, err := user.Current(); err == nil {
			return u.HomeDir
		}
	case "os.lookup_user":
		if u, err := user.Lookup(arg); err == nil {
			return u.HomeDir
		}
	case "os.lookup_uid":
		if u, err := user.LookupId(arg); err == nil {
			return u.Username
		}
	case "os.lookup_group":
		if g, err := user.LookupGroup(arg); err == nil {
			return g.Gid
		}
	case "os.lookup_gid":
		if g, err := user.LookupGroupId(arg); err == nil {
			return g.Name
		}
	}
	return ""
}

type c12VRun struct {
	Res     []string   // one answer per step
	FS      [][]string // per step: "<mount>:<path>" handed to the mounts' file systems
	Err     string
	Effects []string
}

var c12VTempRe = regexp.MustCompile(`(^|[/:])\d+-`)

// c12VRunOnce evaluates the session on the real code with the real process in state `world`.
func c12VRunOnce(w *c12World, cs c12VCase, world int) (out c12VRun) {
	w.nextCase()
	n := len(cs.Steps)
	out.FS = make([][]string, n)
	var mu sync.Mutex
	step := 0
	logf := func(s string) {
		mu.Lock()
		if step >= 0 && step < n {
			out.FS[step] = append(out.FS[step], s)
		}
		mu.Unlock()
	}
	T := w.T
	rootFS := &c12FS{nodes: map[string]*c12Node{"/": {dir: true, mode: fs.ModeDir | 0o755}}}
	for _, d := range []string{"/work/data", "/work/sub", "/tmp", "/home/u", T + "/dir"} {
		rootFS.MkdirAll(d, 0o755)
	}
	for _, f := range []string{"/work/a.txt", "/work/b.txt", "/work/data/a.txt", "/a.txt", T + "/dir/a.txt"} {
		rootFS.WriteFile(f, []byte("VIRT-FILE "+strings.ReplaceAll(f, T, "")+"\nline2\n"), 0o644)
	}
	mntFS := &c12FS{nodes: map[string]*c12Node{"/": {dir: true, mode: fs.ModeDir | 0o755}}}
	mntFS.MkdirAll("/in", 0o755)
	mntFS.WriteFile("/c.txt", []byte("VIRT-MNT-C\n"), 0o644)
	mntFS.WriteFile("/in/c.txt", []byte("VIRT-MNT-IN-C\n"), 0o644)
	opts := []ros.Option{ros.WithMounts(map[string]*ros.Mount{
		"/":    {Source: &c12VFS{c12FS: rootFS, target: "/", log: logf}, Target: "/", Type: "mem"},
		"/mnt": {Source: &c12VFS{c12FS: mntFS, target: "/mnt", log: logf}, Target: "/mnt", Type: "mem"},
	})}
	if cs.Cfg != "bare" {
		c := c12VConfig(cs.Cfg)
		opts = append(opts, ros.WithCwd(c.cwd), ros.WithEnvironment(c.env), ros.WithTmp(c.tmp), ros.WithPid(c.pid), ros.WithUid(c.uid),
			ros.WithHostname(c.host), ros.WithUserCacheDir(c.cache), ros.WithUserConfigDir(c.config), ros.WithUserHomeDir(c.home),
			ros.WithArgs(c.args), ros.WithStdin(ros.NewBufferFile([]byte("VIRT-STDIN\n"))),
			ros.WithStdout(ros.NewBufferFile(nil)), ros.WithStderr(ros.NewBufferFile(nil)))
	}
	// the VirtualOS is created, like it is used, with the real process in state `world`
	leave := w.enter(world)
	vos := ros.NewVirtualOS(context.Background(), opts...)

	var src strings.Builder
	src.WriteString("res := []\n")
	for i, s := range cs.Steps {
		fmt.Fprintf(&src, "vmark(%d)\nres.append(try(func() { return %s }, func(e) { return \"ERR:\" + string(e) }))\n", i, w.vsubst(s.text()))
	}
	fmt.Fprintf(&src, "vmark(%d)\nres\n", n)
	vmark := object.NewBuiltin("vmark", func(ctx context.Context, args ...object.Object) object.Object {
		if i, ok := args[0].(*object.Int); ok {
			mu.Lock()
			step = int(i.Value())
			mu.Unlock()
		}
		return object.Nil
	})
	ctx, cancel := context.WithTimeout(context.Background(), 20*time.Second)
	defer cancel()
	ropts := []risor.Option{risor.WithGlobal("vmark", vmark)}
	if cs.Route == "W" {
		ropts = append(ropts, risor.WithOS(vos))
	} else {
		ctx = ros.WithOS(ctx, vos)
	}
	res, err := func() (res object.Object, err error) {
		defer func() {
			if r := recover(); r != nil {
				err = fmt.Errorf("panic: %v", r)
			}
		}()
		return risor.Eval(ctx, src.String(), ropts...)
	}()
	out.Effects = leave()
	out.Effects = append(out.Effects, w.realEffects()...)
	if err != nil {
		out.Err = err.Error()
	}
	if l, ok := res.(*object.List); ok {
		for _, it := range l.Value() {
			if s, ok := it.(*object.String); ok {
				out.Res = append(out.Res, s.Value())
			} else {
				out.Res = append(out.Res, it.Inspect())
			}
		}
	} else if err == nil {
		out.Err = fmt.Sprintf("the script returned %T", res)
	}
	for len(out.Res) < n {
		out.Res = append(out.Res, "<no answer>")
	}
	// the random part of a temporary directory's name
	for i, s := range cs.Steps {
		if c12VOpByName(s.Op).model == "mkdirtemp" {
			out.Res[i] = c12VTempRe.ReplaceAllString(out.Res[i], "${1}N-")
			for j := range out.FS[i] {
				out.FS[i][j] = c12VTempRe.ReplaceAllString(out.FS[i][j], "${1}N-")
			}
		}
	}
	return out
}

// the request line for the model
func c12VRequest(w *c12World, cs c12VCase) string {
	c := c12VConfig(cs.Cfg)
	var env []string
	for _, k := range sortedKeys(c.env) {
		env = append(env, Hex(k)+"="+Hex(c.env[k]))
	}
	list := func(l []string) string {
		if len(l) == 0 {
			return "-"
		}
		var h []string
		for _, x := range l {
			h = append(h, Hex(x))
		}
		return strings.Join(h, ",")
	}
	var steps []string
	for _, s := range cs.Steps {
		t := c12VOpByName(s.Op).model
		for _, a := range s.Args {
			if t != "lookup" { // the model's answer does not depend on who is looked up
				t += ":" + Hex(w.vsubst(a))
			}
		}
		steps = append(steps, t)
	}
	envS := "-"
	if len(env) > 0 {
		envS = strings.Join(env, ",")
	}
	return strings.Join([]string{"C12", "vsess", Hex(c.cwd), envS, Hex(c.tmp), Hex(c.home), Hex(c.cache), Hex(c.config), Hex(c.host),
		strconv.Itoa(c.pid), strconv.Itoa(c.uid), list(c.args), list(c.mounts), strings.Join(steps, ";")}, "\t")
}

type c12VVerdict struct {
	spec       []string // violations of the Spec on the real results
	mis        [][3]string
	nontrivial bool
}

// c12VCheckModel compares one run with the model's reply; returns (go, model, what) triples.
func c12VCheckModel(w *c12World, cs c12VCase, run c12VRun, exp []string, world int) (mis [][3]string) {
	add := func(i int, g, m, what string) {
		mis = append(mis, [3]string{fmt.Sprintf("step %d %s: %s", i+1, cs.Steps[i].text(), c12_trunc(strings.ReplaceAll(g, w.T, "<T>"), 160)),
			c12_trunc(strings.ReplaceAll(m, w.T, "<T>"), 160), what + fmt.Sprintf(" (real process state %d)", world+1)})
	}
	if run.Err != "" {
		mis = append(mis, [3]string{"script failed: " + c12_trunc(run.Err, 200), "ok", "the generated session must evaluate"})
		return
	}
	for i := range cs.Steps {
		op := c12VOpByName(cs.Steps[i].Op)
		g, x := run.Res[i], exp[i]
		fsLog := run.FS[i]
		isErr := strings.HasPrefix(g, "ERR:")
		if op.model != "file" && op.model != "filecwd" && op.model != "mkdirtemp" && len(fsLog) > 0 {
			add(i, strings.Join(fsLog, " "), "no file-system call", "paths handed to the mounts vs model")
		}
		switch x[0] {
		case 'n':
			if g != "nil" {
				add(i, g, "nil", "answer vs model")
			}
		case 's':
			if m := UnHex(x[1:]); g != m || isErr && !strings.HasPrefix(m, "ERR:") {
				add(i, g, m, "answer vs model")
			}
		case 'i':
			if g != x[1:] {
				add(i, g, x[1:], "answer vs model")
			}
		case 'l', 'e':
			var items []string
			if len(x) > 1 {
				for _, h := range strings.Split(x[1:], ",") {
					if x[0] == 'e' {
						kv := strings.Split(h, "=")
						items = append(items, UnHex(kv[0])+"="+UnHex(kv[1]))
					} else {
						items = append(items, UnHex(h))
					}
				}
			}
			if x[0] == 'e' {
				sort.Strings(items)
			}
			if m := strings.Join(items, "\n"); g != m {
				add(i, g, m, "answer vs model")
			}
		case 'E':
			if !isErr {
				add(i, g, "an error", "answer vs model")
			}
		case '*':
		case 'p':
			allowed := map[string]bool{}
			var first, second string
			for j, it := range strings.Split(x[1:], ",") {
				v := "!"
				if it != "!" {
					tp := strings.Split(it, ":")
					v = UnHex(tp[0]) + ":" + UnHex(tp[1])
					allowed[v] = true
				}
				if j == 0 {
					first = v
				} else if j == 1 {
					second = v
				}
			}
			for _, l := range fsLog {
				if !allowed[l] {
					add(i, l, strings.Join(sortedKeys(allowed), " "), "path handed to a mount's file system vs model (findMount of the virtual cwd)")
				}
			}
			reach := first != "!"
			if op.both {
				reach = reach && second != "!" && first[:strings.Index(first, ":")] == second[:strings.Index(second, ":")]
			}
			if reach && len(fsLog) == 0 {
				add(i, "no mount was asked (answer "+g+")", first, "path handed to a mount's file system vs model")
			}
			if !reach && !isErr {
				add(i, g, "an error (no mount serves the path)", "answer vs model")
			}
		case 't':
			tp := strings.Split(x[1:], ":")
			want := filepath.Join(UnHex(tp[1]), "N-"+UnHex(tp[2]))
			// (the mount's own Mkdir may fail, e.g. after the script removed the root directory)
			if g != want && !isErr {
				add(i, g, want, "answer vs model")
			}
			if wantFS := UnHex(tp[0]) + ":N-" + UnHex(tp[2]); strings.Join(fsLog, " ") != wantFS {
				add(i, strings.Join(fsLog, " "), wantFS, "path handed to a mount's file system vs model")
			}
		default:
			add(i, g, x, "unknown model reply")
		}
	}
	return
}

// c12VEval runs the session in both states of the real process and evaluates Spec and correspondence.
func c12VEval(w *c12World, cs c12VCase, reply string) (v c12VVerdict) {
	var exp []string
	if strings.HasPrefix(reply, "error") || reply == "" {
		v.mis = append(v.mis, [3]string{"-", reply, "oracle reply"})
	} else {
		exp = strings.Split(reply, "\t")
		if len(exp) != len(cs.Steps) {
			v.mis = append(v.mis, [3]string{fmt.Sprintf("%d steps", len(cs.Steps)), reply, "oracle reply"})
			exp = nil
		}
	}
	for _, x := range exp {
		if x != "*" {
			v.nontrivial = true
		}
	}
	var runs [2]c12VRun
	for k := 0; k < 2; k++ {
		runs[k] = c12VRunOnce(w, cs, k)
		if exp != nil {
			v.mis = append(v.mis, c12VCheckModel(w, cs, runs[k], exp, k)...)
		}
	}
	tokens := w.realTokens()
	sh := func(s string) string { return c12_trunc(strings.ReplaceAll(s, w.T, "<T>"), 120) }
	for k := 0; k < 2; k++ {
		r := runs[k]
		for _, eff := range r.Effects {
			v.spec = append(v.spec, fmt.Sprintf("the real process was changed (state %d): %s", k+1, eff))
		}
		if strings.Contains(r.Err, "panic") {
			v.mis = append(v.mis, [3]string{c12_trunc(r.Err, 200), "no panic", "panic inside risor"})
		}
		for i := range cs.Steps {
			where := fmt.Sprintf("step %d %s (real process state %d)", i+1, cs.Steps[i].text(), k+1)
			for _, t := range tokens {
				if strings.Contains(r.Res[i], t) {
					v.spec = append(v.spec, where+" answered "+strconv.Quote(sh(r.Res[i]))+", which contains a value of the real process ("+sh(t)+"…)")
					break
				}
			}
			for _, l := range r.FS[i] {
				for _, t := range tokens {
					if strings.Contains(l, t) {
						v.spec = append(v.spec, where+" handed the mount's file system the path "+strconv.Quote(sh(l))+", built from a value of the real process ("+sh(t)+"…)")
						break
					}
				}
			}
			// process-level values cannot differ between the two states; a real one shows as such
			if exp != nil && len(exp[i]) > 0 && (exp[i][0] == 'i' || exp[i][0] == 's') {
				m := exp[i][1:]
				if exp[i][0] == 's' {
					m = UnHex(m)
				}
				g := r.Res[i]
				op := cs.Steps[i].Op
				if g != m && (op == "os.getpid" && g == w.realPid || op == "os.getuid" && g == w.uid || op == "os.hostname" && g == w.realHost && g != "") {
					v.spec = append(v.spec, where+" answered "+strconv.Quote(g)+", the value of the real process (configured: "+strconv.Quote(m)+")")
				}
			}
			if real := w.realLookup(cs.Steps[i]); real != "" && r.Res[i] == real {
				v.spec = append(v.spec, where+" answered "+strconv.Quote(sh(r.Res[i]))+", the entry of the real user database (no user or group is configured in the VirtualOS)")
			}
		}
	}
	for i := range cs.Steps {
		a, b := runs[0], runs[1]
		if a.Res[i] != b.Res[i] {
			v.spec = append(v.spec, fmt.Sprintf("step %d %s answers %s with the real process in <T>/cwd and %s with the real process in <T>/cwd2: the answer depends on the state of the real process",
				i+1, cs.Steps[i].text(), strconv.Quote(sh(a.Res[i])), strconv.Quote(sh(b.Res[i]))))
		}
		if strings.Join(a.FS[i], " ") != strings.Join(b.FS[i], " ") {
			v.spec = append(v.spec, fmt.Sprintf("step %d %s hands the mounts %s with the real process in <T>/cwd and %s in <T>/cwd2",
				i+1, cs.Steps[i].text(), strconv.Quote(sh(strings.Join(a.FS[i], " "))), strconv.Quote(sh(strings.Join(b.FS[i], " ")))))
		}
	}
	return v
}

func c12VGenArgs(r *RNG, op *c12VOp) []string {
	var a []string
	for _, k := range op.args {
		p := c12VPools[k]
		a = append(a, p[r.Intn(len(p))])
	}
	return a
}

func c12RunVirtualSessions(e *Env, w *c12World) {
	var cases []c12VCase
	var changers, observers []*c12VOp
	for i := range c12VOps {
		if c12VOps[i].change {
			changers = append(changers, &c12VOps[i])
		} else {
			observers = append(observers, &c12VOps[i])
		}
	}
	// every combination of the pools of an operation
	var allArgs func(op *c12VOp) [][]string
	allArgs = func(op *c12VOp) [][]string {
		out := [][]string{{}}
		for _, k := range op.args {
			var nx [][]string
			for _, pre := range out {
				for _, v := range c12VPools[k] {
					nx = append(nx, append(append([]string{}, pre...), v))
				}
			}
			out = nx
		}
		return out
	}
	// directed 1: every state-changing operation with every argument, followed by the observers of that state
	probesFor := func(ch *c12VOp, args []string) []c12VStep {
		if ch.model == "chdir" {
			return []c12VStep{{"os.getwd", nil}, {"filepath.abs", []string{"notes.txt"}}, {"os.read_file", []string{"a.txt"}},
				{"os.write_file", []string{"new.txt"}}, {"os.read_dir0", nil}, {"os.stat", []string{"/work/data/a.txt"}}, {"os.mkdir_temp", []string{"", "pat"}}}
		}
		return []c12VStep{{"os.getenv", []string{args[0]}}, {"getenv", []string{args[0]}}, {"os.environ", nil}}
	}
	n := 0
	for _, cfg := range []string{"full", "bare"} {
		for _, ch := range changers {
			for _, args := range allArgs(ch) {
				for _, pr := range probesFor(ch, args) {
					n++
					cases = append(cases, c12VCase{Cfg: cfg, Route: []string{"W", "X"}[n%2], Steps: []c12VStep{{ch.name, args}, pr}})
				}
			}
		}
	}
	// directed 2: every observer alone, with every argument (pairs of paths: a sample in the quick tier)
	for _, cfg := range []string{"full", "bare"} {
		for _, ob := range observers {
			for j, args := range allArgs(ob) {
				if len(ob.args) == 2 && e.Quick && j%7 != 0 {
					continue
				}
				n++
				cases = append(cases, c12VCase{Cfg: cfg, Route: []string{"W", "X"}[n%2], Steps: []c12VStep{{ob.name, args}}})
			}
		}
	}
	// random sessions
	rng := e.Rng.Fork()
	nr := 2500
	if !e.Quick {
		nr = 60000
	}
	for i := 0; i < nr; i++ {
		cs := c12VCase{Cfg: []string{"full", "full", "bare"}[rng.Intn(3)], Route: []string{"W", "X"}[rng.Intn(2)]}
		for j, l := 0, 2+rng.Intn(6); j < l; j++ {
			var op *c12VOp
			if rng.Chance(40) {
				op = changers[rng.Intn(len(changers))]
			} else {
				op = observers[rng.Intn(len(observers))]
			}
			cs.Steps = append(cs.Steps, c12VStep{op.name, c12VGenArgs(rng, op)})
		}
		cases = append(cases, cs)
	}

	reqs := make([]string, len(cases))
	for i, c := range cases {
		reqs[i] = c12VRequest(w, c)
	}
	replies := e.O.AskBatch(reqs)
	shrunk := 0
	for i, cs := range cases {
		v := c12VEval(w, cs, replies[i])
		key := cs.key()
		e.R.Case(key, v.nontrivial)
		e.R.H("vsession_cfg", cs.Cfg)
		e.R.H("vsession_route", map[string]string{"W": "risor.WithOS", "X": "OS in the context"}[cs.Route])
		e.R.H("vsession_steps", strconv.Itoa(len(cs.Steps)))
		changed := false
		for _, s := range cs.Steps {
			op := c12VOpByName(s.Op)
			e.R.H("vsession_op", s.Op)
			if op.change {
				changed = true
			} else if changed {
				e.R.H("vsession_observer_after_state_change", s.Op)
			}
			for _, a := range s.Args {
				if (op.model == "chdir" || op.model == "file" || op.model == "abs") && a != "" {
					e.R.H("vsession_path_shape", map[bool]string{true: "absolute", false: "relative"}[strings.HasPrefix(a, "/") || strings.HasPrefix(a, "<T>")])
				}
			}
		}
		for _, m := range v.mis {
			e.R.Mismatch(key, m[0], m[1], "VirtualOS session: "+m[2])
		}
		if len(v.spec) == 0 {
			e.R.H("vsession_spec", "holds")
			continue
		}
		e.R.H("vsession_spec", "violated")
		// shrink: drop steps as long as the Spec is still violated
		if shrunk < 5 && len(cs.Steps) > 2 {
			shrunk++
			for again := true; again; {
				again = false
				for j := 0; j < len(cs.Steps) && len(cs.Steps) > 1; j++ {
					t := c12VCase{Cfg: cs.Cfg, Route: cs.Route}
					t.Steps = append(append(t.Steps, cs.Steps[:j]...), cs.Steps[j+1:]...)
					if tv := c12VEval(w, t, e.O.Ask(strings.Split(c12VRequest(w, t), "\t")...)); len(tv.spec) > 0 {
						cs, v, again = t, tv, true
						break
					}
				}
			}
			key = cs.key()
		}
		e.R.Spec(key, c12_trunc(strings.Join(v.spec, "; "), 1500), "")
	}
	e.R.Note("%d VirtualOS sessions, each evaluated with the real process in <T>/cwd and in <T>/cwd2 (different environment, TMPDIR, HOME)", len(cases))
}
