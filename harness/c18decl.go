package main

// C18 — layer 9 sessions: DECLARATIONS across pieces (Lean: RisorModel/C18/Decls.lean, theorems in DeclsProps.lean).
//
// Which names a piece may declare depends on what the earlier pieces (and the host) declared, and compileMain decides
// it in two passes: the first pass pre-declares the named functions of the input and is the only place that refuses a
// `func` over an existing name; the second pass refuses `:=` / `const` over an existing name, assignments to constants
// and undefined names, and tolerates an existing symbol for `func`.  A session is a list of pieces of 1–3 statements
// over a small pool of names: `n := v`, `const n = v`, `func n() { … return v }` (the body mentions other names in a
// dead branch: forward references inside the piece), `n = v`, `try(n)` (an integer as it is, a function called).
// REDECLARING pieces — a `func`, `:=` or `const` over a function, constant, variable of an earlier piece or over a
// host-supplied name — come as pieces of ONE statement and inside pieces of two or three, at every position.
//
//   Code vs Impl : after every piece the outcome class, which names the compiler's root table holds
//                  (compiler.Code.GlobalNames), vm.Get of every name (integer / function returning v / unset) and the
//                  piece's value against `declImpl`.
//   Code vs Spec : the same against `declSpec` (a piece is accepted exactly when the accepted pieces before it followed
//                  by the piece compile as ONE program), and — no model involved — the real piece against the real
//                  whole program `accepted pieces so far + this piece`, the real globals after the last piece against the
//                  real whole program of the accepted pieces.

import (
	"fmt"
	"regexp"
	"strconv"
	"strings"
)

var dcNames = []string{"ya", "yb", "yc", "yd", "ye"}

const dcHost = "len"  // a host-supplied name (model number 50)
const dcUndef = "yzz" // a name nothing declares (model number 9)

func dcNum(n string) int {
	for i, x := range dcNames {
		if x == n {
			return i
		}
	}
	if n == dcHost {
		return 50
	}
	return 9
}

type dcStmt struct {
	k    byte // v c f s u
	name string
	v    int
	refs []string
}

func (s dcStmt) src() string {
	switch s.k {
	case 'v':
		return fmt.Sprintf("%s := %d", s.name, s.v)
	case 'c':
		return fmt.Sprintf("const %s = %d", s.name, s.v)
	case 's':
		return fmt.Sprintf("%s = %d", s.name, s.v)
	case 'u':
		return fmt.Sprintf("try(%s)", s.name)
	}
	if len(s.refs) == 0 {
		return fmt.Sprintf("func %s() {\n  return %d\n}", s.name, s.v)
	}
	return fmt.Sprintf("func %s() {\n  if false {\n    %s\n  }\n  return %d\n}", s.name, strings.Join(s.refs, "\n    "), s.v)
}

func (s dcStmt) model() string {
	n := strconv.Itoa(dcNum(s.name))
	switch s.k {
	case 'u':
		return "u" + n
	case 'f':
		var rs []string
		for _, r := range s.refs {
			rs = append(rs, strconv.Itoa(dcNum(r)))
		}
		refs := "-"
		if len(rs) > 0 {
			refs = strings.Join(rs, ".")
		}
		return fmt.Sprintf("f%s=%d:%s", n, s.v, refs)
	}
	return fmt.Sprintf("%c%s=%d", s.k, n, s.v)
}

type dcPiece struct {
	stmts []dcStmt
	tag   string
}

func (p *dcPiece) src() string {
	var out []string
	for _, s := range p.stmts {
		out = append(out, s.src())
	}
	return strings.Join(out, "\n")
}

func (p *dcPiece) model() string {
	var out []string
	for _, s := range p.stmts {
		out = append(out, s.model())
	}
	return strings.Join(out, ";")
}

type dcSession struct {
	pieces []*dcPiece
	tag    string
}

// ---- generator: the kinds are what the generator BELIEVES (it assumes its well-meant pieces are accepted); the model decides

type dcGen struct {
	r    *RNG
	kind map[string]byte // v c f
	nv   int
}

func (g *dcGen) val() int { g.nv++; return 1 + g.nv*2 + g.r.Intn(2) }

func (g *dcGen) defined() []string { return sortedKeys(g.kind) }

func (g *dcGen) fresh() []string {
	var out []string
	for _, n := range dcNames {
		if _, ok := g.kind[n]; !ok {
			out = append(out, n)
		}
	}
	return out
}

func (g *dcGen) ofKind(k byte) []string {
	var out []string
	for _, n := range g.defined() {
		if g.kind[n] == k {
			out = append(out, n)
		}
	}
	return out
}

// a statement that should compile in the current state
func (g *dcGen) good(local map[string]byte) dcStmt {
	for {
		fr := g.fresh()
		switch c := g.r.Intn(10); {
		case c < 4 && len(fr) > 0:
			n := Pick(g.r, fr)
			k := Pick(g.r, []byte{'v', 'c', 'f', 'f'})
			g.kind[n] = k
			local[n] = k
			s := dcStmt{k: k, name: n, v: g.val()}
			if k == 'f' && g.r.Chance(50) {
				for _, d := range g.defined() {
					if d != n && g.r.Chance(40) {
						s.refs = append(s.refs, d)
					}
				}
			}
			return s
		case c < 6:
			if vs := g.ofKind('v'); len(vs) > 0 {
				return dcStmt{k: 's', name: Pick(g.r, vs), v: g.val()}
			}
		default:
			if ds := g.defined(); len(ds) > 0 {
				return dcStmt{k: 'u', name: Pick(g.r, ds)}
			}
		}
	}
}

func (g *dcGen) accepted() *dcPiece {
	p := &dcPiece{tag: "accepted"}
	local := map[string]byte{}
	if fr := g.fresh(); len(fr) >= 2 && g.r.Chance(20) {
		// two functions, the first mentions the second (declared later in the same piece), then both are called
		a, b := fr[0], fr[1]
		g.kind[a], g.kind[b] = 'f', 'f'
		p.stmts = append(p.stmts, dcStmt{k: 'f', name: a, v: g.val(), refs: []string{b}}, dcStmt{k: 'f', name: b, v: g.val()})
		if g.r.Chance(50) {
			p.stmts = append(p.stmts, dcStmt{k: 'u', name: Pick(g.r, []string{a, b})})
		}
		p.tag = "accepted (forward reference between two functions of the piece)"
		return p
	}
	for i, n := 0, 1+g.r.Intn(3); i < n; i++ {
		p.stmts = append(p.stmts, g.good(local))
	}
	return p
}

// a piece the compiler must refuse
func (g *dcGen) rejected() *dcPiece {
	kname := map[byte]string{'v': "variable", 'c': "constant", 'f': "function", 'h': "host-supplied name"}
	dname := map[byte]string{'v': ":=", 'c': "const", 'f': "func"}
	var off dcStmt
	tag := ""
	ds := g.defined()
	switch c := g.r.Intn(10); {
	case c < 6: // redeclaration
		target, tk := dcHost, byte('h')
		if len(ds) > 0 && !g.r.Chance(12) {
			target = Pick(g.r, ds)
			tk = g.kind[target]
		}
		k := Pick(g.r, []byte{'f', 'f', 'f', 'v', 'c'})
		off = dcStmt{k: k, name: target, v: g.val()}
		tag = fmt.Sprintf("`%s` over a %s", dname[k], kname[tk])
	case c < 7:
		if cs := append(g.ofKind('c'), g.ofKind('f')...); len(cs) > 0 {
			n := Pick(g.r, cs)
			off = dcStmt{k: 's', name: n, v: g.val()}
			tag = "assignment to a " + kname[g.kind[n]]
		} else {
			off = dcStmt{k: 's', name: dcUndef, v: g.val()}
			tag = "assignment to an undefined name"
		}
	case c < 8:
		off = dcStmt{k: 'u', name: dcUndef}
		tag = "undefined name"
	case c < 9:
		fr := g.fresh()
		if len(fr) == 0 {
			off = dcStmt{k: 'u', name: dcUndef}
			tag = "undefined name"
			break
		}
		off = dcStmt{k: 'f', name: Pick(g.r, fr), v: g.val(), refs: []string{dcUndef}}
		tag = "function whose body names an undefined variable"
	default:
		fr := g.fresh()
		if len(fr) == 0 {
			off = dcStmt{k: 'u', name: dcUndef}
			tag = "undefined name"
			break
		}
		n := Pick(g.r, fr)
		p := &dcPiece{stmts: []dcStmt{{k: Pick(g.r, []byte{'f', 'v', 'c'}), name: n, v: g.val()}, {k: 'f', name: n, v: g.val()}}}
		if g.r.Chance(50) {
			p.stmts[0], p.stmts[1] = p.stmts[1], p.stmts[0]
		}
		p.tag = "a fresh name declared twice in one piece (one of them by func)"
		return p
	}
	p := &dcPiece{}
	// alone (the usual REPL input) or among other statements, at any position; what the others declare must vanish too
	n := Pick(g.r, []int{1, 1, 1, 2, 3})
	at := g.r.Intn(n)
	saved := map[string]byte{}
	for k, v := range g.kind {
		saved[k] = v
	}
	for i := 0; i < n; i++ {
		if i == at {
			p.stmts = append(p.stmts, off)
		} else {
			p.stmts = append(p.stmts, g.good(map[string]byte{}))
		}
	}
	g.kind = saved
	p.tag = fmt.Sprintf("%s, piece of %d statement(s)", tag, n)
	return p
}

func c18GenDecls(r *RNG) *dcSession {
	g := &dcGen{r: r, kind: map[string]byte{}}
	s := &dcSession{tag: "random session"}
	if r.Chance(15) {
		s.pieces = append(s.pieces, g.rejected()) // before the VM exists
	}
	s.pieces = append(s.pieces, g.accepted())
	for i, n := 0, 3+r.Intn(5); i < n; i++ {
		if r.Chance(45) {
			s.pieces = append(s.pieces, g.rejected())
		} else {
			s.pieces = append(s.pieces, g.accepted())
		}
	}
	last := &dcPiece{tag: "accepted"}
	for _, n := range g.defined() {
		last.stmts = append(last.stmts, dcStmt{k: 'u', name: n})
	}
	if len(last.stmts) > 0 {
		s.pieces = append(s.pieces, last)
	}
	return s
}

// ---- the model's answer

type dcSnap struct {
	ok    bool
	names map[int]string // "-" | (c|v)(n | i<int> | f<int>)
	vals  []string
}

func dcParse(t string, probes []int) ([]dcSnap, bool) {
	var out []dcSnap
	for _, p := range strings.Split(t, "|") {
		f := strings.Split(p, ":")
		if len(f) != 3 {
			return nil, false
		}
		sn := dcSnap{ok: f[0] == "a", names: map[int]string{}}
		ns := strings.Split(f[1], ".")
		if len(ns) != len(probes) {
			return nil, false
		}
		for i, n := range probes {
			sn.names[n] = ns[i]
		}
		if f[2] != "-" {
			sn.vals = strings.Split(f[2], ".")
		}
		out = append(out, sn)
	}
	return out, true
}

var dcReturnRe = regexp.MustCompile(`return (-?\d+)`)

// a global as vm.Get shows it, in the model's notation
func dcCanon(inspect string) string {
	if inspect == "" {
		return "n"
	}
	if strings.HasPrefix(inspect, "func") {
		m := dcReturnRe.FindAllStringSubmatch(inspect, -1)
		if len(m) == 0 {
			return "f?"
		}
		return "f" + m[len(m)-1][1]
	}
	if _, err := strconv.Atoi(inspect); err == nil {
		return "i" + inspect
	}
	return "?" + inspect
}

func c18RunDecls(e *Env, env *c18Env, s *dcSession) {
	var srcs, models []string
	for _, p := range s.pieces {
		srcs, models = append(srcs, p.src()), append(models, p.model())
	}
	probes := []int{0, 1, 2, 3, 4, 9}
	probeName := map[int]string{9: dcUndef}
	for i, n := range dcNames {
		probeName[i] = n
	}
	text := "declaration session\n" + strings.Join(srcs, "\n----\n")
	rep := strings.Split(e.O.Ask("C18", "decl", "50", "0.1.2.3.4.9", strings.Join(models, "|")), "\t")
	var impl, spec []dcSnap
	okRep := len(rep) == 3 && rep[0] == "ok"
	if okRep {
		var o1, o2 bool
		impl, o1 = dcParse(rep[1], probes)
		spec, o2 = dcParse(rep[2], probes)
		okRep = o1 && o2 && len(impl) == len(srcs) && len(spec) == len(srcs)
	}
	if !okRep {
		e.R.Case(text, false)
		e.R.Mismatch(text, strings.Join(models, "|"), strings.Join(rep, " "), "oracle did not answer the decl request")
		return
	}
	nRej, rejAfterAcc, single := 0, false, false
	anyAcc := false
	for i, p := range s.pieces {
		if spec[i].ok {
			anyAcc = true
			continue
		}
		nRej++
		e.R.H("decl_rejected_shape", p.tag)
		if anyAcc {
			rejAfterAcc = true
			if len(p.stmts) == 1 && p.stmts[0].k == 'f' {
				single = true
			}
		}
		if p.tag == "accepted" {
			e.R.H("decl_sessions", "the model rejects a piece the generator meant to be accepted")
		}
	}
	e.R.Case(text, len(srcs) >= 3 && rejAfterAcc)
	e.R.H("history_kind", "declarations: "+s.tag)
	e.R.H("decl_sessions", fmt.Sprintf("rejected pieces: %d", nRej))
	if single {
		e.R.H("decl_sessions", "a piece that is ONE func declaration of a name an earlier piece defined")
	}
	names := append([]string{}, dcNames...)
	env.names = names
	env.recTabs = true
	real := env.incremental(srcs, names, true)
	env.recTabs = false
	mismatch, specDiff := "", ""
	setM := func(d string) {
		if mismatch == "" {
			mismatch = d
		}
	}
	setS := func(d string) {
		if specDiff == "" {
			specDiff = d
		}
	}
	cls := func(ok bool) string {
		if ok {
			return "ok"
		}
		return "compile"
	}
	var accReal []string
	for i, r := range real {
		one := c18OneLine(srcs[i])
		if want := cls(impl[i].ok); r.Class != want {
			setM(fmt.Sprintf("piece %d `%s`: %s %s, the model: %s", i, one, r.Class, c18_firstLine(r.Err), want))
		}
		// no model involved: the piece against the real whole program of the accepted pieces so far followed by it
		if r.Class == "ok" || r.Class == "compile" {
			w := env.wholeEval(strings.Join(append(append([]string{}, accReal...), srcs[i]), "\n"))
			if (w.Class == "compile") != (r.Class == "compile") && (w.Class == "ok" || w.Class == "compile") {
				setS(fmt.Sprintf("piece %d `%s` is %s %s; the accepted pieces before it followed by this piece, compiled as ONE program: %s %s",
					i, one, r.Class, c18_firstLine(r.Err), w.Class, c18_firstLine(w.Err)))
			}
		}
		if want := cls(spec[i].ok); r.Class != want {
			setS(fmt.Sprintf("piece %d `%s`: %s %s; the Spec (the program of the accepted pieces followed by this piece): %s", i, one, r.Class, c18_firstLine(r.Err), want))
		}
		if specDiff != "" {
			break
		}
		if r.Class == "ok" {
			accReal = append(accReal, srcs[i])
		}
		inTable := map[string]bool{}
		for _, n := range r.CNames {
			inTable[n] = true
		}
		for which, sn := range []dcSnap{impl[i], spec[i]} {
			diff := ""
			for _, k := range probes {
				n := probeName[k]
				m := sn.names[k]
				if r.CNames != nil && inTable[n] != (m != "-") {
					diff = fmt.Sprintf("after piece %d `%s`: the root symbol table holds %s: %v, expected %v", i, one, n, inTable[n], m != "-")
					break
				}
				want := "n"
				if m != "-" {
					want = m[1:]
				}
				if got := dcCanon(r.Globals[n]); got != want {
					diff = fmt.Sprintf("after piece %d `%s`: global %s = %s (vm.Get), expected %s", i, one, n, c18_orUndef(r.Globals[n]), want)
					break
				}
			}
			st := s.pieces[i].stmts
			if diff == "" && r.Class == "ok" && st[len(st)-1].k == 'u' && len(sn.vals) > 0 {
				want := sn.vals[len(sn.vals)-1]
				if want == "n" {
					want = "nil"
				}
				if r.Value != want {
					diff = fmt.Sprintf("piece %d `%s`: value %s, expected %s", i, one, r.Value, want)
				}
			}
			if diff != "" {
				if which == 0 {
					setM(diff)
				} else {
					setS(diff + " (the accepted pieces so far as one program)")
				}
			}
		}
	}
	// the real whole program of the accepted pieces against the real session
	if specDiff == "" && mismatch == "" && len(accReal) > 0 {
		w := env.wholeEval(strings.Join(accReal, "\n"))
		last := real[len(real)-1]
		if w.Class != "ok" {
			setS(fmt.Sprintf("every piece of the session was accepted or rejected like the program so far, but the accepted pieces as ONE program: %s %s", w.Class, c18_firstLine(w.Err)))
		} else {
			if real[len(real)-1].Class == "ok" && last.Value != w.Value {
				st := s.pieces[len(real)-1].stmts
				if st[len(st)-1].k == 'u' {
					setS(fmt.Sprintf("value of the last piece %s, of the whole program %s", last.Value, w.Value))
				}
			}
			for _, n := range names {
				if dcCanon(last.Globals[n]) != dcCanon(w.Globals[n]) {
					setS(fmt.Sprintf("after the last piece global %s = %s, after the whole program %s", n, c18_orUndef(last.Globals[n]), c18_orUndef(w.Globals[n])))
					break
				}
			}
		}
	}
	if mismatch != "" {
		e.R.Mismatch(text, mismatch, rep[1], "real session vs Lean declarations model (declImpl: dPass1, dPass2; redeclared_function_rejected, redeclared_name_rejected)")
	}
	if specDiff != "" {
		e.R.Spec(text, specDiff, "")
		e.R.H("decl_spec", "violated")
	} else {
		e.R.H("decl_spec", "holds")
	}
}

// ---- directed sessions: the smallest histories of each kind first

func c18DeclsDirected() []*dcSession {
	v := func(n string, x int) dcStmt { return dcStmt{k: 'v', name: n, v: x} }
	c := func(n string, x int) dcStmt { return dcStmt{k: 'c', name: n, v: x} }
	f := func(n string, x int, refs ...string) dcStmt { return dcStmt{k: 'f', name: n, v: x, refs: refs} }
	a := func(n string, x int) dcStmt { return dcStmt{k: 's', name: n, v: x} }
	u := func(n string) dcStmt { return dcStmt{k: 'u', name: n} }
	P := func(tag string, ss ...dcStmt) *dcPiece { return &dcPiece{stmts: ss, tag: tag} }
	A := func(ss ...dcStmt) *dcPiece { return P("accepted", ss...) }
	mk := func(tag string, ps ...*dcPiece) *dcSession { return &dcSession{pieces: ps, tag: "directed: " + tag} }
	return []*dcSession{
		mk("a one-statement piece declares a function over a CONSTANT of an earlier piece",
			A(c("ya", 5)), P("`func` over a constant, piece of 1 statement(s)", f("ya", 7)), A(u("ya"))),
		mk("a one-statement piece declares a function over a FUNCTION of an earlier piece",
			A(f("ya", 5)), A(u("ya")), P("`func` over a function, piece of 1 statement(s)", f("ya", 7)), A(u("ya"))),
		mk("a one-statement piece declares a function over a VARIABLE of an earlier piece",
			A(v("ya", 5)), P("`func` over a variable, piece of 1 statement(s)", f("ya", 7)), A(a("ya", 6)), A(u("ya"))),
		mk("a one-statement piece declares a function over a HOST-supplied name",
			P("`func` over a host-supplied name, piece of 1 statement(s)", f(dcHost, 7)), A(v("ya", 1)),
			P("`func` over a host-supplied name, piece of 1 statement(s)", f(dcHost, 7)), A(u("ya"))),
		mk("the same redeclaration inside a piece of two statements, first and last",
			A(c("ya", 5)), P("`func` over a constant, piece of 2 statement(s)", f("ya", 7), v("yb", 1)),
			P("`func` over a constant, piece of 2 statement(s)", v("yb", 1), f("ya", 7)), A(v("yb", 2), u("ya")), A(u("yb"))),
		mk("the redeclaring piece is the FIRST input after a rejected one, and the last of the session",
			A(f("ya", 5, "yb"), f("yb", 6)), P("undefined name, piece of 1 statement(s)", u(dcUndef)),
			P("`func` over a function, piece of 1 statement(s)", f("yb", 7)), A(u("yb")), P("`func` over a function, piece of 1 statement(s)", f("ya", 8))),
		mk(":= and const over a function, a constant, a variable",
			A(f("ya", 5)), A(c("yb", 6)), A(v("yc", 7)),
			P("`:=` over a function, piece of 1 statement(s)", v("ya", 1)), P("`const` over a function, piece of 1 statement(s)", c("ya", 1)),
			P("`:=` over a constant, piece of 1 statement(s)", v("yb", 1)), P("`const` over a variable, piece of 1 statement(s)", c("yc", 1)),
			A(u("ya"), u("yb"), u("yc"))),
		mk("forward reference inside a piece; the same reference across pieces is rejected",
			P("function whose body names an undefined variable, piece of 1 statement(s)", f("ya", 5, "yb")),
			A(f("ya", 5, "yb"), f("yb", 6), u("ya")), A(u("yb"))),
		mk("a function is used before its declaration in the same piece (reads nil), then after",
			A(u("ya"), f("ya", 5), u("ya")), A(u("ya"))),
		mk("a name declared twice in one piece",
			P("a fresh name declared twice in one piece (one of them by func)", f("ya", 5), f("ya", 6)),
			P("a fresh name declared twice in one piece (one of them by func)", v("ya", 5), f("ya", 6)),
			A(f("ya", 7)), A(u("ya"))),
		mk("assignment to a function and to a constant",
			A(f("ya", 5), c("yb", 6)), P("assignment to a function, piece of 1 statement(s)", a("ya", 1)),
			P("assignment to a constant, piece of 1 statement(s)", a("yb", 1)), A(u("ya"), u("yb"))),
	}
}

func c18Decls(e *Env, env *c18Env) {
	for _, s := range c18DeclsDirected() {
		c18RunDecls(e, env, s)
	}
	n := 400
	if !e.Quick {
		n = 5000
	}
	r := e.Rng.Fork()
	for i := 0; i < n; i++ {
		c18RunDecls(e, env, c18GenDecls(r.Fork()))
	}
}
