package main

// C20 / C01 — the lexer/parser bridge: correspondence for the theorems of
// lean/RisorModel/C20/BridgeProps.lean (`lex_spell_tokens`, `parse_lex_renderSrc`,
// `parse_lex_layout`) and for the ADAPTER `toToken` of Bridge.lean.
//
// The theorems say, over the lexer model and the Pratt parser model: the source text
// `renderSrc e` of an expression tree (the spellings of its rendered tokens joined by single
// spaces; or by any well-formed gaps: blanks, then any number of block comments) lexes back to exactly
// the rendered tokens and therefore parses back to `e`.  The adapter converts the lexer model's
// output (token type string + literal bytes) into the parser model's tokens.  Checked here, on
// every expression tree (request `C20 bridge`):
//
//   (a) adapter:  Lean `toTokens (lexOuts text)` on the harness's own text of the tree ==
//                 the conversion harness/c01parse.go applies to the REAL lexer's tokens of that
//                 text (c01parseLex: Hex(Type):Hex(Literal), EOF dropped)      else Mismatch
//   (b) spelling: the REAL lexer on Lean's `renderSrc tree` yields the same tokens as on the
//                 harness's text of the tree (types and literals)               else Mismatch
//                 and the REAL parser on Lean's `renderSrc tree` returns the tree    else Spec
//   (c) theorem instance: Lean's own verdicts exprOK, unnested, lexTokens (renderSrc tree) =
//                 renderTop tree, parseExpr of it = tree are all 1              else Mismatch
//   (d) layout:   the REAL lexer on Lean's `spellWith (renderTop tree) gaps` (random well-formed
//                 gaps) yields the same tokens, the REAL parser returns the tree (else Spec), and
//                 the adapter on that text agrees with the real tokens (else Mismatch)
//
// c20bridgeAdapter is also called by c01parse.go on every text of the C01 parser stream.

import (
	"fmt"
	"strings"
)

var c20bridgeNames = []string{"a", "b", "c", "x", "y", "f", "g", "xs", "n1", "_", "_x", "a1_b", "As", "inn", "nott",
	"true1", "nil_", "Z9", "__init__", "fals", "iff", "asx", "longer_identifier_42"}

var c20bridgeStrings = []string{"", "a", "bc", "x y", "risor", "a\"b", "tab\there", "nl\n", "cr\r\n", "back\\slash", "é",
	"日本語", "\x00", "\x07bell", "😀 ok", "'", "`", "/* c */", "// x", "# h", "\x1b[0m", "\v\f\b", "q\\\"", "\\n", "{x}",
	"​", "ß→∀", " ", "\t"}

var c20bridgeInts = []int64{0, 1, 7, 10, 42, 99, 100, 1234567890123, 9223372036854775807}

// c20bridgeEnrich: the same tree with leaves drawn from wider pools (identifier shapes, string
// values needing every escape of `spellChar` and non-ASCII runes, integer widths).
func c20bridgeEnrich(r *RNG, x *N) *N {
	y := &N{K: x.K, S: x.S, I: x.I}
	switch x.K {
	case "id":
		if r.Chance(60) {
			y.S = Pick(r, c20bridgeNames)
		}
	case "str":
		if r.Chance(80) {
			y.S = Pick(r, c20bridgeStrings)
		}
	case "int":
		if r.Chance(50) {
			y.I = Pick(r, c20bridgeInts)
		}
	case "mcall":
		if r.Chance(40) {
			y.S = Pick(r, c20bridgeNames)
		}
	}
	for _, c := range x.C {
		y.C = append(y.C, c20bridgeEnrich(r, c))
	}
	return y
}

func c20bridgeBlanks(r *RNG, min int) string {
	var sb strings.Builder
	for n := min + r.Intn(3); n > 0; n-- {
		if r.Chance(30) {
			sb.WriteByte('\t')
		} else {
			sb.WriteByte(' ')
		}
	}
	return sb.String()
}

var c20bridgeBodies = []string{"", " c ", "x", "* x", "**", " a + b ", " \"q\" ", "é", " // not a line comment ", " # ", "\n", " /* open", "*",
	"/", "/ a ", "/*", "//", "/ * /", "* /", "/\n"}

// c20bridgeGaps: n well-formed gaps in the oracle's encoding.
func c20bridgeGaps(r *RNG, n int) string {
	if n <= 0 {
		return "-"
	}
	items := make([]string, n)
	for i := range items {
		if r.Chance(40) { // blanks, then 1..4 block comments, each followed by (possibly no) blanks
			items[i] = "c" + Hex(c20bridgeBlanks(r, 1))
			for n := 1 + r.Intn(2)*r.Intn(4); n > 0; n-- {
				items[i] += "." + Hex(Pick(r, c20bridgeBodies)) + "." + Hex(c20bridgeBlanks(r, 0))
			}
		} else {
			items[i] = "b" + Hex(c20bridgeBlanks(r, 1))
		}
	}
	return strings.Join(items, ",")
}

// c20bridgeAdapter compares, for each text, the adapter applied to the lexer model's output with
// the conversion of the real lexer's tokens (realToks[i] = c01parseLex(srcs[i]), "" = empty).
func c20bridgeAdapter(e *Env, srcs, realToks []string, what string) {
	if len(srcs) == 0 {
		return
	}
	reqs := make([]string, len(srcs))
	for i, s := range srcs {
		reqs[i] = "C20\tbridge\t" + Hex(s) + "\t-\t-"
	}
	reps := e.O.AskBatch(reqs)
	for i, rep := range reps {
		f := strings.Split(rep, "\t")
		switch {
		case f[0] == "unsupported":
			e.R.H("bridge_adapter", what+": outside the lexer model (skipped)")
		case f[0] != "ok" || len(f) < 2:
			e.R.H("bridge_adapter", what+": oracle error")
			e.R.Mismatch(srcs[i], realToks[i], rep, "C20 bridge request failed")
		case f[1] != cleanField(realToks[i]):
			e.R.H("bridge_adapter", what+": differs")
			e.R.Mismatch(srcs[i], realToks[i], f[1], "adapter: conversion of the real lexer's tokens vs Lean toTokens (lexOuts src)")
		default:
			e.R.H("bridge_adapter", what+": same tokens")
		}
	}
}

func c20bridgeClasses(e *Env, t *N) {
	Walk(t, func(y *N, _ []*N) {
		switch y.K {
		case "str":
			cls := "plain ASCII"
			for _, c := range y.S {
				if c >= 0x80 {
					cls = "non-ASCII"
					break
				}
				if c < 0x20 || c == '"' || c == '\\' || c == 0x7f {
					cls = "needs an escape"
				}
			}
			if y.S == "" {
				cls = "empty"
			}
			e.R.H("bridge_string_values", cls)
		case "id":
			e.R.H("bridge_identifiers", fmt.Sprintf("len %d", len(y.S)))
		case "int":
			e.R.H("bridge_int_digits", fmt.Sprintf("%d digits", len(fmt.Sprint(y.I))))
		}
	}, nil)
}

func c20Bridge(e *Env, rng *RNG) {
	e.R.Rule += "; BRIDGE (c20bridge.go): random expression trees of the core (C01's c01parseGen, leaves enriched: identifier " +
		"shapes, string values needing every escape and non-ASCII runes, integer widths): the adapter on the harness text vs the " +
		"real lexer's tokens; the real lexer and parser on Lean's renderSrc and on Lean's spellWith with random well-formed gaps " +
		"(blanks, then any number of block comments with blanks between them); distinct by text + gaps, non-trivial when the tree has >= 2 operators"
	nTrees := 400
	if !e.Quick {
		nTrees = 6000
	}
	g := &c01parseGen{r: rng.Fork()}
	r := rng.Fork()
	type item struct {
		t          *N
		text, toks string
		nTok       int
		sexp, gaps string
	}
	var items []item
	var reqs []string
	seen := map[string]bool{}
	for i := 0; i < nTrees; i++ {
		t := g.expr(1+g.r.Intn(6), false)
		if !c01parseCore(t) {
			continue
		}
		t = c20bridgeEnrich(r, t)
		text := c01parseRender(t, 1, 1, nil)
		toks, nTok, err := c20wLex(e, text)
		if err != nil {
			e.R.Mismatch(text, "lexer error: "+err.Error(), "-", "real lexer rejects the rendering of an expression tree")
			continue
		}
		gaps := c20bridgeGaps(r, nTok-1-r.Intn(2))
		if seen[text+"|"+gaps] {
			e.R.H("bridge_cases", "duplicate (skipped)")
			continue
		}
		seen[text+"|"+gaps] = true
		items = append(items, item{t: t, text: text, toks: toks, nTok: nTok, sexp: Sexp(t), gaps: gaps})
		reqs = append(reqs, "C20\tbridge\t"+Hex(text)+"\t"+Sexp(t)+"\t"+gaps)
	}
	reps := e.O.AskBatch(reqs)
	var laySrcs, layToks []string
	for i, it := range items {
		f := strings.Split(reps[i], "\t")
		ops := 0
		Walk(it.t, func(y *N, _ []*N) {
			if c01parseOpName(y) != "" {
				ops++
			}
		}, nil)
		e.R.Case("bridge:"+it.text+"|"+it.gaps, ops >= 2)
		e.R.H("bridge_tokens", fmt.Sprintf("%02d-%02d", it.nTok/10*10, it.nTok/10*10+9))
		c20bridgeClasses(e, it.t)
		if f[0] != "ok" || len(f) < 6 {
			e.R.H("bridge_cases", "oracle: "+f[0])
			e.R.Mismatch(it.text, it.toks, reps[i], "C20 bridge request failed on a core expression")
			continue
		}
		e.R.H("bridge_cases", "checked")
		// (a) the adapter on the harness's text
		if f[1] != cleanField(it.toks) {
			e.R.H("bridge_adapter", "tree text: differs")
			e.R.Mismatch(it.text, it.toks, f[1], "adapter: conversion of the real lexer's tokens vs Lean toTokens (lexOuts src)")
		} else {
			e.R.H("bridge_adapter", "tree text: same tokens")
		}
		// (b) Lean's source text of the tree through the real lexer and parser
		leanSrc := UnHex(f[2])
		toks2, _, err := c20wLex(e, leanSrc)
		switch {
		case err != nil:
			e.R.H("bridge_renderSrc_lex", "real lexer error")
			e.R.Mismatch(leanSrc, "lexer error: "+err.Error(), it.toks, "real lexer rejects Lean's renderSrc of the tree")
		case toks2 != it.toks:
			e.R.H("bridge_renderSrc_lex", "differs")
			e.R.Mismatch(leanSrc, toks2, it.toks, "real lexer on Lean's renderSrc vs real lexer on the harness text of the same tree (spell)")
		default:
			e.R.H("bridge_renderSrc_lex", "same tokens as the harness text")
		}
		if real := c20wReal(e, leanSrc); real != it.sexp {
			e.R.H("bridge_renderSrc_parse", "real parser returns another tree")
			e.R.Spec(leanSrc, "the real lexer + parser read the canonical source text of "+c01parseShow(it.sexp)+" as "+c01parseShow(real)+
				" (parse_lex_renderSrc proves the models return the tree)", "")
		} else {
			e.R.H("bridge_renderSrc_parse", "real parser returns the tree")
		}
		// (c) the theorem's instance as evaluated by Lean
		if f[3] != "1,1,1,1" {
			e.R.H("bridge_theorem_instance", "flags "+f[3])
			e.R.Mismatch(it.text, "exprOK,unnested,lex,parse = 1,1,1,1", f[3], "Lean evaluates an instance of parse_lex_renderSrc to false, or the generator left the theorem's domain")
		} else {
			e.R.H("bridge_theorem_instance", "exprOK, unnested, lex, parse all hold")
		}
		// (d) layout
		if it.gaps != "-" && f[4] != "-" {
			laySrc := UnHex(f[4])
			if f[5] != "1" {
				e.R.Mismatch(it.gaps, "well-formed gaps", "Gap.ok = false", "the harness's gaps are not the theorem's gaps")
			}
			toks3, _, err := c20wLex(e, laySrc)
			switch {
			case err != nil:
				e.R.H("bridge_layout_lex", "real lexer error")
				e.R.Mismatch(laySrc, "lexer error: "+err.Error(), it.toks, "real lexer rejects Lean's spellWith text")
			case toks3 != it.toks:
				e.R.H("bridge_layout_lex", "differs")
				e.R.Spec(laySrc, "blanks / block comments in the gaps change the token stream: "+toks3+" instead of "+it.toks, "")
			default:
				e.R.H("bridge_layout_lex", "same tokens")
				laySrcs = append(laySrcs, laySrc)
				layToks = append(layToks, toks3)
			}
			if real := c20wReal(e, laySrc); real != it.sexp {
				e.R.H("bridge_layout_parse", "real parser returns another tree")
				e.R.Spec(laySrc, "layout changes the syntax tree: "+c01parseShow(real)+" instead of "+c01parseShow(it.sexp), "")
			} else {
				e.R.H("bridge_layout_parse", "real parser returns the tree")
			}
			if strings.Contains(","+it.gaps, ",c") {
				e.R.H("bridge_layout_gaps", "with block comments")
				most := 0
				for _, g := range strings.Split(it.gaps, ",") {
					if n := strings.Count(g, ".") / 2; n > most {
						most = n
					}
				}
				e.R.H("bridge_layout_comments_per_gap(max)", fmt.Sprint(most))
			} else {
				e.R.H("bridge_layout_gaps", "blanks only")
			}
		}
	}
	// the adapter (and the lexer model) on the laid-out texts
	c20bridgeAdapter(e, laySrcs, layToks, "layout text")
}
