package main

// C09, fourth part — "import" schedules: evaluations on their own VMs (own globals, own context)
// that share ONE importer (LocalImporter / FSImporter: documented as safe to share), where the
// context of an evaluation may END exactly while that evaluation's import statement is inside
// Importer.Import (a per-evaluation wrapper around the shared importer calls the evaluation's own
// cancel() when the evaluation's last import arrives, then delegates: the parser polls ctx.Done()
// before every top-level statement of the module).  The source tree holds modules that load, modules
// that do not compile and names without a file.  Model §7 (`imps`): the importer keeps compiled code
// only; the outcome of a load under the caller's context belongs to that call.
//
// Reference for evaluation k = k ALONE with a fresh importer of the same kind, and the Lean importer
// model.  "ordered" schedules force the order in which the Import calls of the concurrently running
// evaluations enter the shared importer (a sequencer inside the wrappers), so the real outcome of
// EVERY import is compared with the model's; "free" schedules let the goroutines race.
//
// Spec (ImpOK): an import under a context that stays live gets what it gets alone; only an import
// whose OWN context ended may report that (or get a module that somebody else finished loading).

import (
	"context"
	"errors"
	"fmt"
	"os"
	"path/filepath"
	"strconv"
	"strings"
	"sync"
	"time"

	"github.com/risor-io/risor"
	"github.com/risor-io/risor/importer"
	"github.com/risor-io/risor/object"
)

// module ids: 0..5 load (export value 100+id), 6..7 do not compile, 8..9 have no file
const c09ImpGood, c09ImpBroken, c09ImpAll = 6, 8, 10

func c09ImpName(m int) string {
	switch {
	case m < c09ImpGood:
		return fmt.Sprintf("g%d", m)
	case m < c09ImpBroken:
		return fmt.Sprintf("b%d", m)
	}
	return fmt.Sprintf("n%d", m)
}

// the source tree in the vocabulary of the model (0 missing, 1 does not compile, v+2 exports v)
func c09ImpFs() string {
	var xs []string
	for m := 0; m < c09ImpBroken; m++ {
		if m < c09ImpGood {
			xs = append(xs, fmt.Sprintf("%d=%d", m, 100+m+2))
		} else {
			xs = append(xs, fmt.Sprintf("%d=1", m))
		}
	}
	return strings.Join(xs, ";")
}

func c09ImpWriteTree(dir string) error {
	for m := 0; m < c09ImpBroken; m++ {
		src := fmt.Sprintf("value := %d\nfunc twice(x) { return x * 2 }\nlabel := \"%s\"\n", 100+m, c09ImpName(m))
		if m >= c09ImpGood {
			src = fmt.Sprintf("value := %d\nfunc twice(x) { return x * }\n", 100+m)
		}
		if err := os.WriteFile(filepath.Join(dir, c09ImpName(m)+".risor"), []byte(src), 0o644); err != nil {
			return err
		}
	}
	return nil
}

type c09ImpEval struct {
	Mods []int  // modules imported, in order (distinct; one that cannot be loaded only as the last)
	End  string // "" | "cancel": its own context is cancelled when its LAST import is inside Importer.Import
}

func (v c09ImpEval) String() string {
	var xs []string
	for _, m := range v.Mods {
		xs = append(xs, c09ImpName(m))
	}
	s := "imports " + strings.Join(xs, ",")
	if v.End != "" {
		s += "; own context cancelled while the import of " + xs[len(xs)-1] + " is inside Importer.Import"
	}
	return s
}

func (v c09ImpEval) src() string {
	var b strings.Builder
	var vals []string
	for _, m := range v.Mods {
		fmt.Fprintf(&b, "import %s\n", c09ImpName(m))
		vals = append(vals, fmt.Sprintf("string(%s.value)", c09ImpName(m)))
	}
	b.WriteString(strings.Join(vals, " + \"|\" + "))
	return b.String()
}

// what the evaluation returns when every import gets its module
func (v c09ImpEval) allLoaded() string {
	var vals []string
	for _, m := range v.Mods {
		vals = append(vals, strconv.Itoa(100+m))
	}
	return "string:" + strconv.Quote(strings.Join(vals, "|"))
}

func (v c09ImpEval) live(j int) bool { return v.End == "" || j != len(v.Mods)-1 }

type c09ImpSpec struct {
	kind  string // local | fs
	mode  string // ordered | free
	evals []c09ImpEval
	sched []int // the evaluation whose next import enters the importer (ordered: enforced; free: one possible order)
}

func (sp *c09ImpSpec) key() string {
	var es []string
	for k, v := range sp.evals {
		es = append(es, fmt.Sprintf("evaluation %d {%s}", k, v))
	}
	return fmt.Sprintf("import kind=%s mode=%s n=%d order=%v: own VM, globals and context each, ONE shared %s importer over modules g0..g5 (load), b6,b7 (do not compile), n8,n9 (no file): %s",
		sp.kind, sp.mode, len(sp.evals), sp.sched, sp.kind, strings.Join(es, "; "))
}

func (sp *c09ImpSpec) events() string {
	next := make([]int, len(sp.evals))
	var out []string
	for _, k := range sp.sched {
		j := next[k]
		next[k]++
		l := 0
		if sp.evals[k].live(j) {
			l = 1
		}
		out = append(out, fmt.Sprintf("%d:%d:%d", k, sp.evals[k].Mods[j], l))
	}
	return strings.Join(out, ",")
}

// the sequencer of an ordered schedule
type c09ImpSeq struct {
	mu    sync.Mutex
	sched []int
	cur   int
	dead  []bool
}

func (s *c09ImpSeq) skip() {
	for s.cur < len(s.sched) && s.dead[s.sched[s.cur]] {
		s.cur++
	}
}
func (s *c09ImpSeq) wait(k int) bool {
	deadline := time.Now().Add(5 * time.Second)
	for {
		s.mu.Lock()
		s.skip()
		ok := s.cur < len(s.sched) && s.sched[s.cur] == k
		s.mu.Unlock()
		if ok {
			return true
		}
		if time.Now().After(deadline) {
			return false
		}
		time.Sleep(20 * time.Microsecond)
	}
}
func (s *c09ImpSeq) done() {
	s.mu.Lock()
	s.cur++
	s.mu.Unlock()
}
func (s *c09ImpSeq) finished(k int) {
	s.mu.Lock()
	s.dead[k] = true
	s.mu.Unlock()
}

type c09ImpWrap struct {
	inner  importer.Importer
	k      int
	ev     c09ImpEval
	cancel context.CancelFunc
	seq    *c09ImpSeq
	n      int
	outs   []string // class of every answer of the shared importer: ok | notfound | compile | ctx, plus the error text
	stall  bool
}

func c09ImpClass(err error) string {
	switch {
	case err == nil:
		return "ok"
	case errors.Is(err, context.Canceled) || errors.Is(err, context.DeadlineExceeded) || strings.Contains(err.Error(), "context canceled"):
		return "ctx"
	case strings.Contains(err.Error(), "not found"):
		return "notfound"
	}
	return "compile"
}

func (w *c09ImpWrap) Import(ctx context.Context, name string) (*object.Module, error) {
	j := w.n
	w.n++
	if w.seq != nil {
		if !w.seq.wait(w.k) {
			w.stall = true
		}
		defer w.seq.done()
	}
	if w.ev.End == "cancel" && j == len(w.ev.Mods)-1 {
		w.cancel()
	}
	m, err := w.inner.Import(ctx, name)
	out := c09ImpClass(err)
	if err != nil {
		out += " (" + err.Error() + ")"
	}
	w.outs = append(w.outs, out)
	return m, err
}

func c09ImpNew(kind, dir string, names []string) importer.Importer {
	if kind == "fs" {
		return importer.NewFSImporter(importer.FSImporterOptions{SourceFS: os.DirFS(dir), GlobalNames: names, Extensions: []string{".risor"}})
	}
	return importer.NewLocalImporter(importer.LocalImporterOptions{SourceDir: dir, GlobalNames: names, Extensions: []string{".risor"}})
}

type c09ImpOut struct {
	res   string
	outs  []string
	stall bool
}

// c09ImpRun: only >= 0 — that evaluation alone with a fresh importer; else all of them, concurrently,
// through one importer
func c09ImpRun(sp *c09ImpSpec, dir string, names []string, only int) []c09ImpOut {
	shared := c09ImpNew(sp.kind, dir, names)
	out := make([]c09ImpOut, len(sp.evals))
	var seq *c09ImpSeq
	if only < 0 && sp.mode == "ordered" {
		seq = &c09ImpSeq{sched: sp.sched, dead: make([]bool, len(sp.evals))}
	}
	start := make(chan struct{})
	var wg sync.WaitGroup
	for k := range sp.evals {
		if only >= 0 && k != only {
			continue
		}
		wg.Add(1)
		go func(k int) {
			defer wg.Done()
			ctx, cancel := context.WithCancel(context.Background())
			defer cancel()
			w := &c09ImpWrap{inner: shared, k: k, ev: sp.evals[k], cancel: cancel, seq: seq}
			<-start
			res := c09Show(risor.Eval(ctx, sp.evals[k].src(), risor.WithImporter(w)))
			if seq != nil {
				seq.finished(k)
			}
			out[k] = c09ImpOut{res, w.outs, w.stall}
		}(k)
	}
	close(start)
	wg.Wait()
	return out
}

func c09GenImp(r *RNG, i int) c09ImpSpec {
	order := func(sp *c09ImpSpec) {
		var seqs [][]string
		for k, v := range sp.evals {
			var s []string
			for range v.Mods {
				s = append(s, strconv.Itoa(k))
			}
			seqs = append(seqs, s)
		}
		sp.sched = nil
		for _, x := range c09Merge(r, seqs) {
			k, _ := strconv.Atoi(x)
			sp.sched = append(sp.sched, k)
		}
	}
	if i < 6 {
		var sp c09ImpSpec
		switch i {
		case 0, 1: // the smallest form: the first load of a module happens under a context that ends; another evaluation imports it afterwards
			sp = c09ImpSpec{kind: "local", mode: "ordered", evals: []c09ImpEval{{Mods: []int{1}, End: "cancel"}, {Mods: []int{1}}}, sched: []int{0, 1}}
		case 2:
			sp = c09ImpSpec{kind: "local", mode: "ordered", evals: []c09ImpEval{{Mods: []int{0, 2}}, {Mods: []int{0, 2}, End: "cancel"}, {Mods: []int{2, 0}}}, sched: []int{0, 1, 1, 2, 0, 2}}
		case 3: // the ended context meets a module somebody else has loaded
			sp = c09ImpSpec{kind: "local", mode: "ordered", evals: []c09ImpEval{{Mods: []int{3}}, {Mods: []int{3}, End: "cancel"}, {Mods: []int{3}}}, sched: []int{0, 1, 2}}
		case 4: // names without a file and modules that do not compile, asked for again and again
			sp = c09ImpSpec{kind: "local", mode: "ordered", evals: []c09ImpEval{{Mods: []int{0, 8}}, {Mods: []int{8}}, {Mods: []int{6}}, {Mods: []int{0, 6}}}, sched: []int{0, 0, 1, 2, 3, 3}}
		case 5:
			sp = c09ImpSpec{kind: "local", mode: "free", evals: []c09ImpEval{{Mods: []int{4}, End: "cancel"}, {Mods: []int{4}}, {Mods: []int{4, 5}}, {Mods: []int{5}, End: "cancel"}}}
			order(&sp)
		}
		if i == 1 {
			sp.kind = "fs"
		}
		return sp
	}
	sp := c09ImpSpec{kind: Pick(r, []string{"local", "fs"}), mode: Pick(r, []string{"ordered", "ordered", "ordered", "free"})}
	// a small pool of modules, so that evaluations meet in the importer
	np := 1 + r.Intn(3)
	var pool []int
	for len(pool) < np {
		m := r.Intn(c09ImpGood)
		dup := false
		for _, x := range pool {
			dup = dup || x == m
		}
		if !dup {
			pool = append(pool, m)
		}
	}
	n := 2 + r.Intn(4)
	for k := 0; k < n; k++ {
		var v c09ImpEval
		cnt := 1 + r.Intn(len(pool))
		perm := append([]int(nil), pool...)
		for j := 0; j < cnt; j++ {
			x := j + r.Intn(len(perm)-j)
			perm[j], perm[x] = perm[x], perm[j]
		}
		v.Mods = append(v.Mods, perm[:cnt]...)
		switch p := r.Intn(100); {
		case p < 35:
			v.End = "cancel"
		case p < 50: // ends with a module that cannot be loaded
			bad := c09ImpGood + r.Intn(c09ImpAll-c09ImpGood)
			if r.Chance(50) {
				v.Mods[len(v.Mods)-1] = bad
			} else {
				v.Mods = append(v.Mods, bad)
			}
		}
		sp.evals = append(sp.evals, v)
	}
	order(&sp)
	return sp
}

func c09ImpModelClass(v string) string {
	switch v {
	case "0":
		return "notfound"
	case "1":
		return "compile"
	case "2":
		return "ctx"
	}
	return "ok"
}

func c09ImpClasses(outs []string) []string {
	var xs []string
	for _, o := range outs {
		xs = append(xs, strings.SplitN(o, " ", 2)[0])
	}
	return xs
}

// c09RunImportSchedules generates, runs and judges the import schedules (in this process: what is
// compared are results, not race reports; the importer's own state is in the inventory of §2).
func c09RunImportSchedules(e *Env, r *RNG, tmp string, nImp int) {
	dir := filepath.Join(tmp, "impmods")
	if err := os.MkdirAll(dir, 0o755); err != nil {
		e.R.Note("import schedules: %v", err)
		return
	}
	if err := c09ImpWriteTree(dir); err != nil {
		e.R.Note("import schedules: %v", err)
		return
	}
	names := risor.NewConfig().GlobalNames()
	fs := c09ImpFs()
	seen := map[string]bool{}
	for i := 0; i < nImp; i++ {
		sp := c09GenImp(r, i)
		key := sp.key()
		if seen[key] {
			continue
		}
		seen[key] = true
		n := len(sp.evals)
		// does a context end during the FIRST load of a module that a later import (of another evaluation) asks for
		users := map[int]map[int]bool{}
		for k, v := range sp.evals {
			for _, m := range v.Mods {
				if users[m] == nil {
					users[m] = map[int]bool{}
				}
				users[m][k] = true
			}
		}
		meet := false
		for _, u := range users {
			meet = meet || len(u) >= 2
		}
		e.R.Case(key, meet)
		e.R.H("import_schedules", sp.kind+" "+sp.mode)
		e.R.H("import_evaluations", strconv.Itoa(n))

		// the model: the schedule, and every evaluation alone
		events := sp.events()
		rep := e.O.Ask("C09", "imps", "codeOnly", strconv.Itoa(n), fs, events)
		f := strings.Split(rep, "\t")
		if len(f) != 3 || f[0] != "ok" {
			e.R.Mismatch(key, "-", rep, "oracle rejected the import schedule "+events)
			continue
		}
		full, al := strings.Split(f[1], "|"), strings.Split(f[2], "|")
		if len(full) != n || len(al) != n {
			e.R.Mismatch(key, strconv.Itoa(n), rep, "oracle: number of evaluations")
			continue
		}
		model := func(part string) []string {
			kv := strings.SplitN(part, ":", 2)
			if len(kv) != 2 || kv[1] == "-" {
				return nil
			}
			var xs []string
			for _, v := range strings.Split(kv[1], ",") {
				xs = append(xs, c09ImpModelClass(v))
			}
			return xs
		}

		alone := make([]c09ImpOut, n)
		for k := 0; k < n; k++ {
			alone[k] = c09ImpRun(&sp, dir, names, k)[k]
		}
		got := c09ImpRun(&sp, dir, names, -1)

		firstLoadEnded := false
		loaded := map[int]bool{}
		{
			next := make([]int, n)
			for _, k := range sp.sched {
				j := next[k]
				next[k]++
				m := sp.evals[k].Mods[j]
				if !loaded[m] && !sp.evals[k].live(j) && len(users[m]) >= 2 {
					firstLoadEnded = true
				}
				if sp.evals[k].live(j) {
					loaded[m] = true
				}
			}
		}
		if firstLoadEnded {
			e.R.H("import_context_ends_during_first_load_of_shared_module", sp.mode)
		}

		for k := 0; k < n; k++ {
			v := sp.evals[k]
			mFull, mAlone := model(full[k]), model(al[k])
			allLive := v.End == ""
			// Impl model: isolation (import_isolated_live)
			if allLive && strings.Join(mFull, ",") != strings.Join(mAlone, ",") {
				e.R.Mismatch(key, strings.Join(mAlone, ","), strings.Join(mFull, ","), fmt.Sprintf("Impl importer model: evaluation %d (context live) under the schedule differs from alone (%s)", k, events))
			}
			// the evaluation alone vs the model alone
			ac := c09ImpClasses(alone[k].outs)
			if strings.Join(ac, ",") != strings.Join(mAlone, ",") {
				e.R.Mismatch(key, strings.Join(alone[k].outs, ","), strings.Join(mAlone, ","), fmt.Sprintf("evaluation %d {%s} alone with a fresh importer vs the Impl importer model", k, v))
			}
			allOK := true
			for _, c := range mAlone {
				allOK = allOK && c == "ok"
			}
			if allOK && allLive && alone[k].res != v.allLoaded() {
				e.R.Mismatch(key, alone[k].res, v.allLoaded(), fmt.Sprintf("evaluation %d {%s} alone with a fresh importer vs its closed-form result", k, v))
			}
			gc := c09ImpClasses(got[k].outs)
			for _, c := range gc {
				e.R.H("import_outcomes", c)
			}
			if got[k].stall {
				e.R.Mismatch(key, "-", "-", fmt.Sprintf("evaluation %d waited 5 s for its turn in the ordered schedule", k))
			}
			// ordered: the real answer of every Import call vs the model's
			if sp.mode == "ordered" && strings.Join(gc, ",") != strings.Join(mFull, ",") {
				// reported as a Spec violation below when it is one; otherwise the model is wrong about the code
				bad := false
				for j := range gc {
					bad = bad || j >= len(ac) || (gc[j] != ac[j] && !(gc[j] == "ok" && !v.live(j)))
				}
				if !bad && len(gc) == len(ac) {
					e.R.Mismatch(key, strings.Join(got[k].outs, ","), strings.Join(mFull, ","), fmt.Sprintf("evaluation %d {%s} in the ordered schedule vs the Impl importer model (%s)", k, v, events))
				}
			}
			// Spec (ImpOK), on the real answers: every import gets what it gets alone; an import whose own
			// context ended may also get the module
			for j := 0; j < len(gc) || j < len(ac); j++ {
				g, a := "(the import was not reached)", "(the import is not reached)"
				if j < len(gc) {
					g = got[k].outs[j]
				}
				if j < len(ac) {
					a = alone[k].outs[j]
				}
				same := j < len(gc) && j < len(ac) && gc[j] == ac[j]
				if same || (j < len(gc) && !v.live(j) && gc[j] == "ok") {
					continue
				}
				ctxNote := "its own context live"
				if j < len(v.Mods) && !v.live(j) {
					ctxNote = "its own context cancelled during this import"
				}
				mod := "?"
				if j < len(v.Mods) {
					mod = c09ImpName(v.Mods[j])
				}
				e.R.Spec(key, fmt.Sprintf("evaluation %d {%s}: import %d (module %s, %s) through the shared %s importer was answered %q while the other evaluations used the importer (order of Import calls %v); "+
					"alone with a fresh importer it is answered %q; the evaluation returned %q, alone %q",
					k, v, j, mod, ctxNote, sp.kind, g, sp.sched, a, got[k].res, alone[k].res), "")
				break
			}
			if allLive && got[k].res != alone[k].res {
				e.R.Spec(key, fmt.Sprintf("evaluation %d {%s} (own VM, globals and a live context; shared %s importer) returned %q while the other evaluations ran; alone it returns %q",
					k, v, sp.kind, got[k].res, alone[k].res), "")
			}
		}
	}
}
