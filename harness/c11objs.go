package main

// C11 — HOST OBJECTS SHARED BETWEEN CONFIGURATIONS.
//
// The value of a WithGlobalOverride / WithGlobal(s) option is an OBJECT of the host.  A host creates
// a replacement once (a builtin that refuses, logs, …) and installs the SAME object in the
// configuration of every tenant; the configurations differ in what else they deny or override.
// The only state of a builtin a script can follow is its module back-pointer (`__module__`).
//
//   Impl  (Risor.C11.runBuildsO false): Module.Override stores the replacement in the module's
//          table and writes nothing else; no Config.init writes a back-pointer
//          (init_never_writes_back, host_objects_never_written).
//   Spec  (later_build_keeps_accesses + the property's text): every access path of a configuration
//          gives after any number of LATER builds what it gave right after its own build; a script
//          never obtains an object that belongs to another configuration's fresh defaults (or to
//          another tenant's private host module) and never the object registered under a name its
//          configuration removed — also not through `replacement.__module__`.
//
// For every generated scenario the configurations are built for real one after the other (the
// last one optionally by a host callback WHILE a script of the previous configuration runs); after
// every build the globals, every module table and every builtin's `__module__` are compared by
// identity with the model, the access scripts of EVERY configuration built so far are evaluated on
// its Config object and compared with the model at that stage and with their own earlier results,
// and at the end the real object graph of every configuration is walked and Lean's `reach`
// decides whether a foreign module or a removed object is reachable.

import (
	"context"
	"fmt"
	"sort"
	"strconv"
	"strings"

	"github.com/risor-io/risor"
	"github.com/risor-io/risor/object"
)

const (
	c11OPoolBase   = 10
	c11ONestBase   = 60
	c11OSingleBase = 5000
	c11ODfltBase   = 10000
	c11ODfltStep   = 3000
	c11OMaxBuilds  = 4
)

// pool indices
const (
	c11OR0  = 0 // builtin, no module
	c11OR1  = 1 // builtin, no module
	c11OStr = 2 // a string
	c11OLF  = 3 // builtin lib.f (its module is the host's module `lib`)
	c11OLib = 4 // module lib{f,g}
	c11OCb  = 5 // builtin hcb: a host callback that builds the next configuration
	c11OHM  = 6 // c11OHM+k: module hm{f,g,sub{f}} private to build k
)

type c11OOpt struct {
	kind byte // 'g' WithGlobal, 'd' WithoutGlobal, 'o' WithGlobalOverride, 'n' WithoutDefaultGlobals
	name string
	val  int // pool index ('g', 'o')
}

type c11OScen struct {
	kind   string
	builds [][]c11OOpt
	during int // k >= 1: build k is made by the host callback hcb WHILE a script of configuration k-1 runs; 0: none
}

type c11OPool struct {
	objs    []object.Object
	desc    []string
	pending func()
}

func c11ONewPool() *c11OPool {
	p := &c11OPool{}
	add := func(o object.Object, d string) {
		p.objs = append(p.objs, o)
		p.desc = append(p.desc, d)
	}
	add(c11Noop("replacement0"), "builtin replacement0 (no module)")
	add(c11Noop("replacement1"), "builtin replacement1 (no module)")
	add(object.NewString("a host string"), "string")
	lf := c11Noop("f")
	lib := object.NewBuiltinsModule("lib", map[string]object.Object{"f": lf, "g": c11Noop("g")})
	add(lf, "builtin lib.f (module lib)")
	add(lib, "module lib{f,g}")
	add(object.NewBuiltin("hcb", func(ctx context.Context, args ...object.Object) object.Object {
		if p.pending != nil {
			f := p.pending
			p.pending = nil
			f()
		}
		return object.Nil
	}), "builtin hcb (host callback: builds the next configuration)")
	for k := 0; k < c11OMaxBuilds; k++ {
		sub := object.NewBuiltinsModule("sub", map[string]object.Object{"f": c11Noop("f")})
		hm := object.NewBuiltinsModule("hm", map[string]object.Object{"f": c11Noop("f"), "g": c11Noop("g"), "sub": sub})
		add(hm, fmt.Sprintf("module hm{f,g,sub{f}} private to build #%d", k))
	}
	return p
}

func (sc *c11OScen) optText(o c11OOpt) string {
	switch o.kind {
	case 'g':
		return fmt.Sprintf("WithGlobal(%s:=h%d)", o.name, o.val)
	case 'd':
		return fmt.Sprintf("WithoutGlobal(%s)", o.name)
	case 'o':
		return fmt.Sprintf("WithGlobalOverride(%s:=h%d)", o.name, o.val)
	}
	return "WithoutDefaultGlobals"
}

func (sc *c11OScen) buildText(k int) string {
	parts := make([]string, len(sc.builds[k]))
	for i, o := range sc.builds[k] {
		parts[i] = sc.optText(o)
	}
	how := ""
	if sc.during == k && k > 0 {
		how = fmt.Sprintf(" (built by the host callback hcb WHILE a script of #%d runs)", k-1)
	}
	return fmt.Sprintf("#%d[%s]%s", k, strings.Join(parts, " "), how)
}

func (sc *c11OScen) key(p *c11OPool) string {
	var bs []string
	for k := range sc.builds {
		bs = append(bs, sc.buildText(k))
	}
	used := map[int]bool{}
	for _, b := range sc.builds {
		for _, o := range b {
			if o.kind == 'g' || o.kind == 'o' {
				used[o.val] = true
			}
		}
	}
	var hs []string
	for i := range p.objs {
		if used[i] {
			hs = append(hs, fmt.Sprintf("h%d=%s", i, p.desc[i]))
		}
	}
	return "shared host objects: " + strings.Join(hs, ", ") + " | " + strings.Join(bs, " then ")
}

// sharesObject: some host builtin is named by the options of at least two builds
func (sc *c11OScen) sharesObject(p *c11OPool) bool {
	by := map[int]map[int]bool{}
	for k, b := range sc.builds {
		for _, o := range b {
			if o.kind == 'g' || o.kind == 'o' {
				if _, isB := p.objs[o.val].(*object.Builtin); isB && o.val != c11OCb {
					if by[o.val] == nil {
						by[o.val] = map[int]bool{}
					}
					by[o.val][k] = true
				}
			}
		}
	}
	for _, ks := range by {
		if len(ks) >= 2 {
			return true
		}
	}
	return false
}

func (sc *c11OScen) options(p *c11OPool, k int) []risor.Option {
	var opts []risor.Option
	for _, o := range sc.builds[k] {
		switch o.kind {
		case 'g':
			opts = append(opts, risor.WithGlobal(o.name, p.objs[o.val]))
		case 'd':
			opts = append(opts, risor.WithoutGlobal(o.name))
		case 'o':
			opts = append(opts, risor.WithGlobalOverride(o.name, p.objs[o.val]))
		default:
			opts = append(opts, risor.WithoutDefaultGlobals())
		}
	}
	if len(opts) == 0 {
		opts = append(opts, risor.WithGlobals(map[string]any{}))
	}
	return opts
}

// throughValue: a proper prefix of the access path spells an option of build k whose value is
// neither a module nor a builtin
func (sc *c11OScen) throughValue(p *c11OPool, k int, a *c11Access) bool {
	path := append([]string{a.first}, a.attrs...)
	for _, o := range sc.builds[k] {
		if (o.kind != 'o' && o.kind != 'g') || c11IdentityKind(p.objs[o.val]) {
			continue
		}
		parts := strings.Split(o.name, ".")
		if len(parts) >= len(path) {
			continue
		}
		same := true
		for i := range parts {
			if parts[i] != path[i] {
				same = false
			}
		}
		if same {
			return true
		}
	}
	return false
}

func (sc *c11OScen) noDefaults(k int) bool {
	for _, o := range sc.builds[k] {
		if o.kind == 'n' {
			return true
		}
	}
	return false
}

// ---------------------------------------------------------------- generator

type c11ONames struct {
	mods    []string            // default modules with at least two builtin members
	members map[string][]string // module -> names of its members that are builtins
	tops    []string            // default top-level builtins
}

func (r *c11Run) objNames() *c11ONames {
	n := &c11ONames{members: map[string][]string{}}
	for _, g := range sortedKeys(r.refGlob) {
		id := r.refGlob[g]
		if t, ok := r.ref.mods[id]; ok {
			var ms []string
			for _, m := range sortedKeys(t) {
				if mid := t[m]; mid > 3 && mid < len(r.ref.ids.objs) {
					if _, isB := r.ref.ids.objs[mid].(*object.Builtin); isB {
						ms = append(ms, m)
					}
				}
			}
			if len(ms) >= 2 && c11IsIdent(g) {
				n.mods = append(n.mods, g)
				n.members[g] = ms
			}
		} else if _, isB := r.ref.ids.objs[id].(*object.Builtin); isB && c11IsIdent(g) {
			n.tops = append(n.tops, g)
		}
	}
	return n
}

func c11OGen(rng *RNG, directed int, nm *c11ONames) *c11OScen {
	D := func(n string) c11OOpt { return c11OOpt{kind: 'd', name: n} }
	O := func(n string, v int) c11OOpt { return c11OOpt{kind: 'o', name: n, val: v} }
	G := func(n string, v int) c11OOpt { return c11OOpt{kind: 'g', name: n, val: v} }
	N := c11OOpt{kind: 'n'}
	has := func(m, a string) bool { return c11Contains(nm.members[m], a) }
	if directed >= 0 && has("os", "exit") && has("os", "getenv") && has("os", "setenv") && has("os", "environ") && has("math", "abs") {
		T := [][][]c11OOpt{
			// the restricted tenant first, then a tenant that installs the same replacement
			{{D("os.getenv"), O("os.exit", c11OR0)}, {O("os.exit", c11OR0)}},
			// the reverse order
			{{O("os.exit", c11OR0)}, {D("os.getenv"), O("os.exit", c11OR0)}},
			// three tenants
			{{D("os.getenv"), D("os.environ"), O("os.exit", c11OR0)}, {O("os.exit", c11OR0)}, {D("os.setenv"), O("os.exit", c11OR0)}},
			// the same replacement under names of different modules
			{{D("os.environ"), O("os.getenv", c11OR0)}, {O("math.abs", c11OR0)}, {D("math.abs"), O("os.getenv", c11OR1)}},
			// private host modules, one shared replacement
			{{N, G("hm", c11OHM), D("hm.g"), O("hm.f", c11OR0)}, {N, G("hm", c11OHM+1), O("hm.f", c11OR0)}},
			// nested member of a private host module beside the defaults
			{{G("hm", c11OHM), D("hm.g"), D("os.getenv"), O("hm.sub.f", c11OR0)}, {G("hm", c11OHM+1), O("hm.sub.f", c11OR0), O("os.exit", c11OR1)}},
			// a top-level replacement (no Module.Override involved) beside a member denial
			{{D("os.getenv"), O("getenv", c11OR0)}, {O("getenv", c11OR0), O("os.getenv", c11OR0)}},
			// the same object as a plain host global and as a replacement
			{{D("os.getenv"), G("hx", c11OR0), O("os.exit", c11OR0)}, {G("hx", c11OR0), O("os.setenv", c11OR0)}},
			// a replacement that belongs to a module of the host
			{{D("os.getenv"), O("os.exit", c11OLF)}, {O("os.exit", c11OLF), G("lib", c11OLib)}},
			// a string and a module as replacements
			{{D("os.getenv"), O("os.exit", c11OStr), O("os.setenv", c11OLib)}, {O("os.exit", c11OStr), O("os.setenv", c11OLib)}},
		}
		sc := &c11OScen{kind: "directed", builds: T[directed%len(T)]}
		if directed >= len(T) {
			// the same template, the last configuration built by a host callback while a script of the
			// previous configuration runs
			sc.kind = "directed, last build during a run"
			sc.during = len(sc.builds) - 1
			prev := sc.during - 1
			bs := make([][]c11OOpt, len(sc.builds))
			copy(bs, sc.builds)
			bs[prev] = append(append([]c11OOpt{}, bs[prev]...), G("hcb", c11OCb))
			sc.builds = bs
		}
		return sc
	}
	sc := &c11OScen{kind: "random"}
	K := 2 + rng.Intn(2)
	m1 := Pick(rng, nm.mods)
	m2 := Pick(rng, nm.mods)
	if rng.Chance(60) {
		m1 = "os"
	}
	member := func() string {
		m := m1
		if rng.Chance(30) {
			m = m2
		}
		return m + "." + Pick(rng, nm.members[m])
	}
	val := func() int {
		switch x := rng.Intn(100); {
		case x < 55:
			return c11OR0
		case x < 75:
			return c11OR1
		case x < 85:
			return c11OLF
		case x < 93:
			return c11OStr
		}
		return c11OLib
	}
	for k := 0; k < K; k++ {
		var b []c11OOpt
		hostMod := rng.Chance(30)
		if hostMod {
			if rng.Chance(50) {
				b = append(b, N)
			}
			b = append(b, G("hm", c11OHM+k))
		}
		n := 1 + rng.Intn(4)
		for i := 0; i < n; i++ {
			switch x := rng.Intn(100); {
			case x < 30:
				b = append(b, D(member()))
			case x < 62:
				b = append(b, O(member(), val()))
			case x < 70 && hostMod:
				b = append(b, D(Pick(rng, []string{"hm.f", "hm.g", "hm.sub.f", "hm.sub"})))
			case x < 80 && hostMod:
				b = append(b, O(Pick(rng, []string{"hm.f", "hm.g", "hm.sub.f"}), val()))
			case x < 86:
				b = append(b, G(Pick(rng, []string{"hx", "hy"}), val()))
			case x < 92 && len(nm.tops) > 0:
				b = append(b, O(Pick(rng, nm.tops), val()))
			case x < 96 && len(nm.tops) > 0:
				b = append(b, D(Pick(rng, nm.tops)))
			default:
				b = append(b, O(member(), c11OR0))
			}
		}
		sc.builds = append(sc.builds, b)
	}
	if rng.Chance(25) {
		sc.kind = "random, last build during a run"
		sc.during = K - 1
		sc.builds[K-2] = append(sc.builds[K-2], G("hcb", c11OCb))
	}
	return sc
}

// ---------------------------------------------------------------- the run

type c11OState struct {
	r        *c11Run
	rg       *c11SReg
	single   map[int]bool // reference ids whose object is the same in every DefaultGlobals() call
	universe []string
}

func (s *c11OState) dfltID(k, refID int) int {
	if refID <= 3 {
		return refID
	}
	if s.single[refID] {
		return c11OSingleBase + refID
	}
	return c11ODfltBase + k*c11ODfltStep + refID
}

func (s *c11OState) describe(id int) string {
	switch {
	case id < 0:
		return "an object nobody registered"
	case id == 1:
		return "nil"
	case id >= c11ODfltBase:
		k, ref := (id-c11ODfltBase)/c11ODfltStep, (id-c11ODfltBase)%c11ODfltStep
		what := "?"
		if ref < len(s.r.ref.ids.objs) && s.r.ref.ids.objs[ref] != nil {
			what = s.r.ref.ids.objs[ref].Inspect()
		}
		return fmt.Sprintf("#%d = the default %s created for configuration #%d", id, what, k)
	case id >= c11OSingleBase:
		return fmt.Sprintf("#%d = a default object shared by all DefaultGlobals() calls", id)
	}
	return s.rg.describe(id)
}

// owner: the build a registered default object was created for (-1: a host object)
func c11OOwner(id int) int {
	if id >= c11ODfltBase {
		return (id - c11ODfltBase) / c11ODfltStep
	}
	return -1
}

// register the default objects of build k found in its globals (by name + fingerprint)
func (s *c11OState) registerDefaults(k int, globals map[string]any) {
	r := s.r
	for _, n := range sortedKeys(globals) {
		o, ok := globals[n].(object.Object)
		if !ok || o == nil {
			continue
		}
		if _, known := s.rg.idOf(o); known {
			continue
		}
		ref, isDefault := r.refGlob[n]
		if !isDefault || ref >= len(r.ref.ids.objs) || r.ref.ids.objs[ref] == nil || c11Fingerprint(o) != c11Fingerprint(r.ref.ids.objs[ref]) {
			continue
		}
		s.rg.put(o, s.dfltID(k, ref), "")
		if m, isMod := o.(*object.Module); isMod {
			t := r.ref.mods[ref]
			for _, a := range c11SModKeys(m) {
				v, ok := c11GetAttr(m, a)
				if !ok {
					continue
				}
				if _, known := s.rg.idOf(v); known {
					continue
				}
				mref, has := t[a]
				if !has || mref >= len(r.ref.ids.objs) || r.ref.ids.objs[mref] == nil || c11Fingerprint(v) != c11Fingerprint(r.ref.ids.objs[mref]) {
					continue
				}
				s.rg.put(v, s.dfltID(k, mref), "")
			}
		}
	}
}

func (s *c11OState) idOfObj(o object.Object) int {
	if o == nil {
		return -1
	}
	if id, ok := s.rg.idOf(o); ok {
		return id
	}
	switch {
	case c11Same(o, object.Nil):
		return 1
	case c11Same(o, object.True):
		return 2
	case c11Same(o, object.False):
		return 3
	}
	return -1
}

// real state: every registered module's table and every registered builtin's __module__
func (s *c11OState) realState() (mods map[int]map[string]int, back map[int]int) {
	mods, back = map[int]map[string]int{}, map[int]int{}
	for id, o := range s.rg.objs {
		switch x := o.(type) {
		case *object.Module:
			t := map[string]int{}
			for _, a := range c11SModKeys(x) {
				if v, ok := c11GetAttr(x, a); ok {
					t[a] = s.idOfObj(v)
				}
			}
			mods[id] = t
		case *object.Builtin:
			if mv, ok := c11GetAttr(x, "__module__"); ok {
				back[id] = s.idOfObj(mv)
			}
		}
	}
	return
}

func c11OEncodeBack(b map[int]int) string {
	if len(b) == 0 {
		return "-"
	}
	ids := make([]int, 0, len(b))
	for id := range b {
		ids = append(ids, id)
	}
	sort.Ints(ids)
	parts := make([]string, len(ids))
	for i, id := range ids {
		parts[i] = strconv.Itoa(id) + "=" + strconv.Itoa(b[id])
	}
	return strings.Join(parts, ",")
}

func c11OParseBack(s string) map[int]int {
	m := map[int]int{}
	if s == "-" || s == "" {
		return m
	}
	for _, it := range strings.Split(s, ",") {
		kv := strings.SplitN(it, "=", 2)
		if len(kv) == 2 {
			a, _ := strconv.Atoi(kv[0])
			b, _ := strconv.Atoi(kv[1])
			m[a] = b
		}
	}
	return m
}

// the fresh default objects of build k in model terms
func (s *c11OState) encodeDefaults(k int) (dflt, newMods, newBack string) {
	r := s.r
	t := map[string]int{}
	for n, ref := range r.refGlob {
		t[n] = s.dfltID(k, ref)
	}
	mods := map[int]map[string]int{}
	for id, mt := range r.ref.mods {
		if s.single[id] {
			continue // a module shared by all DefaultGlobals() calls would be a defect the main stream reports
		}
		nt := map[string]int{}
		for a, m := range mt {
			nt[a] = s.dfltID(k, m)
		}
		mods[s.dfltID(k, id)] = nt
	}
	back := map[int]int{}
	for b, m := range r.ref.back {
		if b <= 3 {
			continue
		}
		back[s.dfltID(k, b)] = s.dfltID(k, m)
	}
	return c11Table(t), c11SEncodeMods(mods), c11OEncodeBack(back)
}

type c11OEval struct {
	k     int // the configuration the script runs under
	a     *c11Access
	src   string
	first string // result right after the configuration's own build ("" = not yet evaluated)
}

// accesses of configuration k: the paths its options name, `__module__` of every replacement and
// what lies behind it, the names it removed by way of a sibling's / a replacement's back-reference
func (s *c11OState) genAccesses(sc *c11OScen, p *c11OPool, k int, nm *c11ONames, rng *RNG, getattrOK bool) []*c11OEval {
	var out []*c11OEval
	seen := map[string]bool{}
	add := func(imp bool, first string, attrs []string) {
		a := &c11Access{imp: imp, first: first, attrs: append([]string{}, attrs...), syntax: make([]bool, len(attrs)), ovIdx: -1}
		for i := range a.syntax {
			a.syntax[i] = rng.Chance(35)
		}
		if imp {
			a.from = rng.Chance(30)
			a.alias = rng.Chance(30)
		}
		src, ok, _ := a.script(getattrOK)
		if !ok || seen[src] {
			return
		}
		seen[src] = true
		out = append(out, &c11OEval{k: k, a: a, src: src})
	}
	var denied, replaced [][]string
	for _, o := range sc.builds[k] {
		switch o.kind {
		case 'd':
			denied = append(denied, strings.Split(o.name, "."))
		case 'o', 'g':
			replaced = append(replaced, strings.Split(o.name, "."))
		}
	}
	// what may lie behind a back-reference: the members this configuration removed, members other
	// configurations removed or replaced, a few members of the same default module
	behind := func(mod string) []string {
		set := map[string]bool{"f": true, "g": true}
		for _, b := range sc.builds {
			for _, o := range b {
				if o.kind == 'd' || o.kind == 'o' {
					ps := strings.Split(o.name, ".")
					set[ps[len(ps)-1]] = true
				}
			}
		}
		if ms := nm.members[mod]; len(ms) > 0 {
			set[Pick(rng, ms)] = true
		}
		// attributes every builtin / module answers itself with a fresh object (builtin.spawn, the
		// __name__ string) are outside the skeleton the model describes
		delete(set, "spawn")
		delete(set, "__name__")
		return sortedKeys(set)
	}
	for _, ps := range denied {
		add(false, ps[0], ps[1:])
		if len(ps) >= 2 {
			add(true, ps[0], ps[1:])
			// through a sibling's back-reference
			if ms := nm.members[ps[0]]; len(ms) > 0 && len(ps) == 2 {
				sib := Pick(rng, ms)
				if sib != ps[1] {
					add(false, ps[0], []string{sib, "__module__", ps[1]})
				}
			}
			// through every replacement this configuration installed
			for _, rp := range replaced {
				add(false, rp[0], append(append([]string{}, rp[1:]...), "__module__", ps[len(ps)-1]))
			}
		}
	}
	for _, ps := range replaced {
		add(false, ps[0], ps[1:])
		if len(ps) >= 2 {
			add(true, ps[0], ps[1:])
		}
		add(false, ps[0], append(append([]string{}, ps[1:]...), "__module__"))
		for _, m := range behind(ps[0]) {
			add(false, ps[0], append(append([]string{}, ps[1:]...), "__module__", m))
		}
		if rng.Chance(50) {
			m := Pick(rng, behind(ps[0]))
			add(false, ps[0], append(append([]string{}, ps[1:]...), "__module__", m, "__module__"))
			add(true, ps[0], append(append([]string{}, ps[1:]...), "__module__", m))
		}
	}
	// random walks over names of all configurations of the scenario
	var firsts []string
	for _, b := range sc.builds {
		for _, o := range b {
			if o.kind != 'n' {
				firsts = append(firsts, strings.Split(o.name, ".")[0])
			}
		}
	}
	for i := 0; i < 4 && len(firsts) > 0; i++ {
		f := Pick(rng, firsts)
		var attrs []string
		for st := 0; st < 1+rng.Intn(4); st++ {
			if rng.Chance(40) {
				attrs = append(attrs, "__module__")
			} else {
				attrs = append(attrs, Pick(rng, behind(f)))
			}
		}
		add(rng.Chance(20), f, attrs)
	}
	return out
}

func (r *c11Run) runObject(rng *RNG, directed int, nm *c11ONames, st *c11OState) {
	e := r.e
	r.nCases++
	p := c11ONewPool()
	sc := c11OGen(rng, directed, nm)
	key := sc.key(p)
	K := len(sc.builds)
	e.R.H("kind", "shared host objects: "+sc.kind)
	e.R.H("obj_builds", strconv.Itoa(K))
	// a fresh registry per scenario: the host's objects first
	st.rg = &c11SReg{ids: map[c11Key]int{}, objs: map[int]object.Object{}, desc: map[int]string{}, next: c11ONestBase}
	rg := st.rg
	for i, o := range p.objs {
		rg.put(o, c11OPoolBase+i, fmt.Sprintf("h%d, %s", i, p.desc[i]))
	}
	for i, o := range p.objs {
		rg.nest(o, fmt.Sprintf("h%d", i), 0)
	}
	mods0, back0 := st.realState()
	nSpec := 0
	spec := func(at, detail string) {
		nSpec++
		if nSpec <= 3 {
			e.R.Spec(key+" AT "+at, detail, "")
		}
	}
	nMis := 0
	mismatch := func(at, goOut, model, what string) {
		nMis++
		if nMis <= 4 {
			e.R.Mismatch(key+" AT "+at, goOut, model, what)
		}
	}
	// ---- the model: both iteration orders of the denylist / overrides maps
	encBuilds := func(rev string) string {
		bs := make([]string, K)
		for k, b := range sc.builds {
			items := make([]string, len(b))
			for i, o := range b {
				switch o.kind {
				case 'g', 'o':
					items[i] = string(o.kind) + ";" + c11Name(o.name) + ";" + strconv.Itoa(c11OPoolBase+o.val)
				case 'd':
					items[i] = "d;" + c11Name(o.name)
				default:
					items[i] = "n"
				}
			}
			is := strings.Join(items, ",")
			if is == "" {
				is = "-"
			}
			d, nmods, nback := "-", "-", "-"
			if !sc.noDefaults(k) {
				d, nmods, nback = st.encodeDefaults(k)
			}
			bs[k] = is + "~" + d + "~" + nmods + "~" + nback + "~" + rev
		}
		return strings.Join(bs, "/")
	}
	// ---- the access scripts of every configuration (drawn before anything is built)
	evals := make([][]*c11OEval, K)
	for k := range sc.builds {
		getattrOK := !sc.noDefaults(k)
		for _, o := range sc.builds[k] {
			if (o.kind == 'd' || o.kind == 'o') && o.name == "getattr" {
				getattrOK = false
			}
		}
		evals[k] = st.genAccesses(sc, p, k, nm, rng, getattrOK)
	}
	// eval item list: every access of configuration j at every stage k >= j
	type item struct{ stage, j, i int }
	var plan []item
	var enc []string
	for stage := 0; stage < K; stage++ {
		for j := 0; j <= stage; j++ {
			for i, ev := range evals[j] {
				plan = append(plan, item{stage, j, i})
				enc = append(enc, strconv.Itoa(stage)+"~"+strconv.Itoa(j)+"~"+ev.a.encode())
			}
		}
	}
	evS := "-"
	if len(enc) > 0 {
		evS = strings.Join(enc, ",")
	}
	ask := func(rev string) (per [][]string, outs []string, ok bool) {
		rep := e.O.Ask("C11", "objseq", "0", c11SEncodeMods(mods0), c11OEncodeBack(back0), encBuilds(rev), evS)
		f := strings.Split(rep, "\t")
		if len(f) != 3 || f[0] != "ok" {
			e.R.Mismatch(key, "-", rep[:min(len(rep), 200)], "oracle rejected the objseq request")
			return nil, nil, false
		}
		for _, it := range strings.Split(f[1], "/") {
			g := strings.Split(it, "~")
			if len(g) != 3 {
				e.R.Mismatch(key, "-", it[:min(len(it), 200)], "malformed objseq reply")
				return nil, nil, false
			}
			per = append(per, g)
		}
		if f[2] != "-" {
			outs = strings.Split(f[2], ",")
		}
		if len(per) != K || len(outs) != len(plan) {
			e.R.Mismatch(key, fmt.Sprintf("%d builds, %d evaluations", K, len(plan)), fmt.Sprintf("%d, %d", len(per), len(outs)), "objseq reply: sizes")
			return nil, nil, false
		}
		return per, outs, true
	}
	per, outs, ok := ask("0")
	if !ok {
		e.R.Case(key, false)
		return
	}
	per2, outs2, ok2 := ask("1")
	orderDependent := !ok2 || strings.Join(outs, ",") != strings.Join(outs2, ",")
	for k := 0; ok2 && k < K; k++ {
		if strings.Join(per[k], "~") != strings.Join(per2[k], "~") {
			orderDependent = true
		}
	}
	if orderDependent {
		e.R.H("obj_order", "outcome depends on the iteration order of denylist/overrides: model comparison skipped")
	} else {
		e.R.H("obj_order", "order-independent")
	}
	modelOut := map[item]string{}
	for i, it := range plan {
		modelOut[it] = outs[i]
	}
	// ---- build for real
	cfgs := make([]*risor.Config, K)
	globs := make([]map[string]any, K)
	deniedFP := make([]map[string]string, K) // per configuration: fingerprint -> removed name
	for k := range sc.builds {
		deniedFP[k] = map[string]string{}
		if sc.noDefaults(k) {
			continue
		}
		for _, o := range sc.builds[k] {
			if o.kind != 'd' {
				continue
			}
			ps := strings.Split(o.name, ".")
			ref, okR := r.refGlob[ps[0]]
			for _, a := range ps[1:] {
				if !okR {
					break
				}
				t, isMod := r.ref.mods[ref]
				if !isMod {
					okR = false
					break
				}
				ref, okR = t[a]
			}
			if okR && ref > 3 && ref < len(r.ref.ids.objs) && r.ref.ids.objs[ref] != nil && c11IdentityKind(r.ref.ids.objs[ref]) {
				if fp := c11Fingerprint(r.ref.ids.objs[ref]); r.refFP[fp] == 1 {
					deniedFP[k][fp] = o.name
				}
			}
		}
	}
	runScript := func(j int, src string) (string, object.Object) {
		res, err := r.eval(src, cfgs[j], nil)
		switch {
		case err != nil:
			if strings.HasPrefix(err.Error(), "PANIC") {
				return "panic: " + err.Error(), nil
			}
			return "n", nil
		case res == nil:
			return "nil-result", nil
		}
		if id := st.idOfObj(res); id >= 0 {
			return strconv.Itoa(id), res
		}
		return "eph", res
	}
	// judge one real result of configuration j at the given stage
	judge := func(it item, ev *c11OEval, got string, res object.Object, how string) {
		at := fmt.Sprintf("script %q under configuration #%d after build #%d%s", ev.src, it.j, it.stage, how)
		cls := "fails"
		if got != "n" {
			cls = "ok"
		}
		e.R.H("obj_eval", fmt.Sprintf("own stage=%v → %s", it.stage == it.j, cls))
		if strings.HasPrefix(got, "panic") || got == "nil-result" {
			spec(at, "the evaluation "+got)
			return
		}
		// Impl
		mo := strings.Split(modelOut[it], ":")
		if len(mo) == 3 && !orderDependent {
			switch {
			case got == "eph" && mo[0] == "n":
				e.R.H("obj_eval", "method of a value (not modelled)")
			case got != "n" && mo[0] == "n" && sc.throughValue(p, it.j, ev.a):
				// the path steps through a replacement that is a plain value (a string): its methods
				// are fresh builtins of the value, outside the skeleton the model describes
				e.R.H("obj_eval", "path through a value replacement (not modelled)")
			case got != mo[0]:
				d := got
				if id, err := strconv.Atoi(got); err == nil {
					d = st.describe(id)
				}
				mismatch(at, d, mo[0], "access outcome under a configuration that shares host objects with others (ids; n = fails)")
			}
			if mo[0] != mo[1] || mo[0] != mo[2] {
				e.R.H("obj_model", "the model itself predicts another result than right after the own build / built alone")
			}
		}
		// Spec 1: never an object of another configuration, never a removed object
		if res != nil {
			if id, err := strconv.Atoi(got); err == nil {
				if ow := c11OOwner(id); ow >= 0 && ow != it.j {
					e.R.H("obj_spec", "script obtained an object of ANOTHER configuration")
					spec(at, fmt.Sprintf("the script obtained %s (%s) — an object of ANOTHER configuration; configuration %s", st.describe(id), res.Inspect(), sc.buildText(it.j)))
				} else if id >= c11OPoolBase+c11OHM && id < c11OPoolBase+c11OHM+c11OMaxBuilds && id-c11OPoolBase-c11OHM != it.j {
					e.R.H("obj_spec", "script obtained another tenant's private host module")
					spec(at, fmt.Sprintf("the script obtained %s, which the host gave to another configuration only", st.describe(id)))
				}
			}
			if c11IdentityKind(res) {
				if nmD, bad := deniedFP[it.j][c11Fingerprint(res)]; bad {
					e.R.H("obj_spec", "script obtained the object registered under a removed name")
					spec(at, fmt.Sprintf("the script obtained %s, the object registered under the name %q that configuration %s removed", res.Inspect(), nmD, sc.buildText(it.j)))
				}
			}
		}
		// Spec 2: a later build changes nothing for this configuration
		if it.stage == it.j {
			ev.first = got
		} else if ev.first != "" && got != ev.first {
			e.R.H("obj_spec", "an access result CHANGED when a later configuration was built")
			d := got
			if id, err := strconv.Atoi(got); err == nil {
				d = st.describe(id)
			}
			f := ev.first
			if id, err := strconv.Atoi(f); err == nil {
				f = st.describe(id)
			}
			spec(at, fmt.Sprintf("the result is %s; right after the configuration's own build it was %s (n = the access fails) — configuration %s was not touched in between, only later configurations were built", d, f, sc.buildText(it.j)))
		} else {
			e.R.H("obj_spec", "unchanged by later builds")
		}
	}
	for k := 0; k < K; k++ {
		pre := map[item]bool{}
		build := func() {
			cfgs[k] = risor.NewConfig(sc.options(p, k)...)
			globs[k] = cfgs[k].Globals()
		}
		built := false
		if sc.during == k && k > 0 && len(evals[k-1]) > 0 {
			// the host callback builds configuration k WHILE a script of configuration k-1 runs; the
			// rest of the script is the first access of configuration k-1
			p.pending = build
			ei := 0
			for i, x := range evals[k-1] {
				if c11Contains(x.a.attrs, "__module__") {
					ei = i
					break
				}
			}
			ev := evals[k-1][ei]
			got, res := runScript(k-1, "hcb()\n"+ev.src)
			built = cfgs[k] != nil
			if built {
				st.registerDefaults(k, globs[k])
				if res != nil && got == "eph" {
					if id := st.idOfObj(res); id >= 0 {
						got = strconv.Itoa(id)
					}
				}
				it := item{k, k - 1, ei}
				judge(it, ev, got, res, " (the build ran inside this script, by the host callback hcb)")
				pre[it] = true
				e.R.H("obj_how", "build by a host callback during a run")
			} else {
				e.R.H("obj_how", "host callback not reached (the script failed before): built directly")
			}
			p.pending = nil
		}
		if !built {
			func() {
				defer func() {
					if pn := recover(); pn != nil {
						spec(fmt.Sprintf("build #%d", k), fmt.Sprintf("building the configuration panicked: %v", pn))
					}
				}()
				build()
			}()
			if cfgs[k] == nil {
				e.R.Case(key, sc.sharesObject(p))
				return
			}
			st.registerDefaults(k, globs[k])
			e.R.H("obj_how", "risor.NewConfig")
		}
		at := fmt.Sprintf("build #%d", k)
		// globals, module tables, back-pointers against the model
		if !orderDependent {
			realG := map[string]int{}
			for n, v := range globs[k] {
				if o, isObj := v.(object.Object); isObj {
					realG[n] = st.idOfObj(o)
				} else {
					realG[n] = -1
				}
			}
			if d := c11SDiff(realG, c11ParseTable(per[k][0]), st.describe); d != "" {
				mismatch(at, d, "the globals Risor.C11.buildO predicts", "cfg.Globals() right after the build")
			}
			realMods, realBack := st.realState()
			wantBack := c11OParseBack(per[k][1])
			bids := make([]int, 0, len(realBack))
			for id := range realBack {
				bids = append(bids, id)
			}
			sort.Ints(bids)
			for _, id := range bids {
				w, has := wantBack[id]
				if !has {
					continue
				}
				if realBack[id] != w {
					e.R.H("obj_backptr", "a back-pointer differs from the model")
					mismatch(at, fmt.Sprintf("%s.__module__ is %s", st.describe(id), st.describe(realBack[id])), st.describe(w), "Builtin.module back-pointer of a registered builtin after the build (Risor.C11.buildO: no build writes an existing back-pointer)")
				} else {
					e.R.H("obj_backptr", "as the model predicts")
				}
			}
			wantMods := c11ParseMods(per[k][2])
			for _, id := range sortedIntKeys(realMods) {
				w, has := wantMods[id]
				if !has {
					continue
				}
				if d := c11SDiff(realMods[id], w, st.describe); d != "" {
					mismatch(at, d, "the table Risor.C11.buildO predicts", "attribute table of module "+st.describe(id)+" after the build")
				}
			}
		}
		// the scripts of every configuration built so far
		for j := 0; j <= k; j++ {
			for i, ev := range evals[j] {
				it := item{k, j, i}
				if pre[it] {
					continue
				}
				got, res := runScript(j, ev.src)
				judge(it, ev, got, res, "")
			}
		}
	}
	// ---- the real object graph of every configuration after all builds: Lean decides reachability
	for j := 0; j < K; j++ {
		gids := c11_newC11Ids()
		w := c11_newC11Walker(gids, st.universe)
		w.walk(globs[j], nil)
		type tgt struct {
			node int
			what string
		}
		var tgts []tgt
		// (objects that the walk did not meet get a node without edges: Lean answers for them too)
		for id, o := range rg.objs {
			if _, isMod := o.(*object.Module); isMod {
				if ow := c11OOwner(id); ow >= 0 && ow != j {
					tgts = append(tgts, tgt{gids.add(o), "a module of ANOTHER configuration: " + st.describe(id)})
				} else if id >= c11OPoolBase+c11OHM && id < c11OPoolBase+c11OHM+c11OMaxBuilds && id-c11OPoolBase-c11OHM != j {
					tgts = append(tgts, tgt{gids.add(o), "another tenant's private host module: " + st.describe(id)})
				}
			} else if ow := c11OOwner(id); ow >= 0 && ow != j && c11IdentityKind(o) {
				if _, bad := deniedFP[j][c11Fingerprint(o)]; bad {
					gids.add(o) // another configuration's instance of a removed default: judged by the fingerprint loop below
				}
			}
		}
		for node, o := range gids.objs {
			if o != nil && c11IdentityKind(o) {
				if nmD, bad := deniedFP[j][c11Fingerprint(o)]; bad {
					tgts = append(tgts, tgt{node, fmt.Sprintf("the object registered under the removed name %q (%s)", nmD, o.Inspect())})
				}
			}
		}
		sort.Slice(tgts, func(a, b int) bool { return tgts[a].node < tgts[b].node })
		e.R.H("obj_graph_targets", c11Bucket(len(tgts)))
		if len(tgts) == 0 {
			continue
		}
		ts := make([]string, len(tgts))
		for i, t := range tgts {
			ts[i] = strconv.Itoa(t.node)
		}
		rep := e.O.Ask("C11", "reach", w.g.encode(), "0", strings.Join(ts, ","))
		f := strings.Split(rep, "\t")
		if len(f) != 2 || f[0] != "ok" || len(f[1]) != len(tgts) {
			e.R.Mismatch(key, "-", rep[:min(len(rep), 200)], "oracle rejected the reach request")
			continue
		}
		par := w.g.bfs(0)
		for i, t := range tgts {
			lean := f[1][i] == '1'
			if _, goReach := par[t.node]; goReach != lean {
				e.R.Mismatch(key, fmt.Sprintf("bfs reachable=%v node=%d", goReach, t.node), fmt.Sprintf("Lean reach=%v", lean), "reachability on the dumped graph")
			}
			if lean {
				e.R.H("obj_graph", "REACHABLE: foreign module / removed object")
				spec(fmt.Sprintf("the object graph of configuration #%d after all %d builds", j, K),
					fmt.Sprintf("%s is reachable from the globals of configuration %s: %s", t.what, sc.buildText(j), c11Witness(par, t.node)))
			} else {
				e.R.H("obj_graph", "unreachable")
			}
		}
	}
	e.R.Case(key, sc.sharesObject(p))
}

func (r *c11Run) runObjects(rng *RNG) {
	e := r.e
	nm := r.objNames()
	if len(nm.mods) == 0 {
		e.R.Mismatch("shared host objects", "0", ">=1", "default modules with builtin members in the reference environment")
		return
	}
	if len(r.ref.ids.objs) >= c11ODfltStep {
		e.R.Mismatch("shared host objects", strconv.Itoa(len(r.ref.ids.objs)), "<"+strconv.Itoa(c11ODfltStep), "size of the reference default graph (id layout of the objseq request)")
		return
	}
	st := &c11OState{r: r, single: map[int]bool{}, universe: r.universeFor(&c11Case{})}
	// default objects that are the same object in every DefaultGlobals() call
	g2 := risor.DefaultGlobals()
	for n, ref := range r.refGlob {
		o2, _ := g2[n].(object.Object)
		if ref > 3 && ref < len(r.ref.ids.objs) && o2 != nil && c11Same(o2, r.ref.ids.objs[ref]) {
			st.single[ref] = true
		}
		if m2, isMod := o2.(*object.Module); isMod {
			for a, mref := range r.ref.mods[ref] {
				if v, ok := c11GetAttr(m2, a); ok && mref > 3 && mref < len(r.ref.ids.objs) && c11Same(v, r.ref.ids.objs[mref]) {
					st.single[mref] = true
				}
			}
		}
	}
	e.R.Note("shared host objects: %d default modules with builtin members, %d top-level builtins, %d default objects shared by all DefaultGlobals() calls", len(nm.mods), len(nm.tops), len(st.single))
	reps, n := 1, 90
	if !e.Quick {
		reps, n = 6, 2000
	}
	for d := 0; d < 20; d++ {
		for q := 0; q < reps; q++ {
			r.runObject(rng.Fork(), d, nm, st)
		}
	}
	for i := 0; i < n; i++ {
		r.runObject(rng.Fork(), -1, nm, st)
	}
}
