package main

// C13 — links MADE, MOVED and READ THROUGH by one rooted local filesystem.
//
// Every argument of localfs.Symlink / Rename / Remove is confined on its own (C13.resolvePath).
// What a link denotes is decided by the host kernel at the moment it is used: absolute content
// from the root, relative content from the directory the link lies in THEN.  Rename moves links
// and directories with links in them.  A session here is a SEQUENCE of calls on one filesystem
// over a real tree (inside the driver's read-only mount namespace only) in which every path
// argument is a plain in-base path (sometimes decorated: "./x", "a/../x", "/x"):
//
//   Symlink(target, dir/name)   target: a file, a directory, another link, a missing name
//   Rename(src, dst)            src mostly a link or a directory that contains links, dst in a
//                               directory at another depth (mostly shallower)
//   Remove / RemoveAll
//   ReadFile / Stat / ReadDir / Open / WriteFile, mostly through a link (link, link/in.txt)
//
// a quarter of the calls through a VirtualOS that mounts the filesystem at "/".
//
// Impl: C13.kstep (oracle request `kstep`: the links of the session, location and content, after
// the call) and C13.kread (`kread`: the host file at which the kernel ends for a path, following
// the session's links).  Code vs Impl: after every call the symbolic links found in the real
// tree (location, content) are the model's; what a read returns is what a direct read of the
// model's host file returns.  Spec (on the real tree and the real results): no link inside the
// base leads out of it (read the way the kernel reads it from where the link lies NOW), nothing
// outside the base is read, listed, identified or changed.
//
// Safety: the tree is outer/o2/o1/base; the generator never lets a directory entry lie deeper
// than three levels below the base (so a relative link content holds at most two ".."), all
// raw argument strings are relative to a working directory inside the tree, and a link that
// leads out is probed with READS only and removed at once.

import (
	"context"
	"fmt"
	"io/fs"
	"os"
	"path/filepath"
	"sort"
	"strings"

	ros "github.com/risor-io/risor/os"
	"github.com/risor-io/risor/os/localfs"
)

func c13Links(e *Env) {
	if !c13Jailed() {
		e.R.Note("localfs link sessions (Symlink, Rename, reads through moved links) were SKIPPED: the harness is not running inside the read-only mount namespace that ./check sets up")
		return
	}
	orig, _ := os.Getwd()
	defer os.Chdir(orig)
	rng := e.Rng.Fork()
	type spelling struct{ chdir, base string }
	spellings := []spelling{{"", ""}, {"o2/o1", "base"}, {"o2/o1", "./base/"}, {"o2/o1", "base/a/.."}}
	sessions, steps := 220, 10
	if !e.Quick {
		sessions, steps = 3000, 14
	}
	for i, sp := range spellings {
		n := sessions
		if i > 0 {
			n = sessions / 5
		}
		for s := 0; s < n; s++ {
			c13LinkSession(e, rng, sp.chdir, sp.base, steps)
			os.Chdir(orig)
		}
	}
}

type kLink struct{ loc, content string }

// kRealLinks lists the symbolic links below root (locations are host paths).
func kRealLinks(root string) []kLink {
	var out []kLink
	filepath.WalkDir(root, func(p string, d fs.DirEntry, err error) error {
		if err == nil && d.Type()&fs.ModeSymlink != 0 {
			t, _ := os.Readlink(p)
			out = append(out, kLink{p, t})
		}
		return nil
	})
	sort.Slice(out, func(i, j int) bool { return out[i].loc < out[j].loc })
	return out
}

func kShowLinks(ls []kLink) string {
	if len(ls) == 0 {
		return "none"
	}
	parts := make([]string, len(ls))
	for i, l := range ls {
		parts[i] = Hex(l.loc) + "=" + Hex(l.content)
	}
	return strings.Join(parts, ",")
}

func kParseLinks(s string) []kLink {
	if s == "none" || s == "" {
		return nil
	}
	var out []kLink
	for _, p := range strings.Split(s, ",") {
		kv := strings.SplitN(p, "=", 2)
		if len(kv) == 2 {
			out = append(out, kLink{UnHex(kv[0]), UnHex(kv[1])})
		}
	}
	sort.Slice(out, func(i, j int) bool { return out[i].loc < out[j].loc })
	return out
}

// kHeight is the number of levels of directory entries below p (0 for a file, a link, an empty
// directory); links are not followed.
func kHeight(p string) int {
	fi, err := os.Lstat(p)
	if err != nil || !fi.IsDir() {
		return 0
	}
	h := 0
	es, _ := os.ReadDir(p)
	for _, d := range es {
		if x := 1 + kHeight(filepath.Join(p, d.Name())); x > h {
			h = x
		}
	}
	return h
}

func c13LinkSession(e *Env, rng *RNG, chdirTo, baseSpelling string, steps int) {
	outer, err := os.MkdirTemp("", "verif-c13k-")
	if err != nil {
		e.R.Note("cannot create temp tree: %v", err)
		return
	}
	if r, err := filepath.EvalSymlinks(outer); err == nil {
		outer = r
	}
	defer os.RemoveAll(outer)
	base := filepath.Join(outer, "o2", "o1", "base")
	for _, d := range []string{"a/b", "d", "p/q"} {
		os.MkdirAll(filepath.Join(base, d), 0o755)
	}
	for f, data := range map[string]string{"n.txt": "inside-n", "top.txt": "inside-top", "a/in.txt": "inside-a-in", "a/b/deep.txt": "inside-deep", "d/in.txt": "inside-d-in"} {
		os.WriteFile(filepath.Join(base, f), []byte(data), 0o644)
	}
	// the same names one, two and three levels above the base: a link whose content climbs out
	// finds a file there
	var outside []string
	for _, up := range []string{filepath.Join(outer, "o2", "o1"), filepath.Join(outer, "o2"), outer} {
		os.MkdirAll(filepath.Join(up, "a"), 0o755)
		os.MkdirAll(filepath.Join(up, "d"), 0o755)
		outside = append(outside, up, filepath.Join(up, "a"), filepath.Join(up, "d"))
		for _, f := range []string{"n.txt", "top.txt", "a/in.txt", "d/in.txt"} {
			os.WriteFile(filepath.Join(up, f), []byte("SECRET-OUTSIDE "+f), 0o644)
			outside = append(outside, filepath.Join(up, f))
		}
	}
	insideBase := func(p string) bool { return p == base || strings.HasPrefix(p, base+"/") }

	given, stored, label, cwdAbs := base, base, "<tmp>/base", base
	if baseSpelling != "" {
		cwdAbs = filepath.Join(outer, chdirTo)
		given, stored = baseSpelling, filepath.Clean(baseSpelling)
		label = fmt.Sprintf("%q (working directory <tmp>/%s)", baseSpelling, strings.TrimPrefix(chdirTo, "o2/o1"))
	}
	if err := os.Chdir(cwdAbs); err != nil {
		e.R.Note("chdir: %v", err)
		return
	}
	lfs, err := localfs.New(context.Background(), localfs.WithBase(given))
	if err != nil {
		e.R.Mismatch("localfs.New base="+label, "rejected: "+err.Error(), "accepted", "localfs.New vs C13.newBase")
		return
	}
	vos := ros.NewVirtualOS(context.Background(), ros.WithMounts(map[string]*ros.Mount{"/": {Source: lfs, Target: "/", Type: "local"}}), ros.WithCwd("/"))
	show := func(s string) string {
		s = strings.ReplaceAll(s, base, "<tmp>/base")
		s = strings.ReplaceAll(s, outer+"/o2/o1", "<tmp>")
		s = strings.ReplaceAll(s, outer+"/o2", "<above-tmp>")
		return strings.ReplaceAll(s, outer, "<above-above-tmp>")
	}
	rel := func(host string) string { // in-base spelling of a host path below the base
		r, _ := filepath.Rel(base, host)
		return r
	}
	depth := func(r string) int { // number of components of an in-base path ("." = 0)
		if r == "." || r == "" {
			return 0
		}
		return len(strings.Split(r, "/"))
	}
	// calls that change the tree are only made with strings that, even taken raw (relative to the
	// working directory, which lies inside the tree), stay inside the temporary tree
	decorate := func(p string, write bool) (string, string) {
		switch r := rng.Intn(100); {
		case r < 78:
			return p, "plain in-base path"
		case r < 84:
			return "./" + p, "decorated in-base path"
		case r < 89 && !write:
			return "/" + p, "decorated in-base path"
		case r < 94:
			return "a/../" + p, "decorated in-base path"
		default:
			return p + "/.", "decorated in-base path"
		}
	}

	var history []string
	modelLinks := "none"
	outerBefore := hSnapshot(outer)
	for st := 0; st < steps; st++ {
		// ---- the generator's view of the tree (links not followed)
		var dirs, files []string // in-base paths
		filepath.WalkDir(base, func(p string, d fs.DirEntry, err error) error {
			if err != nil || p == base {
				return nil
			}
			if d.IsDir() {
				dirs = append(dirs, rel(p))
			} else if d.Type()&fs.ModeSymlink == 0 {
				files = append(files, rel(p))
			}
			return nil
		})
		realBefore := kRealLinks(base)
		var links []string
		for _, l := range realBefore {
			links = append(links, rel(l.loc))
		}
		dirsAnd := append([]string{"."}, dirs...)
		place := func(maxDepth int) string { // dir/name with depth(dir) <= maxDepth-1
			var cands []string
			for _, d := range dirsAnd {
				if depth(d)+1 <= maxDepth {
					cands = append(cands, d)
				}
			}
			// shallower places are more likely
			if len(cands) == 0 {
				cands = []string{"."}
			}
			sort.Slice(cands, func(i, j int) bool { return depth(cands[i]) < depth(cands[j]) })
			d := cands[rng.Intn(1+rng.Intn(len(cands)))]
			n := Pick(rng, []string{"l", "k", "m", "lnk"})
			if rng.Chance(12) && len(links) > 0 {
				return Pick(rng, links) // onto an existing link
			}
			return filepath.Join(d, n)
		}

		kind, name, p, q := "", "", "", ""
		r := rng.Intn(100)
		switch {
		case st == 0 || len(links) == 0 || r < 22:
			kind, name = "symlink", "Symlink"
			pool := append(append(append([]string{}, files...), dirs...), links...)
			pool = append(pool, "zz")
			p = Pick(rng, pool)
			// deeper places are more likely for a new link
			var cands []string
			for _, d := range dirsAnd {
				if depth(d) <= 2 {
					cands = append(cands, d)
				}
			}
			d := Pick(rng, cands)
			if rng.Chance(50) {
				if d2 := Pick(rng, cands); depth(d2) > depth(d) {
					d = d2
				}
			}
			if rng.Chance(10) && len(links) > 0 {
				d = Pick(rng, links) // the new link's directory is reached through a link
			}
			q = filepath.Join(d, Pick(rng, []string{"l", "k", "m", "lnk"}))
		case r < 50:
			kind, name = "rename", "Rename"
			switch x := rng.Intn(100); {
			case x < 55:
				p = Pick(rng, links)
			case x < 85 && len(dirs) > 0:
				// a directory, preferably one that contains a link
				p = Pick(rng, dirs)
				for _, l := range links {
					if rng.Chance(60) && filepath.Dir(l) != "." {
						p = filepath.Dir(l)
						if rng.Chance(40) && filepath.Dir(p) != "." {
							p = filepath.Dir(p)
						}
						break
					}
				}
			default:
				p = Pick(rng, append(append([]string{}, files...), "zz"))
			}
			// the moved subtree must not reach deeper than three levels below the base
			q = place(3 - kHeight(filepath.Join(base, p)))
		case r < 58:
			kind, name = "remove", Pick(rng, []string{"Remove", "RemoveAll"})
			p = Pick(rng, append(append([]string{}, links...), Pick(rng, append(dirs, "zz"))))
		default:
			kind = "read"
			name = Pick(rng, []string{"ReadFile", "ReadFile", "Stat", "ReadDir", "Open", "WriteFile"})
			p = Pick(rng, links)
			switch x := rng.Intn(100); {
			case x < 30:
				p = filepath.Join(p, Pick(rng, []string{"in.txt", "b/deep.txt", "n.txt", "top.txt"}))
			case x < 40:
				p = Pick(rng, append(append([]string{}, files...), dirs...))
			}
		}
		h1, h2 := "", ""
		write := kind != "read" || name == "WriteFile"
		p, h1 = decorate(p, write)
		if q != "" {
			q, h2 = decorate(q, write)
		}
		via := rng.Chance(25)
		var tgt ros.FS = lfs
		call := fmt.Sprintf("%s(%q", name, p)
		if q != "" {
			call += fmt.Sprintf(", %q", q)
		}
		call += ")"
		if via {
			tgt = vos
			call = "VirtualOS{/ -> fs}." + call
		}
		tail := history
		if len(tail) > 4 {
			tail = tail[len(tail)-4:]
		}
		c := fmt.Sprintf("localfs link session base=%s after [%s]: %s", label, strings.Join(tail, "; "), call)
		history = append(history, call)

		// ---- the real call
		var rerr error
		var out string
		var statInfo fs.FileInfo
		var entries []ros.DirEntry
		switch name {
		case "Symlink":
			rerr = tgt.Symlink(p, q)
		case "Rename":
			rerr = tgt.Rename(p, q)
		case "Remove":
			rerr = tgt.Remove(p)
		case "RemoveAll":
			rerr = tgt.RemoveAll(p)
		case "ReadFile":
			var b []byte
			b, rerr = tgt.ReadFile(p)
			out = string(b)
		case "Stat":
			statInfo, rerr = tgt.Stat(p)
		case "ReadDir":
			entries, rerr = tgt.ReadDir(p)
			var names []string
			for _, d := range entries {
				names = append(names, d.Name())
			}
			out = strings.Join(names, ",")
		case "Open":
			out, rerr = hReadSome(tgt.Open(p))
		case "WriteFile":
			rerr = tgt.WriteFile(p, []byte("w"), 0o644)
		}
		e.R.Case(c, true)
		e.R.H("links_op", name)
		e.R.H("links_arg", h1)
		if q != "" {
			e.R.H("links_arg", h2)
		}
		if via {
			e.R.H("links_route", "through a VirtualOS mount")
		} else {
			e.R.H("links_route", "directly")
		}
		if rerr == nil {
			e.R.H("links_outcome", name+" succeeded")
		} else {
			e.R.H("links_outcome", name+" failed")
		}
		if hInvalid(rerr) {
			e.R.Mismatch(c, fmt.Sprintf("err=%v", rerr), "accepted", "localfs refused an in-base path with fs.ErrInvalid")
		}

		// ---- the model (through the virtual OS the filesystem receives the mount-relative path)
		mp, mq := p, q
		if via {
			routed := func(path string) string {
				f := strings.Fields(strings.Split(e.O.Ask("C13", "mount", Hex("/"), Hex(path), Hex("/")), "\t")[0])
				if len(f) != 3 {
					return path
				}
				return UnHex(f[2])
			}
			mp = routed(p)
			if q != "" {
				mq = routed(q)
			}
		}
		after := kRealLinks(base)
		if kind != "read" {
			ok := "0"
			if rerr == nil {
				ok = "1"
			}
			a2 := mq
			if a2 == "" {
				a2 = "x"
			}
			rep := strings.Split(e.O.Ask("C13", "kstep", Hex(stored), Hex(cwdAbs), modelLinks, kind, Hex(mp), Hex(a2), ok), "\t")
			if len(rep) != 2 {
				e.R.Mismatch(c, "-", strings.Join(rep, " "), "oracle reply malformed")
				return
			}
			modelLinks = rep[0]
			if rep[1] != "true" {
				e.R.Mismatch(c, "-", "C13.linksClosed = false", "the model's own tree is not closed (contradicts theorem links_closed)")
			}
			if rerr == nil && name == "Rename" {
				for _, l := range realBefore {
					if rel(l.loc) == filepath.Clean(strings.TrimPrefix(mp, "/")) {
						e.R.H("links_rename", fmt.Sprintf("a link moved from depth %d to depth %d", depth(rel(l.loc)), depth(filepath.Clean(strings.TrimPrefix(mq, "/")))))
					}
				}
			}
		} else {
			rep := strings.Split(e.O.Ask("C13", "kread", Hex(stored), Hex(cwdAbs), modelLinks, Hex(mp)), "\t")
			e.R.H("links_read_model", rep[0])
			switch {
			case rep[0] == "ok" && len(rep) == 4:
				host := UnHex(rep[1])
				if rep[2] != "inside" {
					e.R.Mismatch(c, "-", "C13.kread ends at "+show(host), "the model's read ends outside the base (contradicts theorem linked_read_confined)")
				}
				resolved := UnHex(rep[3])
				if !filepath.IsAbs(resolved) {
					resolved = filepath.Join(cwdAbs, resolved)
				}
				if host != resolved {
					e.R.H("links_read", "the read goes through a link")
				} else {
					e.R.H("links_read", "no link on the way")
				}
				switch name {
				case "ReadFile", "Open":
					b2, err2 := os.ReadFile(host)
					want := string(b2)
					if name == "Open" && len(want) > 64 {
						want = want[:64]
					}
					if fi, e3 := os.Stat(host); name == "Open" && e3 == nil && fi.IsDir() {
						err2, want = nil, "" // a directory can be opened; reading it gives nothing
					}
					if (rerr == nil) != (err2 == nil) || (rerr == nil && out != want) {
						e.R.Mismatch(c, fmt.Sprintf("err=%v data=%q", rerr, out), fmt.Sprintf("direct read of %s: err=%v data=%q", show(host), err2, want), "localfs."+name+" vs a direct read of the host file at which C13.kread ends")
					}
				case "Stat":
					fi2, err2 := os.Stat(host)
					if (rerr == nil) != (err2 == nil) || (rerr == nil && !os.SameFile(statInfo, fi2)) {
						e.R.Mismatch(c, fmt.Sprintf("err=%v", rerr), fmt.Sprintf("os.Stat(%s): err=%v", show(host), err2), "localfs.Stat vs the host file at which C13.kread ends")
					}
				case "ReadDir":
					es2, err2 := os.ReadDir(host)
					var names []string
					for _, d := range es2 {
						names = append(names, d.Name())
					}
					if (rerr == nil) != (err2 == nil) || out != strings.Join(names, ",") {
						e.R.Mismatch(c, fmt.Sprintf("err=%v names=%q", rerr, out), fmt.Sprintf("os.ReadDir(%s): err=%v names=%q", show(host), err2, strings.Join(names, ",")), "localfs.ReadDir vs the host directory at which C13.kread ends")
					}
				case "WriteFile":
					if b, err := os.ReadFile(host); rerr == nil && (err != nil || string(b) != "w") {
						e.R.Mismatch(c, "succeeded", "writes "+show(host), "localfs.WriteFile: the written data is not at the host file at which C13.kread ends")
					}
				}
			case rep[0] == "loop":
				if rerr == nil {
					e.R.Mismatch(c, "succeeded", "the kernel's walk does not end", "localfs."+name+" vs C13.kread")
				}
			default:
				e.R.Mismatch(c, fmt.Sprintf("err=%v", rerr), strings.Join(rep, " "), "C13.kread refuses an in-base path")
			}
		}
		// Code vs Impl: the links in the real tree are the model's
		if got, want := kShowLinks(after), kShowLinks(kParseLinks(modelLinks)); got != want {
			var g, w []string
			for _, l := range after {
				g = append(g, show(l.loc)+" -> "+show(l.content))
			}
			for _, l := range kParseLinks(modelLinks) {
				w = append(w, show(l.loc)+" -> "+show(l.content))
			}
			e.R.Mismatch(c, fmt.Sprintf("err=%v; links: %s", rerr, strings.Join(g, ", ")), "links: "+strings.Join(w, ", "), "the symbolic links in the real tree (location -> content) vs C13.kstep")
			modelLinks = kShowLinks(after) // go on from the real tree
		}

		// ---- Spec, on what the real code did
		if strings.Contains(out, "SECRET") {
			e.R.Spec(c, "read data from outside the base: "+show(out), "")
		}
		sameAsOutside := func(fi fs.FileInfo) string {
			for _, o := range outside {
				if fo, err := os.Stat(o); err == nil && os.SameFile(fi, fo) {
					return o
				}
			}
			return ""
		}
		if name == "Stat" && rerr == nil {
			if o := sameAsOutside(statInfo); o != "" {
				e.R.Spec(c, "Stat answered for a host file outside the base: "+show(o), "")
			}
		}
		if name == "ReadDir" && rerr == nil {
			for _, d := range entries {
				if fi, err := d.Info(); err == nil {
					if o := sameAsOutside(fi); o != "" {
						e.R.Spec(c, "ReadDir listed a host directory outside the base: it contains "+show(o), "")
						break
					}
				}
			}
		}
		outerAfter := hSnapshot(outer)
		var outsideChanged []string
		for _, ch := range hDiff(outerBefore, outerAfter) {
			if !insideBase(ch.path) {
				outsideChanged = append(outsideChanged, ch.verb+" "+show(ch.path))
			}
		}
		if len(outsideChanged) > 0 {
			e.R.Spec(c, "host paths outside the base changed: "+strings.Join(outsideChanged, "; "), "")
		}
		outerBefore = outerAfter
		// the tree must stay closed: no link leads out of the base from where it lies now
		removed := false
		for _, l := range after {
			lt := l.content
			if !filepath.IsAbs(lt) {
				lt = filepath.Join(filepath.Dir(l.loc), lt)
			}
			lt = filepath.Clean(lt)
			if insideBase(lt) {
				continue
			}
			detail := fmt.Sprintf("a symbolic link inside the base leads out of it: %s holds %q, which from there is %s", show(l.loc), show(l.content), show(lt))
			// what a script gets through it (reads only)
			if b, err := lfs.ReadFile(rel(l.loc)); err == nil {
				detail += fmt.Sprintf("; ReadFile(%q) on the filesystem returns %q", rel(l.loc), string(b))
			} else if es, err := lfs.ReadDir(rel(l.loc)); err == nil {
				var names []string
				for _, d := range es {
					names = append(names, d.Name())
				}
				detail += fmt.Sprintf("; ReadDir(%q) on the filesystem lists %q", rel(l.loc), strings.Join(names, ","))
			}
			e.R.Spec(c, detail, "")
			os.Remove(l.loc)
			removed = true
		}
		if removed || len(outsideChanged) > 0 {
			return // the session ends: the tree is no longer the model's
		}
		// keep the session going: it needs the base directory
		if _, err := os.Stat(base); err != nil {
			return
		}
	}
}
