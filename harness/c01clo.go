package main

// C01, proved CLOSURE fragment (lean/RisorModel/C01/Clo*.lean).  The theorems `clo_simulation` /
// `clo_compile_correct` relate three Lean definitions: evalClo (reference semantics: every
// variable of an activation is a cell, a closure holds the cells it captured), compClo (functional
// compiler: MakeCell per free resolution, LoadClosure, LoadFree / StoreFree) and runClo (VM with
// call frames and heap slices shared with the cells).  This file re-establishes, on every run, the
// links between those definitions and the code:
//
//   (A) compClo p, assembled, EVERY code object == bytecode/constants/names of the real compiler (and == Compile.lean)
//   (B) evalClo p                               == Sem.lean's runProg p                          (and == the real result)
//   (C) runClo (compClo p)                      == VM.lean's runCodes (compileProg p)            (and == the real result)
//
// on every program of the shared generator that lies in the fragment, on directed programs and on
// programs of a fragment-only generator below (makers: functions whose bodies create closures over
// their parameters and locals).  The oracle computes all Lean sides in one request (`C01 clo run`),
// see CloOracle.lean.  Rendering, the real-pipeline helpers and the statement / expression
// generator are those of c01frag.go / c01fun.go.

import (
	"fmt"
	"strings"
	"time"
)

// a closure-typed variable the generator can call: parameter count, whether it returns an int
type c01cloFn struct {
	name  string
	np    int
	isInt bool // returns an int (else nil)
}

// a maker: a top-level function that returns a closure (or an int computed with closures)
type c01cloMaker struct {
	name    string
	np      int  // int parameters
	ndef    int  // trailing defaults
	retClo  *c01cloFn // the signature of the returned closure (nil: the maker returns an int)
	slots   []string  // global slots it fills with closures when called
	slotSig map[string]*c01cloFn
}

type c01cloGen struct {
	g      *c01fragGen
	hofs   []string // apply / twice helpers declared
	makers []*c01cloMaker
	shapes map[string]int
}

func (cg *c01cloGen) shape(s string) { cg.shapes[s]++ }

// callClo builds c(args) for a closure value expression with the given signature
func (cg *c01cloGen) callClo(fn *N, sig *c01cloFn) *N {
	g := cg.g
	nargs := sig.np
	if g.errs && g.r.Chance(5) {
		cg.shape("arity-error")
		if nargs > 0 && g.r.Bool() {
			nargs--
		} else {
			nargs++
		}
	}
	var args []*N
	for i := 0; i < nargs; i++ {
		args = append(args, g.expr("int", 1, false))
	}
	return nCall(fn, args...)
}

// inner generates a function literal over the variables in scope (the maker's parameters and
// locals are captured where the body uses them) and its signature
func (cg *c01cloGen) inner(captured []string) (*N, *c01cloFn) {
	g := cg.g
	sig := &c01cloFn{np: g.r.Intn(3), isInt: g.r.Chance(85)}
	if sig.np == 2 && g.r.Bool() {
		sig.np = 1
	}
	g.push()
	ps := n("params")
	var pnames []string
	for i := 0; i < sig.np; i++ {
		nm := g.fresh("a")
		pnames = append(pnames, nm)
		g.declare(nm, "int", false)
		ps.C = append(ps.C, ns("param", nm))
	}
	savedLoop, savedTern := g.loop, g.inTern
	g.loop, g.inTern = 0, 0
	g.inLoop++
	var body []*N
	// forced uses of captured variables: reads and writes of every kind
	arg := func() *N {
		if len(pnames) > 0 && g.r.Chance(70) {
			return nId(Pick(g.r, pnames))
		}
		return nInt(int64(1 + g.r.Intn(3)))
	}
	k := 1 + g.r.Intn(2)
	for i := 0; i < k && len(captured) > 0; i++ {
		v := Pick(g.r, captured)
		switch g.r.Intn(7) {
		case 0:
			body = append(body, ns("postfix", v+" "+Pick(g.r, []string{"++", "--"})))
			cg.shape("write:postfix")
		case 1:
			body = append(body, nAssign(v, Pick(g.r, []string{"+=", "-=", "*="}), arg()))
			cg.shape("write:compound")
		case 2:
			body = append(body, nAssign(v, "=", nInfix("+", nInfix("*", nId(v), nInt(2)), arg())))
			cg.shape("write:assign-reads-self")
		case 3:
			t := g.fresh("t")
			body = append(body, nVar(t, nInfix("+", nId(v), arg())))
			g.declare(t, "int", false)
			cg.shape("read:into-local")
		case 4:
			body = append(body, n("expr", n("if", nInfix(">", nId(v), arg()), nBlock(nAssign(v, "=", nInt(0))))))
			cg.shape("write:in-if-block")
		case 5:
			i := g.fresh("i")
			body = append(body, n("for3", nVar(i, nInt(0)), nInfix("<", nId(i), nInt(int64(1+g.r.Intn(3)))), ns("postfix", i+" ++"),
				nBlock(nAssign(v, "+=", nId(i)))))
			cg.shape("write:in-loop")
		default:
			body = append(body, nAssign(v, "=", arg()))
			cg.shape("write:assign")
		}
	}
	for i := g.r.Intn(3); i > 0 && g.budget > 0; i-- {
		body = append(body, g.stmt(1)...)
	}
	switch {
	case !sig.isInt:
		if len(body) == 0 || body[len(body)-1].K == "expr" {
			body = append(body, n("return"))
		}
	case g.r.Chance(60):
		body = append(body, n("return", g.expr("int", 2, false)))
	default:
		body = append(body, n("expr", g.expr("int", 2, false)))
	}
	g.inLoop--
	g.loop, g.inTern = savedLoop, savedTern
	g.pop()
	return ns("func", "", ps, nBlock(body...)), sig
}

// maker generates one maker function (a top-level declaration) and registers it
func (cg *c01cloGen) maker(slots []string) *N {
	g := cg.g
	m := &c01cloMaker{name: g.fresh("mk"), np: g.r.Intn(3), slotSig: map[string]*c01cloFn{}}
	named := g.r.Chance(65)
	if m.np > 0 && g.r.Chance(30) {
		m.ndef = 1
	}
	savedScopes, savedLoop, savedTern := g.scopes, g.loop, g.inTern
	globals := append([]c01fragVar{}, g.scopes[0]...)
	g.scopes = [][]c01fragVar{globals, nil}
	g.loop, g.inTern = 0, 0
	g.inLoop++
	ps := n("params")
	var captured []string
	for i := 0; i < m.np; i++ {
		nm := g.fresh("p")
		p := ns("param", nm)
		if i >= m.np-m.ndef {
			p.C = append(p.C, nInt(int64(g.r.Intn(7))))
		}
		ps.C = append(ps.C, p)
		g.declare(nm, "int", false)
		captured = append(captured, nm)
	}
	var body []*N
	for i := 1 + g.r.Intn(2); i > 0; i-- {
		v := g.fresh("v")
		body = append(body, nVar(v, g.expr("int", 1, false)))
		g.declare(v, "int", false)
		captured = append(captured, v)
	}
	if g.r.Chance(40) && g.budget > 0 {
		body = append(body, g.stmt(1)...)
	}
	// closures bound to locals
	var clos []*c01cloFn
	nclo := 1 + g.r.Intn(2)
	for i := 0; i < nclo; i++ {
		lit, sig := cg.inner(captured)
		sig.name = g.fresh("c")
		body = append(body, nVar(sig.name, lit))
		g.declare(sig.name, "fn", true)
		clos = append(clos, sig)
		if i == 1 {
			cg.shape("two-closures-one-activation")
		}
	}
	intClos := func() []*c01cloFn {
		var out []*c01cloFn
		for _, c := range clos {
			if c.isInt {
				out = append(out, c)
			}
		}
		return out
	}
	// the creating function goes on: writes after the capture, immediate calls, the helpers
	for i := g.r.Intn(4); i > 0; i-- {
		switch g.r.Intn(6) {
		case 0:
			body = append(body, nAssign(Pick(g.r, captured), Pick(g.r, []string{"=", "+="}), g.expr("int", 1, false)))
			cg.shape("creator-writes-after-capture")
		case 1:
			c := Pick(g.r, clos)
			body = append(body, n("expr", cg.callClo(nId(c.name), c)))
			cg.shape("called-in-creator")
		case 2:
			if cs := intClos(); len(cs) > 0 {
				c := Pick(g.r, cs)
				t := g.fresh("r")
				body = append(body, nVar(t, nInfix("+", cg.callClo(nId(c.name), c), nId(Pick(g.r, captured)))))
				g.declare(t, "int", false)
				cg.shape("creator-reads-after-call")
			}
		case 3:
			if len(cg.hofs) > 0 {
				for _, c := range clos {
					if c.np == 1 && c.isInt {
						body = append(body, n("expr", nCall(nId(Pick(g.r, cg.hofs)), nId(c.name), g.expr("int", 1, false))))
						cg.shape("passed-to-function")
						break
					}
				}
			}
		case 4:
			if len(slots) > 0 {
				c := Pick(g.r, clos)
				s := Pick(g.r, slots)
				if _, used := m.slotSig[s]; !used {
					body = append(body, nAssign(s, "=", nId(c.name)))
					m.slots = append(m.slots, s)
					m.slotSig[s] = c
					cg.shape("stored-in-global")
				}
			}
		default:
			if g.budget > 0 {
				body = append(body, g.stmt(1)...)
			}
		}
	}
	// what the maker returns
	switch g.r.Intn(6) {
	case 0: // a literal in return position
		lit, sig := cg.inner(captured)
		body = append(body, n("return", lit))
		m.retClo = sig
		cg.shape("returned:literal")
	case 1: // the value of an immediately called literal
		lit, sig := cg.inner(captured)
		body = append(body, n("return", cg.callClo(lit, sig)))
		cg.shape("called-immediately")
	case 2: // an int computed with the closures
		if cs := intClos(); len(cs) > 0 {
			c := Pick(g.r, cs)
			body = append(body, n("expr", nInfix("+", cg.callClo(nId(c.name), c), nInfix("*", nId(Pick(g.r, captured)), nInt(10)))))
			cg.shape("returned:int")
			break
		}
		fallthrough
	default:
		c := Pick(g.r, clos)
		if g.r.Chance(50) {
			body = append(body, n("return", nId(c.name)))
		} else {
			body = append(body, n("expr", nId(c.name))) // implicit return of the last expression statement
		}
		m.retClo = c
		cg.shape("returned:local")
	}
	g.inLoop--
	g.scopes, g.loop, g.inTern = savedScopes, savedLoop, savedTern
	cg.makers = append(cg.makers, m)
	lit := ns("func", "", ps, nBlock(body...))
	if named {
		lit.S = m.name
		return n("expr", lit)
	}
	g.declare(m.name, "fn", true)
	return nVar(m.name, lit)
}

func (cg *c01cloGen) callMaker(m *c01cloMaker) *N {
	g := cg.g
	nargs := m.np
	if m.ndef > 0 && g.r.Bool() {
		nargs--
	}
	var args []*N
	for i := 0; i < nargs; i++ {
		args = append(args, g.expr("int", 1, false))
	}
	return nCall(nId(m.name), args...)
}

// c01cloProgram generates one program inside the closure fragment.
func c01cloProgram(r *RNG) (*N, map[string]int) {
	g := &c01fragGen{r: r, budget: 30 + r.Intn(90), errs: r.Chance(30)}
	cg := &c01cloGen{g: g, shapes: map[string]int{}}
	g.push()
	var ss []*N
	// globals: a few ints, closure slots
	for i := r.Intn(3); i > 0; i-- {
		ss = append(ss, g.stmt(5)...)
	}
	var slots []string
	for i := r.Intn(3); i > 0; i-- {
		s := g.fresh("slot")
		ss = append(ss, nVar(s, n("nil")))
		g.declare(s, "fn", true)
		slots = append(slots, s)
	}
	// helpers taking a function argument
	if r.Chance(60) {
		f, x := g.fresh("f"), g.fresh("x")
		name := g.fresh("apply")
		ss = append(ss, n("expr", ns("func", name, n("params", ns("param", f), ns("param", x)), nBlock(n("return", nCall(nId(f), nId(x)))))))
		cg.hofs = append(cg.hofs, name)
		if r.Bool() {
			f, x := g.fresh("f"), g.fresh("x")
			name := g.fresh("twice")
			ss = append(ss, n("expr", ns("func", name, n("params", ns("param", f), ns("param", x)), nBlock(n("expr", nCall(nId(f), nCall(nId(f), nId(x))))))))
			cg.hofs = append(cg.hofs, name)
		}
	}
	nm := 1 + r.Intn(2)
	for i := 0; i < nm; i++ {
		ss = append(ss, cg.maker(slots))
		if r.Chance(30) && g.budget > 0 {
			ss = append(ss, g.stmt(2)...)
		}
	}
	// uses: closures outlive the maker's activation, are called several times, in any order
	var live []*c01cloFn
	filled := map[string]*c01cloFn{}
	acc := g.fresh("acc")
	ss = append(ss, nVar(acc, nInt(0)))
	g.declare(acc, "int", false)
	for i := 2 + r.Intn(4); i > 0; i-- {
		m := Pick(r, cg.makers)
		switch {
		case m.retClo != nil && (len(live) == 0 || r.Chance(40)):
			c := &c01cloFn{name: g.fresh("k"), np: m.retClo.np, isInt: m.retClo.isInt}
			ss = append(ss, nVar(c.name, cg.callMaker(m)))
			g.declare(c.name, "fn", true)
			live = append(live, c)
			for _, s := range m.slots {
				filled[s] = m.slotSig[s]
			}
			cg.shape("maker-returned-closure")
		case m.retClo == nil:
			ss = append(ss, nAssign(acc, "+=", cg.callMaker(m)))
			for _, s := range m.slots {
				filled[s] = m.slotSig[s]
			}
		}
		for j := r.Intn(3); j > 0 && len(live) > 0; j-- {
			c := Pick(r, live)
			call := cg.callClo(nId(c.name), c)
			switch {
			case c.isInt && r.Chance(70):
				ss = append(ss, nAssign(acc, Pick(r, []string{"+=", "="}), nInfix("+", nInfix("*", nId(acc), nInt(3)), call)))
				cg.shape("called-after-return")
			case c.isInt && c.np == 1 && len(cg.hofs) > 0:
				ss = append(ss, nAssign(acc, "+=", nCall(nId(Pick(r, cg.hofs)), nId(c.name), g.expr("int", 1, false))))
				cg.shape("passed-to-function")
			default:
				ss = append(ss, n("expr", call))
				cg.shape("called-after-return")
			}
		}
		if len(filled) > 0 && r.Chance(50) {
			// a deterministic pick: the slots in declaration order
			for _, s := range slots {
				if sig, ok := filled[s]; ok {
					call := cg.callClo(nId(s), sig)
					if sig.isInt {
						ss = append(ss, nAssign(acc, "+=", call))
					} else {
						ss = append(ss, n("expr", call))
					}
					cg.shape("called-through-global")
					break
				}
			}
		}
	}
	if g.errs && r.Chance(15) && len(slots) > 0 {
		ss = append(ss, n("expr", nCall(nId(slots[len(slots)-1])))) // maybe still nil: not callable
	}
	switch {
	case len(live) > 0 && r.Chance(40):
		c := Pick(r, live)
		ss = append(ss, n("expr", cg.callClo(nId(c.name), c)))
	case r.Chance(15) && len(live) > 1:
		ss = append(ss, n("expr", nInfix("==", nId(live[0].name), nId(live[len(live)-1].name))))
		cg.shape("closures-compared")
	default:
		ss = append(ss, n("expr", nId(acc)))
	}
	return n("prog", ss...), cg.shapes
}

// c01cloOne checks every link on one program; origin names the generator for the histograms.
// It returns false when the program is outside the fragment.
func c01cloOne(e *Env, p *N, src, origin string) bool {
	rep := e.O.Ask("C01", "clo", "run", Sexp(p), c01Globals)
	f := strings.Split(rep, "\t")
	if f[0] != "in" || len(f) != 15 {
		if f[0] != "out" {
			e.R.Mismatch(src, "-", rep, "C01 clo run: malformed oracle reply")
		}
		return false
	}
	e.R.H("clo_programs", origin)
	kinds := Kinds(p)
	for k := range kinds {
		e.R.H("clo_constructs", k)
	}
	evalF, runF, stF, stR, asm, linkA, sem, vmm, topF, topSem, stVM, lex := f[1], f[2], f[3], f[4], f[5], f[6], f[7], f[8], f[9], f[10], f[11], f[12]
	oc := evalF
	if strings.HasPrefix(oc, "ok:(") {
		oc = strings.SplitN(strings.TrimPrefix(oc, "ok:("), " ", 2)[0]
		oc = "ok:" + strings.TrimSuffix(oc, ")")
	}
	e.R.H("clo_outcome", oc)
	e.R.H("clo_code_objects", fmt.Sprintf("%d", 1+strings.Count(asm, "|")))
	e.R.H("clo_make_cell_in_program", fmt.Sprintf("%d", min(strings.Count(asm, "MAKE_CELL"), 24)))
	e.R.H("clo_load_closure_in_program", fmt.Sprintf("%d", min(strings.Count(asm, "LOAD_CLOSURE"), 8)))
	e.R.H("clo_free_access_in_program", fmt.Sprintf("%d", min(strings.Count(asm, "LOAD_FREE")+strings.Count(asm, "STORE_FREE"), 40)))
	e.R.H("clo_visibility", lex)
	if evalF == "oof" || runF == "oof" {
		e.R.Note("closure-fragment program exhausted the model's fuel (skipped): %s", src)
		return true
	}
	mis := func(goSide, model, what string) { e.R.Mismatch(src, goSide, model, "closure fragment: "+what) }
	// the theorem's two sides, evaluated (a proved equality: a difference here means the build is inconsistent)
	if evalF != runF || stF != stR {
		mis(evalF+" "+stF, runF+" "+stR, "evalClo vs runClo∘compClo (proved equal by clo_compile_correct)")
	}
	if f[13] != runF || f[14] != stR {
		mis(runF+" "+stR, f[13]+" "+f[14], "runClo vs runCloVM, the machine with relocation of captured locals (proved equal by runCloVM_eq)")
	}
	// the real pipeline
	out := EvalSrc(src, 5*time.Second)
	real := c01fragReal(out)
	if real == "err:context" {
		e.R.Note("real run timed out on a closure-fragment program (skipped): %s", src)
		return true
	}
	if real != evalF {
		mis(real, evalF, "risor.Eval vs evalClo (reference semantics of the fragment)")
	}
	if real != runF {
		mis(real, runF, "risor.Eval vs runClo (compClo p)")
	}
	// (A) bytecode, every code object
	code, err := CompileSrc(src)
	goCode := "fail"
	if err == nil {
		goCode = CodeExport(code)
	} else {
		goCode = "fail: " + err.Error()
	}
	if goCode != asm {
		mis(goCode, asm, "link A: compiler.Compile vs compClo (assembled), every code object, instruction for instruction (MAKE_CELL / LOAD_CLOSURE / LOAD_FREE / STORE_FREE operands included)")
	}
	if linkA != "same" {
		mis(asm, linkA, "link A: compClo (assembled) vs Compile.lean's compileProg")
	}
	// (B) reference semantics (Sem.lean binds a function's name at its declaration: not comparable on forward references)
	if lex == "lex" {
		if sem != evalF || topSem != topF {
			mis(sem+" "+topSem, evalF+" "+topF, "link B: Sem.lean's runProg vs evalClo (outcome, top-level variables)")
		}
	}
	// (C) VM model
	if vmm != runF || stVM != stR {
		mis(vmm+" "+stVM, runF+" "+stR, "link C: VM.lean's runCodes on compileProg vs runClo on compClo (outcome, globals)")
	}
	return true
}

var c01cloRuleDone = false
var c01cloRng *RNG

// c01cloDirected: programs that pin one detail each (the same checks as generated programs).
func c01cloDirected() []*N {
	P := func(names ...string) *N {
		ps := n("params")
		for _, nm := range names {
			ps.C = append(ps.C, ns("param", nm))
		}
		return ps
	}
	pd := func(ps *N, name string, d *N) *N { ps.C = append(ps.C, ns("param", name, d)); return ps }
	fdecl := func(name string, ps *N, body ...*N) *N { return n("expr", ns("func", name, ps, nBlock(body...))) }
	lit := func(ps *N, body ...*N) *N { return ns("func", "", ps, nBlock(body...)) }
	ret := func(e *N) *N { return n("return", e) }
	X := func(e *N) *N { return n("expr", e) }
	pp := func(v string) *N { return ns("postfix", v+" ++") }
	id, I := nId, nInt
	prog := func(ss ...*N) *N { return n("prog", ss...) }
	return []*N{
		// the counter factory: make(); c(); c() -> 2 (three free resolutions: x++ is `x` then the postfix)
		prog(fdecl("counter", P(), nVar("n", I(0)), ret(lit(P(), pp("n"), ret(id("n"))))),
			nVar("c", nCall(id("counter"))), X(nCall(id("c"))), X(nCall(id("c")))),
		// two counters are independent; each keeps its state
		prog(fdecl("counter", P(), nVar("n", I(0)), ret(lit(P(), pp("n"), ret(id("n"))))),
			nVar("c", nCall(id("counter"))), nVar("d", nCall(id("counter"))), X(nCall(id("c"))), X(nCall(id("c"))), X(nCall(id("d"))),
			X(nInfix("+", nInfix("*", nCall(id("c")), I(10)), nCall(id("d"))))),
		// the adder factory: a captured parameter
		prog(fdecl("adder", P("n"), ret(lit(P("x"), ret(nInfix("+", id("x"), id("n")))))),
			nVar("add5", nCall(id("adder"), I(5))),
			X(nInfix("+", nCall(id("add5"), I(10)), nCall(nCall(id("adder"), I(1)), I(2))))),
		// a captured parameter is written: an accumulator
		prog(fdecl("accum", P("total"), ret(lit(P("x"), nAssign("total", "+=", id("x")), ret(id("total"))))),
			nVar("a", nCall(id("accum"), I(100))), X(nCall(id("a"), I(1))), X(nCall(id("a"), I(2))), X(nCall(id("a"), I(3)))),
		// two closures share one variable (through globals)
		prog(nVar("inc", n("nil")), nVar("get", n("nil")),
			fdecl("mk", P(), nVar("n", I(0)),
				nAssign("inc", "=", lit(P(), nAssign("n", "+=", I(1)), ret(id("n")))),
				nAssign("get", "=", lit(P(), ret(id("n"))))),
			X(nCall(id("mk"))), X(nCall(id("inc"))), X(nCall(id("inc"))), X(nCall(id("get")))),
		// the creating function writes after the capture, and reads what the closure wrote
		prog(fdecl("f", P(), nVar("n", I(1)), nVar("g", lit(P(), ret(nInfix("*", id("n"), I(10))))),
			nAssign("n", "=", I(7)), nVar("a", nCall(id("g"))), nAssign("n", "=", nInfix("+", id("n"), I(1))),
			ret(nInfix("+", id("a"), id("n")))), X(nCall(id("f")))),
		prog(fdecl("f", P(), nVar("n", I(1)), nVar("g", lit(P("k"), nAssign("n", "*=", id("k")))),
			X(nCall(id("g"), I(5))), X(nCall(id("g"), I(3))), ret(id("n"))), X(nCall(id("f")))),
		// called immediately; a literal as callee and as argument
		prog(fdecl("f", P("a"), nVar("b", I(2)), ret(nCall(lit(P("x"), ret(nInfix("+", nInfix("*", id("a"), id("b")), id("x")))), I(4)))),
			X(nCall(id("f"), I(10)))),
		prog(fdecl("apply", P("fn", "x"), ret(nCall(id("fn"), id("x")))),
			fdecl("f", P("a"), ret(nCall(id("apply"), lit(P("x"), ret(nInfix("-", id("x"), id("a")))), I(50)))),
			X(nCall(id("f"), I(8)))),
		// a closure passed to other functions and called there, keeping its state
		prog(fdecl("twice", P("fn", "x"), X(nCall(id("fn"), nCall(id("fn"), id("x"))))),
			fdecl("mk", P(), nVar("calls", I(0)), ret(lit(P("x"), pp("calls"), ret(nInfix("+", nInfix("*", id("x"), I(2)), id("calls")))))),
			nVar("c", nCall(id("mk"))), X(nInfix("+", nInfix("*", nCall(id("twice"), id("c"), I(1)), I(100)), nCall(id("twice"), id("c"), I(1))))),
		// a closure created inside a loop and inside an if block, over a variable declared outside
		prog(nVar("slot", n("nil")),
			fdecl("mk", P("k"), nVar("s", I(0)),
				n("for3", nVar("i", I(0)), nInfix("<", id("i"), id("k")), pp("i"),
					nBlock(X(n("if", nInfix("==", id("i"), I(1)), nBlock(nAssign("slot", "=", lit(P(), nAssign("s", "+=", I(10)), ret(id("s"))))))),
						nAssign("s", "+=", id("i")))),
				ret(id("s"))),
			nVar("r", nCall(id("mk"), I(4))), X(nInfix("+", nInfix("*", id("r"), I(1000)), nInfix("+", nCall(id("slot")), nCall(id("slot")))))),
		// a free variable used in every position: condition, switch subject, case value, loop header, compound target
		prog(fdecl("mk", P("a", "b"), ret(lit(P("x"),
			X(n("if", nInfix(">", id("a"), id("x")), nBlock(nAssign("b", "+=", id("a"))), nBlock(nAssign("b", "-=", I(1))))),
			n("for3", nVar("i", id("a")), nInfix("<", id("i"), nInfix("+", id("a"), I(2))), pp("i"), nBlock(nAssign("b", "+=", id("i")))),
			ret(n("switch", id("x"), n("case", id("a"), nBlock(X(nInfix("*", id("b"), I(2))))), n("default", nBlock(X(id("b"))))))))),
			nVar("c", nCall(id("mk"), I(3), I(100))), X(nInfix("+", nInfix("*", nCall(id("c"), I(3)), I(10000)), nCall(id("c"), I(9))))),
		// `x = e`: the target is resolved before the right-hand side; compound: one index for load and store
		prog(fdecl("mk", P(), nVar("u", I(1)), nVar("w", I(2)), ret(lit(P(),
			nAssign("u", "=", nInfix("+", id("w"), id("u"))), nAssign("w", "+=", id("u")), pp("u"), ret(nInfix("+", nInfix("*", id("u"), I(100)), id("w")))))),
			nVar("c", nCall(id("mk"))), X(nCall(id("c"))), X(nCall(id("c")))),
		// a literal without captures inside a function is a constant (LoadConst)
		prog(nVar("g", I(5)), fdecl("mk", P(), ret(lit(P("x"), ret(nInfix("+", id("x"), id("g")))))),
			X(nInfix("==", nCall(nCall(id("mk")), I(1)), I(6)))),
		// closures are fresh objects: equal to themselves only
		prog(fdecl("mk", P(), nVar("n", I(0)), ret(lit(P(), ret(id("n"))))),
			nVar("c", nCall(id("mk"))), X(nInfix("&&", nInfix("==", id("c"), id("c")), nInfix("!=", nCall(id("mk")), nCall(id("mk")))))),
		// the self slot of the maker is captured; recursion of the maker creates one cell per activation
		prog(fdecl("mk", P("d"), nVar("me", id("d")), X(n("if", nInfix(">", id("d"), I(0)), nBlock(ret(nCall(id("mk"), nInfix("-", id("d"), I(1))))))),
			ret(lit(P(), nAssign("me", "+=", I(1)), ret(id("me"))))),
			nVar("c", nCall(id("mk"), I(3))), X(nCall(id("c"))), X(nCall(id("c")))),
		// defaults of the maker and of the closure
		prog(fdecl("mk", pd(P("a"), "b", I(4)), ret(lit(pd(P(), "x", I(1)), ret(nInfix("+", nInfix("*", id("a"), id("b")), id("x")))))),
			X(nInfix("+", nInfix("+", nCall(nCall(id("mk"), I(2))), nCall(nCall(id("mk"), I(2), I(3)), I(5))), I(0)))),
		// errors: wrong arity of a closure call, a type error inside a closure (the state written before it stays), not callable
		prog(fdecl("mk", P(), nVar("n", I(0)), ret(lit(P("x"), pp("n"), ret(id("n"))))), nVar("c", nCall(id("mk"))), X(nCall(id("c")))),
		prog(nVar("seen", I(0)), fdecl("mk", P(), nVar("n", I(0)), ret(lit(P("x"), pp("n"), nAssign("seen", "=", id("n")), ret(nInfix("+", id("n"), id("x")))))),
			nVar("c", nCall(id("mk"))), X(nCall(id("c"), I(1))), X(nCall(id("c"), nStr("a")))),
		prog(fdecl("mk", P(), nVar("n", I(0)), ret(lit(P(), ret(id("n"))))), X(nCall(nCall(nCall(id("mk")))))),
		// dead code after the first top-level return is not compiled: its references are no captures, its literals no code objects
		prog(fdecl("mk", P("a"), nVar("b", I(1)), ret(lit(P(), ret(id("a")), X(id("b")), X(id("b")))), X(lit(P(), ret(id("b"))))),
			X(nCall(nCall(id("mk"), I(9))))),
		// a maker bound by := ; a literal in the main code (no captures: globals)
		prog(nVar("base", I(10)), nVar("mk", lit(P("a"), ret(lit(P("x"), nAssign("base", "+=", I(1)), ret(nInfix("+", nInfix("+", id("a"), id("x")), id("base"))))))),
			nVar("h", lit(P("x"), ret(nInfix("*", id("x"), id("base"))))),
			X(nInfix("+", nCall(nCall(id("mk"), I(1)), I(2)), nCall(id("h"), I(2))))),
	}
}

// c01cloOutside: programs that must be OUTSIDE the fragment (the boundary of inClo): a capture two
// function levels up (the recorded finding C02-positional-capture), a literal nested three levels
// deep, a captured variable declared inside a loop body (Sem.lean makes it fresh per iteration, the
// real VM keeps one slot: a recorded finding), a named function inside a function, a use of an
// enclosing function's variable that is not in scope at the literal.
func c01cloOutside() []*N {
	P := func(names ...string) *N {
		ps := n("params")
		for _, nm := range names {
			ps.C = append(ps.C, ns("param", nm))
		}
		return ps
	}
	fdecl := func(name string, ps *N, body ...*N) *N { return n("expr", ns("func", name, ps, nBlock(body...))) }
	lit := func(ps *N, body ...*N) *N { return ns("func", "", ps, nBlock(body...)) }
	ret := func(e *N) *N { return n("return", e) }
	X := func(e *N) *N { return n("expr", e) }
	id, I := nId, nInt
	prog := func(ss ...*N) *N { return n("prog", ss...) }
	return []*N{
		prog(fdecl("f", P("a"), ret(lit(P("b"), ret(lit(P("c"), ret(nInfix("+", id("a"), id("c")))))))), X(nCall(nCall(nCall(id("f"), I(1)), I(2)), I(3)))),
		prog(fdecl("f", P("a"), ret(lit(P("b"), ret(lit(P("c"), ret(id("c"))))))), X(nCall(nCall(nCall(id("f"), I(1)), I(2)), I(3)))),
		prog(nVar("slot", n("nil")), fdecl("f", P(), n("for3", nVar("i", I(0)), nInfix("<", id("i"), I(2)), ns("postfix", "i ++"),
			nBlock(nVar("z", id("i")), nAssign("slot", "=", lit(P(), ret(id("z"))))))), X(nCall(id("f")))),
		prog(fdecl("f", P(), fdecl("g", P(), ret(I(1))), ret(nCall(id("g")))), X(nCall(id("f")))),
		prog(fdecl("f", P(), nVar("c", lit(P(), ret(id("late")))), nVar("late", I(1)), ret(nCall(id("c")))), X(nCall(id("f")))),
	}
}

// c01CloCheck is called once per program of the shared generator (from c01.go's flush).
func c01CloCheck(e *Env, p *N, src string) {
	if !c01cloRuleDone {
		c01cloRuleDone = true
		c01cloRng = e.Rng.Fork().Fork().Fork().Fork()
		e.R.Rule += "; proved closure fragment: every shared-generator program that lies in the fragment, directed programs (counter, adder, " +
			"accumulator, shared variable, writes after the capture, immediate calls, literals as callee / argument / in loops and if blocks, " +
			"free variables in every position, dead code after return, closure identity, defaults, errors), plus fragment-only programs from a generator of MAKERS: " +
			"1-2 top-level functions (named or bound by :=, 0-2 int parameters, a trailing default) with 1-2 locals, 1-3 inner literals whose " +
			"bodies read and write the captured parameters / locals in forced shapes (x++, op=, x = f(x), reads into locals, writes inside if blocks and loops) " +
			"and random statements of the fragment generator, the maker going on after the capture (writes, immediate calls, reads after calls), closures returned " +
			"(from a local, as a literal, implicitly), stored in global slots, passed to apply / twice helpers, called immediately; the main code calls the makers " +
			"several times and the returned / stored closures in interleaved order; injected arity and type errors; each program checked on links A (every code object), B, C and against the real pipeline"
		for _, q := range c01cloDirected() {
			src := c01funSrc(q)
			if c01cloOne(e, q, src, "directed") {
				e.R.Case("clo:"+Sexp(q), true)
			} else {
				e.R.Mismatch(src, "-", "out", "closure fragment: a directed program is outside the fragment")
			}
		}
		for _, q := range c01cloOutside() {
			if rep := e.O.Ask("C01", "clo", "run", Sexp(q), c01Globals); rep != "out" {
				e.R.Mismatch(c01funSrc(q), "-", rep, "closure fragment: a program that must be outside the fragment is reported inside")
			}
		}
	}
	// 1. the shared generator's program
	if kinds := Kinds(p); kinds["func"] > 0 {
		if c01cloOne(e, p, src, "shared:whole") {
			// counted by c01.go
		} else {
			e.R.H("clo_programs", "shared:outside")
		}
	}
	// 2. fragment-only programs
	q, shapes := c01cloProgram(c01cloRng.Fork())
	qsrc := c01funSrc(q)
	if c01cloOne(e, q, qsrc, "own") {
		e.R.Case("clo:"+Sexp(q), len(Kinds(q)) >= 7)
		for s := range shapes {
			e.R.H("clo_shapes", s)
		}
	} else {
		e.R.H("clo_programs", "own:outside")
		e.R.Note("the closure-fragment generator produced a program outside the fragment: %s", qsrc)
	}
}

// development aid (not a registered check): `harness C01clo -oracle …` runs only the closure
// fragment's directed and generated programs
func init() {
	commands["C01clo"] = func(e *Env) {
		e.R.Rule = "closure fragment only (development aid)"
		nProg := 300
		if !e.Quick {
			nProg = 3000
		}
		for i := 0; i < nProg; i++ {
			c01CloCheck(e, n("prog"), "")
		}
	}
}
