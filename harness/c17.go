package main

// C17 — serialised bytecode behaves exactly like the code it was made from.
//
// Every program is compiled by the REAL compiler, marshalled and unmarshalled by the REAL
// compiler.MarshalCode / UnmarshalCode, and
//   (Code vs Impl)  the real code tree (read through reflection: instructions, constants incl.
//                   nested functions and defaults, names, ids, parent/children/function links,
//                   the whole symbol-table tree) is sent to the Lean oracle, whose `marshal` is
//                   compared structurally with Go's JSON, whose `unmarshal ∘ marshal` is
//                   compared with the real reloaded tree, and whose byte-stability verdict is
//                   compared with bytes.Equal of the real second marshalling;
//   (Code vs Spec)  original and reloaded code are run side by side (risor.EvalCode, stdout
//                   through a VirtualOS) and must agree on result, output and error; repeated
//                   MarshalCode calls must give equal bytes; marshal(unmarshal(marshal c)) must
//                   equal marshal c; UnmarshalCode of the marshaller's output must not fail.
//                   The reloaded tree must BE the compiled tree (every exported field, IsNamed()
//                   included: C17_partial_compiled), and no function of the reloaded code may be
//                   handed more initial locals (parameters + the function itself when
//                   IsNamed()) than its code has local slots if that held of the compiled code
//                   (C17_reload_frames_fit) — both evaluated on the real trees, whether or not
//                   the program happens to call the function.
// A Spec violation is attributed to a known finding only if the oracle's guard for that
// finding is false on the exported tree AND Go agrees with the Impl model on the case.  The
// guard of C17-func-named-main is exact: the tree obeys the compiler's naming discipline
// (CompileNames, an obligation reported when it fails) and has a function called __main__
// (compileNames_guard_exact); a name on a code object that is not a named function is not
// that finding.

import (
	"bytes"
	"context"
	"encoding/json"
	"fmt"
	"io"
	"math"
	"os"
	"path/filepath"
	"reflect"
	"sort"
	"strconv"
	"strings"
	"time"
	"unicode/utf8"
	"unsafe"

	"github.com/risor-io/risor"
	"github.com/risor-io/risor/compiler"
	ros "github.com/risor-io/risor/os"
)

func init() {
	commands["C17"] = c17_runC17
	childCommands["c17-dev"] = func(args []string) {
		src, _ := io.ReadAll(os.Stdin)
		code, err := CompileSrc(string(src))
		if err != nil {
			fmt.Println("compile error:", err)
			return
		}
		nodes, table, probs := c17Export(code)
		fmt.Printf("C17\trt\t%s\t%s\n", nodes, table)
		fmt.Fprintln(os.Stderr, "problems:", probs)
		b, _ := compiler.MarshalCode(code)
		fmt.Fprintln(os.Stderr, "json:", string(b))
		cj, err := c17CanonJSON(b)
		fmt.Fprintln(os.Stderr, "canon:", cj, err)
	}
}

// ---------------------------------------------------------------- reading the real tree

func c17Field(ptr any, name string) reflect.Value {
	v := reflect.ValueOf(ptr).Elem().FieldByName(name)
	if !v.IsValid() {
		panic("C17 harness: field " + name + " not found in " + reflect.TypeOf(ptr).String())
	}
	return reflect.NewAt(v.Type(), unsafe.Pointer(v.UnsafeAddr())).Elem()
}

func c17Symbols(c *compiler.Code) *compiler.SymbolTable {
	return c17Field(c, "symbols").Interface().(*compiler.SymbolTable)
}
func c17Children(c *compiler.Code) []*compiler.Code {
	return c17Field(c, "children").Interface().([]*compiler.Code)
}
func c17TableChildren(t *compiler.SymbolTable) []*compiler.SymbolTable {
	return c17Field(t, "children").Interface().([]*compiler.SymbolTable)
}
func c17TableByName(t *compiler.SymbolTable) map[string]*compiler.Symbol {
	return c17Field(t, "symbolsByName").Interface().(map[string]*compiler.Symbol)
}
func c17TableIsBlock(t *compiler.SymbolTable) bool { return c17Field(t, "isBlock").Bool() }

func c17_b01(b bool) string {
	if b {
		return "1"
	}
	return "0"
}

type c17Stats struct {
	codes, consts, funcs, defaults, tables, maxDepth int
	kinds                                            map[string]int
}

func c17Basic(v any, probs *[]string, st *c17Stats) string {
	switch x := v.(type) {
	case nil:
		st.kinds["nil"]++
		return "n"
	case bool:
		st.kinds["bool"]++
		return "b " + c17_b01(x)
	case int:
		st.kinds["int"]++
		return "i " + strconv.FormatInt(int64(x), 10)
	case int64:
		st.kinds["int"]++
		return "i " + strconv.FormatInt(x, 10)
	case float64:
		st.kinds["float"]++
		if math.IsNaN(x) || math.IsInf(x, 0) {
			*probs = append(*probs, "non-finite float constant")
		}
		return "f " + strconv.FormatUint(math.Float64bits(x), 10)
	case string:
		if utf8.ValidString(x) {
			ascii := true
			for i := 0; i < len(x); i++ {
				if x[i] >= 0x80 {
					ascii = false
				}
			}
			if ascii {
				st.kinds["string-ascii"]++
			} else {
				st.kinds["string-utf8"]++
			}
		} else {
			st.kinds["string-invalid-utf8"]++
		}
		return "s " + Hex(x)
	default:
		*probs = append(*probs, fmt.Sprintf("constant of unmodelled type %T", v))
		return "n"
	}
}

func c17Sym(s *compiler.Symbol, probs *[]string) string {
	if s.Value() != nil {
		*probs = append(*probs, "symbol "+s.Name()+" carries a value (model assumes nil)")
	}
	return Hex(s.Name()) + " " + strconv.Itoa(int(s.Index())) + " " + c17_b01(s.IsConstant())
}

func c17Table(t *compiler.SymbolTable, probs *[]string, st *c17Stats, depth int) string {
	st.tables++
	var sb strings.Builder
	sb.WriteString("T " + Hex(t.ID()) + " " + c17_b01(c17TableIsBlock(t)))
	n := int(t.Count())
	sb.WriteString(" " + strconv.Itoa(n))
	for i := 0; i < n; i++ {
		sb.WriteString(" " + c17Sym(t.Symbol(uint16(i)), probs))
	}
	bn := c17TableByName(t)
	type kv struct {
		k string
		s *compiler.Symbol
	}
	var kvs []kv
	seen := map[string]bool{}
	for k, s := range bn {
		if k != s.Name() {
			*probs = append(*probs, "symbolsByName key "+k+" differs from the symbol's name "+s.Name())
		}
		if seen[s.Name()] {
			*probs = append(*probs, "two symbolsByName entries with the name "+s.Name())
		}
		seen[s.Name()] = true
		kvs = append(kvs, kv{s.Name(), s})
	}
	sort.Slice(kvs, func(i, j int) bool { return kvs[i].k < kvs[j].k })
	sb.WriteString(" " + strconv.Itoa(len(kvs)))
	for _, e := range kvs {
		sb.WriteString(" " + Hex(e.k) + " " + c17Sym(e.s, probs))
	}
	nf := int(t.FreeCount())
	sb.WriteString(" " + strconv.Itoa(nf))
	for i := 0; i < nf; i++ {
		r := t.Free(uint16(i))
		sb.WriteString(" " + c17Sym(r.Symbol(), probs) + " " + string(r.Scope()) + " " + strconv.Itoa(r.Depth()) + " " + strconv.Itoa(r.FreeIndex()))
	}
	ch := c17TableChildren(t)
	sb.WriteString(" " + strconv.Itoa(len(ch)))
	for _, c := range ch {
		if c.Parent() != t {
			*probs = append(*probs, "table "+c.ID()+": parent pointer is not the table that lists it")
		}
		sb.WriteString(" " + c17Table(c, probs, st, depth+1))
	}
	return sb.String()
}

// c17Export renders the code tree in the oracle's request format and checks, on the Go side,
// the representation assumptions of the model (pointers as positions/ids).
func c17Export(root *compiler.Code) (nodes, table string, probs []string) {
	st := &c17Stats{kinds: map[string]int{}}
	return c17ExportStats(root, st)
}

func c17ExportStats(root *compiler.Code, st *c17Stats) (nodes, table string, probs []string) {
	flat := root.Flatten()
	idx := map[*compiler.Code]int{}
	for i, c := range flat {
		idx[c] = i
	}
	st.codes = len(flat)
	rootTable := c17Symbols(root)
	if rootTable.Parent() != nil {
		probs = append(probs, "root code's symbol table has a parent")
	}
	var sb strings.Builder
	sb.WriteString("N " + strconv.Itoa(len(flat)))
	for i, c := range flat {
		parent := -1
		depth := 0
		for q := c.Parent(); q != nil; q = q.Parent() {
			depth++
		}
		if depth > st.maxDepth {
			st.maxDepth = depth
		}
		if p := c.Parent(); p != nil {
			j, ok := idx[p]
			if !ok {
				probs = append(probs, "parent of "+c.ID()+" is not in Flatten()")
			}
			parent = j
		} else if i != 0 {
			probs = append(probs, "non-root code without parent: "+c.ID())
		}
		// children slice = the codes that name this one as parent, in Flatten order
		var derived []*compiler.Code
		for _, d := range flat {
			if d.Parent() == c {
				derived = append(derived, d)
			}
		}
		ch := c17Children(c)
		if len(ch) != len(derived) {
			probs = append(probs, "children slice of "+c.ID()+" disagrees with the parent pointers")
		} else {
			for k := range ch {
				if ch[k] != derived[k] {
					probs = append(probs, "children order of "+c.ID()+" disagrees with Flatten order")
				}
			}
		}
		syms := c17Symbols(c)
		if found, ok := rootTable.FindTable(syms.ID()); !ok || found != syms {
			probs = append(probs, "FindTable("+syms.ID()+") is not the table of code "+c.ID())
		}
		if syms.Root() != rootTable {
			probs = append(probs, "code "+c.ID()+": symbols.Root() is not the root code's table")
		}
		if c.LocalsCount() != int(syms.Count()) {
			probs = append(probs, "LocalsCount differs from the table's symbol count")
		}
		sb.WriteString(" " + Hex(c.ID()) + " " + Hex(c.CodeName()) + " " + c17_b01(c.IsNamed()) + " " + strconv.Itoa(parent) + " " +
			Hex(c.FunctionID()) + " " + Hex(syms.ID()) + " " + Hex(c.Source()))
		sb.WriteString(" " + strconv.Itoa(c.InstructionCount()))
		for k := 0; k < c.InstructionCount(); k++ {
			sb.WriteString(" " + strconv.Itoa(int(c.Instruction(k))))
		}
		sb.WriteString(" " + strconv.Itoa(c.ConstantsCount()))
		st.consts += c.ConstantsCount()
		for k := 0; k < c.ConstantsCount(); k++ {
			switch v := c.Constant(k).(type) {
			case *compiler.Function:
				st.funcs++
				st.kinds["function"]++
				ci := -1
				if fc := v.Code(); fc != nil {
					j, ok := idx[fc]
					if !ok {
						probs = append(probs, "function "+v.ID()+" points to a code outside Flatten()")
					} else {
						ci = j
					}
				}
				if c17Field(v, "parameters").IsNil() || c17Field(v, "defaults").IsNil() {
					// JSON null instead of []: not produced by compile, not modelled
					probs = append(probs, "function "+v.ID()+" has a nil parameters/defaults slice")
				}
				sb.WriteString(" F " + Hex(v.ID()) + " " + Hex(v.Name()) + " " + strconv.Itoa(ci))
				sb.WriteString(" " + strconv.Itoa(v.ParametersCount()))
				for q := 0; q < v.ParametersCount(); q++ {
					sb.WriteString(" " + Hex(v.Parameter(q)))
				}
				sb.WriteString(" " + strconv.Itoa(v.DefaultsCount()))
				for q := 0; q < v.DefaultsCount(); q++ {
					if v.Default(q) != nil {
						st.defaults++
					}
					sb.WriteString(" " + c17Basic(v.Default(q), &probs, st))
				}
			default:
				sb.WriteString(" " + c17Basic(v, &probs, st))
			}
		}
		sb.WriteString(" " + strconv.Itoa(c.NameCount()))
		for k := 0; k < c.NameCount(); k++ {
			sb.WriteString(" " + Hex(c.Name(k)))
		}
	}
	return sb.String(), c17Table(rootTable, &probs, st, 0), probs
}

// c17FramesFit evaluates Model.FramesFit on a real tree: vm.callFunction hands the frame of a
// call the parameters and then, if the code IsNamed(), the function itself; frame.ActivateCode
// gives the frame exactly LocalsCount() local slots.
func c17FramesFit(root *compiler.Code) (fits bool, detail string) {
	fits = true
	for _, c := range root.Flatten() {
		for k := 0; k < c.ConstantsCount(); k++ {
			fn, ok := c.Constant(k).(*compiler.Function)
			if !ok || fn.Code() == nil {
				continue
			}
			fc := fn.Code()
			need := fn.ParametersCount()
			if fc.IsNamed() {
				need++
			}
			if need > fc.LocalsCount() {
				if fits {
					detail = fmt.Sprintf("a call of the function constant %s of code %s (code object %s, CodeName()=%q, IsNamed()=%v, %d parameters) hands the frame %d initial locals but the code has %d local slots",
						fn.ID(), c.ID(), fc.ID(), fc.CodeName(), fc.IsNamed(), fn.ParametersCount(), need, fc.LocalsCount())
				}
				fits = false
			}
		}
	}
	return
}

// ---------------------------------------------------------------- canonical JSON

type c17JV struct {
	kind byte // 's' string (canonical hex form), 'n' number (raw text), 'l' literal, 'a' array, 'o' object
	s    string
	arr  []*c17JV
	keys []string
}

type c17JP struct {
	b []byte
	i int
}

func (p *c17JP) ws() {
	for p.i < len(p.b) && (p.b[p.i] == ' ' || p.b[p.i] == '\n' || p.b[p.i] == '\t' || p.b[p.i] == '\r') {
		p.i++
	}
}

// str parses a JSON string and returns its canonical form: hex of the decoded bytes, with
// `!` for the escape \ufffd (what encoding/json writes for a byte that is not valid UTF-8).
func (p *c17JP) str() (string, error) {
	if p.i >= len(p.b) || p.b[p.i] != '"' {
		return "", fmt.Errorf("expected string at %d", p.i)
	}
	p.i++
	var sb strings.Builder
	hexOf := func(bs []byte) {
		for _, c := range bs {
			fmt.Fprintf(&sb, "%02x", c)
		}
	}
	for p.i < len(p.b) {
		c := p.b[p.i]
		switch {
		case c == '"':
			p.i++
			return sb.String(), nil
		case c == '\\':
			p.i++
			if p.i >= len(p.b) {
				return "", fmt.Errorf("bad escape")
			}
			e := p.b[p.i]
			p.i++
			switch e {
			case '"', '\\', '/':
				hexOf([]byte{e})
			case 'b':
				hexOf([]byte{'\b'})
			case 'f':
				hexOf([]byte{'\f'})
			case 'n':
				hexOf([]byte{'\n'})
			case 'r':
				hexOf([]byte{'\r'})
			case 't':
				hexOf([]byte{'\t'})
			case 'u':
				if p.i+4 > len(p.b) {
					return "", fmt.Errorf("bad \\u")
				}
				v, err := strconv.ParseUint(string(p.b[p.i:p.i+4]), 16, 32)
				if err != nil {
					return "", err
				}
				p.i += 4
				r := rune(v)
				if r == 0xFFFD {
					sb.WriteByte('!')
					continue
				}
				if r >= 0xD800 && r < 0xDC00 && p.i+6 <= len(p.b) && p.b[p.i] == '\\' && p.b[p.i+1] == 'u' {
					v2, err := strconv.ParseUint(string(p.b[p.i+2:p.i+6]), 16, 32)
					if err == nil && v2 >= 0xDC00 && v2 < 0xE000 {
						p.i += 6
						r = 0x10000 + (r-0xD800)<<10 + (rune(v2) - 0xDC00)
					}
				}
				var buf [4]byte
				n := utf8.EncodeRune(buf[:], r)
				hexOf(buf[:n])
			default:
				return "", fmt.Errorf("bad escape %c", e)
			}
		default:
			hexOf([]byte{c})
			p.i++
		}
	}
	return "", fmt.Errorf("unterminated string")
}

func (p *c17JP) val() (*c17JV, error) {
	p.ws()
	if p.i >= len(p.b) {
		return nil, fmt.Errorf("unexpected end")
	}
	switch c := p.b[p.i]; {
	case c == '"':
		s, err := p.str()
		return &c17JV{kind: 's', s: s}, err
	case c == '{':
		p.i++
		v := &c17JV{kind: 'o'}
		p.ws()
		if p.i < len(p.b) && p.b[p.i] == '}' {
			p.i++
			return v, nil
		}
		for {
			p.ws()
			k, err := p.str()
			if err != nil {
				return nil, err
			}
			p.ws()
			if p.i >= len(p.b) || p.b[p.i] != ':' {
				return nil, fmt.Errorf("expected : at %d", p.i)
			}
			p.i++
			x, err := p.val()
			if err != nil {
				return nil, err
			}
			v.keys = append(v.keys, k)
			v.arr = append(v.arr, x)
			p.ws()
			if p.i < len(p.b) && p.b[p.i] == ',' {
				p.i++
				continue
			}
			if p.i < len(p.b) && p.b[p.i] == '}' {
				p.i++
				return v, nil
			}
			return nil, fmt.Errorf("expected , or } at %d", p.i)
		}
	case c == '[':
		p.i++
		v := &c17JV{kind: 'a'}
		p.ws()
		if p.i < len(p.b) && p.b[p.i] == ']' {
			p.i++
			return v, nil
		}
		for {
			x, err := p.val()
			if err != nil {
				return nil, err
			}
			v.arr = append(v.arr, x)
			p.ws()
			if p.i < len(p.b) && p.b[p.i] == ',' {
				p.i++
				continue
			}
			if p.i < len(p.b) && p.b[p.i] == ']' {
				p.i++
				return v, nil
			}
			return nil, fmt.Errorf("expected , or ] at %d", p.i)
		}
	case c == 't' && bytes.HasPrefix(p.b[p.i:], []byte("true")):
		p.i += 4
		return &c17JV{kind: 'l', s: "true"}, nil
	case c == 'f' && bytes.HasPrefix(p.b[p.i:], []byte("false")):
		p.i += 5
		return &c17JV{kind: 'l', s: "false"}, nil
	case c == 'n' && bytes.HasPrefix(p.b[p.i:], []byte("null")):
		p.i += 4
		return &c17JV{kind: 'l', s: "null"}, nil
	default:
		j := p.i
		for j < len(p.b) && strings.IndexByte("+-0123456789.eE", p.b[j]) >= 0 {
			j++
		}
		if j == p.i {
			return nil, fmt.Errorf("unexpected %q at %d", c, p.i)
		}
		v := &c17JV{kind: 'n', s: string(p.b[p.i:j])}
		p.i = j
		return v, nil
	}
}

var c17KeyType = Hex("type")
var c17KeyValue = Hex("value")
var c17ValFloat = Hex("float")

func (v *c17JV) emit(sb *strings.Builder, asFloat bool) {
	switch v.kind {
	case 's':
		sb.WriteString("\"" + v.s + "\"")
	case 'n':
		if asFloat {
			f, err := strconv.ParseFloat(v.s, 64)
			if err != nil {
				sb.WriteString("f?" + v.s)
			} else {
				sb.WriteString("f" + strconv.FormatUint(math.Float64bits(f), 10))
			}
		} else {
			sb.WriteString(v.s)
		}
	case 'l':
		sb.WriteString(v.s)
	case 'a':
		sb.WriteByte('[')
		for i, x := range v.arr {
			if i > 0 {
				sb.WriteByte(',')
			}
			x.emit(sb, false)
		}
		sb.WriteByte(']')
	case 'o':
		isFloat := false
		for i, k := range v.keys {
			if k == c17KeyType && v.arr[i].kind == 's' && v.arr[i].s == c17ValFloat {
				isFloat = true
			}
		}
		sb.WriteByte('{')
		for i, k := range v.keys {
			if i > 0 {
				sb.WriteByte(',')
			}
			sb.WriteString("\"" + k + "\":")
			v.arr[i].emit(sb, isFloat && k == c17KeyValue)
		}
		sb.WriteByte('}')
	}
}

// c17CanonJSON renders real JSON bytes in the canonical text the oracle produces.
func c17CanonJSON(b []byte) (string, error) {
	p := &c17JP{b: b}
	v, err := p.val()
	if err != nil {
		return "", err
	}
	p.ws()
	if p.i != len(p.b) {
		return "", fmt.Errorf("trailing bytes at %d", p.i)
	}
	var sb strings.Builder
	v.emit(&sb, false)
	return sb.String(), nil
}

// ---------------------------------------------------------------- running

type c17Out struct {
	Value, Type, Err, Stdout string
	Panic                    bool
}

func (o c17Out) String() string {
	return fmt.Sprintf("value=%q type=%s err=%q stdout=%q panic=%v", o.Value, o.Type, o.Err, o.Stdout, o.Panic)
}

func c17Run(code *compiler.Code) (out c17Out) {
	ctx, cancel := context.WithTimeout(context.Background(), 10*time.Second)
	defer cancel()
	buf := &bytes.Buffer{}
	vos := ros.NewVirtualOS(ctx, ros.WithStdout(&memFile{buf: buf}))
	defer func() {
		if r := recover(); r != nil {
			out.Panic = true
			out.Err = fmt.Sprintf("PANIC: %v", r)
		}
		out.Stdout = buf.String()
	}()
	res, err := risor.EvalCode(ctx, code, risor.WithOS(vos))
	if err != nil {
		out.Err = err.Error()
		return
	}
	out.Value = res.Inspect()
	out.Type = string(res.Type())
	return
}

func c17Marshal(code *compiler.Code) (b []byte, err error) {
	defer func() {
		if r := recover(); r != nil {
			b, err = nil, fmt.Errorf("PANIC: %v", r)
		}
	}()
	return compiler.MarshalCode(code)
}

func c17Unmarshal(b []byte) (c *compiler.Code, err error) {
	defer func() {
		if r := recover(); r != nil {
			c, err = nil, fmt.Errorf("PANIC: %v", r)
		}
	}()
	return compiler.UnmarshalCode(b)
}

const (
	c17FindUtf8 = "C17-invalid-utf8-const"
	c17FindMain = "C17-func-named-main"
)

type c17Verdict struct {
	compiled   bool
	mismatch   string // first Code-vs-Impl disagreement ("" if none)
	viol       []string
	finding    string
	guardUtf8  bool
	guardNamed bool
	names      bool // CompileNames: the tree obeys the compiler's naming discipline
	hasMain    bool // HasMainFn: a named function called __main__
	orig       c17Out
}

// c17Check evaluates one program.  When record is false nothing is written to the result
// (used while shrinking).
func c17Check(e *Env, src string, run bool, record bool) (v c17Verdict) {
	H := func(h, k string) {
		if record {
			e.R.H(h, k)
		}
	}
	mism := func(goS, model, what string) {
		if v.mismatch == "" {
			v.mismatch = what
		}
		if record {
			e.R.Mismatch(src, goS, model, what)
		}
	}
	code, err := CompileSrc(src)
	if err != nil {
		H("compile", ErrClass(err.Error()))
		return
	}
	v.compiled = true
	H("compile", "ok")
	b1, err := c17Marshal(code)
	if err != nil {
		v.viol = append(v.viol, "MarshalCode failed: "+err.Error())
		return
	}
	for k := 0; k < 2; k++ {
		bx, err := c17Marshal(code)
		if err != nil || !bytes.Equal(b1, bx) {
			v.viol = append(v.viol, "two MarshalCode calls on the same code gave different bytes")
			break
		}
	}
	// Spec of the file order (marshal_code_order): the code list is the Flatten sequence
	if d := c17OrderSpec(code, b1); d != "" {
		v.viol = append(v.viol, d)
	}
	st := &c17Stats{kinds: map[string]int{}}
	nodes, table, probs := c17ExportStats(code, st)
	if record {
		e.R.H("codes_per_program", fmt.Sprintf("%02d", min(st.codes, 20)))
		e.R.H("code_tree_depth", strconv.Itoa(st.maxDepth))
		e.R.H("symbol_tables", fmt.Sprintf("%02d", min(st.tables, 30)))
		e.R.H("json_bytes", fmt.Sprintf("%dk", len(b1)/1024))
		for k, n := range st.kinds {
			for i := 0; i < n; i++ {
				e.R.H("constant_types", k)
			}
		}
		if st.defaults > 0 {
			e.R.H("features", "default-parameter-values")
		}
		if st.maxDepth >= 2 {
			e.R.H("features", "nested-functions")
		}
		if strings.Contains(table, " free ") {
			e.R.H("features", "free-variables(closures)")
		}
	}
	for _, p := range probs {
		mism(p, "representation assumption of the model", "compiled tree outside the model's representation")
	}
	rep := strings.Split(e.O.Ask("C17", "rt", nodes, table), "\t")
	if len(rep) != 15 || rep[0] != "ok" {
		mism("exported tree", strings.Join(rep, " ")[:min(200, len(strings.Join(rep, " ")))], "oracle could not decode the request")
		return
	}
	wf, named, utf8ok, mjson, mstatus, mnodes, mtable, mstable, mspec := rep[1] == "1", rep[2] == "1", rep[3] == "1", rep[4], rep[5], rep[6], rep[7], rep[9] == "1", rep[10] == "1"
	v.guardNamed, v.guardUtf8 = named, utf8ok
	v.names, v.hasMain = rep[11] == "1", rep[12] == "1"
	mfits, mfits2 := rep[13] == "1", rep[14]
	H("guard_utf8", c17_b01(utf8ok))
	H("guard_named", c17_b01(named))
	H("guard_has_main_fn", c17_b01(v.hasMain))
	H("compile_names", c17_b01(v.names))
	H("model_spec", c17_b01(mspec))
	if !wf {
		mism("tree compiled by the real compiler", "WF = false", "compile produced a tree outside WF (unique ids, Flatten order, links), or its sanitised form is")
	}
	if !v.names {
		mism("tree compiled by the real compiler: "+c17NamesDetail(code), "CompileNames = false",
			"compile produced a tree outside the naming discipline (root = __main__ and unnamed; every other code object IsNamed() exactly when CodeName() != \"\", and CodeName() = the function's own name): isNamed is not serialised, codeFromState recomputes it from the name")
	}
	fits1, _ := c17FramesFit(code)
	if fits1 != mfits {
		mism("FramesFit="+c17_b01(fits1), "FramesFit="+c17_b01(mfits), "frame fit of the compiled tree differs from the model's")
	}
	gj, err := c17CanonJSON(b1)
	if err != nil {
		mism(err.Error(), "", "harness could not parse MarshalCode's output")
	} else if gj != mjson {
		i := 0
		for i < len(gj) && i < len(mjson) && gj[i] == mjson[i] {
			i++
		}
		lo := max(0, i-60)
		mism("…"+gj[lo:min(len(gj), i+80)], "…"+mjson[lo:min(len(mjson), i+80)], "MarshalCode output differs structurally from the model's marshal")
	}
	c2, err := c17Unmarshal(b1)
	if err != nil {
		v.viol = append(v.viol, "UnmarshalCode of the marshaller's output failed: "+err.Error())
		if mstatus == "ok" {
			mism("error: "+err.Error(), "ok", "UnmarshalCode fails where the model's unmarshal succeeds")
		}
	} else {
		if mstatus != "ok" {
			mism("ok", mstatus, "UnmarshalCode succeeds where the model's unmarshal fails")
		} else {
			n2, t2, probs2 := c17Export(c2)
			for _, p := range probs2 {
				mism(p, "representation assumption of the model", "reloaded tree outside the model's representation")
			}
			if n2 != mnodes {
				mism(c17Diff(n2, mnodes), c17Diff(mnodes, n2), "reloaded code tree differs from the model's unmarshal(marshal c)")
			}
			if t2 != mtable {
				mism(c17Diff(t2, mtable), c17Diff(mtable, t2), "reloaded symbol tables differ from the model's")
			}
			// Spec on the real trees: the reloaded tree IS the compiled tree
			if n2 != nodes {
				v.viol = append(v.viol, "the reloaded code tree differs from the compiled one: reloaded "+c17Diff(n2, nodes)+" | compiled "+c17Diff(nodes, n2)+c17NamedDiff(code, c2))
			} else if t2 != table {
				v.viol = append(v.viol, "the reloaded symbol tables differ from the compiled ones: reloaded "+c17Diff(t2, table)+" | compiled "+c17Diff(table, t2))
			}
			fits2, why := c17FramesFit(c2)
			if c17_b01(fits2) != mfits2 {
				mism("FramesFit="+c17_b01(fits2), "FramesFit="+mfits2, "frame fit of the reloaded tree differs from the model's")
			}
			H("frames_fit_compiled/reloaded", c17_b01(fits1)+"/"+c17_b01(fits2))
			if fits1 && !fits2 {
				v.viol = append(v.viol, "every function of the compiled code fits its frame, but in the reloaded code "+why+": calling it writes past the frame's locals")
			}
		}
		b2, err := c17Marshal(c2)
		stable := err == nil && bytes.Equal(b1, b2)
		if !stable {
			v.viol = append(v.viol, "marshalling the reloaded code does not reproduce the same bytes")
		}
		if mstatus == "ok" && stable != mstable {
			mism("bytes.Equal="+c17_b01(stable), "stable="+c17_b01(mstable), "byte stability of the second marshalling differs from the model")
		}
		if err == nil {
			if c3, err := c17Unmarshal(b2); err != nil {
				v.viol = append(v.viol, "UnmarshalCode of the second marshalling failed: "+err.Error())
			} else if b3, err := c17Marshal(c3); err != nil || !bytes.Equal(b2, b3) {
				v.viol = append(v.viol, "the third marshalling differs from the second (no fixpoint)")
			}
		}
		if run {
			o1 := c17Run(code)
			o1b := c17Run(code)
			v.orig = o1
			if o1 != o1b {
				H("run", "original-not-repeatable(skipped)")
			} else {
				o2 := c17Run(c2)
				cls := ErrClass(o1.Err)
				H("run_outcome", cls)
				if o1 != o2 {
					v.viol = append(v.viol, "original and reloaded code behave differently: original "+o1.String()+" | reloaded "+o2.String())
				}
			}
		}
	}
	if len(v.viol) > 0 {
		if v.mismatch == "" {
			switch {
			case !utf8ok:
				v.finding = c17FindUtf8
			case !named && v.names && v.hasMain:
				// exact guard (compileNames_guard_exact): a compiled tree that has a function called __main__
				v.finding = c17FindMain
			}
		}
	}
	return
}

// c17NamesDetail names the first code object that breaks the compiler's naming discipline.
func c17NamesDetail(root *compiler.Code) string {
	for i, c := range root.Flatten() {
		switch {
		case i == 0 && (c.CodeName() != "__main__" || c.IsNamed()):
			return fmt.Sprintf("root code has CodeName()=%q IsNamed()=%v", c.CodeName(), c.IsNamed())
		case i > 0 && c.IsNamed() != (c.CodeName() != ""):
			return fmt.Sprintf("code %s has CodeName()=%q but IsNamed()=%v", c.ID(), c.CodeName(), c.IsNamed())
		}
		for k := 0; k < c.ConstantsCount(); k++ {
			if fn, ok := c.Constant(k).(*compiler.Function); ok && fn.Code() != nil && fn.Code().CodeName() != fn.Name() {
				return fmt.Sprintf("function %s is called %q but its code %s has CodeName()=%q", fn.ID(), fn.Name(), fn.Code().ID(), fn.Code().CodeName())
			}
		}
	}
	return "(no single code object found)"
}

// c17NamedDiff says in words which code objects changed their IsNamed() in the reload.
func c17NamedDiff(a, b *compiler.Code) string {
	fa, fb := a.Flatten(), b.Flatten()
	var out []string
	for i := 0; i < len(fa) && i < len(fb) && len(out) < 3; i++ {
		if fa[i].IsNamed() != fb[i].IsNamed() {
			out = append(out, fmt.Sprintf("code %s (CodeName()=%q): IsNamed() %v -> %v", fa[i].ID(), fa[i].CodeName(), fa[i].IsNamed(), fb[i].IsNamed()))
		}
	}
	if len(out) == 0 {
		return ""
	}
	return " [" + strings.Join(out, "; ") + "]"
}

func c17Diff(a, b string) string {
	i := 0
	for i < len(a) && i < len(b) && a[i] == b[i] {
		i++
	}
	lo := max(0, i-40)
	return "…" + a[lo:min(len(a), i+80)]
}

// ---------------------------------------------------------------- generation

// verbatim source fragments are carried as "id" nodes (rendered as is)
func c17Raw(src string) *N { return n("expr", nId(src)) }

type c17Deco struct {
	name  string
	guard string // "" | "utf8" | "main": leaves the corresponding guard
	gen   func(r *RNG, id int) string
}

func c17Float(r *RNG) string {
	// (the lexer has no exponent syntax)
	return Pick(r, []string{"1.5", "0.1", "3.0", "25000000000.0", "1000000000000000000000.0", "0.0000001", "123456789.125", "0.30000000000000004",
		"12345678901234567890123456789.5", "0.000000000000000000000000000001", "100.0", "0.0", "9007199254740993.0", "3.141592653589793"})
}
func c17Int(r *RNG) string {
	return Pick(r, []string{"0", "1", "-1", "42", "9223372036854775807", "-9223372036854775807", "4294967296", "65535", "65536", "0x7f", "1000000007"})
}
func c17IntDefault(r *RNG) string { // compileFunc rejects negative literals as defaults
	return Pick(r, []string{"0", "1", "42", "9223372036854775807", "4294967296", "65535", "0x7f"})
}
func c17Str(r *RNG) string {
	return Pick(r, []string{`""`, `"a"`, `"héllo"`, `"日本語"`, `"✓ ok"`, `"<a href=\"x\">&amp;</a>"`, `"tab\there"`, `"nl\nx"`, `"q\"uote"`, `"back\\slash"`,
		`"\u00e9\u4e16"`, `"\u2028\u2029"`, `"\U0001F600"`, `"\x41\x7f"`, `"\303\251"`, `"\000nul"`, `"\e[0m"`, `"\ufffd"`, `"𝔘𝔫𝔦"`, `"a\u0000b"`})
}
func c17BadStr(r *RNG) string {
	return Pick(r, []string{`"\377"`, `"a\200b"`, `"\355\240\200"`, `"\303"`, `"ok\300\257"`, `"\364\220\200\200"`, `"\377\376"`, `"é\351"`})
}

// c17BoundLiteral: anonymous function literals and the ways a program gets hold of them.  The
// code object of a literal has no name of its own and no local slot for one; what the variable
// it is bound to is called, how it is declared (`:=`, `var`, `const`, `=`), whether it is bound
// at all (argument, result, list element, immediately called), where (top level, function
// body, if-block, loop body) and whether the literal has locals of its own beyond its
// parameters are all varied; every literal is CALLED, with all arguments and — when it has a
// default — with the default.  (Reloaded code must treat all of them like the compiled code:
// C17_partial_compiled.)
var c17BoundShape string

func c17BoundLiteral(r *RNG, id int) string {
	f := fmt.Sprintf("zf%d", id)
	np := r.Intn(4)
	params := []string{"za", "zb", "zc"}[:np]
	hasDefault := np > 0 && r.Chance(35)
	var ps []string
	for i, p := range params {
		if hasDefault && i == np-1 {
			ps = append(ps, p+"="+Pick(r, []string{c17IntDefault(r), c17Str(r), c17Float(r), "true"}))
		} else {
			ps = append(ps, p)
		}
	}
	plist := strings.Join(ps, ", ")
	free := "" // a variable of the enclosing scope the body may read (set by the placement)
	ownLocal := r.Chance(25)
	body := func() string {
		var terms []string
		terms = append(terms, params...)
		if free != "" {
			terms = append(terms, free)
		}
		var ret string
		switch {
		case len(terms) == 0:
			ret = Pick(r, []string{c17Int(r), c17Str(r), c17Float(r), "nil", "[1, 2]"})
		case r.Chance(50):
			ret = "[" + strings.Join(terms, ", ") + "]"
		default:
			ret = "string(" + strings.Join(terms, ") + string(") + ")"
		}
		if ownLocal {
			return "{\n    zt := " + ret + "\n    return [zt, " + c17Int(r) + "]\n  }"
		}
		return "{ return " + ret + " }"
	}
	args := func(n int) string {
		var as []string
		for i := 0; i < n; i++ {
			as = append(as, Pick(r, []string{strconv.Itoa(r.Intn(9)), c17Str(r), c17Float(r), "nil"}))
		}
		return strings.Join(as, ", ")
	}
	calls := func(name string) string {
		cs := []string{name + "(" + args(np) + ")"}
		if hasDefault {
			cs = append(cs, name+"("+args(np-1)+")")
		}
		if r.Chance(30) {
			cs = append(cs, name+"("+args(np)+")")
		}
		return strings.Join(cs, ", ")
	}
	bind := Pick(r, []string{"decl", "decl", "decl", "var", "var", "const", "const", "assign", "argument", "result", "element", "immediate", "alias", "map-value"})
	place := Pick(r, []string{"top", "top", "function", "function", "if-block", "loop"})
	lit := func() string { return "func(" + plist + ") " + body() }
	// the statements that obtain the literal under the name f (or use it directly) and print its calls
	stmts := func(indent string) string {
		switch bind {
		case "decl":
			return indent + f + " := " + lit() + "\n" + indent + "print(" + calls(f) + ")"
		case "var":
			return indent + "var " + f + " = " + lit() + "\n" + indent + "print(" + calls(f) + ")"
		case "const":
			return indent + "const " + f + " = " + lit() + "\n" + indent + "print(" + calls(f) + ")"
		case "assign":
			return indent + f + " := nil\n" + indent + f + " = " + lit() + "\n" + indent + "print(" + calls(f) + ")"
		case "alias":
			return indent + f + " := " + lit() + "\n" + indent + f + "b := " + f + "\n" + indent + "print(" + calls(f+"b") + ", " + calls(f) + ")"
		case "argument":
			return indent + "print(func(zg) { return [" + calls("zg") + "] }(" + lit() + "))"
		case "result":
			return indent + f + " := func() { return " + lit() + " }\n" + indent + "print(" + calls(f+"()") + ")"
		case "element":
			return indent + f + " := [" + lit() + "]\n" + indent + "print(" + calls(f+"[0]") + ")"
		case "map-value":
			return indent + f + " := {\"k\": " + lit() + "}\n" + indent + "print(" + calls(f+"[\"k\"]") + ")"
		default: // immediate
			return indent + "print(" + lit() + "(" + args(np) + "))"
		}
	}
	c17BoundShape = fmt.Sprintf("%s/%s/params=%d/default=%v/own-local=%v", bind, place, np, hasDefault, ownLocal)
	switch place {
	case "function":
		free = "zp"
		return fmt.Sprintf("func zw%d(zp) {\n%s\n  return zp\n}\nprint(zw%d(%d))", id, stmts("  "), id, r.Intn(9))
	case "if-block":
		return "if true {\n" + stmts("  ") + "\n}"
	case "loop":
		free = "zi"
		return "for zi := 0; zi < 2; zi++ {\n" + stmts("  ") + "\n}"
	}
	return stmts("")
}

var c17Decos = []c17Deco{
	{"defaults-all-types", "", func(r *RNG, id int) string {
		return fmt.Sprintf( // (a nil default does not make the parameter optional: zq is always called with both)
			"func zd%d(a, b=%s, c=%s, d=%s, e=%s) {\n  return [a, b, c, d, e]\n}\nfunc zq%d(a, f=nil) {\n  return [a, f]\n}\nprint(zd%d(1), zd%d(1, 2), zd%d(1, 2, 3, 4, 5), zq%d(1, 2))",
			id, c17IntDefault(r), c17Str(r), Pick(r, []string{"true", "false"}), c17Float(r), id, id, id, id, id)
	}},
	{"closure-counter", "", func(r *RNG, id int) string {
		if r.Chance(15) { // three levels: C02's known capture defect, identical on both sides
			return fmt.Sprintf("func zc%d(n) {\n  c := n\n  return func(k=%s) {\n    c += k\n    return func() {\n      return c * 2\n    }\n  }\n}\nzi%d := zc%d(%d)\nprint(zi%d()(), zi%d(5)(), zi%d()())",
				id, Pick(r, []string{"1", "2", "7"}), id, id, r.Intn(9), id, id, id)
		}
		return fmt.Sprintf("func zc%d(n) {\n  c := n\n  return func(k=%s) {\n    c += k\n    return c * 2\n  }\n}\nzi%d := zc%d(%d)\nprint(zi%d(), zi%d(5), zi%d())",
			id, Pick(r, []string{"1", "2", "7"}), id, id, r.Intn(9), id, id, id)
	}},
	{"closure-two-levels", "", func(r *RNG, id int) string {
		return fmt.Sprintf("func zo%d(a) {\n  b := a + 1\n  func zin(x) {\n    return func() { return x + b }\n  }\n  return zin(%d)\n}\nprint(zo%d(%d)())", id, r.Intn(5), id, r.Intn(5))
	}},
	{"recursion-named", "", func(r *RNG, id int) string {
		return fmt.Sprintf("func zf%d(n) {\n  if n <= 1 {\n    return 1\n  }\n  return n * zf%d(n - 1)\n}\nprint(zf%d(%d))", id, id, id, 1+r.Intn(8))
	}},
	{"recursion-nested-named", "", func(r *RNG, id int) string {
		return fmt.Sprintf("func zg%d(n) {\n  func zh(k) {\n    if k <= 0 {\n      return 0\n    }\n    return k + zh(k - 1)\n  }\n  return zh(n)\n}\nprint(zg%d(%d))", id, id, 1+r.Intn(6))
	}},
	{"constants", "", func(r *RNG, id int) string {
		return fmt.Sprintf("zk%d := [%s, %s, %s, %s, %s]\nprint(zk%d)", id, c17Int(r), c17Float(r), c17Str(r), c17Str(r), c17Float(r), id)
	}},
	{"string-bytes", "", func(r *RNG, id int) string {
		return fmt.Sprintf("zs%d := %s\nprint(len(zs%d), byte_slice(zs%d), zs%d + %s)", id, c17Str(r), id, id, id, c17Str(r))
	}},
	{"template-string", "", func(r *RNG, id int) string {
		return fmt.Sprintf("zt%d := %d\nprint('é{zt%d}-{zt%d + 1}✓')", id, r.Intn(100), id, id)
	}},
	{"attr-names", "", func(r *RNG, id int) string {
		return fmt.Sprintf("zl%d := [3, 1, 2]\nzl%d.append(%d)\nprint(%s.to_upper(), len(zl%d), \"a,b\".split(\",\"))", id, id, r.Intn(9), c17Str(r), id)
	}},
	{"function-value-result", "", func(r *RNG, id int) string {
		return fmt.Sprintf("zv%d := func(x, y=%s) {\n  z := x\n  return [z, y]\n}\nprint(zv%d(1))\nzv%d", id, c17Str(r), id, id)
	}},
	{"function-in-block", "", func(r *RNG, id int) string {
		return fmt.Sprintf("zb%d := 0\nif true {\n  zq := %d\n  zw := func(m=%s) { return zq + m }\n  zb%d = zw()\n}\nfor zi := 0; zi < 2; zi++ {\n  zy := func() { return zi * %s }\n  zb%d += int(zy())\n}\nprint(zb%d)", id, r.Intn(9), c17IntDefault(r), id, c17Float(r), id, id)
	}},
	{"map-and-set", "", func(r *RNG, id int) string {
		return fmt.Sprintf("zm%d := {\"k\": %s}\nprint(zm%d[\"k\"], {1}, zm%d)", id, c17Float(r), id, id)
	}},
	{"error-path", "", func(r *RNG, id int) string {
		return fmt.Sprintf("print(try(func() { error(%s) }, func(e) { return string(e) }))", c17Str(r))
	}},
	{"switch-defer", "", func(r *RNG, id int) string {
		return fmt.Sprintf("func zx%d(v) {\n  defer func() { print(\"done\", v) }()\n  switch v {\n  case 1:\n    return \"one\"\n  case %s:\n    return \"str\"\n  default:\n    return %s\n  }\n}\nprint(zx%d(1), zx%d(2))", id, c17Str(r), c17Float(r), id, id)
	}},
	{"bound-function-literal", "", c17BoundLiteral},
	{"invalid-utf8-const", "utf8", func(r *RNG, id int) string {
		return fmt.Sprintf("zu%d := %s\nprint(len(zu%d), byte_slice(zu%d))", id, c17BadStr(r), id, id)
	}},
	{"invalid-utf8-default", "utf8", func(r *RNG, id int) string {
		return fmt.Sprintf("func zu%d(a=%s) {\n  return byte_slice(a)\n}\nprint(zu%d())", id, c17BadStr(r), id)
	}},
	{"func-named-main", "main", func(r *RNG, id int) string {
		if r.Bool() {
			return fmt.Sprintf("func __main__(n) {\n  if n <= 0 {\n    return 0\n  }\n  return 1 + __main__(n - 1)\n}\nprint(__main__(%d))", 1+r.Intn(4))
		}
		return fmt.Sprintf("func zn%d() {\n  func __main__(k) { return k }\n  return __main__(%d)\n}\nprint(zn%d())", id, r.Intn(5), id)
	}},
}

// c17Program builds one case: a program of the shared generator with C17-specific statements
// (defaults of every constant type, closures, constants, …) inserted at the top level.
func c17Program(r *RNG, i int) (p *N, decos []string, outside string) {
	o := GenOpts{MaxStmts: 2 + r.Intn(4), MaxDepth: 2 + r.Intn(3), Budget: 40 + r.Intn(200), Funcs: true, Closures: true,
		Containers: r.Chance(70), Strings: r.Chance(70), CtlHeavy: r.Chance(25), NoCtlInSwitch: true}
	p = GenProgram(r, o)
	k := r.Intn(4)
	if i%5 == 0 {
		k = 2 + r.Intn(4)
	}
	for j := 0; j < k; j++ {
		var d c17Deco
		for {
			d = Pick(r, c17Decos)
			if d.guard == "" || r.Chance(35) { // keep ≥ 85 % of the programs inside both guards
				break
			}
		}
		if d.guard != "" {
			outside = d.guard
		}
		decos = append(decos, d.name)
		st := c17Raw(d.gen(r, i*10+j))
		if d.name == "bound-function-literal" {
			decos = append(decos, "bound-literal:"+c17BoundShape[:strings.Index(c17BoundShape, "/params")])
		}
		pos := r.Intn(len(p.C)) // never after the final value expression
		p.C = append(p.C[:pos], append([]*N{st}, p.C[pos:]...)...)
	}
	if r.Chance(10) {
		// the program's value is a function: Inspect() prints its source text and defaults
		p.C = append(p.C, c17Raw(fmt.Sprintf("func(a, b=%s) { return a }", c17Str(r))))
		decos = append(decos, "result-is-function")
	}
	return
}

func c17Depth(p *N) int {
	d := 0
	Walk(p, func(x *N, path []*N) {
		k := 0
		for _, q := range path {
			if q.K == "block" {
				k++
			}
		}
		if k > d {
			d = k
		}
	}, nil)
	return d
}

func c17NonTrivial(p *N, v c17Verdict) bool {
	if !v.compiled {
		return false
	}
	forms := 0
	for k := range Kinds(p) {
		switch k {
		case "var", "const", "assign", "setitem", "multi", "postfix", "for3", "forcond", "forever", "forrange", "forin",
			"return", "defer", "if", "switch", "func", "call", "break", "continue":
			forms++
		}
	}
	return forms >= 3 || c17Depth(p) >= 3
}

var c17Unlisted int

func c17Report(e *Env, p *N, src string, v c17Verdict) {
	if len(v.viol) == 0 {
		return
	}
	detail := strings.Join(v.viol, "; ")
	if v.finding != "" {
		e.R.Spec(src, detail, v.finding)
		return
	}
	// unlisted: shrink the first few (only when the tree is available) and report the small program
	c17Unlisted++
	if p != nil && c17Unlisted <= 2 {
		// shrinking deletes statements, which can turn a terminating loop into an endless one
		// (every run is cut off after 10 s): the whole shrink gets a budget, after which the
		// candidate reached so far is reported
		shrinkUntil := time.Now().Add(40 * time.Second)
		small := Shrink(p, func(q *N) bool {
			if time.Now().After(shrinkUntil) {
				return false
			}
			w := c17Check(e, Src(q), true, false)
			return len(w.viol) > 0 && w.finding == ""
		})
		s := Src(small)
		w := c17Check(e, s, true, false)
		if len(w.viol) > 0 {
			e.R.Spec(s, strings.Join(w.viol, "; "), "")
			return
		}
	}
	e.R.Spec(src, detail, "")
}

// directed programs: each known finding's committed replay, and the shapes the property names
var c17Directed = []string{
	"func outer(a, b=2) {\n  c := a + b\n  return func(d=3.5) {\n    return func(e=\"é\", g=true) {\n      return [a, b, d, e, g]\n    }\n  }\n}\nouter(1)()()",
	"func opt(a, f=nil, g=false) {\n  return [a, f, g]\n}\n[opt(1, 2), opt(1, 2, 3)]",
	"func a() { return 1 }\nfunc b() { return a() + 1 }\nfunc c() { return b() + a() }\n[a(), b(), c()]",
	"x := 1\nf := func() {\n  x = x + 1\n  return x\n}\n[f(), f(), x]",
	"fs := []\nfor i := 0; i < 3; i++ {\n  fs.append(func() { return i })\n}\n[fs[0](), fs[1](), fs[2]()]",
	"func(a=1, b=2.5, c=\"s\", d=false, e=nil) { return a }",
	"1.5",
	"",
	"nil",
	"const k = 9223372036854775807\nk",
	"import strings\nstrings.to_upper(\"é\")",
	"func f(n) {\n  if n == 0 {\n    return []\n  }\n  g := func() { return f(n - 1) }\n  return [n] + g()\n}\nf(3)",
	"m := {\"a\": 1.25, \"b\": [1, \"\\u2028\", {\"c\": nil}]}\nm",
	"s := '{1 + 1}é{\"x\"}'\ns",
	"func mk() {\n  n := 0\n  return [func() { n++; return n }, func() { return n * 10 }]\n}\np := mk()\n[p[0](), p[0](), p[1]()]",
	"x := [1.0, 0.1, 100.0, 0.30000000000000004, 9007199254740993.0]\nx",
	// function literals bound by a single-name declaration, without locals of their own, called
	"add := func(a, b) {\n  return a + b\n}\n[add(1, 2), add(\"x\", \"y\")]",
	"const k = func() {\n  return 7\n}\nvar v = func(a, b=2) {\n  return [a, b]\n}\n[k(), v(1), v(1, 3)]",
	"func outer(n) {\n  sq := func(x) { return x * n }\n  return sq(n) + 1\n}\nouter(4)",
	// the committed replays of the two known findings (kept last: on a changed tree the first
	// unlisted violation reported should be an ordinary program)
	"x := \"\\377\"\nprint(len(x), byte_slice(x))\nx",
	"func __main__(n) {\n  if n <= 0 {\n    return 0\n  }\n  return 1 + __main__(n - 1)\n}\n__main__(3)",
	"f := func(a, b=\"\\377z\") {\n  return \"q\\377\" + b\n}\nf(1)",
	"x := 0\nfunc __main__() {\n  x++\n  return x\n}\n__main__()\n__main__()\nx",
}

func c17_runC17(e *Env) {
	e.R.Rule = "programs of the shared structured generator (functions, closures, loops, switch, containers, strings) with C17-specific " +
		"top-level statements inserted (defaults of every constant type, closures over two levels, recursion through the function's own " +
		"name, float/int/string constants incl. non-ASCII, escapes and — in < 15 % of the programs — octal escapes that are not valid UTF-8 " +
		"or a function called __main__; anonymous function literals with 0–3 parameters, with or without a default and with or without a local of " +
		"their own, bound by :=, var, const, =, an alias, or not bound at all (argument, result, list element, map value, immediately called), at top " +
		"level, in a function body, an if-block or a loop body, every one of them called), the directed programs, and every script of the " +
		"repository (marshalled and compared, not run); on every program the real reloaded tree is compared field by field with the real compiled " +
		"tree and the frame fit of every function constant (parameters + the function itself when IsNamed() against LocalsCount()) is evaluated " +
		"on both trees, and the ids of the code list of the real bytes are compared with the real Flatten order; " +
		"large programs: 18–90 functions (19–91 code objects, most of them ≥ 24) as flat lists, chains of nested functions up to depth 7, bushy and " +
		"deep trees, one function with dozens of inner functions, named functions and bound literals, defaults, locals, free variables, every " +
		"function called — checked like every other program (a case each, non-trivial when it compiles); list order: the real bytes of " +
		"directed, generated and large programs are given to the real UnmarshalCode with the code list permuted (identity, parents-first " +
		"shuffles, reversed, last first, root moved back, random shuffle, adjacent swap, one child before its parent) and verdict, error " +
		"and entry point are compared with the model's unmarshal ∘ reorder (not counted as cases); " +
		"a case is one program; distinct by its source text; non-trivial when it compiles and has ≥ 3 statement forms or block depth ≥ 3. " +
		"Sessions: 2–4 compiled programs of mixed size (tiny, directed, one inserted statement, generated) and a sequence of 3–15 " +
		"MarshalCode(code i)/UnmarshalCode(bytes j) calls over the growing store of retained results (marshal all then reload from the first; " +
		"reload x, marshal y, use x; up and down then reload all; random), run on one pinned goroutine, every retained result compared at the " +
		"end with the model's session and with the copy taken when it was returned; a session is one case, distinct by its programs and " +
		"calls, non-trivial when ≥ 2 different programs are marshalled and it has ≥ 3 calls"
	n := 4000
	if !e.Quick {
		n = 60000
	}
	for _, src := range c17Directed {
		v := c17Check(e, src, true, true)
		e.R.Case(src, v.compiled && strings.Count(src, "\n") >= 2)
		e.R.H("directed", c17_b01(v.compiled))
		c17Report(e, nil, src, v)
	}
	// wall-clock budget for the generated part: it only bounds the amount of work (the
	// machine may be loaded); it is never a verdict
	budget := 100 * time.Second
	if !e.Quick {
		budget = 20 * time.Minute
	}
	started := time.Now()
	rng := e.Rng.Fork()
	for i := 0; i < n; i++ {
		if time.Since(started) > budget {
			e.R.Note("time budget of %v reached after %d of %d generated programs", budget, i, n)
			break
		}
		r := rng.Fork()
		p, decos, outside := c17Program(r, i)
		src := Src(p)
		v := c17Check(e, src, true, true)
		e.R.Case(src, c17NonTrivial(p, v))
		if v.compiled {
			for k := range Kinds(p) {
				e.R.H("constructs", k)
			}
			for _, d := range decos {
				e.R.H("inserted", d)
			}
			if outside == "" {
				e.R.H("generated_inside_guards", "yes")
			} else {
				e.R.H("generated_inside_guards", "no:"+outside)
			}
		}
		if !v.compiled {
			for _, d := range decos {
				e.R.H("inserted_in_programs_that_do_not_compile", d)
			}
		}
		c17Report(e, p, src, v)
		if c17Unlisted >= 25 {
			e.R.Note("stopped generating after %d programs: %d unlisted violations already found", i+1, c17Unlisted)
			break
		}
	}
	// large programs (18–90 functions) and the order of the serialised code list (c17ord.go)
	c17LargePrograms(e)
	// repository scripts: compiled, marshalled, reloaded, compared with the model; not run
	// (they touch the network, the clock and the file system)
	var files []string
	for _, dir := range []string{"examples", "tests", "vm", "cmd", "research", "modules"} {
		filepath.WalkDir(filepath.Join("/repo", dir), func(path string, d os.DirEntry, err error) error {
			if err == nil && !d.IsDir() && (strings.HasSuffix(path, ".risor") || strings.HasSuffix(path, ".tm")) {
				files = append(files, path)
			}
			return nil
		})
	}
	sort.Strings(files)
	for _, f := range files {
		b, err := os.ReadFile(f)
		if err != nil {
			continue
		}
		src := string(b)
		v := c17Check(e, src, false, true)
		if !v.compiled {
			e.R.H("repo_scripts", "does-not-compile")
			continue
		}
		e.R.H("repo_scripts", "checked")
		e.R.Case("script "+strings.TrimPrefix(f, "/repo/"), true)
		c17Report(e, nil, "script "+strings.TrimPrefix(f, "/repo/"), v)
	}
	// the sanitiser of the model against encoding/json on byte strings (all 1- and 2-byte
	// strings over a boundary alphabet, random longer ones)
	c17Sanitize(e)
	// sessions: sequences of MarshalCode/UnmarshalCode calls with retained results (c17sess.go)
	c17Sessions(e)
	// the modelled compiler fragments: real tree = embedded fragment compiler output (c17frag.go)
	c17Fragments(e)
}

// c17Sanitize compares the model's `sanitize`/`validStr` with json.Marshal∘Unmarshal.
func c17Sanitize(e *Env) {
	alpha := []byte{0x00, 0x41, 0x7f, 0x80, 0x8f, 0x90, 0x9f, 0xa0, 0xbf, 0xc0, 0xc1, 0xc2, 0xdf, 0xe0, 0xe1, 0xec, 0xed, 0xee, 0xef, 0xf0, 0xf1, 0xf3, 0xf4, 0xf5, 0xff}
	var cases []string
	for _, a := range alpha {
		cases = append(cases, string([]byte{a}))
		for _, b := range alpha {
			cases = append(cases, string([]byte{a, b}))
			if e.Quick {
				continue
			}
			for _, c := range alpha {
				cases = append(cases, string([]byte{a, b, c}))
			}
		}
	}
	r := e.Rng.Fork()
	nr := 3000
	if !e.Quick {
		nr = 60000
	}
	units := []string{"A", "\x00", "\x7f", "é", "\xc2\x80", "\xdf\xbf", "€", "\xe0\xa0\x80", "\xed\x9f\xbf", "\xee\x80\x80", "\xef\xbf\xbd", "\xef\xbf\xbf",
		"😀", "\xf0\x90\x80\x80", "\xf4\x8f\xbf\xbf", "\xf1\x80\x80\x80"}
	for i := 0; i < nr; i++ {
		if i%2 == 0 { // valid sequences, sometimes with one byte damaged or dropped
			var sb strings.Builder
			for k := 1 + r.Intn(5); k > 0; k-- {
				sb.WriteString(Pick(r, units))
			}
			b := []byte(sb.String())
			switch r.Intn(4) {
			case 0:
				b[r.Intn(len(b))] = Pick(r, alpha)
			case 1:
				b = b[:len(b)-1]
			}
			cases = append(cases, string(b))
			continue
		}
		k := 1 + r.Intn(7)
		b := make([]byte, k)
		for j := range b {
			b[j] = Pick(r, alpha)
		}
		cases = append(cases, string(b))
	}
	reqs := make([]string, len(cases))
	for i, c := range cases {
		reqs[i] = "C17\tsanitize\t" + Hex(c)
	}
	reps := e.O.AskBatch(reqs)
	for i, c := range cases {
		// the real trip: a string constant through MarshalCode's encoder and back
		want := c17JSONTrip(c)
		model := strings.Split(reps[i], "\t")
		goS := Hex(want) + "\t" + c17_b01(want == c)
		e.R.H("sanitize_cases", c17_b01(want == c))
		if len(model) != 2 || model[0] != Hex(want) || model[1] != c17_b01(want == c) {
			e.R.Mismatch("sanitize "+Hex(c), goS, reps[i], "encoding/json string trip differs from the model's sanitize")
		}
	}
	e.R.Note("sanitize/validStr compared with encoding/json on %d byte strings", len(cases))
}

func c17JSONTrip(s string) string {
	b, err := json.Marshal(s)
	if err != nil {
		return "<marshal error>"
	}
	var out string
	if err := json.Unmarshal(b, &out); err != nil {
		return "<unmarshal error>"
	}
	return out
}
