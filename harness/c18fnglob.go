package main

import (
	"fmt"
	"strings"
)

// C18 — functions of earlier pieces against the globals of later pieces (regression family for the repaired defect
// C18-function-globals-snapshot: vm.reloadCode gave the main code a new globals array on every Run while the functions
// loaded by earlier runs kept the old one).
//
// A handful of small programs whose functions READ and WRITE globals — a getter, a counter with a parameter, two
// functions declared apart that communicate through a global, a function literal returned by a function (its code
// object is a child of a child of the main code and is loaded lazily, at its first call), function values held in a
// list, a function that prints, a function literal assigned to a variable, a recursive function — with top-level
// re-assignments of those globals between the calls.  Every program is fed in EVERY partition of its statements into
// consecutive pieces (all 2^(n-1) of them): the functions are declared in one piece and called from later pieces
// after the globals changed, wherever the cuts fall.  Each history is judged twice: through the Lean model
// (c18History.check: per piece the value, the output and every global against the real whole-program evaluation of
// the model's trace) and model-free (the last piece's value, the output and the globals of the session against the
// real whole-program evaluation of all statements).

func c18FnGlobals(e *Env, env *c18Env) {
	mk := func(src string, f func(*c18Stmt)) *c18Stmt {
		s := &c18Stmt{Src: src, Kind: "fnglob", Need: 1}
		if f != nil {
			f(s)
		}
		return s
	}
	decl := func(name, val string, uses ...string) *c18Stmt {
		return mk(name+" := "+val, func(s *c18Stmt) { s.VDecl, s.Uses = []string{name}, uses })
	}
	asg := func(name, val string, uses ...string) *c18Stmt {
		return mk(name+" = "+val, func(s *c18Stmt) { s.Uses, s.Asg = append([]string{name}, uses...), []string{name} })
	}
	// fn: a named function declaration whose body uses (reads or assigns) the given globals and functions
	fn := func(name, params, body string, assigns []string, uses ...string) *c18Stmt {
		return mk("func "+name+"("+params+") { "+body+" }", func(s *c18Stmt) {
			s.Leaves, s.Uses, s.Asg, s.CDecl, s.FDefs = true, uses, assigns, []string{name}, []string{name}
		})
	}
	// x: an expression statement that calls the given functions (directly or through a value that holds them)
	x := func(src string, calls []string, uses ...string) *c18Stmt {
		return mk(src, func(s *c18Stmt) { s.IsExpr, s.Leaves, s.Uses, s.Calls = true, true, append(append([]string{}, calls...), uses...), calls })
	}
	type prog struct {
		tag   string
		names []string
		stmts []*c18Stmt
	}
	progs := []prog{
		{"a getter reads a global that later pieces reassign", []string{"zx", "zget"}, []*c18Stmt{
			decl("zx", "1"), fn("zget", "", "return zx", nil, "zx"), x("zget()", []string{"zget"}),
			asg("zx", "5"), x("zget()", []string{"zget"}), asg("zx", "zx + zget()", "zget"), x("zx", nil, "zx")}},
		{"a counter writes a global that later pieces read and reassign", []string{"zn", "zinc"}, []*c18Stmt{
			decl("zn", "0"), fn("zinc", "d", "zn = zn + d; return zn", []string{"zn"}, "zn"), x("zinc(2)", []string{"zinc"}),
			asg("zn", "10"), x("zinc(3)", []string{"zinc"}), x("zn", nil, "zn"), x("zinc(zn)", []string{"zinc"}, "zn")}},
		{"two functions declared apart communicate through a global", []string{"zt", "zadd", "zrep"}, []*c18Stmt{
			decl("zt", "0"), fn("zadd", "n", "zt = zt + n", []string{"zt"}, "zt"), x("zadd(5)", []string{"zadd"}),
			fn("zrep", "", "return zt", nil, "zt"), asg("zt", "zt * 2"), x("zadd(7)", []string{"zadd"}), x("zrep()", []string{"zrep"})}},
		{"a function literal returned by a function (loaded at its first call) counts in a global", []string{"zc", "zmk"}, []*c18Stmt{
			decl("zc", "0"), fn("zmk", "", "return func() { zc = zc + 1; return zc }", []string{"zc"}, "zc"),
			decl("zh", "zmk()", "zmk"), x("zh()", []string{"zmk"}, "zh"), asg("zc", "40"), x("zh()", []string{"zmk"}, "zh"),
			x("zmk()()", []string{"zmk"}), x("zc", nil, "zc")}},
		{"function values held in a list; a function that calls a function", []string{"za", "zf", "zg"}, []*c18Stmt{
			decl("za", "1"), fn("zf", "", "return za", nil, "za"), fn("zg", "", "za = za + 1; return zf() + za", []string{"za"}, "za", "zf"),
			decl("zl", "[zf, zg]", "zf", "zg"), x("zg()", []string{"zg", "zf"}), asg("za", "100"),
			x("zl[1]()", []string{"zg", "zf"}, "zl"), x("zl[0]()", []string{"zf"}, "zl")}},
		{"a function prints a global and appends to it", []string{"zs", "zp"}, []*c18Stmt{
			decl("zs", `"a"`), fn("zp", "", `print(zs); zs = zs + "b"`, []string{"zs"}, "zs"), x("zp()", []string{"zp"}),
			asg("zs", `"q"`), x("zp()", []string{"zp"}), x("zp()", []string{"zp"}), x("zs", nil, "zs")}},
		{"a function literal assigned to a variable writes a global", []string{"zv"}, []*c18Stmt{
			decl("zv", "3"), decl("zfn", "func(k) { zv = zv + k; return zv }", "zv"), x("zfn(1)", nil, "zfn"),
			asg("zv", "0"), x("zfn(2)", nil, "zfn"), x("zv", nil, "zv")}},
		{"a recursive function accumulates in a global", []string{"zw", "zr"}, []*c18Stmt{
			decl("zw", "0"), fn("zr", "n", "if n > 0 { zw = zw + n; zr(n - 1) }; return zw", []string{"zw"}, "zw"),
			x("zr(3)", []string{"zr"}), asg("zw", "100"), x("zr(2)", []string{"zr"}), x("zw", nil, "zw")}},
	}
	for _, p := range progs {
		var all []string
		for _, s := range p.stmts {
			all = append(all, s.Src)
		}
		for _, cuts := range c18Partitions(len(p.stmts), len(p.stmts)) {
			// fresh statement objects per history (check annotates them)
			stmts := make([]*c18Stmt, len(p.stmts))
			for i, s := range p.stmts {
				c := *s
				stmts[i] = &c
			}
			h := &c18History{Pieces: c18Cut(stmts, cuts), Names: p.names}
			text := h.Text()
			e.R.Case(text, len(cuts) > 0)
			e.R.H("history_kind", "functions of earlier pieces and globals of later pieces: "+p.tag)
			e.R.H("fnglob_pieces", fmt.Sprintf("%02d", len(h.Pieces)))
			h.check(e, env, false)
			// model-free: the session against the whole program
			srcs := make([]string, len(h.Pieces))
			for i, pc := range h.Pieces {
				srcs[i] = pc.Src()
			}
			env.names = p.names
			real := env.incremental(srcs, p.names, true)
			w := env.wholeEval(strings.Join(all, "\n"))
			diff := ""
			if len(real) != len(srcs) {
				diff = fmt.Sprintf("the session stopped after %d of %d pieces", len(real), len(srcs))
			} else {
				last := real[len(real)-1]
				switch {
				case w.Class != "ok":
					diff = "the whole program does not evaluate: " + w.Class + " " + c18_firstLine(w.Err)
				case last.Class != "ok":
					diff = fmt.Sprintf("last piece: %s %s, the whole program evaluates to %s", last.Class, c18_firstLine(last.Err), w.Value)
				case last.Value != w.Value:
					diff = fmt.Sprintf("last piece yields %s, the whole program %s", last.Value, w.Value)
				case last.Stdout != w.Stdout:
					diff = fmt.Sprintf("the session printed %q, the whole program %q", last.Stdout, w.Stdout)
				default:
					for _, n := range p.names {
						if last.Globals[n] != w.Globals[n] {
							diff = fmt.Sprintf("global %s = %s after the session, %s after the whole program", n, last.Globals[n], w.Globals[n])
							break
						}
					}
				}
			}
			if diff != "" {
				e.R.Spec(text, diff+" [model-free: functions of earlier pieces must see and change the globals of later pieces]", "")
				e.R.H("fnglob_whole_program", "differs")
			} else {
				e.R.H("fnglob_whole_program", "equal")
			}
		}
	}
}
