package main

// C04 on the proved fragment (lean/RisorModel/C04/FragCert*.lean).  The theorem
// `frag_compile_balanced` says: for EVERY program p of C01's fragment F1–F3 (with operand
// nesting within the frame's limit) the verified checker `check` accepts the code
// `toC04 (compF p)` with the certificate `fragCert p`, which is computed from the syntax tree
// alone (`hts`).  This file ties the object of that theorem to the real compiler, on every
// generated program that lies in the fragment (whole, or its longest top-level prefix that
// does) and on programs of C01's fragment-only generator:
//
//   * the certificate computed by Lean from the SYNTAX TREE is laid over the bytecode the REAL
//     compiler emitted for the program and must be accepted by `check` on those instructions;
//   * the real bytecode with the operands `check` never reads erased (pool index of
//     LOAD_CONST, table index of LOAD_GLOBAL / STORE_GLOBAL; theorem `check_eraseIdx`) must BE
//     `toC04 (compF p)`, slot for slot;
//   * the certificate the (unverified) inference finds on the real bytecode must agree with
//     the syntax tree's wherever it assigns a height;
//   * the proved statement itself, evaluated (`check (toC04 (compF p)) (fragCert p)`), must hold.
//
// Any difference is a correspondence mismatch (e.R.Mismatch): the theorem would no longer be
// about the code.

import (
	"fmt"
	"strings"
	"time"

	"github.com/risor-io/risor/compiler"
)

var c04fragRuleDone = false

// c04FragOne checks one program; it returns false when the program is outside the fragment.
func c04FragOne(e *Env, p *N, origin string) bool {
	src := c01fragSrc(p)
	code, err := CompileSrc(src)
	if err != nil {
		// whether fragment programs compile is C01's link A; here there is nothing to check
		e.R.H("fragcert", origin+":does-not-compile")
		return false
	}
	var root *compiler.Code
	n := 0
	for _, cc := range code.Flatten() {
		n++
		if cc.IsRoot() {
			root = cc
		}
	}
	if root == nil {
		return false
	}
	text := CodeText(root)
	if text == "" {
		return false
	}
	rep := e.O.Ask("C04", "fragcert", Sexp(p), c01Globals, text)
	f := strings.Split(rep, "\t")
	if f[0] == "out" {
		return false
	}
	if f[0] != "in" || len(f) != 7 {
		e.R.Mismatch(src, text, rep, "C04 fragcert: malformed oracle reply")
		return false
	}
	realOK, same, modelOK, fits, peak, inferred := f[1], f[2], f[3], f[4], f[5], f[6]
	e.R.H("fragcert", origin+":"+fits)
	var pk int
	fmt.Sscanf(peak, "%d", &pk)
	e.R.H("fragcert_peak", fmt.Sprintf("%02d", min(pk, 40)))
	e.R.Case(text, c04NonTrivial(text))
	if n != 1 {
		e.R.Mismatch(src, fmt.Sprintf("%d code objects", n), "1 code object", "fragment program compiled to more than its main code object")
	}
	if same != "same" {
		e.R.Mismatch(src, text, rep, "fragment: the real main code object with pool/table indices erased is not toC04 (compF p) — frag_compile_balanced is not about this bytecode")
	}
	if fits == "fits" {
		if realOK != "accept" {
			e.R.Mismatch(src, text, rep, "fragment: the certificate computed from the syntax tree (hts) is refused by the verified checker on the REAL compiler's bytecode")
		}
		if modelOK != "accept" {
			e.R.Mismatch(src, text, rep, "fragment: check (toC04 (compF p)) (fragCert p) evaluates to false although frag_cert_accepted proves it (inconsistent build)")
		}
		if inferred != "agree" {
			e.R.Mismatch(src, text, rep, "fragment: the certificate inferred from the real bytecode disagrees with the syntax tree's certificate")
		}
	} else {
		e.R.Note("fragment program nests operands deeper than the frame's limit (guard `fits` of frag_compile_balanced): peak %s", peak)
	}
	return true
}

// c04FragTie is called once per program of the shared generator.
func c04FragTie(e *Env, p *N, frng *RNG) {
	if !c04fragRuleDone {
		c04fragRuleDone = true
		e.R.Rule += "; proved fragment (frag_compile_balanced): every generated program, or its longest top-level prefix, that lies in C01's fragment F1-F3, " +
			"plus one program of the fragment-only generator per generated program: the certificate Lean computes from the syntax tree must be accepted by the " +
			"verified checker on the real compiler's bytecode, and that bytecode with pool indices erased must equal toC04 (compF p)"
	}
	k := 0
	fmt.Sscanf(e.O.Ask("C01", "frag", "prefix", Sexp(p), c01Globals), "%d", &k)
	switch {
	case k == len(p.C) && k > 0:
		c04FragOne(e, p, "shared:whole")
	case k > 0:
		q := n("prog", p.C[:k]...)
		for i := k - 1; i >= 0; i-- {
			if p.C[i].K == "var" {
				q.C = append(append([]*N{}, q.C...), n("expr", nId(p.C[i].S)))
				break
			}
		}
		c04FragOne(e, q, "shared:prefix")
	default:
		e.R.H("fragcert", "shared:outside")
	}
	q := c01fragProgram(frng.Fork())
	if !c04FragOne(e, q, "own") {
		e.R.H("fragcert", "own:outside")
	}
}

// c04FragDeep: the guard `fits` of frag_compile_balanced at its boundary, on the real VM.
// `1 + (1 + (… + 1))` with k additions holds k+1 operands at once.  k = 1023 fits the frame
// (peak 1024): the syntax-tree certificate must be accepted on the real bytecode and the real
// run must succeed.  k = 1024 is the witness of frag_compile_balanced_needs_fits (no
// certificate is accepted): the oracle must say `deep`; the real VM is expected to overflow
// (a nesting limit, independent of any iteration count — recorded, not a verdict).
func c04FragDeep(e *Env) {
	mk := func(k int) *N {
		x := nInt(1)
		for i := 0; i < k; i++ {
			x = nInfix("+", nInt(1), x)
		}
		return n("prog", n("expr", x))
	}
	for _, k := range []int{1023, 1024} {
		p := mk(k)
		src := c01fragSrc(p)
		code, err := CompileSrc(src)
		if err != nil {
			e.R.Mismatch(fmt.Sprintf("addition nested %d deep", k), "does not compile: "+err.Error(), "compiles", "C04 fragment nesting boundary")
			continue
		}
		text := CodeText(code)
		rep := e.O.Ask("C04", "fragcert", Sexp(p), c01Globals, text)
		f := strings.Split(rep, "\t")
		what := fmt.Sprintf("addition nested %d deep", k)
		if f[0] != "in" || len(f) != 7 {
			e.R.Mismatch(what, "-", rep[:min(len(rep), 200)], "C04 fragcert: malformed oracle reply")
			continue
		}
		out := EvalSrc(src, 20*time.Second)
		real := c01fragReal(out)
		e.R.H("fragcert_deep", fmt.Sprintf("k=%d:%s:real=%s", k, f[4], strings.SplitN(real, ":", 2)[0]))
		e.R.Case(text, false)
		if k == 1023 {
			if f[1] != "accept" || f[2] != "same" || f[3] != "accept" || f[4] != "fits" || f[5] != "1024" {
				e.R.Mismatch(what, "-", rep, "fragment: peak 1024 must fit the frame and be accepted on the real bytecode")
			}
			if real != "ok:(int 1024)" {
				e.R.Mismatch(what, real, "ok:(int 1024)", "fragment: a program whose certificate is accepted (peak 1024 = VM capacity) fails on the real VM")
			}
		} else {
			if f[1] != "reject" || f[4] != "deep" || f[5] != "1025" {
				e.R.Mismatch(what, "-", rep, "fragment: peak 1025 must be refused (frag_compile_balanced_needs_fits)")
			}
			if out.Err == "" {
				e.R.Note("addition nested %d deep ran on the real VM although the model's frame limit is 1024 (model conservative)", k)
			} else {
				e.R.Note("addition nested %d deep (guard `fits` false, no loop involved) fails on the real VM: %s", k, out.Err)
			}
		}
	}
}
