package main

// C18: the REPL protocol and the rollback-on-error shape of compiler.Compile, read from the sources.
//   replCalls            package-/receiver-qualified calls of interest in repl.getEvaluator, in source order
//   replSetsIPAfterError  `v.SetIP(code.InstructionCount())` inside the error branch of `if err := v.Run(ctx); err != nil`
//   runResetsState        third argument of runCodeInternal in (*VirtualMachine).Run
//   compileRollsBackOnError  (*Compiler).Compile takes `c.main.mark()` in its first statement and every return of a
//                         non-nil error sits in a branch that calls `c.main.rollback(...)`
//   firstPassOnEveryInput every call of c.collectFunctionDeclarations in compileMain sits at the top level of its body (the Init of a
//                         top-level `if err := …`), before `c.compile(node)`: the first pass — the only place that refuses `func`
//                         over an existing name — runs on every input, whatever its number of statements
//   rollbackRestores      what (*Code).rollback assigns / which method of the symbol table it calls
//   truncateRestores      what (*SymbolTable).truncate assigns / deletes from
//   truncateDeleteGuarded every `delete(t.symbolsByName, s.name)` of (*SymbolTable).truncate sits directly under
//                         `if t.symbolsByName[s.name] == s` (s the removed symbol the loop is at): a removed BLOCK symbol
//                         must not take the name of a live global with it
//   compilerStateFields   every field of the structs Compiler, Code and SymbolTable ("Struct.field", sorted): the state a
//                         rejected piece could leave something in; Tables.lean classifies each (`compilerStateReviewed`)
//   runStartsOnEmptyStack runCodeInternal, under `if !resetState`, pops the operand stack empty (`for vm.sp >= 0 { vm.pop() }`)
//                         before the entrypoint is activated
//   reloadCopiesGlobals   reloadCode copies the old globals into the freshly loaded main code
//   reloadDropsMainFunctions  reloadCode forgets every loaded code object of the main code (its functions are wrapped again)
//   compileOnlyRestores   per compile-only field of compiler.go (Code.pipeActive, Code.loops, Code.symbols,
//                         loop.pendingSwitchValues, Compiler.current): does EVERY compile function that sets it
//                         reset it in a deferred function (so a compile error cannot leave it set)?
//   startClearsHaltUnconditionally  (*VirtualMachine).start clears vm.halt at the top level of its body,
//                         not only under a condition on the context
//   importCacheReplacedBy  the functions of vm/vm.go that replace or clear the import cache: an assignment to
//                         `vm.modules` as a whole, `clear(vm.modules)` or `delete(vm.modules, …)` (entering a module,
//                         `vm.modules[name] = …`, is not one)
//   resetOnlyWhenResetState  every call of vm.resetForNewCode sits in runCodeInternal under an `if` on resetState
//                         (so the incremental path, Run, never reaches it)
//   loadsFunctionConstantsEveryRun  runCodeInternal's loop over the function constants of the code (vm.loadCode
//                         of each *compiler.Function) is at the top level of its body: executed by every Run

import (
	"go/ast"
	"go/parser"
	"go/printer"
	"go/token"
	"sort"
	"strconv"
	"strings"
)

func init() {
	generators = append(generators, generator{"C18", c18_genC18})
}

func c18Expr(fset *token.FileSet, e ast.Expr) string {
	var sb strings.Builder
	printer.Fprint(&sb, fset, e)
	return sb.String()
}

func c18FindFunc(f *ast.File, recv, name string) *ast.FuncDecl {
	if fd := c18FindFuncOpt(f, recv, name); fd != nil {
		return fd
	}
	panic("function " + recv + "." + name + " not found")
}

// c18FindFuncOpt returns nil when the function does not exist (a tree without the repair).
func c18FindFuncOpt(f *ast.File, recv, name string) *ast.FuncDecl {
	for _, d := range f.Decls {
		fd, ok := d.(*ast.FuncDecl)
		if !ok || fd.Name.Name != name {
			continue
		}
		if recv == "" && fd.Recv == nil {
			return fd
		}
		if recv != "" && fd.Recv != nil && len(fd.Recv.List) == 1 {
			t := fd.Recv.List[0].Type
			if st, ok := t.(*ast.StarExpr); ok {
				t = st.X
			}
			if id, ok := t.(*ast.Ident); ok && id.Name == recv {
				return fd
			}
		}
	}
	return nil
}

func c18_genC18(repo string) string {
	fset := token.NewFileSet()
	parse := func(p string) *ast.File {
		f, err := parser.ParseFile(fset, repo+"/"+p, nil, 0)
		if err != nil {
			panic(err)
		}
		return f
	}
	// --- repl.getEvaluator
	ev := c18FindFunc(parse("cmd/risor/repl/repl.go"), "", "getEvaluator")
	interest := map[string]bool{"compiler.New": true, "parser.Parse": true, "c.Compile": true, "vm.New": true,
		"v.Run": true, "v.SetIP": true, "code.InstructionCount": true, "v.TOS": true, "v.RunCode": true, "compiler.Compile": true}
	var calls []string
	setsIP := false
	ast.Inspect(ev, func(n ast.Node) bool {
		switch x := n.(type) {
		case *ast.CallExpr:
			if s := c18Expr(fset, x.Fun); interest[s] {
				calls = append(calls, s)
			}
		case *ast.IfStmt:
			if as, ok := x.Init.(*ast.AssignStmt); ok && len(as.Rhs) == 1 {
				if c, ok := as.Rhs[0].(*ast.CallExpr); ok && c18Expr(fset, c.Fun) == "v.Run" {
					ast.Inspect(x.Body, func(m ast.Node) bool {
						if c, ok := m.(*ast.CallExpr); ok && c18Expr(fset, c.Fun) == "v.SetIP" && len(c.Args) == 1 &&
							c18Expr(fset, c.Args[0]) == "code.InstructionCount()" {
							setsIP = true
						}
						return true
					})
				}
			}
		}
		return true
	})
	// --- vm.Run
	vmf := parse("vm/vm.go")
	run := c18FindFunc(vmf, "VirtualMachine", "Run")
	reset := "?"
	ast.Inspect(run, func(n ast.Node) bool {
		if c, ok := n.(*ast.CallExpr); ok && strings.HasSuffix(c18Expr(fset, c.Fun), "runCodeInternal") && len(c.Args) == 3 {
			reset = c18Expr(fset, c.Args[2])
		}
		return true
	})
	if reset != "true" && reset != "false" {
		panic("vm.Run no longer calls runCodeInternal(ctx, code, <bool literal>)")
	}
	reload := c18FindFunc(vmf, "VirtualMachine", "reloadCode")
	copies := false
	ast.Inspect(reload, func(n ast.Node) bool {
		if c, ok := n.(*ast.CallExpr); ok && c18Expr(fset, c.Fun) == "copy" && len(c.Args) == 2 &&
			strings.HasSuffix(c18Expr(fset, c.Args[0]), ".Globals") && strings.HasSuffix(c18Expr(fset, c.Args[1]), ".Globals") {
			copies = true
		}
		return true
	})
	// reloadCode forgets, with the main code, every loaded code object of the main code: a loop over
	// vm.loadedCode that deletes the entry of the loop variable under `if <key>.Root() == <main>`, placed
	// before the call of vm.loadCode that wraps the main code afresh
	dropsFns := false
	// the statements of an immediately called function literal `func() { … }()` at the top level (the
	// form that lets the mutex be released by a deferred Unlock) count as standing in its place
	var reloadStmts []ast.Stmt
	for _, st := range reload.Body.List {
		if es, ok := st.(*ast.ExprStmt); ok {
			if call, ok := es.X.(*ast.CallExpr); ok && len(call.Args) == 0 {
				if fl, ok := call.Fun.(*ast.FuncLit); ok {
					reloadStmts = append(reloadStmts, fl.Body.List...)
					continue
				}
			}
		}
		reloadStmts = append(reloadStmts, st)
	}
	for _, st := range reloadStmts {
		if as, ok := st.(*ast.AssignStmt); ok && len(as.Rhs) == 1 && strings.HasPrefix(c18Expr(fset, as.Rhs[0]), "vm.loadCode(") {
			break
		}
		rs, ok := st.(*ast.RangeStmt)
		if !ok || c18Expr(fset, rs.X) != "vm.loadedCode" || rs.Key == nil || len(rs.Body.List) != 1 {
			continue
		}
		key := c18Expr(fset, rs.Key)
		is, ok := rs.Body.List[0].(*ast.IfStmt)
		if !ok || is.Init != nil || is.Else != nil || len(is.Body.List) != 1 {
			continue
		}
		cond := c18Expr(fset, is.Cond)
		mainName := ""
		if len(reload.Type.Params.List) == 1 && len(reload.Type.Params.List[0].Names) == 1 {
			mainName = reload.Type.Params.List[0].Names[0].Name
		}
		if cond != key+".Root() == "+mainName && cond != mainName+" == "+key+".Root()" {
			continue
		}
		if es, ok := is.Body.List[0].(*ast.ExprStmt); ok && c18Expr(fset, es.X) == "delete(vm.loadedCode, "+key+")" {
			dropsFns = true
		}
	}
	// --- vm.start clears the halt flag for every context
	start := c18FindFunc(vmf, "VirtualMachine", "start")
	clearsHalt := false
	for _, st := range start.Body.List {
		switch x := st.(type) {
		case *ast.AssignStmt:
			if len(x.Lhs) == 1 && len(x.Rhs) == 1 && c18Expr(fset, x.Lhs[0]) == "vm.halt" && c18Expr(fset, x.Rhs[0]) == "0" {
				clearsHalt = true
			}
		case *ast.ExprStmt:
			if c, ok := x.X.(*ast.CallExpr); ok && c18Expr(fset, c.Fun) == "atomic.StoreInt32" && len(c.Args) == 2 &&
				c18Expr(fset, c.Args[0]) == "&vm.halt" && c18Expr(fset, c.Args[1]) == "0" {
				clearsHalt = true
			}
		}
	}
	// --- runCodeInternal loads the function constants on every run
	rci := c18FindFunc(vmf, "VirtualMachine", "runCodeInternal")
	loadsEveryRun := false
	for _, st := range rci.Body.List {
		fs, ok := st.(*ast.ForStmt)
		if !ok {
			continue
		}
		isConstLoop, loads := strings.Contains(c18Expr(fset, fs.Cond), "ConstantsCount"), false
		ast.Inspect(fs.Body, func(n ast.Node) bool {
			if c, ok := n.(*ast.CallExpr); ok && c18Expr(fset, c.Fun) == "vm.loadCode" {
				loads = true
			}
			return true
		})
		if isConstLoop && loads {
			loadsEveryRun = true
		}
	}
	// --- the import cache: who replaces or clears vm.modules, and when resetForNewCode is reached
	replacedBy := map[string]bool{}
	resetGuarded, resetCalls := true, 0
	for _, d := range vmf.Decls {
		fd, ok := d.(*ast.FuncDecl)
		if !ok || fd.Body == nil {
			continue
		}
		isModules := func(e ast.Expr) bool {
			se, ok := e.(*ast.SelectorExpr)
			return ok && se.Sel.Name == "modules"
		}
		var walk func(n ast.Node, underReset bool)
		walk = func(n ast.Node, underReset bool) {
			ast.Inspect(n, func(m ast.Node) bool {
				switch x := m.(type) {
				case *ast.IfStmt:
					if x.Init != nil {
						walk(x.Init, underReset)
					}
					walk(x.Cond, underReset)
					walk(x.Body, underReset || strings.Contains(c18Expr(fset, x.Cond), "resetState"))
					if x.Else != nil {
						walk(x.Else, underReset)
					}
					return false
				case *ast.AssignStmt:
					for _, l := range x.Lhs {
						if isModules(l) {
							replacedBy[fd.Name.Name] = true
						}
					}
				case *ast.CallExpr:
					fn := c18Expr(fset, x.Fun)
					if (fn == "clear" || fn == "delete") && len(x.Args) >= 1 && isModules(x.Args[0]) {
						replacedBy[fd.Name.Name] = true
					}
					if strings.HasSuffix(fn, ".resetForNewCode") {
						resetCalls++
						if fd.Name.Name != "runCodeInternal" || !underReset {
							resetGuarded = false
						}
					}
				}
				return true
			})
		}
		walk(fd.Body, false)
	}
	var replacedList []string
	for k := range replacedBy {
		replacedList = append(replacedList, k)
	}
	sort.Strings(replacedList)
	// --- compile-only state: set sites and deferred resets, per compile function
	compFile := parse("compiler/compiler.go")
	fieldOf := func(e ast.Expr) string {
		if se, ok := e.(*ast.SelectorExpr); ok {
			switch se.Sel.Name {
			case "pipeActive", "symbols", "current", "pendingSwitchValues":
				return se.Sel.Name
			}
		}
		return ""
	}
	restores := map[string]bool{}
	for _, d := range compFile.Decls {
		fd, ok := d.(*ast.FuncDecl)
		if !ok || fd.Body == nil || !strings.HasPrefix(fd.Name.Name, "compile") {
			continue
		}
		sets, resets := map[string]bool{}, map[string]bool{}
		var walk func(n ast.Node, deferred bool)
		walk = func(n ast.Node, deferred bool) {
			ast.Inspect(n, func(m ast.Node) bool {
				switch x := m.(type) {
				case *ast.DeferStmt:
					if fl, ok := x.Call.Fun.(*ast.FuncLit); ok {
						walk(fl.Body, true)
					} else if se, ok := x.Call.Fun.(*ast.SelectorExpr); ok && se.Sel.Name == "end" {
						resets["loops"] = true
					}
					return false
				case *ast.AssignStmt:
					for _, l := range x.Lhs {
						if f := fieldOf(l); f != "" {
							if deferred {
								resets[f] = true
							} else {
								sets[f] = true
							}
						}
					}
				case *ast.IncDecStmt:
					if f := fieldOf(x.X); f != "" {
						if deferred {
							resets[f] = true
						} else {
							sets[f] = true
						}
					}
				case *ast.CallExpr:
					if se, ok := x.Fun.(*ast.SelectorExpr); ok {
						if se.Sel.Name == "startLoop" && !deferred {
							sets["loops"] = true
						}
						if se.Sel.Name == "end" && deferred {
							resets["loops"] = true
						}
					}
				}
				return true
			})
		}
		walk(fd.Body, false)
		for f := range sets {
			if _, seen := restores[f]; !seen {
				restores[f] = true
			}
			if !resets[f] {
				restores[f] = false
			}
		}
	}
	var restoreFields []string
	for f := range restores {
		restoreFields = append(restoreFields, f)
	}
	sort.Strings(restoreFields)
	var restorePairs []string
	for _, f := range restoreFields {
		v := "false"
		if restores[f] {
			v = "true"
		}
		restorePairs = append(restorePairs, "("+leanStr(f)+", "+v+")")
	}
	// --- compileMain: the first pass (collectFunctionDeclarations) runs on every input, before the second pass
	cmain := c18FindFunc(compFile, "Compiler", "compileMain")
	firstCalls, firstTop, secondSeen := 0, 0, false
	ast.Inspect(cmain.Body, func(n ast.Node) bool {
		if c, ok := n.(*ast.CallExpr); ok && c18Expr(fset, c.Fun) == "c.collectFunctionDeclarations" {
			firstCalls++
		}
		return true
	})
	callsIn := func(n ast.Node, fun string) bool {
		found := false
		if n == nil {
			return false
		}
		ast.Inspect(n, func(x ast.Node) bool {
			if c, ok := x.(*ast.CallExpr); ok && c18Expr(fset, c.Fun) == fun {
				found = true
			}
			return true
		})
		return found
	}
	for _, st := range cmain.Body.List {
		// `if err := c.f(node); err != nil {…}` (the call in the Init of a top-level if), or a top-level call / assignment
		var head ast.Node = st
		if is, ok := st.(*ast.IfStmt); ok {
			head = is.Init
			if head == nil {
				continue
			}
		} else if _, ok := st.(*ast.ExprStmt); !ok {
			if _, ok := st.(*ast.AssignStmt); !ok {
				continue
			}
		}
		if callsIn(head, "c.compile") {
			secondSeen = true
		}
		if callsIn(head, "c.collectFunctionDeclarations") && !secondSeen {
			firstTop++
		}
	}
	firstPassEvery := firstCalls > 0 && firstTop == firstCalls
	// --- compiler.Compile: rollback on error
	comp := c18FindFunc(compFile, "Compiler", "Compile")
	marksFirst := false
	if len(comp.Body.List) > 0 {
		ast.Inspect(comp.Body.List[0], func(n ast.Node) bool {
			if c, ok := n.(*ast.CallExpr); ok && c18Expr(fset, c.Fun) == "c.main.mark" {
				marksFirst = true
			}
			return true
		})
	}
	errReturns, guardedReturns := 0, 0
	var walkRet func(n ast.Node, rolledBack bool)
	walkRet = func(n ast.Node, rolledBack bool) {
		ast.Inspect(n, func(m ast.Node) bool {
			switch x := m.(type) {
			case *ast.FuncLit:
				return false
			case *ast.BlockStmt:
				if m == n {
					return true
				}
				rb := rolledBack
				for _, st := range x.List {
					if es, ok := st.(*ast.ExprStmt); ok {
						if c, ok := es.X.(*ast.CallExpr); ok && c18Expr(fset, c.Fun) == "c.main.rollback" {
							rb = true
						}
					}
					walkRet(st, rb)
				}
				return false
			case *ast.ReturnStmt:
				if len(x.Results) == 2 && c18Expr(fset, x.Results[1]) != "nil" {
					errReturns++
					if rolledBack {
						guardedReturns++
					}
				}
			}
			return true
		})
	}
	for _, st := range comp.Body.List {
		walkRet(st, false)
	}
	rollsBack := marksFirst && errReturns > 0 && errReturns == guardedReturns
	restoresOf := func(fd *ast.FuncDecl, recv string) []string {
		seen := map[string]bool{}
		if fd == nil {
			return nil
		}
		ast.Inspect(fd.Body, func(n ast.Node) bool {
			switch x := n.(type) {
			case *ast.AssignStmt:
				for _, l := range x.Lhs {
					if s := c18Expr(fset, l); strings.HasPrefix(s, recv+".") {
						seen[s] = true
					}
				}
			case *ast.CallExpr:
				fn := c18Expr(fset, x.Fun)
				if fn == "delete" && len(x.Args) == 2 && strings.HasPrefix(c18Expr(fset, x.Args[0]), recv+".") {
					seen["delete:"+c18Expr(fset, x.Args[0])] = true
				} else if strings.HasPrefix(fn, recv+".") && strings.Count(fn, ".") == 2 {
					seen["call:"+fn] = true
				}
			}
			return true
		})
		var out []string
		for k := range seen {
			out = append(out, k)
		}
		sort.Strings(out)
		return out
	}
	codeFile, symFile := parse("compiler/code.go"), parse("compiler/symbol_table.go")
	rollbackRestores := restoresOf(c18FindFuncOpt(codeFile, "Code", "rollback"), "c")
	truncFn := c18FindFuncOpt(symFile, "SymbolTable", "truncate")
	truncateRestores := restoresOf(truncFn, "t")
	// --- truncate: the deletion of a name is guarded by the identity of the entry
	deletes, guardedDeletes := 0, 0
	if truncFn != nil {
		var walkDel func(n ast.Node, loopVar string, guarded bool)
		walkDel = func(n ast.Node, loopVar string, guarded bool) {
			ast.Inspect(n, func(m ast.Node) bool {
				switch x := m.(type) {
				case *ast.RangeStmt:
					if m == n {
						return true
					}
					lv := loopVar
					if x.Value != nil {
						lv = c18Expr(fset, x.Value)
					}
					walkDel(x.Body, lv, false)
					return false
				case *ast.IfStmt:
					if m == n {
						return true
					}
					cond := strings.ReplaceAll(c18Expr(fset, x.Cond), " ", "")
					g := loopVar != "" && x.Init == nil && (cond == "t.symbolsByName["+loopVar+".name]=="+loopVar || cond == loopVar+"==t.symbolsByName["+loopVar+".name]")
					walkDel(x.Body, loopVar, g)
					if x.Else != nil {
						walkDel(x.Else, loopVar, false)
					}
					return false
				case *ast.CallExpr:
					if c18Expr(fset, x.Fun) == "delete" && len(x.Args) == 2 && c18Expr(fset, x.Args[0]) == "t.symbolsByName" {
						deletes++
						if guarded && c18Expr(fset, x.Args[1]) == loopVar+".name" {
							guardedDeletes++
						}
					}
				}
				return true
			})
		}
		walkDel(truncFn.Body, "", false)
	}
	deleteGuarded := deletes > 0 && deletes == guardedDeletes
	// --- the state-carrying structs of the compiler, field by field
	var stateFields []string
	for _, sf := range []struct {
		f    *ast.File
		name string
	}{{compFile, "Compiler"}, {codeFile, "Code"}, {symFile, "SymbolTable"}} {
		for _, d := range sf.f.Decls {
			gd, ok := d.(*ast.GenDecl)
			if !ok {
				continue
			}
			for _, sp := range gd.Specs {
				ts, ok := sp.(*ast.TypeSpec)
				if !ok || ts.Name.Name != sf.name {
					continue
				}
				st, ok := ts.Type.(*ast.StructType)
				if !ok {
					continue
				}
				for _, fl := range st.Fields.List {
					if len(fl.Names) == 0 {
						stateFields = append(stateFields, sf.name+"."+c18Expr(fset, fl.Type))
					}
					for _, nm := range fl.Names {
						stateFields = append(stateFields, sf.name+"."+nm.Name)
					}
				}
			}
		}
	}
	sort.Strings(stateFields)
	// --- runCodeInternal drops the previous run's operands before it resumes
	dropsStack := false
	activated := false
	for _, st := range rci.Body.List {
		if es, ok := st.(*ast.ExprStmt); ok {
			if c, ok := es.X.(*ast.CallExpr); ok && c18Expr(fset, c.Fun) == "vm.activateCode" {
				activated = true
			}
		}
		is, ok := st.(*ast.IfStmt)
		if !ok || activated || c18Expr(fset, is.Cond) != "!resetState" {
			continue
		}
		for _, in := range is.Body.List {
			fs, ok := in.(*ast.ForStmt)
			if !ok || fs.Init != nil || fs.Post != nil || c18Expr(fset, fs.Cond) != "vm.sp >= 0" || len(fs.Body.List) != 1 {
				continue
			}
			if es, ok := fs.Body.List[0].(*ast.ExprStmt); ok {
				if c, ok := es.X.(*ast.CallExpr); ok && c18Expr(fset, c.Fun) == "vm.pop" {
					dropsStack = true
				}
			}
		}
	}
	q := func(xs []string) string {
		var ps []string
		for _, x := range xs {
			ps = append(ps, leanStr(x))
		}
		return "[" + strings.Join(ps, ", ") + "]"
	}
	b := func(v bool) string {
		if v {
			return "true"
		}
		return "false"
	}
	s := "namespace Risor.Generated.C18\n\n"
	s += "/-- calls made by cmd/risor/repl/repl.go getEvaluator, in source order -/\ndef replCalls : List String := " + q(calls) + "\n\n"
	s += "/-- `v.SetIP(code.InstructionCount())` in the error branch of `if err := v.Run(ctx)` -/\ndef replSetsIPAfterError : Bool := " + b(setsIP) + "\n\n"
	s += "/-- the resetState argument (*VirtualMachine).Run passes to runCodeInternal -/\ndef runResetsState : Bool := " + reset + "\n\n"
	s += "/-- reloadCode copies the old Globals slice into the newly loaded main code -/\ndef reloadCopiesGlobals : Bool := " + b(copies) + "\n\n"
	s += "/-- reloadCode removes from vm.loadedCode every code object whose Root() is the main code, before it loads the main code again -/\ndef reloadDropsMainFunctions : Bool := " + b(dropsFns) + "\n\n"
	s += "/-- (*Compiler).Compile takes c.main.mark() first and every error return follows c.main.rollback(mark) (error returns: " + strconv.Itoa(errReturns) + ") -/\ndef compileRollsBackOnError : Bool := " + b(rollsBack) + "\n\n"
	s += "/-- every call of collectFunctionDeclarations in compileMain is at the top level of its body (or the Init of a top-level if) and before c.compile (calls: " + strconv.Itoa(firstCalls) + ") -/\ndef firstPassOnEveryInput : Bool := " + b(firstPassEvery) + "\n\n"
	s += "/-- what (*Code).rollback assigns and calls -/\ndef rollbackRestores : List String := " + q(rollbackRestores) + "\n\n"
	s += "/-- what (*SymbolTable).truncate assigns and deletes from -/\ndef truncateRestores : List String := " + q(truncateRestores) + "\n\n"
	s += "/-- every deletion from t.symbolsByName in (*SymbolTable).truncate is under `if t.symbolsByName[s.name] == s` (deletions: " + strconv.Itoa(deletes) + ") -/\ndef truncateDeleteGuarded : Bool := " + b(deleteGuarded) + "\n\n"
	s += "/-- the fields of the structs Compiler, Code and SymbolTable -/\ndef compilerStateFields : List String := " + q(stateFields) + "\n\n"
	s += "/-- runCodeInternal empties the operand stack under `if !resetState` before activating the entrypoint -/\ndef runStartsOnEmptyStack : Bool := " + b(dropsStack) + "\n\n"
	s += "/-- per compile-only field of compiler.go: every compile function that sets it resets it in a deferred function -/\ndef compileOnlyRestores : List (String × Bool) := [" + strings.Join(restorePairs, ", ") + "]\n\n"
	s += "/-- (*VirtualMachine).start clears vm.halt unconditionally (top level of its body) -/\ndef startClearsHaltUnconditionally : Bool := " + b(clearsHalt) + "\n\n"
	s += "/-- runCodeInternal loads every function constant of the code on every run (loop at the top level of its body) -/\ndef loadsFunctionConstantsEveryRun : Bool := " + b(loadsEveryRun) + "\n\n"
	s += "/-- the functions of vm/vm.go that replace or clear vm.modules (the import cache) -/\ndef importCacheReplacedBy : List String := " + q(replacedList) + "\n\n"
	s += "/-- every call of resetForNewCode is in runCodeInternal under an `if` on resetState (calls found: " + strconv.Itoa(resetCalls) + ") -/\ndef resetOnlyWhenResetState : Bool := " + b(resetGuarded && resetCalls > 0) + "\n\n"
	s += "end Risor.Generated.C18\n"
	return s
}
