package main

// C03Front: bounds of the front end (lexer/lexer.go, parser/*.go), regenerated on every run.
//
// frontIndexSites: every index expression `x[i]` on a slice, array, string or pointer to an
// array (NOT maps, NOT generic instantiations) and every slice expression `x[a:b]` of the
// non-test files, as "<pkg>.<FuncKey>|<expression text>|<class>" (no line numbers; a text
// that repeats inside one function gets `#2`, `#3`, …).  The class says what the extractor
// could establish SYNTACTICALLY about the UPPER bound of the index (a negative index is not
// examined; method calls that move an index between the test and the use are not tracked,
// plain assignments / ++ / -- between the two are):
//
//   const-fixed        constant indices into an array / pointer to array / composite literal
//   bound-check        dominated by a test that puts the index below `len(x)`:
//                        - inside the body of `if … && i < len(x) && …` (also `len(x) > i`,
//                          `len(x) != 0` for an index without variables),
//                        - on the right of `i < len(x) && …` in any condition,
//                        - after an earlier `if i >= len(x) || … { return/continue/break/panic }`
//                          of an enclosing block, or in the else-branch of such an `if`;
//                      the test must name `len(<x>)` for the same text `<x>` AND, when the
//                      index has variables, one of them
//   loop-len           in the body of `for …; i < len(x); …` (same conditions), or
//                      `for i := range x` with the index exactly `i`
//   slice-len-derived  a slice expression whose bounds are absent, `0` or exactly `len(x)`
//   UNGUARDED          none of the above: reviewed by hand in C03/Ties.lean
//
// frontUnguardedSites: the UNGUARDED entries again (a short list, so that a new one is named
// by the failing lemma).
// parserDepthGuards: every identifier, field, constant, variable, parameter or function of
// parser/*.go whose name contains "depth" (any case), as "<name>|<kind>|<type or value>".
// parserRecursiveEntry: the functions of parser/parser.go that call `parseExpression`
// directly, and parserRecursiveEntry2 those that reach it through one more call.

import (
	"fmt"
	"go/ast"
	"go/constant"
	"go/token"
	"go/types"
	"path/filepath"
	"sort"
	"strings"
)

func init() {
	generators = append(generators, generator{"C03Front", c03front_gen})
}

// text of a node without the 70-character cut of c03Src (conditions are compared by text)
func c03front_text(fset *token.FileSet, n ast.Node) string {
	if n == nil {
		return ""
	}
	if e, ok := n.(ast.Expr); ok {
		return types.ExprString(e)
	}
	return c03Src(fset, n)
}

func c03front_unparen(e ast.Expr) ast.Expr {
	for {
		p, ok := e.(*ast.ParenExpr)
		if !ok {
			return e
		}
		e = p.X
	}
}

// does e contain the call `len(<x>)`
func c03front_mentionsLen(e ast.Expr, x string) bool {
	found := false
	ast.Inspect(e, func(n ast.Node) bool {
		if c, ok := n.(*ast.CallExpr); ok && len(c.Args) == 1 {
			if id, ok := c.Fun.(*ast.Ident); ok && id.Name == "len" && types.ExprString(c.Args[0]) == x {
				found = true
			}
		}
		return !found
	})
	return found
}

// the variables of an index expression: maximal identifiers / selector chains, outside
// `len(…)` calls; callee names are skipped; constants (by type information) are skipped
func c03front_terms(info *types.Info, es []ast.Expr) map[string]bool {
	out := map[string]bool{}
	var walk func(e ast.Node)
	walk = func(e ast.Node) {
		ast.Inspect(e, func(n ast.Node) bool {
			switch v := n.(type) {
			case *ast.CallExpr:
				if id, ok := v.Fun.(*ast.Ident); ok {
					if id.Name != "len" {
						for _, a := range v.Args {
							walk(a)
						}
					}
					return false
				}
			case *ast.SelectorExpr:
				out[types.ExprString(v)] = true
				return false
			case *ast.Ident:
				if tv, ok := info.Types[v]; ok && tv.Value != nil {
					return false
				}
				if v.Name != "_" && v.Name != "true" && v.Name != "false" && v.Name != "nil" {
					out[v.Name] = true
				}
			}
			return true
		})
	}
	for _, e := range es {
		if e != nil {
			walk(e)
		}
	}
	return out
}

// every identifier / selector text of a condition
func c03front_condTerms(e ast.Expr) map[string]bool {
	out := map[string]bool{}
	ast.Inspect(e, func(n ast.Node) bool {
		switch v := n.(type) {
		case *ast.SelectorExpr:
			out[types.ExprString(v)] = true
		case *ast.Ident:
			out[v.Name] = true
		}
		return true
	})
	return out
}

func c03front_isZero(e ast.Expr) bool {
	bl, ok := c03front_unparen(e).(*ast.BasicLit)
	return ok && bl.Kind == token.INT && bl.Value == "0"
}

// one comparison: does it say "something is below len(x)" (upper) or, negated, the same (lower:
// the comparison itself says "something is at or past len(x)")
func c03front_cmp(e ast.Expr, x string) (upper, lower bool) {
	b, ok := c03front_unparen(e).(*ast.BinaryExpr)
	if !ok {
		return
	}
	l, r := c03front_mentionsLen(b.X, x), c03front_mentionsLen(b.Y, x)
	if l == r {
		return
	}
	switch b.Op {
	case token.LSS, token.LEQ: // L < R
		if r {
			upper = true
		} else {
			lower = true
		}
	case token.GTR, token.GEQ: // L > R
		if l {
			upper = true
		} else {
			lower = true
		}
	case token.NEQ:
		if (l && c03front_isZero(b.Y)) || (r && c03front_isZero(b.X)) {
			upper = true
		}
	case token.EQL:
		if (l && c03front_isZero(b.Y)) || (r && c03front_isZero(b.X)) {
			lower = true
		}
	}
	return
}

func c03front_split(e ast.Expr, op token.Token) []ast.Expr {
	e = c03front_unparen(e)
	if b, ok := e.(*ast.BinaryExpr); ok && b.Op == op {
		return append(c03front_split(b.X, op), c03front_split(b.Y, op)...)
	}
	return []ast.Expr{e}
}

type c03front_site struct {
	x     string          // text of the indexed expression
	terms map[string]bool // variables of the index
	pos   token.Pos
}

// shares: the test names one of the index's variables (or the index has none)
func (s *c03front_site) shares(cond ast.Expr) bool {
	if len(s.terms) == 0 {
		return true
	}
	ct := c03front_condTerms(cond)
	for t := range s.terms {
		if ct[t] {
			return true
		}
	}
	return false
}

// holdsInside: cond true implies index < len(x) (one conjunct says so)
func (s *c03front_site) holdsInside(cond ast.Expr) bool {
	if cond == nil {
		return false
	}
	for _, c := range c03front_split(cond, token.LAND) {
		if up, _ := c03front_cmp(c, s.x); up && s.shares(c) {
			return true
		}
	}
	return false
}

// holdsAfterFalse: cond false implies index < len(x) (one disjunct is the negation)
func (s *c03front_site) holdsAfterFalse(cond ast.Expr) bool {
	if cond == nil {
		return false
	}
	for _, c := range c03front_split(cond, token.LOR) {
		if _, lo := c03front_cmp(c, s.x); lo && s.shares(c) {
			return true
		}
	}
	return false
}

// is one of the index's variables assigned / incremented at a position in (from, to)
func (s *c03front_site) modified(body ast.Node, from, to token.Pos) bool {
	if len(s.terms) == 0 {
		return false
	}
	mod := false
	ast.Inspect(body, func(n ast.Node) bool {
		if n == nil || mod {
			return false
		}
		switch v := n.(type) {
		case *ast.AssignStmt:
			if v.Pos() > from && v.Pos() < to {
				for _, l := range v.Lhs {
					if s.terms[types.ExprString(l)] {
						mod = true
					}
				}
			}
		case *ast.IncDecStmt:
			if v.Pos() > from && v.Pos() < to && s.terms[types.ExprString(v.X)] {
				mod = true
			}
		}
		return true
	})
	return mod
}

func c03front_exits(b *ast.BlockStmt) bool {
	if b == nil || len(b.List) == 0 {
		return false
	}
	switch v := b.List[len(b.List)-1].(type) {
	case *ast.ReturnStmt:
		return true
	case *ast.BranchStmt:
		return v.Tok == token.CONTINUE || v.Tok == token.BREAK || v.Tok == token.GOTO
	case *ast.ExprStmt:
		if c, ok := v.X.(*ast.CallExpr); ok {
			if id, ok := c.Fun.(*ast.Ident); ok && id.Name == "panic" {
				return true
			}
		}
	}
	return false
}

func c03front_within(n ast.Node, pos token.Pos) bool {
	return n != nil && n.Pos() <= pos && pos < n.End()
}

func c03front_isConst(info *types.Info, e ast.Expr) bool {
	if e == nil {
		return true
	}
	tv, ok := info.Types[e]
	return ok && tv.Value != nil && tv.Value.Kind() == constant.Int
}

func c03front_classify(info *types.Info, fd *ast.FuncDecl, stack []ast.Node, x ast.Expr, idx []ast.Expr, isSlice bool) string {
	s := &c03front_site{x: types.ExprString(x), terms: c03front_terms(info, idx), pos: stack[len(stack)-1].Pos()}

	// const-fixed
	allConst := true
	for _, e := range idx {
		if !c03front_isConst(info, e) {
			allConst = false
		}
	}
	if allConst {
		if tv, ok := info.Types[x]; ok && tv.Type != nil {
			u := tv.Type.Underlying()
			if p, ok := u.(*types.Pointer); ok {
				u = p.Elem().Underlying()
			}
			if _, ok := u.(*types.Array); ok {
				return "const-fixed" // the compiler rejects a constant index past a fixed length
			}
		}
		if _, ok := c03front_unparen(x).(*ast.CompositeLit); ok {
			return "const-fixed"
		}
	}

	// bound-check: walk the parents, innermost first
	site := stack[len(stack)-1]
	for i := len(stack) - 2; i >= 0; i-- {
		child := stack[i+1]
		switch p := stack[i].(type) {
		case *ast.BinaryExpr:
			if p.Op == token.LAND && child == ast.Node(p.Y) && s.holdsInside(p.X) {
				return "bound-check"
			}
			if p.Op == token.LOR && child == ast.Node(p.Y) && s.holdsAfterFalse(p.X) {
				return "bound-check"
			}
		case *ast.IfStmt:
			if child == ast.Node(p.Body) && s.holdsInside(p.Cond) && !s.modified(p.Body, p.Body.Lbrace, site.Pos()) {
				return "bound-check"
			}
			if p.Else != nil && child == ast.Node(p.Else) && s.holdsAfterFalse(p.Cond) && !s.modified(p.Else, p.Else.Pos(), site.Pos()) {
				return "bound-check"
			}
		case *ast.BlockStmt, *ast.CaseClause:
			var list []ast.Stmt
			if b, ok := p.(*ast.BlockStmt); ok {
				list = b.List
			} else {
				list = p.(*ast.CaseClause).Body
			}
			for _, st := range list {
				if st.End() > site.Pos() {
					break
				}
				if is, ok := st.(*ast.IfStmt); ok && is.Else == nil && c03front_exits(is.Body) &&
					s.holdsAfterFalse(is.Cond) && !s.modified(fd.Body, is.End(), site.Pos()) {
					return "bound-check"
				}
			}
		case *ast.FuncLit:
			i = 0 // tests outside a function literal do not dominate its body
		}
	}

	// loop-len
	for i := len(stack) - 2; i >= 0; i-- {
		child := stack[i+1]
		switch p := stack[i].(type) {
		case *ast.ForStmt:
			if child == ast.Node(p.Body) && s.holdsInside(p.Cond) && !s.modified(p.Body, p.Body.Lbrace, site.Pos()) {
				return "loop-len"
			}
		case *ast.RangeStmt:
			if child == ast.Node(p.Body) && !isSlice && len(idx) == 1 && p.Key != nil && types.ExprString(p.X) == s.x {
				if k, ok := p.Key.(*ast.Ident); ok && k.Name != "_" {
					if id, ok := c03front_unparen(idx[0]).(*ast.Ident); ok && id.Name == k.Name && !s.modified(p.Body, p.Body.Lbrace, site.Pos()) {
						return "loop-len"
					}
				}
			}
		case *ast.FuncLit:
			i = 0
		}
	}

	// slice-len-derived: x[:], x[0:], x[:len(x)], x[0:len(x)], x[len(x):]
	if isSlice {
		ok := true
		for _, e := range idx {
			if e == nil || c03front_isZero(e) {
				continue
			}
			if c, isCall := c03front_unparen(e).(*ast.CallExpr); isCall && len(c.Args) == 1 {
				if id, isId := c.Fun.(*ast.Ident); isId && id.Name == "len" && types.ExprString(c.Args[0]) == s.x {
					continue
				}
			}
			ok = false
		}
		if ok {
			return "slice-len-derived"
		}
	}
	return "UNGUARDED"
}

func c03front_indexable(info *types.Info, x ast.Expr) bool {
	tv, ok := info.Types[x]
	if !ok || tv.Type == nil || !tv.IsValue() {
		return false // a type or a generic function: instantiation, not indexing
	}
	u := tv.Type.Underlying()
	if p, ok := u.(*types.Pointer); ok {
		_, isArr := p.Elem().Underlying().(*types.Array)
		return isArr
	}
	switch b := u.(type) {
	case *types.Slice, *types.Array:
		return true
	case *types.Basic:
		return b.Info()&types.IsString != 0
	}
	return false
}

func c03front_typeText(e ast.Expr) string {
	if e == nil {
		return ""
	}
	return types.ExprString(e)
}

func c03front_gen(repo string) string {
	im := c05_newRepoImporter(repo)
	type pk struct{ path, name string }
	pkgs := []pk{{c05_risorModule + "/lexer", "lexer"}, {c05_risorModule + "/parser", "parser"}}
	var sites, unguarded, depth []string
	nIndexable := 0
	calls := map[string]map[string]bool{} // parser/parser.go: function -> method names it calls
	keys := map[string]string{}           // parser/parser.go: function -> "<pkg>.<Recv>.<name>"
	for _, p := range pkgs {
		if _, err := im.Import(p.path); err != nil {
			panic(err)
		}
		info := im.infos[p.path]
		files := im.files[p.path]
		if info == nil || len(files) == 0 {
			panic("no type information for " + p.path)
		}
		for _, f := range files {
			fname := filepath.Base(im.fset.Position(f.Pos()).Filename)
			if p.name == "lexer" && fname != "lexer.go" {
				continue
			}
			// ---- (c) names that contain "depth"
			if p.name == "parser" {
				add := func(name, kind, val string) {
					if strings.Contains(strings.ToLower(name), "depth") {
						depth = append(depth, name+"|"+kind+"|"+val)
					}
				}
				addFields := func(fl *ast.FieldList, kind string) {
					if fl == nil {
						return
					}
					for _, fld := range fl.List {
						for _, nm := range fld.Names {
							add(nm.Name, kind, c03front_typeText(fld.Type))
						}
					}
				}
				ast.Inspect(f, func(n ast.Node) bool {
					switch v := n.(type) {
					case *ast.GenDecl:
						for _, sp := range v.Specs {
							if vs, ok := sp.(*ast.ValueSpec); ok {
								kind := "var"
								if v.Tok == token.CONST {
									kind = "const"
								}
								for i, nm := range vs.Names {
									val := c03front_typeText(vs.Type)
									if i < len(vs.Values) {
										val = c03Src(im.fset, vs.Values[i])
									}
									add(nm.Name, kind, val)
								}
							}
							if ts, ok := sp.(*ast.TypeSpec); ok {
								add(ts.Name.Name, "type", c03Src(im.fset, ts.Type))
							}
						}
					case *ast.StructType:
						addFields(v.Fields, "field")
					case *ast.FuncDecl:
						add(v.Name.Name, "func", c03_funcKey(p.name, v))
						addFields(v.Recv, "param")
					case *ast.FuncType:
						addFields(v.Params, "param")
						addFields(v.Results, "result")
					case *ast.AssignStmt:
						if v.Tok == token.DEFINE {
							for _, l := range v.Lhs {
								if id, ok := l.(*ast.Ident); ok {
									add(id.Name, "local", c03Src(im.fset, v))
								}
							}
						}
					case *ast.SelectorExpr:
						add(v.Sel.Name, "selector", types.ExprString(v))
					}
					return true
				})
			}
			for _, d := range f.Decls {
				fd, ok := d.(*ast.FuncDecl)
				if !ok || fd.Body == nil {
					continue
				}
				key := c03_funcKey(p.name, fd)
				// ---- (c) call graph of parser/parser.go
				if p.name == "parser" && fname == "parser.go" {
					m := map[string]bool{}
					ast.Inspect(fd.Body, func(n ast.Node) bool {
						if c, ok := n.(*ast.CallExpr); ok {
							switch fn := c.Fun.(type) {
							case *ast.SelectorExpr:
								m[fn.Sel.Name] = true
							case *ast.Ident:
								m[fn.Name] = true
							}
						}
						return true
					})
					calls[fd.Name.Name] = m
					keys[fd.Name.Name] = key
				}
				// ---- (a) index and slice expressions
				seen := map[string]int{}
				var stack []ast.Node
				ast.Inspect(fd.Body, func(n ast.Node) bool {
					if n == nil {
						stack = stack[:len(stack)-1]
						return true
					}
					stack = append(stack, n)
					var x ast.Expr
					var idx []ast.Expr
					isSlice := false
					switch v := n.(type) {
					case *ast.IndexExpr:
						x, idx = v.X, []ast.Expr{v.Index}
					case *ast.SliceExpr:
						x, idx, isSlice = v.X, []ast.Expr{v.Low, v.High, v.Max}, true
					default:
						return true
					}
					if !c03front_indexable(info, x) {
						return true
					}
					nIndexable++
					text := c03Src(im.fset, n)
					seen[text]++
					if k := seen[text]; k > 1 {
						text = fmt.Sprintf("%s#%d", text, k)
					}
					class := c03front_classify(info, fd, stack, x, idx, isSlice)
					entry := key + "|" + text + "|" + class
					sites = append(sites, entry)
					if class == "UNGUARDED" {
						unguarded = append(unguarded, entry)
					}
					return true
				})
			}
		}
	}
	if nIndexable < 5 {
		panic("fewer than 5 index/slice expressions found in lexer/lexer.go and parser/: the extractor no longer recognises them")
	}
	if len(calls) < 40 || calls["parseExpression"] == nil {
		panic("parser/parser.go: parseExpression (or most of the parser's functions) not found")
	}
	sort.Strings(sites)
	sort.Strings(unguarded)
	sort.Strings(depth)
	depth = c03front_uniq(depth)

	var direct, second []string
	isDirect := map[string]bool{}
	for fn, m := range calls {
		if m["parseExpression"] {
			isDirect[fn] = true
			direct = append(direct, keys[fn])
		}
	}
	for fn, m := range calls {
		if isDirect[fn] {
			continue
		}
		for callee := range m {
			if isDirect[callee] {
				second = append(second, keys[fn])
				break
			}
		}
	}
	sort.Strings(direct)
	sort.Strings(second)

	var sb strings.Builder
	sb.WriteString("namespace Risor.Generated.C03Front\n\n")
	sb.WriteString(c03_leanStrList("frontIndexSites", "every index `x[i]` (slice, array, string, pointer to array; not maps) and slice expression `x[a:b]` of lexer/lexer.go and parser/*.go (non-test): \"<pkg>.<function>|<expression>|<class>\", class ∈ const-fixed, bound-check, loop-len, slice-len-derived, UNGUARDED — what dominates the expression syntactically (upper bound only; see extract/c03front.go)", sites))
	sb.WriteString(c03_leanStrList("frontUnguardedSites", "the entries of `frontIndexSites` of class UNGUARDED", unguarded))
	sb.WriteString(c03_leanStrList("parserDepthGuards", "every constant, variable, type, field, function, parameter, result, `:=` local or selector of parser/*.go (non-test) whose name contains \"depth\" (any case): \"<name>|<kind>|<type or value>\"", depth))
	sb.WriteString(c03_leanStrList("parserRecursiveEntry", "functions of parser/parser.go that call `parseExpression` directly (the recursion points of the recursive-descent parser)", direct))
	sb.WriteString(c03_leanStrList("parserRecursiveEntry2", "functions of parser/parser.go that do not call `parseExpression` themselves but call one of `parserRecursiveEntry`", second))
	sb.WriteString("end Risor.Generated.C03Front\n")
	return sb.String()
}

func c03front_uniq(xs []string) []string {
	var out []string
	for i, x := range xs {
		if i == 0 || x != xs[i-1] {
			out = append(out, x)
		}
	}
	return out
}
