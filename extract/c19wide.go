package main

// C19Wide: the inventory of the hand-written wrappers of the standard-library-wrapping modules
// of the root Go module other than strings and regexp: modules/base64, bytes, filepath, math,
// strconv.  Per registered function: arity bounds, the converters applied to args[k] in order,
// the Go standard-library function it forwards to (resolved with go/types: package path and
// name), the order in which the converted values are passed on, trailing constants of the call,
// defaults of omitted optional arguments, whether the function's error result comes back as an
// error value, the result constructor — and the SHAPE of the body: `.direct` (all of the above
// and NOTHING else: no other call, no loop, no switch, no other branch), `.method m` (the bytes
// module: args[0] must be a byte_slice, the call is forwarded to its method m on args[1..]), or
// `.other` (the row then lists every library function called and every constructor used).

import (
	"fmt"
	"go/ast"
	"go/constant"
	"go/token"
	"go/types"
	"path/filepath"
	"strconv"
	"strings"
)

var c19wModules = []string{"base64", "bytes", "filepath", "math", "strconv"}

const c19wMaxInt = "9223372036854775807"

var c19wConv = map[string]string{"object.AsString": ".str", "object.AsInt": ".int", "object.AsFloat": ".float", "object.AsBool": ".bool",
	"object.AsBytes": ".bytes", "object.AsStringSlice": ".strList"}
var c19wCtor = map[string]string{"object.NewString": ".str", "object.NewInt": ".int", "object.NewFloat": ".float", "object.NewBool": ".bool",
	"object.NewByteSlice": ".bytes", "object.NewStringList": ".strList"}

type c19wRow struct {
	mod, name, goFn string
	convs           []string
	pass            []int
	res             string
	min, max        string
	defaults, extra []string
	retErr          bool
	shape           string
	why             []string
}

type c19wPkg struct {
	info *types.Info
	pkg  *types.Package
}

// name of what a call calls: "object.AsString" / "arg.Require" (risor packages, by package
// NAME), "asBytes" (same package), "len" (builtin), "T()" (a conversion), and for everything
// outside the risor module the full name go/types gives ("strconv.Atoi", "path/filepath.Base",
// "(*encoding/base64.Encoding).Encode"), prefixed with "std:"
func (p *c19wPkg) callee(c *ast.CallExpr) string {
	if tv, ok := p.info.Types[c.Fun]; ok && tv.IsType() {
		return "T()"
	}
	var id *ast.Ident
	switch f := c.Fun.(type) {
	case *ast.Ident:
		id = f
	case *ast.SelectorExpr:
		id = f.Sel
	default:
		return "?" + types.ExprString(c.Fun)
	}
	obj := p.info.Uses[id]
	switch o := obj.(type) {
	case *types.Builtin:
		return o.Name()
	case *types.Func:
		if o.Pkg() == nil {
			return "?" + o.Name()
		}
		path := o.Pkg().Path()
		if path == p.pkg.Path() {
			if sig, ok := o.Type().(*types.Signature); ok && sig.Recv() != nil {
				return "local-method:" + o.Name()
			}
			return o.Name()
		}
		if path == c05_risorModule || strings.HasPrefix(path, c05_risorModule+"/") {
			if sig, ok := o.Type().(*types.Signature); ok && sig.Recv() != nil {
				return "risor-method:" + strings.ReplaceAll(o.FullName(), c05_risorModule+"/", "")
			}
			return o.Pkg().Name() + "." + o.Name()
		}
		return "std:" + o.FullName()
	case *types.Var: // a call through a variable or a field
		return "?var:" + o.Name()
	}
	return "?" + types.ExprString(c.Fun)
}

func (p *c19wPkg) constInt(e ast.Expr) (int64, bool) {
	tv, ok := p.info.Types[e]
	if !ok || tv.Value == nil {
		return 0, false
	}
	if v, ok := constant.Int64Val(constant.ToInt(tv.Value)); ok && constant.ToInt(tv.Value).Kind() == constant.Int {
		return v, true
	}
	return 0, false
}

// the Lean GoVal of a constant expression (ints and bools)
func (p *c19wPkg) leanConst(e ast.Expr) (string, bool) {
	tv, ok := p.info.Types[e]
	if !ok || tv.Value == nil {
		return "", false
	}
	switch tv.Value.Kind() {
	case constant.Bool:
		return fmt.Sprintf(".bool %v", constant.BoolVal(tv.Value)), true
	case constant.Int:
		v, ok := constant.Int64Val(tv.Value)
		if !ok {
			return "", false
		}
		if v < 0 {
			return fmt.Sprintf(".int (%d)", v), true
		}
		return fmt.Sprintf(".int %d", v), true
	}
	return "", false
}

func c19w_strip(p *c19wPkg, e ast.Expr) ast.Expr { // int(x), int64(x), float64(x), (x)
	for {
		switch x := e.(type) {
		case *ast.ParenExpr:
			e = x.X
			continue
		case *ast.CallExpr:
			if len(x.Args) == 1 && p.callee(x) == "T()" {
				e = x.Args[0]
				continue
			}
		}
		return e
	}
}

func c19w_argIndex(p *c19wPkg, e ast.Expr) int { // args[k] -> k, else -1
	ix, ok := e.(*ast.IndexExpr)
	if !ok || types.ExprString(ix.X) != "args" {
		return -1
	}
	k, ok := p.constInt(ix.Index)
	if !ok {
		return -1
	}
	return int(k)
}

// `len(args)` / an identifier bound to it, compared with a constant
func c19w_isLenCond(p *c19wPkg, cond ast.Expr, lenVars map[string]bool) bool {
	be, ok := cond.(*ast.BinaryExpr)
	if !ok {
		return false
	}
	if _, ok := p.constInt(be.Y); !ok {
		return false
	}
	x := types.ExprString(be.X)
	return (x == "len(args)" || lenVars[x]) && (be.Op == token.GTR || be.Op == token.EQL || be.Op == token.GEQ)
}

func c19w_analyze(p *c19wPkg, mod, key string, fd *ast.FuncDecl, funcs map[string]*ast.FuncDecl) c19wRow {
	r := c19wRow{mod: mod, name: key, res: ".str", min: "0", max: c19wMaxInt, shape: ".other"}
	not := func(format string, a ...any) { r.why = append(r.why, fmt.Sprintf(format, a...)) }
	body := fd.Body
	lenVars := map[string]bool{}
	// ---- arity
	var arityStmt ast.Stmt
	minN, maxN := 0, -1
	for i, st := range body.List {
		if i > 1 {
			break
		}
		if as, ok := st.(*ast.AssignStmt); ok && len(as.Lhs) == 1 && len(as.Rhs) == 1 && types.ExprString(as.Rhs[0]) == "len(args)" {
			lenVars[types.ExprString(as.Lhs[0])] = true // nArgs := len(args)
			continue
		}
		is, ok := st.(*ast.IfStmt)
		if !ok {
			break
		}
		if as, ok := is.Init.(*ast.AssignStmt); ok && len(as.Rhs) == 1 {
			if c, ok := as.Rhs[0].(*ast.CallExpr); ok {
				switch p.callee(c) {
				case "arg.Require":
					if n, ok := p.constInt(c.Args[1]); ok && len(c.Args) == 3 && types.ExprString(c.Args[2]) == "args" {
						minN, maxN, arityStmt = int(n), int(n), st
					}
				case "arg.RequireRange":
					a, ok1 := p.constInt(c.Args[1])
					b, ok2 := p.constInt(c.Args[2])
					if ok1 && ok2 && len(c.Args) == 4 && types.ExprString(c.Args[3]) == "args" {
						minN, maxN, arityStmt = int(a), int(b), st
					}
				}
			}
		} else if be, ok := is.Cond.(*ast.BinaryExpr); ok && is.Init == nil && be.Op == token.LOR {
			l, lok := be.X.(*ast.BinaryExpr)
			rr, rok := be.Y.(*ast.BinaryExpr)
			if lok && rok && l.Op == token.LSS && rr.Op == token.GTR {
				lx, rx := types.ExprString(l.X), types.ExprString(rr.X)
				a, ok1 := p.constInt(l.Y)
				b, ok2 := p.constInt(rr.Y)
				if ok1 && ok2 && (lx == "len(args)" || lenVars[lx]) && (rx == "len(args)" || lenVars[rx]) {
					minN, maxN, arityStmt = int(a), int(b), st
				}
			}
		}
		if arityStmt != nil {
			if len(is.Body.List) != 1 || is.Else != nil {
				c19Fail("%s.%s: the arity test does more than return an error", mod, key)
			}
			if _, ok := is.Body.List[0].(*ast.ReturnStmt); !ok {
				c19Fail("%s.%s: the arity test does not return", mod, key)
			}
		}
		break
	}
	if arityStmt == nil {
		not("no arity test")
	} else {
		r.min, r.max = strconv.Itoa(minN), strconv.Itoa(maxN)
	}
	// ---- the bytes module: `b, err := asBytes(args[0]); if err != nil { return err }; return b.M(args[1], …)`
	if arityStmt != nil && len(body.List) == 4 && minN == maxN {
		as, ok1 := body.List[1].(*ast.AssignStmt)
		is, ok2 := body.List[2].(*ast.IfStmt)
		ret, ok3 := body.List[3].(*ast.ReturnStmt)
		if ok1 && ok2 && ok3 && len(as.Lhs) == 2 && len(as.Rhs) == 1 && len(ret.Results) == 1 {
			c, okc := as.Rhs[0].(*ast.CallExpr)
			mc, okm := ret.Results[0].(*ast.CallExpr)
			if okc && okm && p.callee(c) == "asBytes" && len(c.Args) == 1 && c19w_argIndex(p, c.Args[0]) == 0 &&
				types.ExprString(is.Cond) == types.ExprString(as.Lhs[1])+" != nil" && len(is.Body.List) == 1 && is.Else == nil && is.Init == nil {
				if r0, ok := is.Body.List[0].(*ast.ReturnStmt); ok && len(r0.Results) == 1 && types.ExprString(r0.Results[0]) == types.ExprString(as.Lhs[1]) {
					if sel, ok := mc.Fun.(*ast.SelectorExpr); ok && types.ExprString(sel.X) == types.ExprString(as.Lhs[0]) && strings.HasPrefix(p.callee(mc), "risor-method:") {
						// the local asBytes must be the assertion to *object.ByteSlice
						ab := funcs["asBytes"]
						if ab == nil || len(ab.Body.List) == 0 || !strings.Contains(c19w_src(ab.Body.List[0]), "obj.(*object.ByteSlice)") {
							c19Fail("modules/bytes: asBytes is not the assertion obj.(*object.ByteSlice)")
						}
						good := len(mc.Args) == maxN-1
						for i, a := range mc.Args {
							if c19w_argIndex(p, a) != i+1 {
								good = false
							}
							r.pass = append(r.pass, c19w_argIndex(p, a))
						}
						if good {
							r.shape = fmt.Sprintf(".method %q", sel.Sel.Name)
							r.goFn = strings.TrimPrefix(p.callee(mc), "risor-method:")
							r.res = ".bool"
							return r
						}
						r.pass = nil
						not("the method is not called on args[1], args[2], … in order")
					}
				}
			}
		}
	}
	// ---- every call of the body, in source order
	type convCall struct {
		call *ast.CallExpr
		kind string
	}
	var convCalls []convCall
	var libCalls []*ast.CallExpr
	var libNames, ctorNames []string
	var ctorCalls []*ast.CallExpr
	newErrorOf := map[string]bool{}
	ast.Inspect(body, func(n ast.Node) bool {
		if _, ok := n.(*ast.FuncLit); ok {
			not("function literal")
		}
		c, ok := n.(*ast.CallExpr)
		if !ok {
			return true
		}
		name := p.callee(c)
		switch {
		case strings.HasPrefix(name, "std:"):
			libCalls = append(libCalls, c)
			libNames = append(libNames, strings.TrimPrefix(name, "std:"))
		case strings.HasPrefix(name, "object.As"):
			k, ok := c19wConv[name]
			if !ok {
				c19Fail("%s.%s: converter %s has no counterpart in the model", mod, key, name)
			}
			convCalls = append(convCalls, convCall{c, k})
			r.convs = append(r.convs, k)
		case name == "object.NewError":
			if len(c.Args) == 1 {
				newErrorOf[types.ExprString(c.Args[0])] = true
			}
		case strings.HasPrefix(name, "object.New") && name != "object.NewArgsError" && name != "object.NewArgsRangeError":
			ctorNames = append(ctorNames, strings.TrimPrefix(name, "object."))
			ctorCalls = append(ctorCalls, c)
		case name == "T()" || name == "len" || name == "arg.Require" || name == "arg.RequireRange" || name == "object.ArgsErrorf":
		default:
			not("call of %s", strings.TrimPrefix(name, "risor-method:"))
		}
		return true
	})
	coarse := func() c19wRow {
		r.goFn = strings.Join(libNames, " ") + " => " + strings.Join(ctorNames, " ")
		for _, c := range ctorNames {
			if k, ok := c19wCtor["object."+c]; ok {
				r.res = k
				break
			}
		}
		r.pass, r.defaults, r.extra = nil, nil, nil
		return r
	}
	// ---- the statements
	convAt := map[string]int{}      // variable -> position of the converter that feeds it
	defaults := map[string]string{} // variable -> its constant initial value
	optional := map[int]bool{}      // converter position -> inside `if len(args) > k`
	libVar := map[string]bool{}
	errVar := ""
	convPos := func(c *ast.CallExpr) int {
		for i, cc := range convCalls {
			if cc.call == c {
				return i
			}
		}
		return -1
	}
	var walk func(list []ast.Stmt, inOpt bool)
	walk = func(list []ast.Stmt, inOpt bool) {
		for _, st := range list {
			switch x := st.(type) {
			case *ast.AssignStmt:
				if len(x.Rhs) != 1 {
					not("assignment with %d right-hand sides", len(x.Rhs))
					continue
				}
				lhs0 := types.ExprString(x.Lhs[0])
				if lenVars[lhs0] && types.ExprString(x.Rhs[0]) == "len(args)" {
					continue
				}
				if _, ok := p.leanConst(x.Rhs[0]); ok && len(x.Lhs) == 1 && x.Tok == token.DEFINE && !inOpt {
					d, _ := p.leanConst(x.Rhs[0])
					defaults[lhs0] = d
					continue
				}
				inner := c19w_strip(p, x.Rhs[0])
				if id, ok := inner.(*ast.Ident); ok && inner != x.Rhs[0] && len(x.Lhs) == 1 {
					if k, ok := convAt[id.Name]; ok { // sign = int(arg)
						convAt[lhs0] = k
						continue
					}
				}
				c, ok := x.Rhs[0].(*ast.CallExpr)
				if !ok {
					not("assignment of %s", types.ExprString(x.Rhs[0]))
					continue
				}
				name := p.callee(c)
				switch {
				case strings.HasPrefix(name, "object.As"):
					pos := convPos(c)
					if len(c.Args) != 1 || c19w_argIndex(p, c.Args[0]) != pos {
						not("converter %d does not read args[%d]", pos, pos)
					}
					if len(x.Lhs) != 2 {
						not("converter result is not (value, error)")
					}
					convAt[lhs0] = pos
					optional[pos] = inOpt
				case strings.HasPrefix(name, "std:"):
					libVar[lhs0] = true
					if len(x.Lhs) == 2 {
						errVar = types.ExprString(x.Lhs[1])
					}
					if inOpt {
						not("the library call is inside an optional block")
					}
				default:
					not("assignment of %s", types.ExprString(x.Rhs[0]))
				}
			case *ast.DeclStmt:
				gd, ok := x.Decl.(*ast.GenDecl)
				if !ok || gd.Tok != token.VAR {
					not("declaration")
					continue
				}
				for _, sp := range gd.Specs {
					if vs := sp.(*ast.ValueSpec); len(vs.Values) != 0 {
						not("declaration with a value")
					}
				}
			case *ast.IfStmt:
				if st == arityStmt {
					continue
				}
				if x.Else != nil {
					not("if/else on `%s`", types.ExprString(x.Cond))
					continue
				}
				if x.Init != nil {
					walk([]ast.Stmt{x.Init}, inOpt)
				}
				cond := types.ExprString(x.Cond)
				switch {
				case strings.HasSuffix(cond, " != nil") && strings.HasSuffix(strings.ToLower(strings.TrimSuffix(cond, " != nil")), "err"):
					v := strings.TrimSuffix(cond, " != nil")
					ok := false
					if len(x.Body.List) == 1 {
						if rt, isRet := x.Body.List[0].(*ast.ReturnStmt); isRet && len(rt.Results) == 1 {
							t := types.ExprString(rt.Results[0])
							ok = t == v || t == "object.NewError("+v+")"
						}
					}
					if !ok {
						not("`if %s` does more than return the error", cond)
					}
				case strings.HasSuffix(cond, " == nil") && strings.HasSuffix(strings.ToLower(strings.TrimSuffix(cond, " == nil")), "err") && !inOpt:
					walk(x.Body.List, inOpt)
				case c19w_isLenCond(p, x.Cond, lenVars) && !inOpt:
					walk(x.Body.List, true)
				default:
					not("branch on `%s`", cond)
				}
			case *ast.ReturnStmt:
				if len(x.Results) != 1 {
					not("return of %d values", len(x.Results))
				}
			default:
				not("statement %T", st)
			}
		}
	}
	walk(body.List, false)
	if len(libCalls) != 1 {
		not("%d calls into the standard library", len(libCalls))
	}
	if len(ctorCalls) != 1 {
		not("%d result constructors", len(ctorCalls))
	}
	if len(r.why) > 0 {
		return coarse()
	}
	lib := libCalls[0]
	r.goFn = libNames[0]
	if strings.HasPrefix(r.goFn, "(") {
		not("the library call is a method call")
	}
	for _, a := range lib.Args {
		in := c19w_strip(p, a)
		if id, ok := in.(*ast.Ident); ok {
			if k, ok := convAt[id.Name]; ok {
				if len(r.extra) > 0 {
					not("a constant argument before a converted one")
				}
				r.pass = append(r.pass, k)
				continue
			}
		}
		if d, ok := p.leanConst(a); ok {
			r.extra = append(r.extra, d)
			continue
		}
		not("argument %s of %s is neither a converted argument nor a constant", types.ExprString(a), r.goFn)
	}
	if len(r.convs) != maxN {
		not("%d converters for at most %d arguments", len(r.convs), maxN)
	}
	for k := range r.convs {
		if optional[k] != (k >= minN) {
			not("converter %d: optional block and arity bounds disagree", k)
		}
		if k >= minN {
			d := ""
			for v, pos := range convAt {
				if dv, ok := defaults[v]; ok && pos == k {
					d = dv
				}
			}
			if d == "" || strings.HasPrefix(d, ".int") != (r.convs[k] == ".int") || strings.HasPrefix(d, ".bool") != (r.convs[k] == ".bool") {
				not("optional argument %d has no constant default of its type", k)
			}
			r.defaults = append(r.defaults, d)
		}
	}
	ctor := ctorCalls[0]
	k, ok := c19wCtor[p.callee(ctor)]
	if !ok || len(ctor.Args) != 1 {
		not("result constructor %s", p.callee(ctor))
	} else {
		r.res = k
		in := c19w_strip(p, ctor.Args[0])
		if in != ast.Expr(lib) && !libVar[types.ExprString(in)] {
			not("the result does not come from the library call")
		}
	}
	if sig, ok := p.info.Types[lib.Fun].Type.(*types.Signature); ok {
		r.retErr = sig.Results().Len() == 2
		if sig.Results().Len() > 2 || sig.Results().Len() == 0 {
			not("the library function has %d results", sig.Results().Len())
		}
	}
	if r.retErr && (errVar == "" || !newErrorOf[errVar]) {
		not("the error result of %s is not returned as object.NewError", r.goFn)
	}
	if !r.retErr && errVar != "" {
		not("two values taken from a call with one result")
	}
	if len(r.why) > 0 {
		return coarse()
	}
	r.shape = ".direct"
	return r
}

func c19w_src(n ast.Node) string {
	switch x := n.(type) {
	case *ast.AssignStmt:
		parts := []string{}
		for _, e := range x.Rhs {
			parts = append(parts, types.ExprString(e))
		}
		return strings.Join(parts, ", ")
	}
	return ""
}

func c19w_list(xs []string) string { return "[" + strings.Join(xs, ", ") + "]" }

func init() {
	generators = append(generators, generator{"C19Wide", func(repo string) string {
		im := c05_newRepoImporter(repo)
		var rows []string
		for _, mod := range c19wModules {
			path := c05_risorModule + "/modules/" + mod
			dir := filepath.Join(repo, "modules", mod)
			// type-check the module's package with full use information
			if _, err := im.Import(path); err != nil {
				c19Fail("modules/%s: %v", mod, err)
			}
			files := im.files[path]
			info := &types.Info{Types: map[ast.Expr]types.TypeAndValue{}, Uses: map[*ast.Ident]types.Object{}, Defs: map[*ast.Ident]types.Object{}}
			conf := types.Config{Importer: im, Error: func(error) {}, FakeImportC: true}
			pkg, _ := conf.Check(path, im.fset, files, info)
			if pkg == nil {
				c19Fail("modules/%s (%s): type-check produced no package", mod, dir)
			}
			p := &c19wPkg{info: info, pkg: pkg}
			funcs := map[string]*ast.FuncDecl{}
			for _, f := range files {
				for _, d := range f.Decls {
					if fd, ok := d.(*ast.FuncDecl); ok && fd.Recv == nil {
						funcs[fd.Name.Name] = fd
					}
				}
			}
			m := funcs["Module"]
			if m == nil {
				c19Fail("modules/%s: func Module not found", mod)
			}
			n := 0
			ast.Inspect(m.Body, func(nd ast.Node) bool {
				cl, ok := nd.(*ast.CompositeLit)
				if !ok {
					return true
				}
				for _, el := range cl.Elts {
					kv, ok := el.(*ast.KeyValueExpr)
					if !ok {
						c19Fail("modules/%s: unexpected element in the registration table", mod)
					}
					key, _ := strconv.Unquote(types.ExprString(kv.Key))
					call, ok := kv.Value.(*ast.CallExpr)
					if !ok || p.callee(call) != "object.NewBuiltin" {
						if ok && (p.callee(call) == "object.NewFloat" || p.callee(call) == "object.NewInt" || p.callee(call) == "object.NewString") {
							continue // a constant of the module (math.PI, math.E)
						}
						c19Fail("modules/%s: %s is not registered as object.NewBuiltin(name, fn)", mod, key)
					}
					if len(call.Args) != 2 {
						c19Fail("modules/%s: %s: object.NewBuiltin with %d arguments", mod, key, len(call.Args))
					}
					fd := funcs[types.ExprString(call.Args[1])]
					if fd == nil {
						c19Fail("modules/%s: %s: function %s not found", mod, key, types.ExprString(call.Args[1]))
					}
					r := c19w_analyze(p, mod, key, fd, funcs)
					pass := make([]string, len(r.pass))
					for i, x := range r.pass {
						pass[i] = strconv.Itoa(x)
					}
					why := ""
					if r.shape == ".other" {
						why = " /- " + strings.ReplaceAll(strings.Join(r.why, "; "), "-/", "- /") + " -/"
					}
					rows = append(rows, fmt.Sprintf("  ⟨%q, ⟨%q, %q, %s, %s, %s, []⟩, %s, %s, %s, %s, %v, %s%s⟩", r.mod, r.name, r.goFn,
						c19w_list(r.convs), c19w_list(pass), r.res, r.min, r.max, c19w_list(r.defaults), c19w_list(r.extra), r.retErr, r.shape, why))
					n++
				}
				return false
			})
			if n == 0 {
				c19Fail("modules/%s: no registrations found", mod)
			}
		}
		s := "import RisorModel.C19.Wide\nnamespace Risor.Generated.C19Wide\nopen Risor.C19\n\n"
		s += "/-- regenerated from modules/{" + strings.Join(c19wModules, ",") + "}/*.go (go/ast + go/types) -/\n"
		s += "def wideSigs : List WSig := [\n" + strings.Join(rows, ",\n") + " ]\n"
		s += "\nend Risor.Generated.C19Wide\n"
		return s
	}})
}
