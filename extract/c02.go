package main

// E5 for C02: the source facts the closure model is written from, as printed Go expressions.
//   compiler/compiler.go  compileFunc   the operands of c.emit(op.MakeCell, …) and what follows the loop
//   compiler/symbol_table.go Resolve    how the depth of a free variable is computed, where it is recorded
//   vm/vm.go eval                       the statements of the MakeCell, LoadFree, StoreFree arms
//   vm/vm.go callFunction               what is placed in the slot after the parameters of a named function
//   vm/frame.go CaptureLocals           the statements (heap copy shared by the frame and its cells)
//   vm/frame.go ActivateCode            the statements (a frame slot is reset when an activation STARTS in it)
//   vm/vm.go eval                       the LoadFast / StoreFast arms (through the active frame's current locals)
//   vm/vm.go eval, callObject           the Call arm (every callee goes to callObject) and callObject's
//                                       *object.Function case (callFunction: a new frame per call)
//   compiler/symbol_table.go claimIndex, NewBlock; compiler.go compileBlock   block tables claim their
//                                       indexes from the function table and never hand them back

import (
	"bytes"
	"go/ast"
	"go/parser"
	"go/printer"
	"go/token"
	"strings"
)

func init() {
	generators = append(generators, generator{"C02", c02_genC02})
}

func c02Print(fset *token.FileSet, n ast.Node) string {
	var b bytes.Buffer
	printer.Fprint(&b, fset, n)
	return strings.Join(strings.Fields(b.String()), " ")
}

func c02Func(repo, file, name string) (*token.FileSet, *ast.FuncDecl) {
	fset := token.NewFileSet()
	f, err := parser.ParseFile(fset, repo+"/"+file, nil, 0)
	if err != nil {
		panic(err)
	}
	for _, d := range f.Decls {
		if fd, ok := d.(*ast.FuncDecl); ok && fd.Name.Name == name {
			return fset, fd
		}
	}
	panic(file + ": func " + name + " not found")
}

func c02LeanList(name, doc string, xs []string) string {
	var sb strings.Builder
	sb.WriteString("/-- " + doc + " -/\ndef " + name + " : List String := [\n")
	for i, x := range xs {
		sep := ","
		if i == len(xs)-1 {
			sep = ""
		}
		sb.WriteString("  " + leanStr(x) + sep + "\n")
	}
	sb.WriteString("]\n\n")
	return sb.String()
}

func c02_genC02(repo string) string {
	var sb strings.Builder
	sb.WriteString("namespace Risor.Generated.C02\n\n")

	// compileFunc: every c.emit(op.MakeCell, a, b) / c.emit(op.LoadClosure, …) call, in order
	fset, fd := c02Func(repo, "compiler/compiler.go", "compileFunc")
	var emits []string
	ast.Inspect(fd, func(n ast.Node) bool {
		call, ok := n.(*ast.CallExpr)
		if !ok {
			return true
		}
		if sel, ok := call.Fun.(*ast.SelectorExpr); ok && sel.Sel.Name == "emit" && len(call.Args) > 0 {
			op := c02Print(fset, call.Args[0])
			if op == "op.MakeCell" || op == "op.LoadClosure" {
				emits = append(emits, c02Print(fset, call))
			}
		}
		return true
	})
	if len(emits) == 0 {
		panic("compileFunc: no MakeCell emission found")
	}
	sb.WriteString(c02LeanList("compileFuncEmits", "the MakeCell / LoadClosure emissions of compileFunc, in source order", emits))

	// Resolve: the `depth :=` definition and the appends to a free list
	fset, fd = c02Func(repo, "compiler/symbol_table.go", "Resolve")
	var res []string
	ast.Inspect(fd, func(n ast.Node) bool {
		as, ok := n.(*ast.AssignStmt)
		if !ok || len(as.Lhs) != 1 {
			return true
		}
		lhs := c02Print(fset, as.Lhs[0])
		if lhs == "depth" || lhs == "freeIndex" || strings.HasSuffix(lhs, ".free") || strings.HasSuffix(lhs, ".freeByName[name]") || lhs == "rs" {
			res = append(res, c02Print(fset, as))
		}
		return true
	})
	if len(res) == 0 {
		panic("Resolve: depth computation not found")
	}
	sb.WriteString(c02LeanList("resolveFree", "how Resolve computes and records a free variable", res))

	// eval arms
	fset, fd = c02Func(repo, "vm/vm.go", "eval")
	arms := map[string][]string{}
	ast.Inspect(fd, func(n ast.Node) bool {
		cc, ok := n.(*ast.CaseClause)
		if !ok || len(cc.List) != 1 {
			return true
		}
		name := c02Print(fset, cc.List[0])
		if name == "op.MakeCell" || name == "op.LoadFree" || name == "op.StoreFree" || name == "op.LoadFast" || name == "op.StoreFast" || name == "op.Call" {
			for _, st := range cc.Body {
				arms[name] = append(arms[name], c02Print(fset, st))
			}
		}
		return true
	})
	for _, k := range []string{"op.MakeCell", "op.LoadFree", "op.StoreFree", "op.LoadFast", "op.StoreFast", "op.Call"} {
		if len(arms[k]) == 0 {
			panic("eval: arm " + k + " not found")
		}
	}
	sb.WriteString(c02LeanList("armMakeCell", "vm.eval, case op.MakeCell", arms["op.MakeCell"]))
	sb.WriteString(c02LeanList("armLoadFree", "vm.eval, case op.LoadFree", arms["op.LoadFree"]))
	sb.WriteString(c02LeanList("armStoreFree", "vm.eval, case op.StoreFree", arms["op.StoreFree"]))
	sb.WriteString(c02LeanList("armLoadFast", "vm.eval, case op.LoadFast", arms["op.LoadFast"]))
	sb.WriteString(c02LeanList("armStoreFast", "vm.eval, case op.StoreFast", arms["op.StoreFast"]))
	sb.WriteString(c02LeanList("armCall", "vm.eval, case op.Call: every callee is handed to callObject", arms["op.Call"]))

	// callObject: what is done with a *object.Function callee
	fset, fd = c02Func(repo, "vm/vm.go", "callObject")
	var co []string
	ast.Inspect(fd, func(n ast.Node) bool {
		cc, ok := n.(*ast.CaseClause)
		if !ok || len(cc.List) != 1 || c02Print(fset, cc.List[0]) != "*object.Function" {
			return true
		}
		for _, st := range cc.Body {
			co = append(co, c02Print(fset, st))
		}
		return false
	})
	if len(co) == 0 {
		panic("callObject: the *object.Function case not found")
	}
	sb.WriteString(c02LeanList("callObjectFunction", "vm.callObject, case *object.Function", co))

	// callFunction: the `if code.IsNamed() { … }` block and the frame activation
	fset, fd = c02Func(repo, "vm/vm.go", "callFunction")
	var cf []string
	ast.Inspect(fd, func(n ast.Node) bool {
		switch x := n.(type) {
		case *ast.IfStmt:
			if strings.Contains(c02Print(fset, x.Cond), "IsNamed") {
				cf = append(cf, c02Print(fset, x))
			}
		case *ast.ExprStmt:
			if s := c02Print(fset, x); strings.HasPrefix(s, "vm.activateFunction(") {
				cf = append(cf, s)
			}
		}
		return true
	})
	if len(cf) < 2 {
		panic("callFunction: self slot / activation not found")
	}
	sb.WriteString(c02LeanList("callFunctionFrame", "callFunction: the self slot of named functions and the frame the call runs in", cf))

	// CaptureLocals
	fset, fd = c02Func(repo, "vm/frame.go", "CaptureLocals")
	var cl []string
	for _, st := range fd.Body.List {
		cl = append(cl, c02Print(fset, st))
	}
	sb.WriteString(c02LeanList("captureLocals", "frame.CaptureLocals", cl))

	// ActivateCode: what a frame slot is reset to when a new activation starts in it
	fset, fd = c02Func(repo, "vm/frame.go", "ActivateCode")
	var ac []string
	for _, st := range fd.Body.List {
		ac = append(ac, c02Print(fset, st))
	}
	sb.WriteString(c02LeanList("activateCode", "frame.ActivateCode", ac))

	// block tables: claimIndex (where a block's variables get their index and that nothing is
	// ever handed back), NewBlock, and how compileBlock leaves its table
	fset, fd = c02Func(repo, "compiler/symbol_table.go", "claimIndex")
	var ci []string
	for _, st := range fd.Body.List {
		ci = append(ci, c02Print(fset, st))
	}
	sb.WriteString(c02LeanList("claimIndex", "SymbolTable.claimIndex", ci))
	fset, fd = c02Func(repo, "compiler/symbol_table.go", "NewBlock")
	var nb []string
	for _, st := range fd.Body.List {
		nb = append(nb, c02Print(fset, st))
	}
	sb.WriteString(c02LeanList("newBlock", "SymbolTable.NewBlock", nb))
	fset, fd = c02Func(repo, "compiler/compiler.go", "compileBlock")
	var cb []string
	ast.Inspect(fd, func(n ast.Node) bool {
		if as, ok := n.(*ast.AssignStmt); ok && len(as.Lhs) == 1 && c02Print(fset, as.Lhs[0]) == "code.symbols" {
			cb = append(cb, c02Print(fset, as))
		}
		return true
	})
	if len(cb) == 0 {
		panic("compileBlock: the block table is not entered / left as expected")
	}
	sb.WriteString(c02LeanList("compileBlockTables", "compileBlock: entering and leaving the block table", cb))
	sb.WriteString("end Risor.Generated.C02\n")
	return sb.String()
}
