package main

// C15: the comparison / equality / hash DISPATCH of package object, regenerated from
// object/*.go (go/ast + go/types through the repo importer of c05.go):
//
//   objectTypes      every named type whose pointer implements object.Object, with: does it
//                    implement Comparable (Compare), Hashable (HashKey), has it an Equals method
//   compareDispatch  per Compare method: the operand types it accepts (the `case *T:` arms of the
//                    type switch on the other operand / the `other.(*T)` assertion / the
//                    `other.Type() == K` test, K resolved to the type whose Type() returns K),
//                    in source order, and what every other operand gets ("error" / "False")
//   equalsDispatch   the same per Equals method
//   hashFields       per HashKey method: the fields of the HashKey{…} literal it fills besides
//                    Type, with the normalised text of the value
//   compareShapes /  per accepted operand type the normalised text of the arm (receiver `x`,
//   equalsShapes     other operand `y`): which side is converted with float64()/int64() and the
//                    ordered comparisons and returned constants
//   the numeric and bool arms are ALSO translated to Lean definitions (extract/translate.go,
//   unchanged; the arm is rewritten to its subset first: `x.value` → x, `float64(e)` →
//   float64_of_int64 / float64_of_byte by the go/types type of e).

import (
	"fmt"
	"go/ast"
	"go/token"
	"go/types"
	"sort"
	"strings"
)

func init() {
	generators = append(generators, generator{"C15", c15Gen})
}

type c15Method struct {
	recv     string
	fd       *ast.FuncDecl
	arms     []string
	bodies   map[string][]ast.Stmt // arm type -> statements of the arm (with the fall-through tail)
	yname    map[string]string     // arm type -> name of the variable holding the asserted operand
	dflt     string
	shapeAll string
}

func c15RecvVar(fd *ast.FuncDecl) string {
	if fd.Recv == nil || len(fd.Recv.List) == 0 || len(fd.Recv.List[0].Names) == 0 {
		return "_"
	}
	return fd.Recv.List[0].Names[0].Name
}

func c15StarName(e ast.Expr) string {
	if s, ok := e.(*ast.StarExpr); ok {
		if id, ok := s.X.(*ast.Ident); ok {
			return id.Name
		}
	}
	return ""
}

// what a statement list that ends the "other operand is of no accepted type" path returns
func c15Default(ss []ast.Stmt) string {
	for _, s := range ss {
		if r, ok := s.(*ast.ReturnStmt); ok {
			if len(r.Results) == 2 {
				if isNil(r.Results[1]) {
					return "value"
				}
				return "error"
			}
			if len(r.Results) == 1 {
				if id, ok := r.Results[0].(*ast.Ident); ok {
					return id.Name
				}
				return "expr"
			}
		}
	}
	return ""
}

// c15Analyse finds the dispatch of a Compare/Equals method on its parameter.
func c15Analyse(fset *token.FileSet, fd *ast.FuncDecl, constTy map[string]string) *c15Method {
	m := &c15Method{recv: c05_recvName(fd), fd: fd, bodies: map[string][]ast.Stmt{}, yname: map[string]string{}}
	if len(fd.Type.Params.List) != 1 || len(fd.Type.Params.List[0].Names) != 1 {
		panic(fmt.Sprintf("%s.%s: unexpected parameter list", m.recv, fd.Name.Name))
	}
	param := fd.Type.Params.List[0].Names[0].Name
	body := fd.Body.List
	add := func(t string, ss []ast.Stmt, y string) {
		for _, a := range m.arms {
			if a == t {
				return
			}
		}
		m.arms = append(m.arms, t)
		m.bodies[t] = ss
		m.yname[t] = y
	}
	for i, s := range body {
		tail := body[i+1:]
		switch x := s.(type) {
		case *ast.TypeSwitchStmt:
			// switch other := other.(type) { case *T: … default: … }
			y := param
			if as, ok := x.Assign.(*ast.AssignStmt); ok && len(as.Lhs) == 1 {
				if id, ok := as.Lhs[0].(*ast.Ident); ok {
					y = id.Name
				}
			}
			hasDefault := false
			for _, c := range x.Body.List {
				cc := c.(*ast.CaseClause)
				if cc.List == nil {
					hasDefault = true
					m.dflt = c15Default(cc.Body)
					continue
				}
				for _, te := range cc.List {
					t := c15StarName(te)
					if t == "" {
						t = "?" + c05_nodeText(fset, te)
					}
					add(t, append(append([]ast.Stmt{}, cc.Body...), tail...), y)
				}
			}
			if !hasDefault {
				m.dflt = c15Default(tail)
			}
			return m
		case *ast.AssignStmt:
			// otherT, ok := other.(*T)   followed by   if !ok { return … }
			if len(x.Rhs) == 1 && len(x.Lhs) == 2 {
				if ta, ok := x.Rhs[0].(*ast.TypeAssertExpr); ok {
					if id, ok := ta.X.(*ast.Ident); ok && id.Name == param {
						t := c15StarName(ta.Type)
						y := "_"
						if l, ok := x.Lhs[0].(*ast.Ident); ok {
							y = l.Name
						}
						if len(tail) > 0 {
							if ifs, ok := tail[0].(*ast.IfStmt); ok {
								m.dflt = c15Default(ifs.Body.List)
								add(t, tail[1:], y)
								return m
							}
						}
					}
				}
			}
		case *ast.IfStmt:
			// if _, ok := other.(*T); ok { … }  |  if other.Type() == K && … { … }  |  if other.Type() != K { return False }
			if x.Init != nil {
				if as, ok := x.Init.(*ast.AssignStmt); ok && len(as.Rhs) == 1 {
					if ta, ok := as.Rhs[0].(*ast.TypeAssertExpr); ok {
						add(c15StarName(ta.Type), x.Body.List, "_")
						m.dflt = c15Default(tail)
						return m
					}
				}
			}
			found := ""
			neg := false
			ast.Inspect(x.Cond, func(n ast.Node) bool {
				be, ok := n.(*ast.BinaryExpr)
				if !ok || (be.Op != token.EQL && be.Op != token.NEQ) {
					return true
				}
				call, ok := be.X.(*ast.CallExpr)
				if !ok {
					return true
				}
				sel, ok := call.Fun.(*ast.SelectorExpr)
				if !ok || sel.Sel.Name != "Type" {
					return true
				}
				if id, ok := sel.X.(*ast.Ident); !ok || id.Name != param {
					return true
				}
				if k, ok := be.Y.(*ast.Ident); ok && found == "" {
					found = k.Name
					neg = be.Op == token.NEQ
				}
				return true
			})
			if found != "" {
				t, ok := constTy[found]
				if !ok {
					t = "?" + found
				}
				if neg {
					m.dflt = c15Default(x.Body.List)
					add(t, tail, param)
				} else {
					m.dflt = c15Default(tail)
					add(t, append([]ast.Stmt{&ast.IfStmt{Cond: x.Cond, Body: x.Body}}, tail...), param)
				}
				return m
			}
		}
	}
	// no dispatch on the operand's type found: the whole body is the shape
	m.dflt = "none"
	m.shapeAll = c15Norm(c05_nodeText(fset, fd.Body))
	return m
}

// go/printer puts a blank after the dot of a selector whose nodes carry no position
func c15Norm(s string) string { return strings.ReplaceAll(strings.Join(strings.Fields(s), " "), ". ", ".") }

// rename receiver/operand variables and `.value` selections:  recv.value → x, y.value → y
type c15Renamer struct {
	recv, y, param string
}

func (r c15Renamer) rw(e ast.Expr) ast.Expr {
	switch x := e.(type) {
	case *ast.SelectorExpr:
		if id, ok := x.X.(*ast.Ident); ok && x.Sel.Name == "value" {
			if id.Name == r.recv {
				return ast.NewIdent("x")
			}
			if id.Name == r.y {
				return ast.NewIdent("y")
			}
		}
		// other.(*T).value
		if ta, ok := x.X.(*ast.TypeAssertExpr); ok && x.Sel.Name == "value" {
			if id, ok := ta.X.(*ast.Ident); ok && id.Name == r.param {
				return ast.NewIdent("y")
			}
		}
		return &ast.SelectorExpr{X: r.rw(x.X), Sel: x.Sel}
	case *ast.Ident:
		if x.Name == r.recv {
			return ast.NewIdent("X")
		}
		if x.Name == r.y {
			return ast.NewIdent("Y")
		}
		return x
	case *ast.BinaryExpr:
		return &ast.BinaryExpr{X: r.rw(x.X), Op: x.Op, Y: r.rw(x.Y)}
	case *ast.UnaryExpr:
		return &ast.UnaryExpr{Op: x.Op, X: r.rw(x.X)}
	case *ast.ParenExpr:
		return &ast.ParenExpr{X: r.rw(x.X)}
	case *ast.CallExpr:
		args := make([]ast.Expr, len(x.Args))
		for i, a := range x.Args {
			args[i] = r.rw(a)
		}
		return &ast.CallExpr{Fun: r.rw(x.Fun), Args: args}
	case *ast.TypeAssertExpr:
		return &ast.TypeAssertExpr{X: r.rw(x.X), Type: x.Type}
	}
	return e
}

func (r c15Renamer) stmts(ss []ast.Stmt) []ast.Stmt {
	out := make([]ast.Stmt, 0, len(ss))
	for _, s := range ss {
		switch x := s.(type) {
		case *ast.ReturnStmt:
			res := make([]ast.Expr, len(x.Results))
			for i, e := range x.Results {
				res[i] = r.rw(e)
			}
			out = append(out, &ast.ReturnStmt{Results: res})
		case *ast.AssignStmt:
			lhs := make([]ast.Expr, len(x.Lhs))
			for i, e := range x.Lhs {
				lhs[i] = r.rw(e)
			}
			rhs := make([]ast.Expr, len(x.Rhs))
			for i, e := range x.Rhs {
				rhs[i] = r.rw(e)
			}
			out = append(out, &ast.AssignStmt{Lhs: lhs, Tok: x.Tok, Rhs: rhs})
		case *ast.IfStmt:
			n := &ast.IfStmt{Init: x.Init, Cond: r.rw(x.Cond), Body: &ast.BlockStmt{List: r.stmts(x.Body.List)}}
			if eb, ok := x.Else.(*ast.BlockStmt); ok {
				n.Else = &ast.BlockStmt{List: r.stmts(eb.List)}
			} else if x.Else != nil {
				n.Else = x.Else
			}
			out = append(out, n)
		default:
			out = append(out, s)
		}
	}
	return out
}

func c15StmtsText(fset *token.FileSet, ss []ast.Stmt) string {
	parts := make([]string, len(ss))
	for i, s := range ss {
		parts[i] = c15Norm(c05_nodeText(fset, s))
	}
	return strings.Join(parts, " ; ")
}

// the error results are irrelevant to the shape (they carry the message text)
func c15DropErrText(ss []ast.Stmt) []ast.Stmt {
	out := make([]ast.Stmt, 0, len(ss))
	for _, s := range ss {
		if r, ok := s.(*ast.ReturnStmt); ok && len(r.Results) == 2 && !isNil(r.Results[1]) {
			out = append(out, &ast.ReturnStmt{Results: []ast.Expr{r.Results[0], ast.NewIdent("ERR")}})
			continue
		}
		out = append(out, s)
	}
	return out
}

// typed conversions: float64(e) / int64(e) become calls named after the go/types type of e
func c15TypeConvs(info *types.Info, ss []ast.Stmt) {
	for _, s := range ss {
		ast.Inspect(s, func(n ast.Node) bool {
			call, ok := n.(*ast.CallExpr)
			if !ok || len(call.Args) != 1 {
				return true
			}
			id, ok := call.Fun.(*ast.Ident)
			if !ok || (id.Name != "float64" && id.Name != "int64") {
				return true
			}
			tv, ok := info.Types[call.Args[0]]
			if !ok || tv.Type == nil {
				return true
			}
			call.Fun = ast.NewIdent(id.Name + "_of_" + tv.Type.Underlying().String())
			return true
		})
	}
}

var c15LeanTy = map[string]string{"Int": "Int", "Float": "F", "Byte": "Nat", "Bool": "Bool"}

func c15Translate(fset *token.FileSet, recv, arm, method string, ss []ast.Stmt) (string, bool) {
	xt, ok1 := c15LeanTy[recv]
	yt, ok2 := c15LeanTy[arm]
	if !ok1 || !ok2 {
		return "", false
	}
	name := recv + "_" + method + "_" + arm
	calls := map[string]string{
		"float64_of_int64": "conv", "float64_of_uint8": "convB conv", "int64_of_uint8": "Int.ofNat",
		"float64_of_byte": "convB conv", "int64_of_byte": "Int.ofNat",
	}
	t := &tr{cfg: FuncCfg{File: "object/" + strings.ToLower(recv) + ".go", Func: recv + "." + method + "/" + arm, Calls: calls, Ok: "some %s", Err: "none"}, fset: fset}
	if method == "Compare" {
		body := t.stmts(ss, "  ")
		return fmt.Sprintf("/-- translated from `(*%s).Compare`, operand `*%s` -/\ndef %s (conv : Int → F) (x : %s) (y : %s) : Option Int :=\n%s\n", recv, arm, name, xt, yt, body), true
	}
	// Equals arm: `if COND { return True }` then the common `return False`
	if len(ss) == 2 {
		ifs, ok := ss[0].(*ast.IfStmt)
		ret, ok2 := ss[1].(*ast.ReturnStmt)
		if ok && ok2 && ifs.Else == nil && ifs.Init == nil && len(ifs.Body.List) == 1 && len(ret.Results) == 1 {
			r1, ok := ifs.Body.List[0].(*ast.ReturnStmt)
			if ok && len(r1.Results) == 1 && c05_nodeText(fset, r1.Results[0]) == "True" && c05_nodeText(fset, ret.Results[0]) == "False" {
				cond := ifs.Cond
				// `other.Type() == K && c`: the type test is the dispatch, c the condition
				if be, ok := cond.(*ast.BinaryExpr); ok && be.Op == token.LAND {
					if strings.Contains(strings.ReplaceAll(c05_nodeText(fset, be.X), " ", ""), ".Type()==") {
						cond = be.Y
					}
				}
				return fmt.Sprintf("/-- translated from `(*%s).Equals`, operand `*%s`: the condition under which it returns True (else False) -/\ndef %s (conv : Int → F) (x : %s) (y : %s) : Bool :=\n  %s\n", recv, arm, name, xt, yt, t.expr(cond)), true
			}
		}
	}
	panic(fmt.Sprintf("C15: (*%s).Equals arm *%s has left the translatable shape `if c { return True } … return False`: %s", recv, arm, c15StmtsText(fset, ss)))
}

func c15Gen(repo string) string {
	im := c05_newRepoImporter(repo)
	path := c05_risorModule + "/object"
	pkg, err := im.Import(path)
	if err != nil || pkg == nil {
		panic(fmt.Sprintf("package object does not type-check: %v", err))
	}
	info := im.infos[path]
	fset := im.fset
	iface := func(name string) *types.Interface {
		tn, _ := pkg.Scope().Lookup(name).(*types.TypeName)
		if tn == nil {
			panic("object." + name + " not found")
		}
		i, ok := tn.Type().Underlying().(*types.Interface)
		if !ok {
			panic("object." + name + " is not an interface")
		}
		return i
	}
	objI, cmpI, hashI := iface("Object"), iface("Comparable"), iface("Hashable")

	// Type() constants: K -> type whose Type() returns K
	constTy := map[string]string{}
	methods := map[string]map[string]*ast.FuncDecl{}
	for _, f := range im.files[path] {
		for _, d := range f.Decls {
			fd, ok := d.(*ast.FuncDecl)
			if !ok || fd.Body == nil || fd.Recv == nil {
				continue
			}
			r := c05_recvName(fd)
			if methods[r] == nil {
				methods[r] = map[string]*ast.FuncDecl{}
			}
			methods[r][fd.Name.Name] = fd
			if fd.Name.Name == "Type" && len(fd.Body.List) == 1 {
				if ret, ok := fd.Body.List[0].(*ast.ReturnStmt); ok && len(ret.Results) == 1 {
					if id, ok := ret.Results[0].(*ast.Ident); ok {
						constTy[id.Name] = r
					}
				}
			}
		}
	}

	var names []string
	for _, n := range pkg.Scope().Names() {
		tn, ok := pkg.Scope().Lookup(n).(*types.TypeName)
		if !ok || tn.IsAlias() {
			continue
		}
		if _, isI := tn.Type().Underlying().(*types.Interface); isI {
			continue
		}
		if types.Implements(types.NewPointer(tn.Type()), objI) {
			names = append(names, n)
		}
	}
	sort.Strings(names)
	if len(names) < 20 {
		panic(fmt.Sprintf("only %d object types found", len(names)))
	}

	var sb strings.Builder
	sb.WriteString("import RisorModel.C15.Dispatch\nset_option linter.unusedVariables false\nnamespace Risor.Generated.C15\nopen Risor.C15\n\n")
	sb.WriteString("/-- every named type of package object whose pointer implements object.Object: (type, implements Comparable, implements Hashable, declares Equals) -/\n")
	sb.WriteString("def objectTypes : List (String × Bool × Bool × Bool) := [\n")
	for i, n := range names {
		tn := pkg.Scope().Lookup(n).(*types.TypeName)
		pt := types.NewPointer(tn.Type())
		_, hasEq := methods[n]["Equals"]
		sep := ","
		if i == len(names)-1 {
			sep = ""
		}
		fmt.Fprintf(&sb, "  (%s, %v, %v, %v)%s\n", leanStr(n), types.Implements(pt, cmpI), types.Implements(pt, hashI), hasEq, sep)
	}
	sb.WriteString("]\n\n")

	strList := func(xs []string) string {
		q := make([]string, len(xs))
		for i, x := range xs {
			q[i] = leanStr(x)
		}
		return "[" + strings.Join(q, ", ") + "]"
	}
	var translated []string
	for _, method := range []string{"Compare", "Equals"} {
		var disp, shapes []string
		for _, n := range names {
			fd := methods[n][method]
			if fd == nil {
				continue
			}
			m := c15Analyse(fset, fd, constTy)
			disp = append(disp, fmt.Sprintf("  (%s, %s, %s)", leanStr(n), strList(m.arms), leanStr(m.dflt)))
			if m.shapeAll != "" {
				shapes = append(shapes, fmt.Sprintf("  (%s, %s, %s)", leanStr(n), leanStr("*"), leanStr(m.shapeAll)))
			}
			for _, a := range m.arms {
				rn := c15Renamer{recv: c15RecvVar(fd), y: m.yname[a], param: fd.Type.Params.List[0].Names[0].Name}
				ss := m.bodies[a]
				if _, ok := c15LeanTy[n]; ok {
					if _, ok := c15LeanTy[a]; ok {
						c15TypeConvs(info, ss) // needs the original nodes (go/types keys)
					}
				}
				ss = c15DropErrText(rn.stmts(ss))
				shapes = append(shapes, fmt.Sprintf("  (%s, %s, %s)", leanStr(n), leanStr(a), leanStr(c15StmtsText(fset, ss))))
				if txt, ok := c15Translate(fset, n, a, method, ss); ok {
					translated = append(translated, txt)
				}
			}
		}
		lower := strings.ToLower(method)
		fmt.Fprintf(&sb, "/-- every `%s` method of package object: (receiver type, operand types it accepts in source order, what any other operand gets) -/\n", method)
		fmt.Fprintf(&sb, "def %sDispatch : List (String × List String × String) := [\n%s\n]\n\n", lower, strings.Join(disp, ",\n"))
		fmt.Fprintf(&sb, "/-- per accepted operand type the normalised statements of the arm (receiver value `x`, operand value `y`, receiver/operand objects `X`/`Y`) -/\n")
		fmt.Fprintf(&sb, "def %sShapes : List (String × String × String) := [\n%s\n]\n\n", lower, strings.Join(shapes, ",\n"))
	}

	// HashKey methods
	var hk []string
	for _, n := range names {
		fd := methods[n]["HashKey"]
		if fd == nil {
			continue
		}
		rn := c15Renamer{recv: c15RecvVar(fd), y: "\x00", param: "\x00"}
		var lit *ast.CompositeLit
		nlit := 0
		ast.Inspect(fd.Body, func(nd ast.Node) bool {
			if cl, ok := nd.(*ast.CompositeLit); ok {
				if id, ok := cl.Type.(*ast.Ident); ok && id.Name == "HashKey" {
					lit = cl
					nlit++
				}
			}
			return true
		})
		if nlit != 1 {
			panic(fmt.Sprintf("(*%s).HashKey builds %d HashKey literals", n, nlit))
		}
		// local variables assigned before (Bool: value := 1 / 0) are summarised by the text of the statements before the return
		pre := ""
		if len(fd.Body.List) > 1 {
			pre = c15StmtsText(fset, rn.stmts(fd.Body.List[:len(fd.Body.List)-1]))
		}
		var fields []string
		for _, el := range lit.Elts {
			kv, ok := el.(*ast.KeyValueExpr)
			if !ok {
				panic(fmt.Sprintf("(*%s).HashKey: positional HashKey literal", n))
			}
			k := c05_nodeText(fset, kv.Key)
			v := c15Norm(c05_nodeText(fset, rn.rw(kv.Value)))
			if k == "Type" {
				if v != "X.Type()" {
					panic(fmt.Sprintf("(*%s).HashKey: Type field is %s", n, v))
				}
				continue
			}
			if pre != "" {
				v = pre + " ; " + v
			}
			fields = append(fields, fmt.Sprintf("(%s, %s)", leanStr(k), leanStr(v)))
		}
		hk = append(hk, fmt.Sprintf("  (%s, [%s])", leanStr(n), strings.Join(fields, ", ")))
	}
	sb.WriteString("/-- every `HashKey` method: (receiver type, fields of the `HashKey{Type: X.Type(), …}` literal besides Type with the value stored) -/\n")
	fmt.Fprintf(&sb, "def hashFields : List (String × List (String × String)) := [\n%s\n]\n\n", strings.Join(hk, ",\n"))

	sb.WriteString("/-! ### the numeric and bool arms translated (extract/translate.go) -/\n\n")
	sb.WriteString(strings.Join(translated, "\n"))
	sb.WriteString("\nend Risor.Generated.C15\n")
	return sb.String()
}
