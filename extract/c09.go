package main

// E8 (property C09): inventory of package-level state that is mutable in effect, of the
// functions that read/write it, and of the mutexes syntactically held there.
//
// Type-checked with go/types.  Packages below github.com/risor-io/risor are loaded from the
// repository's working tree by a small types.Importer of our own (the stock importers cannot
// resolve module paths offline); the standard library comes from the "source" importer with
// cgo switched off.  Type errors are tolerated (partial information is enough for the tables);
// a package in scope that cannot be parsed at all makes the generator fail loudly.
//
// Output (lean/RisorModel/Generated/C09.lean):
//   vars        package-level variables mutable in effect (kind: state | lock): assigned outside
//               init; map/slice/pointer/chan; non-error interface values; structs/arrays stored in
//               the variable that carry references or are sync types (sync.Pool, sync.Map,
//               bytes.Buffer, ...); anything whose storage is written in place, sliced, has its
//               address taken or a pointer-receiver method called on it
//   sites       per (function, variable-or-field): read/write, interprocedural must-hold
//               lockset, phase (init = only during package initialisation)
//   codeCalls   methods of compiler.Code / compiler.Function called from vm and object
//   codeMut     methods of compiler.Code / compiler.Function that assign to the receiver
//   codeLeak    ... that return an internal slice/map field directly
//   vmCodeFieldWrites  assignments in package vm to Instructions/Constants/Names of vm.code
//                      outside wrapCode
//   hostOnly    for every function with an unlocked write: top-level directories of the
//               repository that mention it (none besides cmd/… means host-configuration API)

import (
	"fmt"
	"go/ast"
	"go/build"
	"go/importer"
	"go/parser"
	"go/token"
	"go/types"
	"os"
	"path/filepath"
	"sort"
	"strings"
)

const c09Mod = "github.com/risor-io/risor"

var c09Scope = []string{"object", "builtins", "importer", "compiler", "vm", "errz", "os", "op"}

type c09Pkg struct {
	path  string
	pkg   *types.Package
	info  *types.Info
	files []*ast.File
}

type c09Loader struct {
	repo string
	fset *token.FileSet
	pkgs map[string]*c09Pkg
	std  types.Importer
	busy map[string]bool
}

func (l *c09Loader) Import(path string) (*types.Package, error) {
	if path == c09Mod || strings.HasPrefix(path, c09Mod+"/") {
		p, err := l.load(path)
		if err != nil {
			return nil, err
		}
		return p.pkg, nil
	}
	if path == "unsafe" {
		return types.Unsafe, nil
	}
	p, err := l.std.Import(path)
	if err != nil || p == nil {
		// unknown (third-party) package: an empty placeholder keeps type-checking going
		name := path[strings.LastIndex(path, "/")+1:]
		fp := types.NewPackage(path, name)
		fp.MarkComplete()
		return fp, nil
	}
	return p, nil
}

func (l *c09Loader) load(path string) (*c09Pkg, error) {
	if p, ok := l.pkgs[path]; ok {
		return p, nil
	}
	if l.busy[path] {
		return nil, fmt.Errorf("import cycle through %s", path)
	}
	l.busy[path] = true
	defer delete(l.busy, path)
	dir := filepath.Join(l.repo, strings.TrimPrefix(strings.TrimPrefix(path, c09Mod), "/"))
	ents, err := os.ReadDir(dir)
	if err != nil {
		return nil, err
	}
	ctx := build.Default
	ctx.CgoEnabled = false
	var files []*ast.File
	for _, e := range ents {
		n := e.Name()
		if e.IsDir() || !strings.HasSuffix(n, ".go") || strings.HasSuffix(n, "_test.go") {
			continue
		}
		if ok, _ := ctx.MatchFile(dir, n); !ok {
			continue
		}
		f, err := parser.ParseFile(l.fset, filepath.Join(dir, n), nil, parser.SkipObjectResolution)
		if err != nil {
			return nil, err
		}
		files = append(files, f)
	}
	if len(files) == 0 {
		return nil, fmt.Errorf("no Go files in %s", dir)
	}
	info := &types.Info{Types: map[ast.Expr]types.TypeAndValue{}, Defs: map[*ast.Ident]types.Object{}, Uses: map[*ast.Ident]types.Object{}, Selections: map[*ast.SelectorExpr]*types.Selection{}}
	conf := types.Config{Importer: l, Error: func(error) {}, FakeImportC: true}
	pkg, _ := conf.Check(path, l.fset, files, info)
	if pkg == nil {
		return nil, fmt.Errorf("cannot type-check %s", path)
	}
	p := &c09Pkg{path: path, pkg: pkg, info: info, files: files}
	l.pkgs[path] = p
	return p, nil
}

// ---------------------------------------------------------------------------------------

type c09Site struct {
	fn    string // pkg.Func or pkg.(T).Method
	loc   string // pkg.var or pkg.Type.field
	write bool
	held  map[string]bool // locks syntactically held at the access inside fn ("name" or "name/R")
}

type c09Edge struct {
	caller, callee string
	held           map[string]bool
}

type c09Fn struct {
	name     string
	exported bool
	isInit   bool
	valueRef bool // referenced as a value somewhere (may be called from anywhere)
}

func c09ShortPkg(p *types.Package) string {
	if p == nil {
		return "?"
	}
	return strings.TrimPrefix(strings.TrimPrefix(p.Path(), c09Mod), "/")
}

func c09FuncName(f *types.Func) string {
	sig, _ := f.Type().(*types.Signature)
	if sig != nil && sig.Recv() != nil {
		t := sig.Recv().Type()
		if p, ok := t.(*types.Pointer); ok {
			t = p.Elem()
		}
		if n, ok := t.(*types.Named); ok {
			return c09ShortPkg(f.Pkg()) + "." + n.Obj().Name() + "." + f.Name()
		}
	}
	return c09ShortPkg(f.Pkg()) + "." + f.Name()
}

func c09IsMutex(t types.Type) bool {
	if p, ok := t.(*types.Pointer); ok {
		t = p.Elem()
	}
	n, ok := t.(*types.Named)
	if !ok || n.Obj().Pkg() == nil || n.Obj().Pkg().Path() != "sync" {
		return false
	}
	return n.Obj().Name() == "Mutex" || n.Obj().Name() == "RWMutex"
}

func c09NamedStruct(t types.Type) *types.Named {
	for {
		switch x := t.(type) {
		case *types.Pointer:
			t = x.Elem()
			continue
		case *types.Named:
			if _, ok := x.Underlying().(*types.Struct); ok {
				return x
			}
			return nil
		}
		return nil
	}
}

// c09IsSyncType: a type of package sync or sync/atomic other than the two mutexes (Pool, Map,
// Once, WaitGroup, Cond, atomic.Value, ...): internally synchronised shared state.
func c09IsSyncType(t types.Type) bool {
	if p, ok := t.(*types.Pointer); ok {
		t = p.Elem()
	}
	n, ok := t.(*types.Named)
	if !ok || n.Obj().Pkg() == nil {
		return false
	}
	pp := n.Obj().Pkg().Path()
	return (pp == "sync" || pp == "sync/atomic") && !c09IsMutex(t)
}

// c09HoldsRefs: a value of this type (a struct or array stored IN the variable, not behind a
// pointer) carries references to heap state or a function/interface value: sync.Pool,
// sync.Map, bytes.Buffer, a struct with a slice/map field ...  Calling a method on such a
// package-level variable, or handing out a part of it, shares that state between evaluations.
func c09HoldsRefs(t types.Type, depth int) bool {
	if depth > 6 {
		return true
	}
	switch x := t.Underlying().(type) {
	case *types.Map, *types.Slice, *types.Pointer, *types.Chan, *types.Signature, *types.Interface:
		return true
	case *types.Basic:
		return x.Kind() == types.UnsafePointer
	case *types.Struct:
		for i := 0; i < x.NumFields(); i++ {
			if c09HoldsRefs(x.Field(i).Type(), depth+1) {
				return true
			}
		}
	case *types.Array:
		return c09HoldsRefs(x.Elem(), depth+1)
	}
	return false
}

func c09IsErrorType(t types.Type) bool {
	return types.Identical(t, types.Universe.Lookup("error").Type())
}

// c09RootIdent: the identifier at the root of a chain of field selections / index expressions
// that stays inside the variable's own storage (x, x.f, x[i], x.f[i].g, (x)).
func c09RootIdent(info *types.Info, e ast.Expr) *ast.Ident {
	for {
		switch x := e.(type) {
		case *ast.Ident:
			return x
		case *ast.ParenExpr:
			e = x.X
		case *ast.SelectorExpr:
			if sel := info.Selections[x]; sel != nil && sel.Kind() == types.FieldVal && !sel.Indirect() {
				e = x.X
				continue
			}
			return nil
		case *ast.IndexExpr:
			tv, ok := info.Types[x.X]
			if !ok {
				return nil
			}
			if _, isArr := tv.Type.Underlying().(*types.Array); !isArr {
				return nil
			}
			e = x.X
		default:
			return nil
		}
	}
}

func c09Generate(repo string) string {
	ctx := build.Default
	ctx.CgoEnabled = false
	build.Default.CgoEnabled = false
	fset := token.NewFileSet()
	l := &c09Loader{repo: repo, fset: fset, pkgs: map[string]*c09Pkg{}, busy: map[string]bool{}}
	l.std = importer.ForCompiler(fset, "source", nil)
	var scope []*c09Pkg
	for _, s := range c09Scope {
		p, err := l.load(c09Mod + "/" + s)
		if err != nil {
			panic(fmt.Sprintf("C09: package %s: %v", s, err))
		}
		scope = append(scope, p)
	}
	inScope := map[*types.Package]bool{}
	for _, p := range scope {
		inScope[p.pkg] = true
	}

	// 1. package-level variables, mutable in effect
	type varInfo struct {
		obj  *types.Var
		name string
		kind string // state | lock
		typ  string
	}
	allVars := map[*types.Var]*varInfo{}
	assignedOutside := map[*types.Var]bool{}
	mutatedInPlace := map[*types.Var]bool{} // field/element written, address taken, or pointer-receiver method called
	ptrMethodRecv := map[ast.Expr]bool{}    // receiver expressions of such method calls
	for _, p := range scope {
		sc := p.pkg.Scope()
		for _, n := range sc.Names() {
			v, ok := sc.Lookup(n).(*types.Var)
			if !ok {
				continue
			}
			allVars[v] = &varInfo{obj: v, name: c09ShortPkg(p.pkg) + "." + n, typ: types.TypeString(v.Type(), func(q *types.Package) string { return q.Name() })}
		}
	}
	// assignments outside declaration and init
	for _, p := range scope {
		for _, f := range p.files {
			for _, d := range f.Decls {
				fd, ok := d.(*ast.FuncDecl)
				if !ok || fd.Body == nil || (fd.Recv == nil && fd.Name.Name == "init") {
					continue
				}
				pkgVarAt := func(e ast.Expr) *types.Var {
					if id := c09RootIdent(p.info, e); id != nil {
						if v, ok := p.info.Uses[id].(*types.Var); ok && allVars[v] != nil {
							return v
						}
					}
					return nil
				}
				ast.Inspect(fd.Body, func(n ast.Node) bool {
					switch s := n.(type) {
					case *ast.AssignStmt:
						for _, lhs := range s.Lhs {
							if id, ok := lhs.(*ast.Ident); ok {
								if v, ok := p.info.Uses[id].(*types.Var); ok && allVars[v] != nil {
									assignedOutside[v] = true
								}
							} else if v := pkgVarAt(lhs); v != nil {
								mutatedInPlace[v] = true // v.f = …, v[i] = …
							}
						}
					case *ast.IncDecStmt:
						if id, ok := s.X.(*ast.Ident); ok {
							if v, ok := p.info.Uses[id].(*types.Var); ok && allVars[v] != nil {
								assignedOutside[v] = true
							}
						} else if v := pkgVarAt(s.X); v != nil {
							mutatedInPlace[v] = true
						}
					case *ast.UnaryExpr:
						if s.Op == token.AND { // &v, &v.f: the variable's storage escapes
							if v := pkgVarAt(s.X); v != nil {
								mutatedInPlace[v] = true
							}
						}
					case *ast.SliceExpr:
						// v[:] of an array stored in the variable: the slice aliases the variable's storage
						if tv, ok := p.info.Types[s.X]; ok {
							if _, isArr := tv.Type.Underlying().(*types.Array); isArr {
								if v := pkgVarAt(s.X); v != nil {
									mutatedInPlace[v] = true
								}
							}
						}
					case *ast.SelectorExpr:
						// v.M() with a pointer receiver on a non-pointer variable: implicit &v
						if sel := p.info.Selections[s]; sel != nil && sel.Kind() == types.MethodVal {
							if fo, ok := sel.Obj().(*types.Func); ok {
								if sig, ok := fo.Type().(*types.Signature); ok && sig.Recv() != nil {
									if _, ptr := sig.Recv().Type().(*types.Pointer); ptr {
										if v := pkgVarAt(s.X); v != nil {
											if _, isPtr := v.Type().Underlying().(*types.Pointer); !isPtr {
												mutatedInPlace[v] = true
												ptrMethodRecv[s.X] = true
											}
										}
									}
									// a method of an interface-typed package-level variable (a shared hasher,
									// encoder, rand source ...): the object behind it is shared and may be stateful
									if _, isIface := sig.Recv().Type().Underlying().(*types.Interface); isIface {
										if id, ok := s.X.(*ast.Ident); ok {
											if v, ok := p.info.Uses[id].(*types.Var); ok && allVars[v] != nil {
												if _, vi := v.Type().Underlying().(*types.Interface); vi && !c09IsErrorType(v.Type()) {
													mutatedInPlace[v] = true
												}
											}
										}
									}
								}
							}
						}
					}
					return true
				})
			}
		}
	}
	vars := map[*types.Var]*varInfo{}
	for v, vi := range allVars {
		if c09IsMutex(v.Type()) {
			vi.kind = "lock"
			vars[v] = vi
			continue
		}
		mutable := assignedOutside[v] || mutatedInPlace[v]
		switch v.Type().Underlying().(type) {
		case *types.Map, *types.Slice, *types.Pointer, *types.Chan:
			mutable = true
		case *types.Interface:
			// a shared object behind an interface (hasher, encoder, random source ...); error
			// values are immutable by convention
			if !c09IsErrorType(v.Type()) {
				mutable = true
			}
		case *types.Struct, *types.Array:
			// a container stored in the variable itself (sync.Pool, sync.Map, bytes.Buffer, a
			// struct with slice/map fields): shared state even though the variable is never assigned
			if c09IsSyncType(v.Type()) || c09HoldsRefs(v.Type(), 0) {
				mutable = true
			}
		}
		if mutable {
			vi.kind = "state"
			vars[v] = vi
		}
	}
	// struct types directly stored in package-level state (shared heap objects)
	sharedTypes := map[*types.Named]bool{}
	for v, vi := range vars {
		if vi.kind != "state" {
			continue
		}
		var elems []types.Type
		switch t := v.Type().Underlying().(type) {
		case *types.Map:
			elems = []types.Type{t.Key(), t.Elem()}
		case *types.Slice:
			elems = []types.Type{t.Elem()}
		case *types.Pointer:
			elems = []types.Type{t.Elem()}
		}
		for _, e := range elems {
			if n := c09NamedStruct(e); n != nil && n.Obj().Pkg() != nil && inScope[n.Obj().Pkg()] {
				sharedTypes[n] = true
			}
		}
	}

	// struct types that carry their own mutex: their map-typed fields are shared per object
	guardedTypes := map[*types.Named]bool{}
	for _, p := range scope {
		sc := p.pkg.Scope()
		for _, n := range sc.Names() {
			tn, ok := sc.Lookup(n).(*types.TypeName)
			if !ok {
				continue
			}
			named, ok := tn.Type().(*types.Named)
			if !ok {
				continue
			}
			st, ok := named.Underlying().(*types.Struct)
			if !ok {
				continue
			}
			for i := 0; i < st.NumFields(); i++ {
				if c09IsMutex(st.Field(i).Type()) {
					guardedTypes[named] = true
				}
			}
		}
	}

	// 2. walk every function
	fns := map[string]*c09Fn{}
	var sites []c09Site
	var fieldSites []c09Site // candidate field accesses on shared types
	fieldWrittenOutsideCtor := map[string]bool{}
	var edges []c09Edge
	codeCalls := map[string]bool{}
	codeMut := map[string]bool{}
	codeLeak := map[string]bool{}
	var vmCodeFieldWrites []string

	isCodeType := func(t types.Type) (string, bool) {
		n := c09NamedStruct(t)
		if n == nil || n.Obj().Pkg() == nil || n.Obj().Pkg().Path() != c09Mod+"/compiler" {
			return "", false
		}
		if n.Obj().Name() == "Code" || n.Obj().Name() == "Function" {
			return n.Obj().Name(), true
		}
		return "", false
	}

	lockName := func(p *c09Pkg, e ast.Expr) string {
		switch x := e.(type) {
		case *ast.Ident:
			if v, ok := p.info.Uses[x].(*types.Var); ok {
				if vi := vars[v]; vi != nil {
					return vi.name
				}
			}
		case *ast.SelectorExpr:
			if sel := p.info.Selections[x]; sel != nil {
				if n := c09NamedStruct(sel.Recv()); n != nil {
					return c09ShortPkg(n.Obj().Pkg()) + "." + n.Obj().Name() + "." + x.Sel.Name
				}
			}
			if id, ok := x.X.(*ast.Ident); ok { // pkg.var
				if v, ok := p.info.Uses[x.Sel].(*types.Var); ok {
					if vi := vars[v]; vi != nil {
						_ = id
						return vi.name
					}
				}
			}
		}
		return ""
	}

	for _, p := range scope {
		for _, f := range p.files {
			// package-level initialisers: phase init
			for _, d := range f.Decls {
				gd, ok := d.(*ast.GenDecl)
				if !ok || gd.Tok != token.VAR {
					continue
				}
				for _, sp := range gd.Specs {
					vs := sp.(*ast.ValueSpec)
					for _, id := range vs.Names {
						if v, ok := p.info.Defs[id].(*types.Var); ok && vars[v] != nil && vars[v].kind == "state" {
							sites = append(sites, c09Site{fn: c09ShortPkg(p.pkg) + ".<pkg-init>", loc: vars[v].name, write: true, held: map[string]bool{}})
						}
					}
					for _, val := range vs.Values {
						ast.Inspect(val, func(n ast.Node) bool {
							if id, ok := n.(*ast.Ident); ok {
								if v, ok := p.info.Uses[id].(*types.Var); ok && vars[v] != nil && vars[v].kind == "state" {
									sites = append(sites, c09Site{fn: c09ShortPkg(p.pkg) + ".<pkg-init>", loc: vars[v].name, write: false, held: map[string]bool{}})
								}
								if fo, ok := p.info.Uses[id].(*types.Func); ok && fo.Pkg() != nil && inScope[fo.Pkg()] {
									nm := c09FuncName(fo)
									edges = append(edges, c09Edge{caller: c09ShortPkg(p.pkg) + ".<pkg-init>", callee: nm, held: map[string]bool{}})
								}
							}
							return true
						})
					}
				}
			}
			for _, d := range f.Decls {
				fd, ok := d.(*ast.FuncDecl)
				if !ok || fd.Body == nil {
					continue
				}
				fobj, _ := p.info.Defs[fd.Name].(*types.Func)
				if fobj == nil {
					continue
				}
				name := c09FuncName(fobj)
				isInit := fd.Recv == nil && fd.Name.Name == "init"
				if isInit {
					name = c09ShortPkg(p.pkg) + ".init"
				}
				fn := fns[name]
				if fn == nil {
					fn = &c09Fn{name: name}
					fns[name] = fn
				}
				fn.isInit = isInit
				fn.exported = !isInit && fd.Name.IsExported()
				if fd.Recv != nil { // methods may be reached through interfaces
					fn.exported = fn.exported || true
					if !fd.Name.IsExported() {
						fn.exported = false
					}
				}

				// receiver / parameters / locals made by composite literal (constructor detection)
				fresh := map[types.Object]bool{}
				ast.Inspect(fd.Body, func(n ast.Node) bool {
					if ds, ok := n.(*ast.DeclStmt); ok {
						if gd, ok := ds.Decl.(*ast.GenDecl); ok && gd.Tok == token.VAR {
							for _, sp := range gd.Specs {
								if vs, ok := sp.(*ast.ValueSpec); ok && len(vs.Values) == 0 {
									for _, id := range vs.Names {
										if o := p.info.Defs[id]; o != nil {
											if _, isPtr := o.Type().(*types.Pointer); !isPtr {
												fresh[o] = true
											}
										}
									}
								}
							}
						}
						return true
					}
					as, ok := n.(*ast.AssignStmt)
					if !ok || as.Tok != token.DEFINE || len(as.Lhs) != len(as.Rhs) {
						return true
					}
					for i, lhs := range as.Lhs {
						id, ok := lhs.(*ast.Ident)
						if !ok {
							continue
						}
						rhs := as.Rhs[i]
						if u, ok := rhs.(*ast.UnaryExpr); ok && u.Op == token.AND {
							rhs = u.X
						}
						if _, ok := rhs.(*ast.CompositeLit); ok {
							if o := p.info.Defs[id]; o != nil {
								fresh[o] = true
							}
						}
					}
					return true
				})

				// lock regions
				type region struct {
					lock     string
					from, to token.Pos
				}
				var regions []region
				var lockCalls []struct {
					name string
					pos  token.Pos
					kind string // Lock RLock Unlock RUnlock
					def  bool
				}
				var inspectLocks func(n ast.Node, deferred bool)
				inspectLocks = func(n ast.Node, deferred bool) {
					ast.Inspect(n, func(m ast.Node) bool {
						if ds, ok := m.(*ast.DeferStmt); ok {
							inspectLocks(ds.Call, true)
							return false
						}
						ce, ok := m.(*ast.CallExpr)
						if !ok {
							return true
						}
						se, ok := ce.Fun.(*ast.SelectorExpr)
						if !ok {
							return true
						}
						switch se.Sel.Name {
						case "Lock", "RLock", "Unlock", "RUnlock":
						default:
							return true
						}
						tv, ok := p.info.Types[se.X]
						if !ok || !c09IsMutex(tv.Type) {
							return true
						}
						ln := lockName(p, se.X)
						if ln == "" {
							ln = "?" + types.ExprString(se.X)
						}
						lockCalls = append(lockCalls, struct {
							name string
							pos  token.Pos
							kind string
							def  bool
						}{ln, ce.Pos(), se.Sel.Name, deferred})
						return true
					})
				}
				inspectLocks(fd.Body, false)
				for i, lc := range lockCalls {
					if lc.kind != "Lock" && lc.kind != "RLock" {
						continue
					}
					nm := lc.name
					un := "Unlock"
					if lc.kind == "RLock" {
						nm += "/R"
						un = "RUnlock"
					}
					to := fd.Body.End()
					for _, u := range lockCalls[i+1:] {
						if u.name == lc.name && u.kind == un {
							if !u.def {
								to = u.pos
							}
							break
						}
					}
					regions = append(regions, region{nm, lc.pos, to})
				}
				heldAt := func(pos token.Pos) map[string]bool {
					h := map[string]bool{}
					for _, r := range regions {
						if r.from < pos && pos < r.to {
							h[r.lock] = true
						}
					}
					return h
				}

				// classify writes: collect expressions in write position
				writePos := map[ast.Expr]bool{}
				var markWrite func(e ast.Expr)
				markWrite = func(e ast.Expr) {
					switch x := e.(type) {
					case *ast.Ident:
						writePos[x] = true
					case *ast.SelectorExpr:
						writePos[x] = true
						writePos[x.Sel] = true
					case *ast.IndexExpr:
						markWrite(x.X) // m[k] = v writes the map/slice m
					case *ast.ParenExpr:
						markWrite(x.X)
					case *ast.StarExpr:
						markWrite(x.X)
					}
				}
				markRoot := func(e ast.Expr) {
					if _, plain := e.(*ast.Ident); plain {
						return
					}
					if id := c09RootIdent(p.info, e); id != nil {
						writePos[id] = true // a part of the variable's own storage is written / escapes
					}
				}
				ast.Inspect(fd.Body, func(n ast.Node) bool {
					switch s := n.(type) {
					case *ast.AssignStmt:
						for _, lhs := range s.Lhs {
							markWrite(lhs)
							markRoot(lhs)
						}
					case *ast.IncDecStmt:
						markWrite(s.X)
						markRoot(s.X)
					case *ast.UnaryExpr:
						if s.Op == token.AND {
							if id := c09RootIdent(p.info, s.X); id != nil {
								if v, ok := p.info.Uses[id].(*types.Var); ok && vars[v] != nil {
									if _, isPtr := v.Type().Underlying().(*types.Pointer); !isPtr {
										writePos[id] = true
									}
								}
							}
						}
					case *ast.SliceExpr:
						if tv, ok := p.info.Types[s.X]; ok {
							if _, isArr := tv.Type.Underlying().(*types.Array); isArr {
								if id := c09RootIdent(p.info, s.X); id != nil {
									writePos[id] = true
								}
							}
						}
					case *ast.SelectorExpr:
						// method of an interface-typed package-level variable: may modify the shared object
						if sel := p.info.Selections[s]; sel != nil && sel.Kind() == types.MethodVal {
							if id, ok := s.X.(*ast.Ident); ok {
								if v, ok := p.info.Uses[id].(*types.Var); ok && vars[v] != nil {
									if _, vi := v.Type().Underlying().(*types.Interface); vi {
										writePos[id] = true
									}
								}
							}
						}
						// pointer-receiver method on a package-level container: the callee may modify it
						// (types of package sync / sync/atomic synchronise internally: recorded as reads)
						if ptrMethodRecv[s.X] {
							if id := c09RootIdent(p.info, s.X); id != nil {
								if v, ok := p.info.Uses[id].(*types.Var); ok && !c09IsSyncType(v.Type()) {
									writePos[id] = true
								}
							}
						}
					case *ast.CallExpr:
						if id, ok := s.Fun.(*ast.Ident); ok && (id.Name == "delete" || id.Name == "clear") && len(s.Args) > 0 {
							if _, isB := p.info.Uses[id].(*types.Builtin); isB {
								markWrite(s.Args[0])
							}
						}
					case *ast.RangeStmt:
						if s.Tok == token.ASSIGN {
							if s.Key != nil {
								markWrite(s.Key)
							}
							if s.Value != nil {
								markWrite(s.Value)
							}
						}
					}
					return true
				})

				calledFun := map[ast.Expr]bool{}
				ast.Inspect(fd.Body, func(n ast.Node) bool {
					switch x := n.(type) {
					case *ast.CallExpr:
						var fo *types.Func
						switch fe := x.Fun.(type) {
						case *ast.Ident:
							fo, _ = p.info.Uses[fe].(*types.Func)
							calledFun[fe] = true
						case *ast.SelectorExpr:
							fo, _ = p.info.Uses[fe.Sel].(*types.Func)
							calledFun[fe.Sel] = true
							if fo != nil {
								if sel := p.info.Selections[fe]; sel != nil {
									if tn, ok := isCodeType(sel.Recv()); ok && (c09ShortPkg(p.pkg) == "vm" || c09ShortPkg(p.pkg) == "object") {
										codeCalls[tn+"."+fo.Name()] = true
									}
								}
							}
						}
						if fo != nil && fo.Pkg() != nil && inScope[fo.Pkg()] {
							// interface methods have no body here: skip (their implementations are entries)
							if sig, ok := fo.Type().(*types.Signature); ok && sig.Recv() != nil {
								if _, isIface := sig.Recv().Type().Underlying().(*types.Interface); isIface {
									return true
								}
							}
							edges = append(edges, c09Edge{caller: name, callee: c09FuncName(fo), held: heldAt(x.Pos())})
						}
					case *ast.Ident:
						obj := p.info.Uses[x]
						if v, ok := obj.(*types.Var); ok {
							if vi := vars[v]; vi != nil && vi.kind == "state" {
								sites = append(sites, c09Site{fn: name, loc: vi.name, write: writePos[x], held: heldAt(x.Pos())})
							}
						}
						if fo, ok := obj.(*types.Func); ok && !calledFun[x] && fo.Pkg() != nil && inScope[fo.Pkg()] {
							nm := c09FuncName(fo)
							if fns[nm] == nil {
								fns[nm] = &c09Fn{name: nm}
							}
							fns[nm].valueRef = true
						}
					case *ast.SelectorExpr:
						sel := p.info.Selections[x]
						if sel == nil || sel.Kind() != types.FieldVal {
							return true
						}
						n := c09NamedStruct(sel.Recv())
						if n == nil {
							return true
						}
						// vm.code wrapper fields (the per-VM copy of compiled code)
						if n.Obj().Pkg() != nil && n.Obj().Pkg().Path() == c09Mod+"/vm" && n.Obj().Name() == "code" && writePos[x] {
							switch x.Sel.Name {
							case "Instructions", "Constants", "Names", "Code":
								base, _ := x.X.(*ast.Ident)
								if base == nil || !fresh[p.info.Uses[base]] {
									vmCodeFieldWrites = append(vmCodeFieldWrites, name+":"+x.Sel.Name)
								}
							}
						}
						// compiler.Code / Function receiver mutation
						if tn, ok := isCodeType(sel.Recv()); ok && writePos[x] && fd.Recv != nil {
							if base, ok := x.X.(*ast.Ident); ok {
								if len(fd.Recv.List) == 1 && len(fd.Recv.List[0].Names) == 1 && fd.Recv.List[0].Names[0].Name == base.Name {
									codeMut[tn+"."+fd.Name.Name] = true
								}
							}
						}
						if guardedTypes[n] {
							if _, isMap := sel.Type().Underlying().(*types.Map); isMap {
								base, _ := x.X.(*ast.Ident)
								if base == nil || !fresh[p.info.Uses[base]] {
									sites = append(sites, c09Site{fn: name, loc: c09ShortPkg(n.Obj().Pkg()) + "." + n.Obj().Name() + "." + x.Sel.Name, write: writePos[x], held: heldAt(x.Pos())})
								}
							}
							return true
						}
						if !sharedTypes[n] {
							return true
						}
						loc := c09ShortPkg(n.Obj().Pkg()) + "." + n.Obj().Name() + "." + x.Sel.Name
						w := writePos[x]
						fieldSites = append(fieldSites, c09Site{fn: name, loc: loc, write: w, held: heldAt(x.Pos())})
						if w {
							base, _ := x.X.(*ast.Ident)
							if base == nil || !fresh[p.info.Uses[base]] {
								fieldWrittenOutsideCtor[loc] = true
							}
						}
					case *ast.ReturnStmt:
						// methods of Code/Function returning an internal slice/map field directly
						if fd.Recv != nil && len(fd.Recv.List) == 1 {
							if rt, ok := p.info.Types[fd.Recv.List[0].Type]; ok {
								if tn, ok := isCodeType(rt.Type); ok {
									for _, r := range x.Results {
										if se, ok := r.(*ast.SelectorExpr); ok {
											if s2 := p.info.Selections[se]; s2 != nil && s2.Kind() == types.FieldVal {
												switch s2.Type().Underlying().(type) {
												case *types.Slice, *types.Map:
													codeLeak[tn+"."+fd.Name.Name] = true
												}
											}
										}
									}
								}
							}
						}
					}
					return true
				})
			}
		}
	}
	for _, s := range fieldSites {
		if fieldWrittenOutsideCtor[s.loc] {
			sites = append(sites, s)
		}
	}

	// 3. must-hold locksets, greatest fixpoint over the static call graph
	const top = "\x00TOP"
	must := map[string]map[string]bool{}
	for n := range fns {
		must[n] = map[string]bool{top: true}
	}
	must["<none>"] = map[string]bool{}
	incoming := map[string][]c09Edge{}
	for _, e := range edges {
		if fns[e.callee] != nil {
			incoming[e.callee] = append(incoming[e.callee], e)
		}
	}
	isEntry := func(f *c09Fn) bool {
		return f.exported || f.valueRef || f.isInit || len(incoming[f.name]) == 0
	}
	union := func(a, b map[string]bool) map[string]bool {
		if a[top] {
			return map[string]bool{top: true}
		}
		r := map[string]bool{}
		for k := range a {
			r[k] = true
		}
		for k := range b {
			r[k] = true
		}
		return r
	}
	inter := func(a, b map[string]bool) map[string]bool {
		if a[top] {
			return b
		}
		if b[top] {
			return a
		}
		r := map[string]bool{}
		for k := range a {
			if b[k] {
				r[k] = true
			}
		}
		return r
	}
	same := func(a, b map[string]bool) bool {
		if len(a) != len(b) {
			return false
		}
		for k := range a {
			if !b[k] {
				return false
			}
		}
		return true
	}
	names := make([]string, 0, len(fns))
	for n := range fns {
		names = append(names, n)
	}
	sort.Strings(names)
	for iter := 0; iter < 200; iter++ {
		changed := false
		for _, n := range names {
			f := fns[n]
			cur := map[string]bool{top: true}
			if isEntry(f) {
				cur = map[string]bool{}
			}
			for _, e := range incoming[n] {
				cm := must[e.caller]
				if cm == nil {
					cm = map[string]bool{}
				}
				cur = inter(cur, union(cm, e.held))
			}
			if !same(cur, must[n]) {
				must[n] = cur
				changed = true
			}
		}
		if !changed {
			break
		}
	}
	// phase: init when the function is init / <pkg-init>, or all its callers are init-phase and
	// it is not an entry otherwise
	initPhase := map[string]bool{}
	for _, n := range names {
		if fns[n].isInit {
			initPhase[n] = true
		}
	}
	for iter := 0; iter < 50; iter++ {
		changed := false
		for _, n := range names {
			f := fns[n]
			if initPhase[n] || f.exported || f.valueRef || len(incoming[n]) == 0 {
				continue
			}
			all := true
			for _, e := range incoming[n] {
				if !(initPhase[e.caller] || strings.HasSuffix(e.caller, ".<pkg-init>")) {
					all = false
				}
			}
			if all {
				initPhase[n] = true
				changed = true
			}
		}
		if !changed {
			break
		}
	}

	// 4. merge sites per (fn, loc, write) with the final lockset
	type key struct {
		fn, loc string
		write   bool
	}
	merged := map[key]map[string]bool{}
	for _, s := range sites {
		var ls map[string]bool
		if strings.HasSuffix(s.fn, ".<pkg-init>") {
			ls = map[string]bool{}
		} else {
			m := must[s.fn]
			if m == nil || m[top] {
				m = map[string]bool{}
			}
			ls = union(m, s.held)
		}
		k := key{s.fn, s.loc, s.write}
		if old, ok := merged[k]; ok {
			merged[k] = inter(old, ls)
		} else {
			merged[k] = ls
		}
	}
	var keys []key
	for k := range merged {
		keys = append(keys, k)
	}
	sort.Slice(keys, func(i, j int) bool {
		a, b := keys[i], keys[j]
		if a.loc != b.loc {
			return a.loc < b.loc
		}
		if a.fn != b.fn {
			return a.fn < b.fn
		}
		return !a.write && b.write
	})

	q := func(s string) string { return fmt.Sprintf("%q", s) }
	perObj := func(name string) bool { return strings.Count(strings.TrimSuffix(name, "/R"), ".") == 2 }
	qs := func(m map[string]bool) string {
		var xs []string
		for k := range m {
			xs = append(xs, k)
		}
		sort.Strings(xs)
		for i := range xs {
			nm := strings.TrimSuffix(xs[i], "/R")
			xs[i] = fmt.Sprintf("(%s, %v, %v)", q(nm), !strings.HasSuffix(xs[i], "/R"), perObj(nm))
		}
		return "[" + strings.Join(xs, ", ") + "]"
	}
	// locations never written outside package initialisation: their readers are summarised
	writtenLater := map[string]bool{}
	for _, k := range keys {
		if k.write && !(initPhase[k.fn] || strings.HasSuffix(k.fn, ".<pkg-init>")) {
			writtenLater[k.loc] = true
		}
	}
	{
		var kept []key
		seen := map[string]bool{}
		for _, k := range keys {
			if !writtenLater[k.loc] && !k.write {
				if !seen[k.loc] {
					seen[k.loc] = true
					kk := key{"<readers>", k.loc, false}
					merged[kk] = map[string]bool{}
					kept = append(kept, kk)
				}
				continue
			}
			kept = append(kept, k)
		}
		keys = kept
	}

	var b strings.Builder
	b.WriteString("namespace Risor.Generated.C09\n\n")
	b.WriteString("/-- package-level variables that are mutable in effect: (name, kind, Go type) -/\n")
	b.WriteString("def vars : List (String × String × String) := [\n")
	var vlist []*varInfo
	for _, vi := range vars {
		vlist = append(vlist, vi)
	}
	sort.Slice(vlist, func(i, j int) bool { return vlist[i].name < vlist[j].name })
	for i, vi := range vlist {
		sep := ","
		if i == len(vlist)-1 {
			sep = ""
		}
		fmt.Fprintf(&b, "  (%s, %s, %s)%s\n", q(vi.name), q(vi.kind), q(vi.typ), sep)
	}
	b.WriteString("]\n\n")
	b.WriteString("/-- access sites: (location, perObject, function, isWrite, must-hold locks (name, exclusive, perObject), initPhase);\n    readers of locations that are never written after initialisation are summarised as `<readers>` -/\n")
	b.WriteString("def sites : List (String × Bool × String × Bool × List (String × Bool × Bool) × Bool) := [\n")
	for i, k := range keys {
		sep := ","
		if i == len(keys)-1 {
			sep = ""
		}
		ph := initPhase[k.fn] || strings.HasSuffix(k.fn, ".<pkg-init>")
		fmt.Fprintf(&b, "  (%s, %v, %s, %v, %s, %v)%s\n", q(k.loc), perObj(k.loc), q(k.fn), k.write, qs(merged[k]), ph, sep)
	}
	b.WriteString("]\n\n")
	list := func(name, doc string, m map[string]bool) {
		var xs []string
		for k := range m {
			xs = append(xs, q(k))
		}
		sort.Strings(xs)
		fmt.Fprintf(&b, "/-- %s -/\ndef %s : List String := [%s]\n\n", doc, name, strings.Join(xs, ", "))
	}
	list("codeCalls", "methods of compiler.Code / compiler.Function called from packages vm and object", codeCalls)
	list("codeMut", "methods of compiler.Code / compiler.Function that assign to a field of their receiver", codeMut)
	list("codeLeak", "methods of compiler.Code / compiler.Function that return an internal slice/map field without copying", codeLeak)
	vw := map[string]bool{}
	for _, x := range vmCodeFieldWrites {
		vw[x] = true
	}
	list("vmCodeFieldWrites", "assignments in package vm to Instructions/Constants/Names/Code of an existing vm.code (outside its construction)", vw)

	// 5. host-only writers: unlocked eval-phase writers of package variables and who mentions them
	b.WriteString("/-- functions with an unlocked write to a package-level variable outside init, and the top-level\n    directories of the repository (non-test files) that mention the function's name -/\n")
	b.WriteString("def unlockedWriters : List (String × String × List String) := [\n")
	var uw []string
	for _, k := range keys {
		if !k.write || len(merged[k]) > 0 || initPhase[k.fn] || strings.HasSuffix(k.fn, ".<pkg-init>") || strings.Count(k.loc, ".") != 1 {
			continue
		}
		short := k.fn[strings.LastIndex(k.fn, ".")+1:]
		dirs := c09Mentions(repo, short)
		var ds []string
		for d := range dirs {
			ds = append(ds, q(d))
		}
		sort.Strings(ds)
		uw = append(uw, fmt.Sprintf("  (%s, %s, [%s])", q(k.loc), q(k.fn), strings.Join(ds, ", ")))
	}
	b.WriteString(strings.Join(uw, ",\n"))
	b.WriteString("\n]\n\nend Risor.Generated.C09\n")
	return b.String()
}

// c09Mentions lists the top-level directories whose non-test Go files mention ident as a
// called name (syntactic; used only to show that a setter is host-configuration API).
func c09Mentions(repo, ident string) map[string]bool {
	out := map[string]bool{}
	fset := token.NewFileSet()
	filepath.Walk(repo, func(path string, fi os.FileInfo, err error) error {
		if err != nil {
			return nil
		}
		if fi.IsDir() {
			n := fi.Name()
			if path != repo && (strings.HasPrefix(n, ".") || n == "vendor" || n == "node_modules" || n == "testdata") {
				return filepath.SkipDir
			}
			return nil
		}
		if !strings.HasSuffix(path, ".go") || strings.HasSuffix(path, "_test.go") {
			return nil
		}
		src, err := os.ReadFile(path)
		if err != nil || !strings.Contains(string(src), ident) {
			return nil
		}
		f, err := parser.ParseFile(fset, path, src, parser.SkipObjectResolution)
		if err != nil {
			return nil
		}
		found := false
		ast.Inspect(f, func(n ast.Node) bool {
			ce, ok := n.(*ast.CallExpr)
			if !ok {
				return true
			}
			switch fe := ce.Fun.(type) {
			case *ast.Ident:
				if fe.Name == ident {
					found = true
				}
			case *ast.SelectorExpr:
				if fe.Sel.Name == ident {
					found = true
				}
			}
			return true
		})
		if found {
			rel, _ := filepath.Rel(repo, path)
			top := strings.Split(filepath.ToSlash(rel), "/")[0]
			if !strings.Contains(rel, string(filepath.Separator)) {
				top = "."
			}
			out[top] = true
		}
		return nil
	})
	return out
}

func init() {
	generators = append(generators, generator{"C09", c09Generate})
}
