package main

// E8 (property C09): inventory of package-level state that is mutable in effect, of the
// functions that read/write it, and of the mutexes syntactically held there.
//
// Type-checked with go/types.  Packages below github.com/risor-io/risor are loaded from the
// repository's working tree by a small types.Importer of our own (the stock importers cannot
// resolve module paths offline); the standard library comes from the "source" importer with
// cgo switched off.  Type errors are tolerated (partial information is enough for the tables);
// a package in scope that cannot be parsed at all makes the generator fail loudly.
//
// Output (lean/RisorModel/Generated/C09.lean):
//   vars        package-level variables mutable in effect (kind: state | lock): assigned outside
//               init; map/slice/pointer/chan; non-error interface values; structs/arrays stored in
//               the variable that carry references or are sync types (sync.Pool, sync.Map,
//               bytes.Buffer, ...); anything whose storage is written in place, sliced, has its
//               address taken or a pointer-receiver method called on it
//   sites       per (function, variable-or-field): read/write, interprocedural must-hold
//               lockset, phase (init = only during package initialisation)
//   codeCalls   methods of compiler.Code / compiler.Function called from vm and object
//   codeMut     methods of compiler.Code / compiler.Function that assign to the receiver
//   codeLeak    ... that return an internal slice/map field directly
//   vmCodeFieldWrites  assignments in package vm to Instructions/Constants/Names of vm.code
//                      outside wrapCode
//   hostOnly    for every function with an unlocked write: top-level directories of the
//               repository that mention it (none besides cmd/… means host-configuration API)
//   haltWrites  package vm: every write of a machine's `halt` field and every place its address goes
//               (c09WideTables)
//   libVars     package-level variables of the root package and of the modules/* packages it imports
//               (the standard library DefaultGlobals builds), with the functions that write them

import (
	"fmt"
	"go/ast"
	"go/build"
	"go/importer"
	"go/parser"
	"go/token"
	"go/types"
	"os"
	"path/filepath"
	"sort"
	"strings"
)

const c09Mod = "github.com/risor-io/risor"

var c09Scope = []string{"object", "builtins", "importer", "compiler", "vm", "errz", "os", "op"}

type c09Pkg struct {
	path  string
	pkg   *types.Package
	info  *types.Info
	files []*ast.File
}

type c09Loader struct {
	repo string
	fset *token.FileSet
	pkgs map[string]*c09Pkg
	std  types.Importer
	busy map[string]bool
}

func (l *c09Loader) Import(path string) (*types.Package, error) {
	if path == c09Mod || strings.HasPrefix(path, c09Mod+"/") {
		p, err := l.load(path)
		if err != nil {
			return nil, err
		}
		return p.pkg, nil
	}
	if path == "unsafe" {
		return types.Unsafe, nil
	}
	p, err := l.std.Import(path)
	if err != nil || p == nil {
		// unknown (third-party) package: an empty placeholder keeps type-checking going
		name := path[strings.LastIndex(path, "/")+1:]
		fp := types.NewPackage(path, name)
		fp.MarkComplete()
		return fp, nil
	}
	return p, nil
}

func (l *c09Loader) load(path string) (*c09Pkg, error) {
	if p, ok := l.pkgs[path]; ok {
		return p, nil
	}
	if l.busy[path] {
		return nil, fmt.Errorf("import cycle through %s", path)
	}
	l.busy[path] = true
	defer delete(l.busy, path)
	dir := filepath.Join(l.repo, strings.TrimPrefix(strings.TrimPrefix(path, c09Mod), "/"))
	ents, err := os.ReadDir(dir)
	if err != nil {
		return nil, err
	}
	ctx := build.Default
	ctx.CgoEnabled = false
	var files []*ast.File
	for _, e := range ents {
		n := e.Name()
		if e.IsDir() || !strings.HasSuffix(n, ".go") || strings.HasSuffix(n, "_test.go") {
			continue
		}
		if ok, _ := ctx.MatchFile(dir, n); !ok {
			continue
		}
		f, err := parser.ParseFile(l.fset, filepath.Join(dir, n), nil, parser.SkipObjectResolution)
		if err != nil {
			return nil, err
		}
		files = append(files, f)
	}
	if len(files) == 0 {
		return nil, fmt.Errorf("no Go files in %s", dir)
	}
	info := &types.Info{Types: map[ast.Expr]types.TypeAndValue{}, Defs: map[*ast.Ident]types.Object{}, Uses: map[*ast.Ident]types.Object{}, Selections: map[*ast.SelectorExpr]*types.Selection{}, Implicits: map[ast.Node]types.Object{}}
	conf := types.Config{Importer: l, Error: func(error) {}, FakeImportC: true}
	pkg, _ := conf.Check(path, l.fset, files, info)
	if pkg == nil {
		return nil, fmt.Errorf("cannot type-check %s", path)
	}
	p := &c09Pkg{path: path, pkg: pkg, info: info, files: files}
	l.pkgs[path] = p
	return p, nil
}

// ---------------------------------------------------------------------------------------

type c09Site struct {
	fn    string // pkg.Func or pkg.(T).Method
	loc   string // pkg.var or pkg.Type.field
	write bool
	held  map[string]bool // locks syntactically held at the access inside fn ("name" or "name/R")
}

type c09Edge struct {
	caller, callee string
	held           map[string]bool
}

type c09Fn struct {
	name     string
	exported bool
	isInit   bool
	valueRef bool // referenced as a value somewhere (may be called from anywhere)
}

func c09ShortPkg(p *types.Package) string {
	if p == nil {
		return "?"
	}
	return strings.TrimPrefix(strings.TrimPrefix(p.Path(), c09Mod), "/")
}

func c09FuncName(f *types.Func) string {
	sig, _ := f.Type().(*types.Signature)
	if sig != nil && sig.Recv() != nil {
		t := sig.Recv().Type()
		if p, ok := t.(*types.Pointer); ok {
			t = p.Elem()
		}
		if n, ok := t.(*types.Named); ok {
			return c09ShortPkg(f.Pkg()) + "." + n.Obj().Name() + "." + f.Name()
		}
	}
	return c09ShortPkg(f.Pkg()) + "." + f.Name()
}

func c09IsMutex(t types.Type) bool {
	if p, ok := t.(*types.Pointer); ok {
		t = p.Elem()
	}
	n, ok := t.(*types.Named)
	if !ok || n.Obj().Pkg() == nil || n.Obj().Pkg().Path() != "sync" {
		return false
	}
	return n.Obj().Name() == "Mutex" || n.Obj().Name() == "RWMutex"
}

func c09NamedStruct(t types.Type) *types.Named {
	for {
		switch x := t.(type) {
		case *types.Pointer:
			t = x.Elem()
			continue
		case *types.Named:
			if _, ok := x.Underlying().(*types.Struct); ok {
				return x
			}
			return nil
		}
		return nil
	}
}

// c09IsSyncType: a type of package sync or sync/atomic other than the two mutexes (Pool, Map,
// Once, WaitGroup, Cond, atomic.Value, ...): internally synchronised shared state.
func c09IsSyncType(t types.Type) bool {
	if p, ok := t.(*types.Pointer); ok {
		t = p.Elem()
	}
	n, ok := t.(*types.Named)
	if !ok || n.Obj().Pkg() == nil {
		return false
	}
	pp := n.Obj().Pkg().Path()
	return (pp == "sync" || pp == "sync/atomic") && !c09IsMutex(t)
}

// c09HoldsRefs: a value of this type (a struct or array stored IN the variable, not behind a
// pointer) carries references to heap state or a function/interface value: sync.Pool,
// sync.Map, bytes.Buffer, a struct with a slice/map field ...  Calling a method on such a
// package-level variable, or handing out a part of it, shares that state between evaluations.
func c09HoldsRefs(t types.Type, depth int) bool {
	if depth > 6 {
		return true
	}
	switch x := t.Underlying().(type) {
	case *types.Map, *types.Slice, *types.Pointer, *types.Chan, *types.Signature, *types.Interface:
		return true
	case *types.Basic:
		return x.Kind() == types.UnsafePointer
	case *types.Struct:
		for i := 0; i < x.NumFields(); i++ {
			if c09HoldsRefs(x.Field(i).Type(), depth+1) {
				return true
			}
		}
	case *types.Array:
		return c09HoldsRefs(x.Elem(), depth+1)
	}
	return false
}

func c09IsErrorType(t types.Type) bool {
	return types.Identical(t, types.Universe.Lookup("error").Type())
}

// c09RootIdent: the identifier at the root of a chain of field selections / index expressions
// that stays inside the variable's own storage (x, x.f, x[i], x.f[i].g, (x)).
func c09RootIdent(info *types.Info, e ast.Expr) *ast.Ident {
	for {
		switch x := e.(type) {
		case *ast.Ident:
			return x
		case *ast.ParenExpr:
			e = x.X
		case *ast.SelectorExpr:
			if sel := info.Selections[x]; sel != nil && sel.Kind() == types.FieldVal && !sel.Indirect() {
				e = x.X
				continue
			}
			return nil
		case *ast.IndexExpr:
			tv, ok := info.Types[x.X]
			if !ok {
				return nil
			}
			if _, isArr := tv.Type.Underlying().(*types.Array); !isArr {
				return nil
			}
			e = x.X
		default:
			return nil
		}
	}
}

func c09Generate(repo string) string {
	ctx := build.Default
	ctx.CgoEnabled = false
	build.Default.CgoEnabled = false
	fset := token.NewFileSet()
	l := &c09Loader{repo: repo, fset: fset, pkgs: map[string]*c09Pkg{}, busy: map[string]bool{}}
	l.std = importer.ForCompiler(fset, "source", nil)
	var scope []*c09Pkg
	for _, s := range c09Scope {
		p, err := l.load(c09Mod + "/" + s)
		if err != nil {
			panic(fmt.Sprintf("C09: package %s: %v", s, err))
		}
		scope = append(scope, p)
	}
	inScope := map[*types.Package]bool{}
	for _, p := range scope {
		inScope[p.pkg] = true
	}

	// 1. package-level variables, mutable in effect
	type varInfo struct {
		obj  *types.Var
		name string
		kind string // state | lock
		typ  string
	}
	allVars := map[*types.Var]*varInfo{}
	assignedOutside := map[*types.Var]bool{}
	mutatedInPlace := map[*types.Var]bool{} // field/element written, address taken, or pointer-receiver method called
	ptrMethodRecv := map[ast.Expr]bool{}    // receiver expressions of such method calls
	for _, p := range scope {
		sc := p.pkg.Scope()
		for _, n := range sc.Names() {
			v, ok := sc.Lookup(n).(*types.Var)
			if !ok {
				continue
			}
			allVars[v] = &varInfo{obj: v, name: c09ShortPkg(p.pkg) + "." + n, typ: types.TypeString(v.Type(), func(q *types.Package) string { return q.Name() })}
		}
	}
	// assignments outside declaration and init
	for _, p := range scope {
		for _, f := range p.files {
			for _, d := range f.Decls {
				fd, ok := d.(*ast.FuncDecl)
				if !ok || fd.Body == nil || (fd.Recv == nil && fd.Name.Name == "init") {
					continue
				}
				pkgVarAt := func(e ast.Expr) *types.Var {
					if id := c09RootIdent(p.info, e); id != nil {
						if v, ok := p.info.Uses[id].(*types.Var); ok && allVars[v] != nil {
							return v
						}
					}
					return nil
				}
				ast.Inspect(fd.Body, func(n ast.Node) bool {
					switch s := n.(type) {
					case *ast.AssignStmt:
						for _, lhs := range s.Lhs {
							if id, ok := lhs.(*ast.Ident); ok {
								if v, ok := p.info.Uses[id].(*types.Var); ok && allVars[v] != nil {
									assignedOutside[v] = true
								}
							} else if v := pkgVarAt(lhs); v != nil {
								mutatedInPlace[v] = true // v.f = …, v[i] = …
							}
						}
					case *ast.IncDecStmt:
						if id, ok := s.X.(*ast.Ident); ok {
							if v, ok := p.info.Uses[id].(*types.Var); ok && allVars[v] != nil {
								assignedOutside[v] = true
							}
						} else if v := pkgVarAt(s.X); v != nil {
							mutatedInPlace[v] = true
						}
					case *ast.UnaryExpr:
						if s.Op == token.AND { // &v, &v.f: the variable's storage escapes
							if v := pkgVarAt(s.X); v != nil {
								mutatedInPlace[v] = true
							}
						}
					case *ast.SliceExpr:
						// v[:] of an array stored in the variable: the slice aliases the variable's storage
						if tv, ok := p.info.Types[s.X]; ok {
							if _, isArr := tv.Type.Underlying().(*types.Array); isArr {
								if v := pkgVarAt(s.X); v != nil {
									mutatedInPlace[v] = true
								}
							}
						}
					case *ast.SelectorExpr:
						// v.M() with a pointer receiver on a non-pointer variable: implicit &v
						if sel := p.info.Selections[s]; sel != nil && sel.Kind() == types.MethodVal {
							if fo, ok := sel.Obj().(*types.Func); ok {
								if sig, ok := fo.Type().(*types.Signature); ok && sig.Recv() != nil {
									if _, ptr := sig.Recv().Type().(*types.Pointer); ptr {
										if v := pkgVarAt(s.X); v != nil {
											if _, isPtr := v.Type().Underlying().(*types.Pointer); !isPtr {
												mutatedInPlace[v] = true
												ptrMethodRecv[s.X] = true
											}
										}
									}
									// a method of an interface-typed package-level variable (a shared hasher,
									// encoder, rand source ...): the object behind it is shared and may be stateful
									if _, isIface := sig.Recv().Type().Underlying().(*types.Interface); isIface {
										if id, ok := s.X.(*ast.Ident); ok {
											if v, ok := p.info.Uses[id].(*types.Var); ok && allVars[v] != nil {
												if _, vi := v.Type().Underlying().(*types.Interface); vi && !c09IsErrorType(v.Type()) {
													mutatedInPlace[v] = true
												}
											}
										}
									}
								}
							}
						}
					}
					return true
				})
			}
		}
	}
	vars := map[*types.Var]*varInfo{}
	for v, vi := range allVars {
		if c09IsMutex(v.Type()) {
			vi.kind = "lock"
			vars[v] = vi
			continue
		}
		mutable := assignedOutside[v] || mutatedInPlace[v]
		switch v.Type().Underlying().(type) {
		case *types.Map, *types.Slice, *types.Pointer, *types.Chan:
			mutable = true
		case *types.Interface:
			// a shared object behind an interface (hasher, encoder, random source ...); error
			// values are immutable by convention
			if !c09IsErrorType(v.Type()) {
				mutable = true
			}
		case *types.Struct, *types.Array:
			// a container stored in the variable itself (sync.Pool, sync.Map, bytes.Buffer, a
			// struct with slice/map fields): shared state even though the variable is never assigned
			if c09IsSyncType(v.Type()) || c09HoldsRefs(v.Type(), 0) {
				mutable = true
			}
		}
		if mutable {
			vi.kind = "state"
			vars[v] = vi
		}
	}
	// struct types directly stored in package-level state (shared heap objects)
	sharedTypes := map[*types.Named]bool{}
	for v, vi := range vars {
		if vi.kind != "state" {
			continue
		}
		var elems []types.Type
		switch t := v.Type().Underlying().(type) {
		case *types.Map:
			elems = []types.Type{t.Key(), t.Elem()}
		case *types.Slice:
			elems = []types.Type{t.Elem()}
		case *types.Pointer:
			elems = []types.Type{t.Elem()}
		}
		for _, e := range elems {
			if n := c09NamedStruct(e); n != nil && n.Obj().Pkg() != nil && inScope[n.Obj().Pkg()] {
				sharedTypes[n] = true
			}
		}
	}

	// struct types that carry their own mutex: their map-typed fields are shared per object
	guardedTypes := map[*types.Named]bool{}
	for _, p := range scope {
		sc := p.pkg.Scope()
		for _, n := range sc.Names() {
			tn, ok := sc.Lookup(n).(*types.TypeName)
			if !ok {
				continue
			}
			named, ok := tn.Type().(*types.Named)
			if !ok {
				continue
			}
			st, ok := named.Underlying().(*types.Struct)
			if !ok {
				continue
			}
			for i := 0; i < st.NumFields(); i++ {
				if c09IsMutex(st.Field(i).Type()) {
					guardedTypes[named] = true
				}
			}
		}
	}

	// 2. walk every function
	fns := map[string]*c09Fn{}
	var sites []c09Site
	var fieldSites []c09Site // candidate field accesses on shared types
	fieldWrittenOutsideCtor := map[string]bool{}
	var edges []c09Edge
	codeCalls := map[string]bool{}
	codeMut := map[string]bool{}
	codeLeak := map[string]bool{}
	var vmCodeFieldWrites []string

	isCodeType := func(t types.Type) (string, bool) {
		n := c09NamedStruct(t)
		if n == nil || n.Obj().Pkg() == nil || n.Obj().Pkg().Path() != c09Mod+"/compiler" {
			return "", false
		}
		if n.Obj().Name() == "Code" || n.Obj().Name() == "Function" {
			return n.Obj().Name(), true
		}
		return "", false
	}

	lockName := func(p *c09Pkg, e ast.Expr) string {
		switch x := e.(type) {
		case *ast.Ident:
			if v, ok := p.info.Uses[x].(*types.Var); ok {
				if vi := vars[v]; vi != nil {
					return vi.name
				}
			}
		case *ast.SelectorExpr:
			if sel := p.info.Selections[x]; sel != nil {
				if n := c09NamedStruct(sel.Recv()); n != nil {
					return c09ShortPkg(n.Obj().Pkg()) + "." + n.Obj().Name() + "." + x.Sel.Name
				}
			}
			if id, ok := x.X.(*ast.Ident); ok { // pkg.var
				if v, ok := p.info.Uses[x.Sel].(*types.Var); ok {
					if vi := vars[v]; vi != nil {
						_ = id
						return vi.name
					}
				}
			}
		}
		return ""
	}

	for _, p := range scope {
		for _, f := range p.files {
			// package-level initialisers: phase init
			for _, d := range f.Decls {
				gd, ok := d.(*ast.GenDecl)
				if !ok || gd.Tok != token.VAR {
					continue
				}
				for _, sp := range gd.Specs {
					vs := sp.(*ast.ValueSpec)
					for _, id := range vs.Names {
						if v, ok := p.info.Defs[id].(*types.Var); ok && vars[v] != nil && vars[v].kind == "state" {
							sites = append(sites, c09Site{fn: c09ShortPkg(p.pkg) + ".<pkg-init>", loc: vars[v].name, write: true, held: map[string]bool{}})
						}
					}
					for _, val := range vs.Values {
						ast.Inspect(val, func(n ast.Node) bool {
							if id, ok := n.(*ast.Ident); ok {
								if v, ok := p.info.Uses[id].(*types.Var); ok && vars[v] != nil && vars[v].kind == "state" {
									sites = append(sites, c09Site{fn: c09ShortPkg(p.pkg) + ".<pkg-init>", loc: vars[v].name, write: false, held: map[string]bool{}})
								}
								if fo, ok := p.info.Uses[id].(*types.Func); ok && fo.Pkg() != nil && inScope[fo.Pkg()] {
									nm := c09FuncName(fo)
									edges = append(edges, c09Edge{caller: c09ShortPkg(p.pkg) + ".<pkg-init>", callee: nm, held: map[string]bool{}})
								}
							}
							return true
						})
					}
				}
			}
			for _, d := range f.Decls {
				fd, ok := d.(*ast.FuncDecl)
				if !ok || fd.Body == nil {
					continue
				}
				fobj, _ := p.info.Defs[fd.Name].(*types.Func)
				if fobj == nil {
					continue
				}
				name := c09FuncName(fobj)
				isInit := fd.Recv == nil && fd.Name.Name == "init"
				if isInit {
					name = c09ShortPkg(p.pkg) + ".init"
				}
				fn := fns[name]
				if fn == nil {
					fn = &c09Fn{name: name}
					fns[name] = fn
				}
				fn.isInit = isInit
				fn.exported = !isInit && fd.Name.IsExported()
				if fd.Recv != nil { // methods may be reached through interfaces
					fn.exported = fn.exported || true
					if !fd.Name.IsExported() {
						fn.exported = false
					}
				}

				// receiver / parameters / locals made by composite literal (constructor detection)
				fresh := map[types.Object]bool{}
				ast.Inspect(fd.Body, func(n ast.Node) bool {
					if ds, ok := n.(*ast.DeclStmt); ok {
						if gd, ok := ds.Decl.(*ast.GenDecl); ok && gd.Tok == token.VAR {
							for _, sp := range gd.Specs {
								if vs, ok := sp.(*ast.ValueSpec); ok && len(vs.Values) == 0 {
									for _, id := range vs.Names {
										if o := p.info.Defs[id]; o != nil {
											if _, isPtr := o.Type().(*types.Pointer); !isPtr {
												fresh[o] = true
											}
										}
									}
								}
							}
						}
						return true
					}
					as, ok := n.(*ast.AssignStmt)
					if !ok || as.Tok != token.DEFINE || len(as.Lhs) != len(as.Rhs) {
						return true
					}
					for i, lhs := range as.Lhs {
						id, ok := lhs.(*ast.Ident)
						if !ok {
							continue
						}
						rhs := as.Rhs[i]
						if u, ok := rhs.(*ast.UnaryExpr); ok && u.Op == token.AND {
							rhs = u.X
						}
						if _, ok := rhs.(*ast.CompositeLit); ok {
							if o := p.info.Defs[id]; o != nil {
								fresh[o] = true
							}
						}
					}
					return true
				})

				// lock regions
				type region struct {
					lock     string
					from, to token.Pos
				}
				var regions []region
				var lockCalls []struct {
					name string
					pos  token.Pos
					kind string // Lock RLock Unlock RUnlock
					def  bool
				}
				var inspectLocks func(n ast.Node, deferred bool)
				inspectLocks = func(n ast.Node, deferred bool) {
					ast.Inspect(n, func(m ast.Node) bool {
						if ds, ok := m.(*ast.DeferStmt); ok {
							inspectLocks(ds.Call, true)
							return false
						}
						ce, ok := m.(*ast.CallExpr)
						if !ok {
							return true
						}
						se, ok := ce.Fun.(*ast.SelectorExpr)
						if !ok {
							return true
						}
						switch se.Sel.Name {
						case "Lock", "RLock", "Unlock", "RUnlock":
						default:
							return true
						}
						tv, ok := p.info.Types[se.X]
						if !ok || !c09IsMutex(tv.Type) {
							return true
						}
						ln := lockName(p, se.X)
						if ln == "" {
							ln = "?" + types.ExprString(se.X)
						}
						lockCalls = append(lockCalls, struct {
							name string
							pos  token.Pos
							kind string
							def  bool
						}{ln, ce.Pos(), se.Sel.Name, deferred})
						return true
					})
				}
				inspectLocks(fd.Body, false)
				for i, lc := range lockCalls {
					if lc.kind != "Lock" && lc.kind != "RLock" {
						continue
					}
					nm := lc.name
					un := "Unlock"
					if lc.kind == "RLock" {
						nm += "/R"
						un = "RUnlock"
					}
					to := fd.Body.End()
					for _, u := range lockCalls[i+1:] {
						if u.name == lc.name && u.kind == un {
							if !u.def {
								to = u.pos
							}
							break
						}
					}
					regions = append(regions, region{nm, lc.pos, to})
				}
				heldAt := func(pos token.Pos) map[string]bool {
					h := map[string]bool{}
					for _, r := range regions {
						if r.from < pos && pos < r.to {
							h[r.lock] = true
						}
					}
					return h
				}

				// classify writes: collect expressions in write position
				writePos := map[ast.Expr]bool{}
				var markWrite func(e ast.Expr)
				markWrite = func(e ast.Expr) {
					switch x := e.(type) {
					case *ast.Ident:
						writePos[x] = true
					case *ast.SelectorExpr:
						writePos[x] = true
						writePos[x.Sel] = true
					case *ast.IndexExpr:
						markWrite(x.X) // m[k] = v writes the map/slice m
					case *ast.ParenExpr:
						markWrite(x.X)
					case *ast.StarExpr:
						markWrite(x.X)
					}
				}
				markRoot := func(e ast.Expr) {
					if _, plain := e.(*ast.Ident); plain {
						return
					}
					if id := c09RootIdent(p.info, e); id != nil {
						writePos[id] = true // a part of the variable's own storage is written / escapes
					}
				}
				ast.Inspect(fd.Body, func(n ast.Node) bool {
					switch s := n.(type) {
					case *ast.AssignStmt:
						for _, lhs := range s.Lhs {
							markWrite(lhs)
							markRoot(lhs)
						}
					case *ast.IncDecStmt:
						markWrite(s.X)
						markRoot(s.X)
					case *ast.UnaryExpr:
						if s.Op == token.AND {
							if id := c09RootIdent(p.info, s.X); id != nil {
								if v, ok := p.info.Uses[id].(*types.Var); ok && vars[v] != nil {
									if _, isPtr := v.Type().Underlying().(*types.Pointer); !isPtr {
										writePos[id] = true
									}
								}
							}
						}
					case *ast.SliceExpr:
						if tv, ok := p.info.Types[s.X]; ok {
							if _, isArr := tv.Type.Underlying().(*types.Array); isArr {
								if id := c09RootIdent(p.info, s.X); id != nil {
									writePos[id] = true
								}
							}
						}
					case *ast.SelectorExpr:
						// method of an interface-typed package-level variable: may modify the shared object
						if sel := p.info.Selections[s]; sel != nil && sel.Kind() == types.MethodVal {
							if id, ok := s.X.(*ast.Ident); ok {
								if v, ok := p.info.Uses[id].(*types.Var); ok && vars[v] != nil {
									if _, vi := v.Type().Underlying().(*types.Interface); vi {
										writePos[id] = true
									}
								}
							}
						}
						// pointer-receiver method on a package-level container: the callee may modify it
						// (types of package sync / sync/atomic synchronise internally: recorded as reads)
						if ptrMethodRecv[s.X] {
							if id := c09RootIdent(p.info, s.X); id != nil {
								if v, ok := p.info.Uses[id].(*types.Var); ok && !c09IsSyncType(v.Type()) {
									writePos[id] = true
								}
							}
						}
					case *ast.CallExpr:
						if id, ok := s.Fun.(*ast.Ident); ok && (id.Name == "delete" || id.Name == "clear") && len(s.Args) > 0 {
							if _, isB := p.info.Uses[id].(*types.Builtin); isB {
								markWrite(s.Args[0])
							}
						}
					case *ast.RangeStmt:
						if s.Tok == token.ASSIGN {
							if s.Key != nil {
								markWrite(s.Key)
							}
							if s.Value != nil {
								markWrite(s.Value)
							}
						}
					}
					return true
				})

				calledFun := map[ast.Expr]bool{}
				ast.Inspect(fd.Body, func(n ast.Node) bool {
					switch x := n.(type) {
					case *ast.CallExpr:
						var fo *types.Func
						switch fe := x.Fun.(type) {
						case *ast.Ident:
							fo, _ = p.info.Uses[fe].(*types.Func)
							calledFun[fe] = true
						case *ast.SelectorExpr:
							fo, _ = p.info.Uses[fe.Sel].(*types.Func)
							calledFun[fe.Sel] = true
							if fo != nil {
								if sel := p.info.Selections[fe]; sel != nil {
									if tn, ok := isCodeType(sel.Recv()); ok && (c09ShortPkg(p.pkg) == "vm" || c09ShortPkg(p.pkg) == "object") {
										codeCalls[tn+"."+fo.Name()] = true
									}
								}
							}
						}
						if fo != nil && fo.Pkg() != nil && inScope[fo.Pkg()] {
							// interface methods have no body here: skip (their implementations are entries)
							if sig, ok := fo.Type().(*types.Signature); ok && sig.Recv() != nil {
								if _, isIface := sig.Recv().Type().Underlying().(*types.Interface); isIface {
									return true
								}
							}
							edges = append(edges, c09Edge{caller: name, callee: c09FuncName(fo), held: heldAt(x.Pos())})
						}
					case *ast.Ident:
						obj := p.info.Uses[x]
						if v, ok := obj.(*types.Var); ok {
							if vi := vars[v]; vi != nil && vi.kind == "state" {
								sites = append(sites, c09Site{fn: name, loc: vi.name, write: writePos[x], held: heldAt(x.Pos())})
							}
						}
						if fo, ok := obj.(*types.Func); ok && !calledFun[x] && fo.Pkg() != nil && inScope[fo.Pkg()] {
							nm := c09FuncName(fo)
							if fns[nm] == nil {
								fns[nm] = &c09Fn{name: nm}
							}
							fns[nm].valueRef = true
						}
					case *ast.SelectorExpr:
						sel := p.info.Selections[x]
						if sel == nil || sel.Kind() != types.FieldVal {
							return true
						}
						n := c09NamedStruct(sel.Recv())
						if n == nil {
							return true
						}
						// vm.code wrapper fields (the per-VM copy of compiled code)
						if n.Obj().Pkg() != nil && n.Obj().Pkg().Path() == c09Mod+"/vm" && n.Obj().Name() == "code" && writePos[x] {
							switch x.Sel.Name {
							case "Instructions", "Constants", "Names", "Code":
								base, _ := x.X.(*ast.Ident)
								if base == nil || !fresh[p.info.Uses[base]] {
									vmCodeFieldWrites = append(vmCodeFieldWrites, name+":"+x.Sel.Name)
								}
							}
						}
						// compiler.Code / Function receiver mutation
						if tn, ok := isCodeType(sel.Recv()); ok && writePos[x] && fd.Recv != nil {
							if base, ok := x.X.(*ast.Ident); ok {
								if len(fd.Recv.List) == 1 && len(fd.Recv.List[0].Names) == 1 && fd.Recv.List[0].Names[0].Name == base.Name {
									codeMut[tn+"."+fd.Name.Name] = true
								}
							}
						}
						if guardedTypes[n] {
							if _, isMap := sel.Type().Underlying().(*types.Map); isMap {
								base, _ := x.X.(*ast.Ident)
								if base == nil || !fresh[p.info.Uses[base]] {
									sites = append(sites, c09Site{fn: name, loc: c09ShortPkg(n.Obj().Pkg()) + "." + n.Obj().Name() + "." + x.Sel.Name, write: writePos[x], held: heldAt(x.Pos())})
								}
							}
							return true
						}
						if !sharedTypes[n] {
							return true
						}
						loc := c09ShortPkg(n.Obj().Pkg()) + "." + n.Obj().Name() + "." + x.Sel.Name
						w := writePos[x]
						fieldSites = append(fieldSites, c09Site{fn: name, loc: loc, write: w, held: heldAt(x.Pos())})
						if w {
							base, _ := x.X.(*ast.Ident)
							if base == nil || !fresh[p.info.Uses[base]] {
								fieldWrittenOutsideCtor[loc] = true
							}
						}
					case *ast.ReturnStmt:
						// methods of Code/Function returning an internal slice/map field directly
						if fd.Recv != nil && len(fd.Recv.List) == 1 {
							if rt, ok := p.info.Types[fd.Recv.List[0].Type]; ok {
								if tn, ok := isCodeType(rt.Type); ok {
									for _, r := range x.Results {
										if se, ok := r.(*ast.SelectorExpr); ok {
											if s2 := p.info.Selections[se]; s2 != nil && s2.Kind() == types.FieldVal {
												switch s2.Type().Underlying().(type) {
												case *types.Slice, *types.Map:
													codeLeak[tn+"."+fd.Name.Name] = true
												}
											}
										}
									}
								}
							}
						}
					}
					return true
				})
			}
		}
	}
	for _, s := range fieldSites {
		if fieldWrittenOutsideCtor[s.loc] {
			sites = append(sites, s)
		}
	}

	// 3. must-hold locksets, greatest fixpoint over the static call graph
	const top = "\x00TOP"
	must := map[string]map[string]bool{}
	for n := range fns {
		must[n] = map[string]bool{top: true}
	}
	must["<none>"] = map[string]bool{}
	incoming := map[string][]c09Edge{}
	for _, e := range edges {
		if fns[e.callee] != nil {
			incoming[e.callee] = append(incoming[e.callee], e)
		}
	}
	isEntry := func(f *c09Fn) bool {
		return f.exported || f.valueRef || f.isInit || len(incoming[f.name]) == 0
	}
	union := func(a, b map[string]bool) map[string]bool {
		if a[top] {
			return map[string]bool{top: true}
		}
		r := map[string]bool{}
		for k := range a {
			r[k] = true
		}
		for k := range b {
			r[k] = true
		}
		return r
	}
	inter := func(a, b map[string]bool) map[string]bool {
		if a[top] {
			return b
		}
		if b[top] {
			return a
		}
		r := map[string]bool{}
		for k := range a {
			if b[k] {
				r[k] = true
			}
		}
		return r
	}
	same := func(a, b map[string]bool) bool {
		if len(a) != len(b) {
			return false
		}
		for k := range a {
			if !b[k] {
				return false
			}
		}
		return true
	}
	names := make([]string, 0, len(fns))
	for n := range fns {
		names = append(names, n)
	}
	sort.Strings(names)
	for iter := 0; iter < 200; iter++ {
		changed := false
		for _, n := range names {
			f := fns[n]
			cur := map[string]bool{top: true}
			if isEntry(f) {
				cur = map[string]bool{}
			}
			for _, e := range incoming[n] {
				cm := must[e.caller]
				if cm == nil {
					cm = map[string]bool{}
				}
				cur = inter(cur, union(cm, e.held))
			}
			if !same(cur, must[n]) {
				must[n] = cur
				changed = true
			}
		}
		if !changed {
			break
		}
	}
	// phase: init when the function is init / <pkg-init>, or all its callers are init-phase and
	// it is not an entry otherwise
	initPhase := map[string]bool{}
	for _, n := range names {
		if fns[n].isInit {
			initPhase[n] = true
		}
	}
	for iter := 0; iter < 50; iter++ {
		changed := false
		for _, n := range names {
			f := fns[n]
			if initPhase[n] || f.exported || f.valueRef || len(incoming[n]) == 0 {
				continue
			}
			all := true
			for _, e := range incoming[n] {
				if !(initPhase[e.caller] || strings.HasSuffix(e.caller, ".<pkg-init>")) {
					all = false
				}
			}
			if all {
				initPhase[n] = true
				changed = true
			}
		}
		if !changed {
			break
		}
	}

	// 4. merge sites per (fn, loc, write) with the final lockset
	type key struct {
		fn, loc string
		write   bool
	}
	merged := map[key]map[string]bool{}
	for _, s := range sites {
		var ls map[string]bool
		if strings.HasSuffix(s.fn, ".<pkg-init>") {
			ls = map[string]bool{}
		} else {
			m := must[s.fn]
			if m == nil || m[top] {
				m = map[string]bool{}
			}
			ls = union(m, s.held)
		}
		k := key{s.fn, s.loc, s.write}
		if old, ok := merged[k]; ok {
			merged[k] = inter(old, ls)
		} else {
			merged[k] = ls
		}
	}
	var keys []key
	for k := range merged {
		keys = append(keys, k)
	}
	sort.Slice(keys, func(i, j int) bool {
		a, b := keys[i], keys[j]
		if a.loc != b.loc {
			return a.loc < b.loc
		}
		if a.fn != b.fn {
			return a.fn < b.fn
		}
		return !a.write && b.write
	})

	q := func(s string) string { return fmt.Sprintf("%q", s) }
	perObj := func(name string) bool { return strings.Count(strings.TrimSuffix(name, "/R"), ".") == 2 }
	qs := func(m map[string]bool) string {
		var xs []string
		for k := range m {
			xs = append(xs, k)
		}
		sort.Strings(xs)
		for i := range xs {
			nm := strings.TrimSuffix(xs[i], "/R")
			xs[i] = fmt.Sprintf("(%s, %v, %v)", q(nm), !strings.HasSuffix(xs[i], "/R"), perObj(nm))
		}
		return "[" + strings.Join(xs, ", ") + "]"
	}
	// locations never written outside package initialisation: their readers are summarised
	writtenLater := map[string]bool{}
	for _, k := range keys {
		if k.write && !(initPhase[k.fn] || strings.HasSuffix(k.fn, ".<pkg-init>")) {
			writtenLater[k.loc] = true
		}
	}
	{
		var kept []key
		seen := map[string]bool{}
		for _, k := range keys {
			if !writtenLater[k.loc] && !k.write {
				if !seen[k.loc] {
					seen[k.loc] = true
					kk := key{"<readers>", k.loc, false}
					merged[kk] = map[string]bool{}
					kept = append(kept, kk)
				}
				continue
			}
			kept = append(kept, k)
		}
		keys = kept
	}

	var b strings.Builder
	b.WriteString("namespace Risor.Generated.C09\n\n")
	b.WriteString("/-- package-level variables that are mutable in effect: (name, kind, Go type) -/\n")
	b.WriteString("def vars : List (String × String × String) := [\n")
	var vlist []*varInfo
	for _, vi := range vars {
		vlist = append(vlist, vi)
	}
	sort.Slice(vlist, func(i, j int) bool { return vlist[i].name < vlist[j].name })
	for i, vi := range vlist {
		sep := ","
		if i == len(vlist)-1 {
			sep = ""
		}
		fmt.Fprintf(&b, "  (%s, %s, %s)%s\n", q(vi.name), q(vi.kind), q(vi.typ), sep)
	}
	b.WriteString("]\n\n")
	b.WriteString("/-- access sites: (location, perObject, function, isWrite, must-hold locks (name, exclusive, perObject), initPhase);\n    readers of locations that are never written after initialisation are summarised as `<readers>` -/\n")
	b.WriteString("def sites : List (String × Bool × String × Bool × List (String × Bool × Bool) × Bool) := [\n")
	for i, k := range keys {
		sep := ","
		if i == len(keys)-1 {
			sep = ""
		}
		ph := initPhase[k.fn] || strings.HasSuffix(k.fn, ".<pkg-init>")
		fmt.Fprintf(&b, "  (%s, %v, %s, %v, %s, %v)%s\n", q(k.loc), perObj(k.loc), q(k.fn), k.write, qs(merged[k]), ph, sep)
	}
	b.WriteString("]\n\n")
	list := func(name, doc string, m map[string]bool) {
		var xs []string
		for k := range m {
			xs = append(xs, q(k))
		}
		sort.Strings(xs)
		fmt.Fprintf(&b, "/-- %s -/\ndef %s : List String := [%s]\n\n", doc, name, strings.Join(xs, ", "))
	}
	list("codeCalls", "methods of compiler.Code / compiler.Function called from packages vm and object", codeCalls)
	list("codeMut", "methods of compiler.Code / compiler.Function that assign to a field of their receiver", codeMut)
	list("codeLeak", "methods of compiler.Code / compiler.Function that return an internal slice/map field without copying", codeLeak)
	vw := map[string]bool{}
	for _, x := range vmCodeFieldWrites {
		vw[x] = true
	}
	list("vmCodeFieldWrites", "assignments in package vm to Instructions/Constants/Names/Code of an existing vm.code (outside its construction)", vw)

	// 5. host-only writers: unlocked eval-phase writers of package variables and who mentions them
	b.WriteString("/-- functions with an unlocked write to a package-level variable outside init, and the top-level\n    directories of the repository (non-test files) that mention the function's name -/\n")
	b.WriteString("def unlockedWriters : List (String × String × List String) := [\n")
	var uw []string
	for _, k := range keys {
		if !k.write || len(merged[k]) > 0 || initPhase[k.fn] || strings.HasSuffix(k.fn, ".<pkg-init>") || strings.Count(k.loc, ".") != 1 {
			continue
		}
		short := k.fn[strings.LastIndex(k.fn, ".")+1:]
		dirs := c09Mentions(repo, short)
		var ds []string
		for d := range dirs {
			ds = append(ds, q(d))
		}
		sort.Strings(ds)
		uw = append(uw, fmt.Sprintf("  (%s, %s, [%s])", q(k.loc), q(k.fn), strings.Join(ds, ", ")))
	}
	b.WriteString(strings.Join(uw, ",\n"))
	b.WriteString("\n]\n\n")
	// 6. objects handed out by registry-resident objects; where vm.Run's machine comes from
	{
		var stateVars []*types.Var
		for v, vi := range vars {
			if vi.kind == "state" {
				stateVars = append(stateVars, v)
			}
		}
		sort.Slice(stateVars, func(i, j int) bool { return vars[stateVars[i]].name < vars[stateVars[j]].name })
		b.WriteString(c09RegistryTables(scope, stateVars))
		b.WriteString(c09WideTables(repo, scope))
	}
	b.WriteString("end Risor.Generated.C09\n")
	return b.String()
}

// c09Mentions lists the top-level directories whose non-test Go files mention ident as a
// called name (syntactic; used only to show that a setter is host-configuration API).
func c09Mentions(repo, ident string) map[string]bool {
	out := map[string]bool{}
	fset := token.NewFileSet()
	filepath.Walk(repo, func(path string, fi os.FileInfo, err error) error {
		if err != nil {
			return nil
		}
		if fi.IsDir() {
			n := fi.Name()
			if path != repo && (strings.HasPrefix(n, ".") || n == "vendor" || n == "node_modules" || n == "testdata") {
				return filepath.SkipDir
			}
			return nil
		}
		if !strings.HasSuffix(path, ".go") || strings.HasSuffix(path, "_test.go") {
			return nil
		}
		src, err := os.ReadFile(path)
		if err != nil || !strings.Contains(string(src), ident) {
			return nil
		}
		f, err := parser.ParseFile(fset, path, src, parser.SkipObjectResolution)
		if err != nil {
			return nil
		}
		found := false
		ast.Inspect(f, func(n ast.Node) bool {
			ce, ok := n.(*ast.CallExpr)
			if !ok {
				return true
			}
			switch fe := ce.Fun.(type) {
			case *ast.Ident:
				if fe.Name == ident {
					found = true
				}
			case *ast.SelectorExpr:
				if fe.Sel.Name == ident {
					found = true
				}
			}
			return true
		})
		if found {
			rel, _ := filepath.Rel(repo, path)
			top := strings.Split(filepath.ToSlash(rel), "/")[0]
			if !strings.Contains(rel, string(filepath.Separator)) {
				top = "."
			}
			out[top] = true
		}
		return nil
	})
	return out
}

func init() {
	generators = append(generators, generator{"C09", c09Generate})
}

// ---------------------------------------------------------------------------------------
// 6. Objects handed out from process-wide registries, and the source of vm.Run's machine.
//
// registryTypes    the Risor object types (named structs of the packages in scope that implement
//                  object.Object) REACHABLE from package-level state variables through pointers, maps,
//                  slices, struct fields and — for interface-typed fields other than object.Object
//                  itself — the concrete types the code asserts / type-switches such interface values
//                  to (GoAttribute → GoField, GoMethod); with every type, the receiver fields that
//                  its methods assign.
// registryReturns  for every method of such a type with an object.Object result, and for every
//                  function literal with such a result built inside one (the builtins GetAttr hands
//                  out), where each returned object comes from:
//                    fresh   composite literal / &composite / new / a constructor of the packages in
//                            scope all of whose returns are (recursively) fresh
//                    field   read from a field of the resident object;  elem  an element of such a field
//                    global  a package-level variable;  self  the resident object;  param  an argument
//                    via     a call into another function whose result is not fresh
//                    extern / dyncall / other   anything this analysis cannot follow
//                  with the static Go type of the returned expression.  (`nil` results are dropped.)
// machineSources   for every function of package vm: where each *VirtualMachine it defines or returns
//                  comes from (new = &VirtualMachine{…}; call:<fn>; assert:<expr> = a type assertion,
//                  e.g. on the result of sync.Pool.Get; other:<expr>).

type c09Src struct{ kind, detail, typ string }

type c09FnCtx struct {
	p        *c09Pkg
	fobj     *types.Func
	recv     *types.Var
	params   map[*types.Var]bool
	body     *ast.BlockStmt
	implicit map[*types.Var]ast.Expr // type-switch clause variable → the switched expression
	results  []*types.Var            // named results
}

type c09Classifier struct {
	scope    []*c09Pkg
	inScope  map[*types.Package]bool
	decls    map[*types.Func]*c09FnCtx
	memo     map[string][]c09Src
	busy     map[string]bool
	pkgVars  map[*types.Var]string
	typeName func(types.Type) string
}

func c09ExprString(e ast.Expr) string {
	switch x := e.(type) {
	case *ast.Ident:
		return x.Name
	case *ast.SelectorExpr:
		return c09ExprString(x.X) + "." + x.Sel.Name
	case *ast.IndexExpr:
		return c09ExprString(x.X) + "[…]"
	case *ast.CallExpr:
		return c09ExprString(x.Fun) + "()"
	case *ast.ParenExpr:
		return c09ExprString(x.X)
	case *ast.StarExpr:
		return "*" + c09ExprString(x.X)
	case *ast.UnaryExpr:
		return x.Op.String() + c09ExprString(x.X)
	case *ast.TypeAssertExpr:
		return c09ExprString(x.X) + ".(T)"
	case *ast.CompositeLit:
		return "lit"
	case *ast.FuncLit:
		return "func"
	}
	return fmt.Sprintf("%T", e)
}

func (c *c09Classifier) newCtx(p *c09Pkg, fobj *types.Func, ft *ast.FuncType, recv *ast.FieldList, body *ast.BlockStmt, outer *c09FnCtx) *c09FnCtx {
	fc := &c09FnCtx{p: p, fobj: fobj, params: map[*types.Var]bool{}, body: body, implicit: map[*types.Var]ast.Expr{}}
	if outer != nil { // a function literal sees the enclosing function's receiver, parameters and locals
		fc.recv = outer.recv
		for k := range outer.params {
			fc.params[k] = true
		}
		for k, v := range outer.implicit {
			fc.implicit[k] = v
		}
		fc.body = outer.body
	}
	if recv != nil {
		for _, f := range recv.List {
			for _, n := range f.Names {
				if v, ok := p.info.Defs[n].(*types.Var); ok {
					fc.recv = v
				}
			}
		}
	}
	if ft.Params != nil {
		for _, f := range ft.Params.List {
			for _, n := range f.Names {
				if v, ok := p.info.Defs[n].(*types.Var); ok {
					fc.params[v] = true
				}
			}
		}
	}
	if ft.Results != nil {
		for _, f := range ft.Results.List {
			for _, n := range f.Names {
				if v, ok := p.info.Defs[n].(*types.Var); ok {
					fc.results = append(fc.results, v)
				}
			}
		}
	}
	if body != nil {
		ast.Inspect(body, func(n ast.Node) bool {
			ts, ok := n.(*ast.TypeSwitchStmt)
			if !ok {
				return true
			}
			var x ast.Expr
			switch a := ts.Assign.(type) {
			case *ast.AssignStmt:
				if ta, ok := a.Rhs[0].(*ast.TypeAssertExpr); ok {
					x = ta.X
				}
			case *ast.ExprStmt:
				if ta, ok := a.X.(*ast.TypeAssertExpr); ok {
					x = ta.X
				}
			}
			if x == nil {
				return true
			}
			for _, cl := range ts.Body.List {
				if v, ok := p.info.Implicits[cl].(*types.Var); ok {
					fc.implicit[v] = x
				}
			}
			return true
		})
	}
	return fc
}

// returnsOf: the sources of result idx of a declared function (memoised; a cycle contributes nothing)
func (c *c09Classifier) returnsOf(f *types.Func, idx int) []c09Src {
	key := fmt.Sprintf("%s#%d", c09FuncName(f), idx)
	if r, ok := c.memo[key]; ok {
		return r
	}
	if c.busy[key] {
		return nil
	}
	fc := c.decls[f]
	if fc == nil || fc.body == nil {
		return []c09Src{{"extern", c09FuncName(f), ""}}
	}
	c.busy[key] = true
	out := c.returnsIn(fc, fc.body, idx)
	delete(c.busy, key)
	c.memo[key] = out
	return out
}

// returnsIn: classify result idx of every return statement directly in body (not in nested literals)
func (c *c09Classifier) returnsIn(fc *c09FnCtx, body *ast.BlockStmt, idx int) []c09Src {
	var out []c09Src
	var walk func(n ast.Node) bool
	walk = func(n ast.Node) bool {
		switch s := n.(type) {
		case *ast.FuncLit:
			return false
		case *ast.ReturnStmt:
			switch {
			case len(s.Results) == 0:
				if idx < len(fc.results) {
					out = append(out, c.local(fc, fc.results[idx], 0)...)
				}
			case idx < len(s.Results):
				out = append(out, c.expr(fc, s.Results[idx], 0)...)
			case len(s.Results) == 1:
				out = append(out, c.exprAt(fc, s.Results[0], idx, 0)...)
			}
		}
		return true
	}
	ast.Inspect(body, walk)
	return out
}

func (c *c09Classifier) typeOf(fc *c09FnCtx, e ast.Expr) string {
	if tv, ok := fc.p.info.Types[e]; ok && tv.Type != nil {
		return c.typeName(tv.Type)
	}
	return "?"
}

// local: the sources of everything assigned to a local variable inside the function
func (c *c09Classifier) local(fc *c09FnCtx, v *types.Var, depth int) []c09Src {
	if depth > 6 {
		return []c09Src{{"other", "deep:" + v.Name(), c.typeName(v.Type())}}
	}
	if x, ok := fc.implicit[v]; ok {
		return c.expr(fc, x, depth+1)
	}
	var out []c09Src
	is := func(e ast.Expr) bool {
		id, ok := e.(*ast.Ident)
		if !ok {
			return false
		}
		return fc.p.info.Defs[id] == types.Object(v) || fc.p.info.Uses[id] == types.Object(v)
	}
	found := false
	ast.Inspect(fc.body, func(n ast.Node) bool {
		switch s := n.(type) {
		case *ast.AssignStmt:
			for i, lhs := range s.Lhs {
				if !is(lhs) {
					continue
				}
				found = true
				if len(s.Rhs) == len(s.Lhs) {
					out = append(out, c.expr(fc, s.Rhs[i], depth+1)...)
				} else if len(s.Rhs) == 1 {
					out = append(out, c.exprAt(fc, s.Rhs[0], i, depth+1)...)
				}
			}
		case *ast.ValueSpec:
			for i, n := range s.Names {
				if !is(n) {
					continue
				}
				found = true
				if len(s.Values) == len(s.Names) {
					out = append(out, c.expr(fc, s.Values[i], depth+1)...)
				} else if len(s.Values) == 1 {
					out = append(out, c.exprAt(fc, s.Values[0], i, depth+1)...)
				} else {
					out = append(out, c09Src{"nil", "", ""})
				}
			}
		case *ast.RangeStmt:
			if s.Value != nil && is(s.Value) {
				found = true
				for _, src := range c.expr(fc, s.X, depth+1) {
					if src.kind == "field" || src.kind == "elem" {
						out = append(out, c09Src{"elem", src.detail, c.typeName(v.Type())})
					} else {
						out = append(out, c09Src{src.kind, src.detail, c.typeName(v.Type())})
					}
				}
			}
			if s.Key != nil && is(s.Key) {
				found = true
				out = append(out, c09Src{"other", "range-key:" + c09ExprString(s.X), c.typeName(v.Type())})
			}
		}
		return true
	})
	if !found {
		out = append(out, c09Src{"other", "unassigned:" + v.Name(), c.typeName(v.Type())})
	}
	return out
}

// exprAt: result idx of a multi-valued expression (a call, a map index or a type assertion with ok)
func (c *c09Classifier) exprAt(fc *c09FnCtx, e ast.Expr, idx, depth int) []c09Src {
	switch x := e.(type) {
	case *ast.ParenExpr:
		return c.exprAt(fc, x.X, idx, depth)
	case *ast.CallExpr:
		return c.call(fc, x, idx, depth)
	}
	if idx == 0 {
		return c.expr(fc, e, depth)
	}
	return []c09Src{{"other", c09ExprString(e), "?"}}
}

func (c *c09Classifier) expr(fc *c09FnCtx, e ast.Expr, depth int) []c09Src {
	if depth > 8 {
		return []c09Src{{"other", "deep:" + c09ExprString(e), c.typeOf(fc, e)}}
	}
	info := fc.p.info
	switch x := e.(type) {
	case *ast.ParenExpr:
		return c.expr(fc, x.X, depth)
	case *ast.Ident:
		switch o := info.Uses[x].(type) {
		case *types.Nil:
			return []c09Src{{"nil", "", ""}}
		case *types.Var:
			if name, ok := c.pkgVars[o]; ok {
				return []c09Src{{"global", name, c.typeName(o.Type())}}
			}
			if o == fc.recv {
				return []c09Src{{"self", "", c.typeName(o.Type())}}
			}
			if fc.params[o] {
				return []c09Src{{"param", o.Name(), c.typeName(o.Type())}}
			}
			if o.IsField() {
				return []c09Src{{"other", "field-ident:" + o.Name(), c.typeName(o.Type())}}
			}
			return c.local(fc, o, depth+1)
		}
		return []c09Src{{"other", x.Name, c.typeOf(fc, e)}}
	case *ast.CompositeLit:
		return []c09Src{{"fresh", "", c.typeOf(fc, e)}}
	case *ast.FuncLit:
		return []c09Src{{"fresh", "", c.typeOf(fc, e)}}
	case *ast.BasicLit:
		return []c09Src{{"fresh", "", c.typeOf(fc, e)}}
	case *ast.UnaryExpr:
		if x.Op == token.AND {
			if _, ok := x.X.(*ast.CompositeLit); ok {
				return []c09Src{{"fresh", "", c.typeOf(fc, e)}}
			}
		}
		return []c09Src{{"other", c09ExprString(e), c.typeOf(fc, e)}}
	case *ast.TypeAssertExpr:
		var out []c09Src
		for _, s := range c.expr(fc, x.X, depth+1) {
			if s.kind != "nil" {
				s.typ = c.typeOf(fc, e)
			}
			out = append(out, s)
		}
		return out
	case *ast.SelectorExpr:
		if sel := info.Selections[x]; sel != nil && sel.Kind() == types.FieldVal {
			var out []c09Src
			for _, s := range c.expr(fc, x.X, depth+1) {
				switch s.kind {
				case "self":
					out = append(out, c09Src{"field", x.Sel.Name, c.typeOf(fc, e)})
				case "field", "elem":
					out = append(out, c09Src{s.kind, s.detail + "." + x.Sel.Name, c.typeOf(fc, e)})
				case "fresh":
					out = append(out, c09Src{"fresh", "", c.typeOf(fc, e)})
				default:
					out = append(out, c09Src{s.kind, s.detail + "." + x.Sel.Name, c.typeOf(fc, e)})
				}
			}
			return out
		}
		if o, ok := info.Uses[x.Sel].(*types.Var); ok { // pkg.Var
			if name, ok := c.pkgVars[o]; ok {
				return []c09Src{{"global", name, c.typeName(o.Type())}}
			}
		}
		return []c09Src{{"other", c09ExprString(e), c.typeOf(fc, e)}}
	case *ast.IndexExpr:
		var out []c09Src
		for _, s := range c.expr(fc, x.X, depth+1) {
			switch s.kind {
			case "field", "elem":
				out = append(out, c09Src{"elem", s.detail, c.typeOf(fc, e)})
			case "fresh": // an element of a container built here: whatever was put in; not followed
				out = append(out, c09Src{"other", "elem-of-fresh:" + c09ExprString(x.X), c.typeOf(fc, e)})
			default:
				out = append(out, c09Src{s.kind, s.detail + "[…]", c.typeOf(fc, e)})
			}
		}
		return out
	case *ast.CallExpr:
		return c.call(fc, x, 0, depth)
	}
	return []c09Src{{"other", c09ExprString(e), c.typeOf(fc, e)}}
}

func (c *c09Classifier) call(fc *c09FnCtx, call *ast.CallExpr, idx, depth int) []c09Src {
	info := fc.p.info
	resType := func() string {
		if tv, ok := info.Types[call]; ok && tv.Type != nil {
			if tup, ok := tv.Type.(*types.Tuple); ok {
				if idx < tup.Len() {
					return c.typeName(tup.At(idx).Type())
				}
				return "?"
			}
			return c.typeName(tv.Type)
		}
		return "?"
	}
	if tv, ok := info.Types[call.Fun]; ok && tv.IsType() && len(call.Args) == 1 { // conversion
		return c.expr(fc, call.Args[0], depth+1)
	}
	var callee types.Object
	var recvExpr ast.Expr
	switch f := call.Fun.(type) {
	case *ast.Ident:
		callee = info.Uses[f]
	case *ast.SelectorExpr:
		callee = info.Uses[f.Sel]
		if sel := info.Selections[f]; sel != nil {
			recvExpr = f.X
		}
	case *ast.ParenExpr:
		if id, ok := f.X.(*ast.Ident); ok {
			callee = info.Uses[id]
		}
	}
	switch o := callee.(type) {
	case *types.Builtin:
		if o.Name() == "new" || o.Name() == "make" {
			return []c09Src{{"fresh", "", resType()}}
		}
		return []c09Src{{"other", o.Name() + "()", resType()}}
	case *types.Func:
		if o.Pkg() == nil || !c.inScope[o.Pkg()] || c.decls[o] == nil {
			return []c09Src{{"extern", c09FuncName(o), resType()}}
		}
		onSelf := false
		if recvExpr != nil {
			if id, ok := recvExpr.(*ast.Ident); ok && fc.recv != nil && info.Uses[id] == types.Object(fc.recv) {
				onSelf = true
			}
		}
		var out []c09Src
		for _, s := range c.returnsOf(o, idx) {
			switch s.kind {
			case "fresh", "global", "nil", "extern", "dyncall", "via":
				out = append(out, s)
			case "self", "field", "elem":
				if onSelf {
					out = append(out, s)
				} else {
					out = append(out, c09Src{"via", c09FuncName(o) + ":" + s.kind + ":" + s.detail, s.typ})
				}
			default:
				out = append(out, c09Src{"via", c09FuncName(o) + ":" + s.kind + ":" + s.detail, s.typ})
			}
		}
		if len(out) == 0 { // only cycles: nothing but what the other returns already say
			return nil
		}
		return out
	case *types.Var:
		return []c09Src{{"dyncall", c09ExprString(call.Fun), resType()}}
	}
	return []c09Src{{"dyncall", c09ExprString(call.Fun), resType()}}
}

func c09RegistryTables(scope []*c09Pkg, stateVars []*types.Var) string {
	tname := func(t types.Type) string {
		return types.TypeString(t, func(q *types.Package) string { return q.Name() })
	}
	q := func(s string) string { return fmt.Sprintf("%q", s) }
	var objPkg, vmPkg *c09Pkg
	inScope := map[*types.Package]bool{}
	for _, p := range scope {
		inScope[p.pkg] = true
		switch c09ShortPkg(p.pkg) {
		case "object":
			objPkg = p
		case "vm":
			vmPkg = p
		}
	}
	if objPkg == nil || vmPkg == nil {
		panic("C09: packages object and vm must be in scope")
	}
	objectObj := objPkg.pkg.Scope().Lookup("Object")
	if objectObj == nil {
		panic("C09: object.Object not found")
	}
	objIface, _ := objectObj.Type().Underlying().(*types.Interface)
	isObjectIface := func(t types.Type) bool { return types.Identical(t, objectObj.Type()) }
	implementsObject := func(n *types.Named) bool {
		return objIface != nil && (types.Implements(types.NewPointer(n), objIface) || types.Implements(n, objIface))
	}

	// the concrete types interface values are asserted / switched to
	ifaceImpl := map[*types.TypeName]map[*types.Named]bool{}
	for _, p := range scope {
		note := func(x, te ast.Expr) {
			tv, ok := p.info.Types[x]
			if !ok || tv.Type == nil {
				return
			}
			n, ok := tv.Type.(*types.Named)
			if !ok {
				return
			}
			if _, isI := n.Underlying().(*types.Interface); !isI {
				return
			}
			ct, ok := p.info.Types[te]
			if !ok || ct.Type == nil {
				return
			}
			cn := c09NamedStruct(ct.Type)
			if cn == nil {
				return
			}
			if ifaceImpl[n.Obj()] == nil {
				ifaceImpl[n.Obj()] = map[*types.Named]bool{}
			}
			ifaceImpl[n.Obj()][cn] = true
		}
		for _, f := range p.files {
			ast.Inspect(f, func(n ast.Node) bool {
				switch s := n.(type) {
				case *ast.TypeAssertExpr:
					if s.Type != nil {
						note(s.X, s.Type)
					}
				case *ast.TypeSwitchStmt:
					var x ast.Expr
					switch a := s.Assign.(type) {
					case *ast.AssignStmt:
						if ta, ok := a.Rhs[0].(*ast.TypeAssertExpr); ok {
							x = ta.X
						}
					case *ast.ExprStmt:
						if ta, ok := a.X.(*ast.TypeAssertExpr); ok {
							x = ta.X
						}
					}
					if x != nil {
						for _, cl := range s.Body.List {
							for _, te := range cl.(*ast.CaseClause).List {
								note(x, te)
							}
						}
					}
				}
				return true
			})
		}
	}

	// reachability from package-level state
	resident := map[*types.Named]bool{}
	seen := map[types.Type]bool{}
	var visit func(t types.Type, depth int)
	visit = func(t types.Type, depth int) {
		if t == nil || depth > 14 || seen[t] {
			return
		}
		seen[t] = true
		switch x := t.(type) {
		case *types.Pointer:
			visit(x.Elem(), depth+1)
		case *types.Map:
			visit(x.Key(), depth+1)
			visit(x.Elem(), depth+1)
		case *types.Slice:
			visit(x.Elem(), depth+1)
		case *types.Array:
			visit(x.Elem(), depth+1)
		case *types.Struct:
			for i := 0; i < x.NumFields(); i++ {
				visit(x.Field(i).Type(), depth+1)
			}
		case *types.Named:
			if x.Obj().Pkg() == nil || !inScope[x.Obj().Pkg()] {
				return
			}
			switch u := x.Underlying().(type) {
			case *types.Struct:
				if implementsObject(x) {
					resident[x] = true
				}
				visit(u, depth+1)
			case *types.Interface:
				if isObjectIface(x) {
					return
				}
				var cs []*types.Named
				for cn := range ifaceImpl[x.Obj()] {
					cs = append(cs, cn)
				}
				sort.Slice(cs, func(i, j int) bool { return cs[i].Obj().Name() < cs[j].Obj().Name() })
				for _, cn := range cs {
					visit(cn, depth+1)
				}
			default:
				visit(u, depth+1)
			}
		}
	}
	for _, v := range stateVars {
		visit(v.Type(), 0)
	}
	var res []*types.Named
	for n := range resident {
		res = append(res, n)
	}
	sort.Slice(res, func(i, j int) bool { return tname(res[i]) < tname(res[j]) })

	// declarations
	cl := &c09Classifier{scope: scope, inScope: inScope, decls: map[*types.Func]*c09FnCtx{}, memo: map[string][]c09Src{}, busy: map[string]bool{},
		pkgVars: map[*types.Var]string{}, typeName: tname}
	type decl struct {
		p  *c09Pkg
		fd *ast.FuncDecl
		fo *types.Func
	}
	var decls []decl
	for _, p := range scope {
		sc := p.pkg.Scope()
		for _, n := range sc.Names() {
			if v, ok := sc.Lookup(n).(*types.Var); ok {
				cl.pkgVars[v] = c09ShortPkg(p.pkg) + "." + n
			}
		}
		for _, f := range p.files {
			for _, d := range f.Decls {
				fd, ok := d.(*ast.FuncDecl)
				if !ok {
					continue
				}
				fo, ok := p.info.Defs[fd.Name].(*types.Func)
				if !ok {
					continue
				}
				cl.decls[fo] = cl.newCtx(p, fo, fd.Type, fd.Recv, fd.Body, nil)
				decls = append(decls, decl{p, fd, fo})
			}
		}
	}
	recvNamed := func(fo *types.Func) *types.Named {
		sig, _ := fo.Type().(*types.Signature)
		if sig == nil || sig.Recv() == nil {
			return nil
		}
		t := sig.Recv().Type()
		if pt, ok := t.(*types.Pointer); ok {
			t = pt.Elem()
		}
		n, _ := t.(*types.Named)
		return n
	}

	// receiver fields assigned by methods
	fieldWrites := map[*types.Named]map[string]bool{}
	for _, d := range decls {
		n := recvNamed(d.fo)
		if n == nil || !resident[n] || d.fd.Body == nil {
			continue
		}
		fc := cl.decls[d.fo]
		var fieldOfRecv func(e ast.Expr) string
		fieldOfRecv = func(e ast.Expr) string {
			switch x := e.(type) {
			case *ast.ParenExpr:
				return fieldOfRecv(x.X)
			case *ast.IndexExpr:
				return fieldOfRecv(x.X)
			case *ast.StarExpr:
				return fieldOfRecv(x.X)
			case *ast.SelectorExpr:
				if id, ok := x.X.(*ast.Ident); ok && fc.recv != nil && d.p.info.Uses[id] == types.Object(fc.recv) {
					return x.Sel.Name
				}
				return fieldOfRecv(x.X)
			}
			return ""
		}
		ast.Inspect(d.fd.Body, func(nd ast.Node) bool {
			switch s := nd.(type) {
			case *ast.AssignStmt:
				for _, lhs := range s.Lhs {
					if f := fieldOfRecv(lhs); f != "" {
						if fieldWrites[n] == nil {
							fieldWrites[n] = map[string]bool{}
						}
						fieldWrites[n][f] = true
					}
				}
			case *ast.IncDecStmt:
				if f := fieldOfRecv(s.X); f != "" {
					if fieldWrites[n] == nil {
						fieldWrites[n] = map[string]bool{}
					}
					fieldWrites[n][f] = true
				}
			}
			return true
		})
	}

	var b strings.Builder
	b.WriteString("/-- Risor object types reachable from package-level state (registries, caches, singletons), each with\n    the receiver fields that its methods assign -/\n")
	b.WriteString("def registryTypes : List (String × List String) := [\n")
	for i, n := range res {
		var fs []string
		for f := range fieldWrites[n] {
			fs = append(fs, q(f))
		}
		sort.Strings(fs)
		sep := ","
		if i == len(res)-1 {
			sep = ""
		}
		fmt.Fprintf(&b, "  (%s, [%s])%s\n", q(tname(n)), strings.Join(fs, ", "), sep)
	}
	b.WriteString("]\n\n")

	// returns of Object-valued methods and of the function literals built inside them.  A LEAF type
	// (no pointer / map / slice / interface / func field besides the embedded *base: String, Int, Bool,
	// Byte, NilType) has nowhere to keep an object, so its `fresh` rows are dropped: what remains for it
	// are the globals / parameters / itself that it hands out.
	type row struct{ owner, kind, detail, typ string }
	rowSet := map[row]bool{}
	leaf := func(n *types.Named) bool {
		st, ok := n.Underlying().(*types.Struct)
		if !ok {
			return false
		}
		for i := 0; i < st.NumFields(); i++ {
			f := st.Field(i)
			if f.Embedded() && f.Name() == "base" {
				continue
			}
			switch f.Type().Underlying().(type) {
			case *types.Pointer, *types.Map, *types.Slice, *types.Interface, *types.Signature, *types.Chan, *types.Struct, *types.Array:
				return false
			}
		}
		return true
	}
	addRow := func(n *types.Named, r row) {
		if r.kind == "nil" || (r.kind == "fresh" && leaf(n)) {
			return
		}
		rowSet[r] = true
	}
	objResultIdx := func(sig *types.Signature) []int {
		var idx []int
		for i := 0; i < sig.Results().Len(); i++ {
			if isObjectIface(sig.Results().At(i).Type()) {
				idx = append(idx, i)
			}
		}
		return idx
	}
	for _, d := range decls {
		n := recvNamed(d.fo)
		if n == nil || !resident[n] || d.fd.Body == nil {
			continue
		}
		owner := c09FuncName(d.fo)
		sig := d.fo.Type().(*types.Signature)
		fc := cl.decls[d.fo]
		for _, i := range objResultIdx(sig) {
			for _, s := range cl.returnsIn(fc, d.fd.Body, i) {
				addRow(n, row{owner, s.kind, s.detail, s.typ})
			}
		}
		ast.Inspect(d.fd.Body, func(nd ast.Node) bool {
			fl, ok := nd.(*ast.FuncLit)
			if !ok {
				return true
			}
			tv, ok := d.p.info.Types[fl]
			if !ok {
				return true
			}
			lsig, ok := tv.Type.(*types.Signature)
			if !ok {
				return true
			}
			lc := cl.newCtx(d.p, d.fo, fl.Type, nil, fl.Body, fc)
			for _, i := range objResultIdx(lsig) {
				for _, s := range cl.returnsIn(lc, fl.Body, i) {
					addRow(n, row{owner + "$func", s.kind, s.detail, s.typ})
				}
			}
			return true
		})
	}
	var rows []row
	for r := range rowSet {
		rows = append(rows, r)
	}
	sort.Slice(rows, func(i, j int) bool {
		a, c := rows[i], rows[j]
		if a.owner != c.owner {
			return a.owner < c.owner
		}
		if a.kind != c.kind {
			return a.kind < c.kind
		}
		if a.detail != c.detail {
			return a.detail < c.detail
		}
		return a.typ < c.typ
	})
	b.WriteString("/-- (method, source kind, detail, Go type) of every object.Object returned by a method of a registry-resident\n    type or by a function literal built inside one (`$func`) -/\n")
	b.WriteString("def registryReturns : List (String × String × String × String) := [\n")
	for i, r := range rows {
		sep := ","
		if i == len(rows)-1 {
			sep = ""
		}
		fmt.Fprintf(&b, "  (%s, %s, %s, %s)%s\n", q(r.owner), q(r.kind), q(r.detail), q(r.typ), sep)
	}
	b.WriteString("]\n\n")

	// where machines come from
	var vmNamed *types.Named
	if o := vmPkg.pkg.Scope().Lookup("VirtualMachine"); o != nil {
		vmNamed, _ = o.Type().(*types.Named)
	}
	isVMPtr := func(t types.Type) bool {
		pt, ok := t.(*types.Pointer)
		if !ok || vmNamed == nil {
			return false
		}
		return types.Identical(pt.Elem(), vmNamed)
	}
	type ms struct{ fn, src string }
	msSet := map[ms]bool{}
	var srcOf func(p *c09Pkg, e ast.Expr) string
	srcOf = func(p *c09Pkg, e ast.Expr) string {
		switch x := e.(type) {
		case *ast.ParenExpr:
			return srcOf(p, x.X)
		case *ast.UnaryExpr:
			if x.Op == token.AND {
				if _, ok := x.X.(*ast.CompositeLit); ok {
					return "new"
				}
			}
		case *ast.TypeAssertExpr:
			return "assert:" + c09ExprString(x.X)
		case *ast.CallExpr:
			var callee types.Object
			switch f := x.Fun.(type) {
			case *ast.Ident:
				callee = p.info.Uses[f]
			case *ast.SelectorExpr:
				callee = p.info.Uses[f.Sel]
			}
			if fo, ok := callee.(*types.Func); ok {
				return "call:" + c09FuncName(fo)
			}
			if bo, ok := callee.(*types.Builtin); ok && bo.Name() == "new" {
				return "new"
			}
			return "other:" + c09ExprString(e)
		case *ast.Ident:
			if o, ok := p.info.Uses[x].(*types.Var); ok {
				if _, isPkg := cl.pkgVars[o]; isPkg {
					return "global:" + cl.pkgVars[o]
				}
				return "var:" + o.Name()
			}
		}
		return "other:" + c09ExprString(e)
	}
	for _, d := range decls {
		if d.p != vmPkg || d.fd.Body == nil {
			continue
		}
		fn := c09FuncName(d.fo)
		sig := d.fo.Type().(*types.Signature)
		var retIdx []int
		for i := 0; i < sig.Results().Len(); i++ {
			if isVMPtr(sig.Results().At(i).Type()) {
				retIdx = append(retIdx, i)
			}
		}
		ast.Inspect(d.fd.Body, func(nd ast.Node) bool {
			switch s := nd.(type) {
			case *ast.FuncLit:
				return false
			case *ast.AssignStmt:
				for i, lhs := range s.Lhs {
					id, ok := lhs.(*ast.Ident)
					if !ok {
						continue
					}
					var o types.Object = d.p.info.Defs[id]
					if o == nil {
						o = d.p.info.Uses[id]
					}
					v, ok := o.(*types.Var)
					if !ok || !isVMPtr(v.Type()) {
						continue
					}
					if len(s.Rhs) == len(s.Lhs) {
						msSet[ms{fn, srcOf(d.p, s.Rhs[i])}] = true
					} else if len(s.Rhs) == 1 {
						msSet[ms{fn, srcOf(d.p, s.Rhs[0])}] = true
					}
				}
			case *ast.ReturnStmt:
				for _, i := range retIdx {
					if i < len(s.Results) {
						if src := srcOf(d.p, s.Results[i]); !strings.HasPrefix(src, "var:") && src != "other:nil" {
							msSet[ms{fn, src}] = true
						}
					} else if len(s.Results) == 1 {
						msSet[ms{fn, srcOf(d.p, s.Results[0])}] = true
					}
				}
			}
			return true
		})
	}
	var mss []ms
	for m := range msSet {
		mss = append(mss, m)
	}
	sort.Slice(mss, func(i, j int) bool {
		if mss[i].fn != mss[j].fn {
			return mss[i].fn < mss[j].fn
		}
		return mss[i].src < mss[j].src
	})
	b.WriteString("/-- package vm: where every *VirtualMachine a function defines or returns comes from -/\n")
	b.WriteString("def machineSources : List (String × String) := [\n")
	for i, m := range mss {
		sep := ","
		if i == len(mss)-1 {
			sep = ""
		}
		fmt.Fprintf(&b, "  (%s, %s)%s\n", q(m.fn), q(m.src), sep)
	}
	b.WriteString("]\n\n")
	return b.String()
}

// ---------------------------------------------------------------------------------------
// 7. The halt flag of a machine, and the package-level state of the root package and of the
//    standard-library module packages.
//
// haltWrites   (function, how, what) for package vm: `x.halt = v` / `x.halt++` (how = assign), a call
//              that receives `&x.halt` (how = the callee when it is a sync/atomic store / swap / add,
//              `escapes:<callee>` otherwise; atomic loads are reads and are skipped), `&x.halt` anywhere
//              else (escapes:address-taken).  Inside a function literal the `how` is prefixed with
//              `go-literal:` (the literal is the operand of a go statement) or `literal:`.
// libVars      syntactic (go/parser only: the module packages import third-party code that is not
//              available offline): every non-blank package-level variable of the root package and of
//              each package below modules/ that a non-test file of the root package imports, with its
//              declared type (or the type of its initialiser) and the functions of its package in which
//              it is assigned, indexed-assigned, incremented, deleted from, cleared or has its address
//              taken (by name; shadowing is ignored, which can only add writers).

func c09WideTables(repo string, scope []*c09Pkg) string {
	q := func(s string) string { return fmt.Sprintf("%q", s) }
	var vmPkg *c09Pkg
	for _, p := range scope {
		if c09ShortPkg(p.pkg) == "vm" {
			vmPkg = p
		}
	}
	if vmPkg == nil {
		panic("C09: package vm must be in scope")
	}
	type hw struct{ fn, how, what string }
	hwSet := map[hw]bool{}
	isHalt := func(e ast.Expr) bool {
		for {
			if pe, ok := e.(*ast.ParenExpr); ok {
				e = pe.X
				continue
			}
			break
		}
		se, ok := e.(*ast.SelectorExpr)
		if !ok || se.Sel.Name != "halt" {
			return false
		}
		sel := vmPkg.info.Selections[se]
		if sel == nil || sel.Kind() != types.FieldVal {
			return false
		}
		n := c09NamedStruct(sel.Recv())
		return n != nil && n.Obj().Name() == "VirtualMachine"
	}
	for _, f := range vmPkg.files {
		for _, d := range f.Decls {
			fd, ok := d.(*ast.FuncDecl)
			if !ok || fd.Body == nil {
				continue
			}
			fo, _ := vmPkg.info.Defs[fd.Name].(*types.Func)
			if fo == nil {
				continue
			}
			fn := c09FuncName(fo)
			goLits := map[*ast.FuncLit]bool{}
			ast.Inspect(fd.Body, func(n ast.Node) bool {
				if gs, ok := n.(*ast.GoStmt); ok {
					if fl, ok := gs.Call.Fun.(*ast.FuncLit); ok {
						goLits[fl] = true
					}
				}
				return true
			})
			handled := map[*ast.UnaryExpr]bool{}
			var walk func(n ast.Node, prefix string)
			walk = func(n ast.Node, prefix string) {
				ast.Inspect(n, func(m ast.Node) bool {
					switch x := m.(type) {
					case *ast.FuncLit:
						if m == n {
							return true
						}
						pf := "literal:"
						if goLits[x] {
							pf = "go-literal:"
						}
						walk(x.Body, pf)
						return false
					case *ast.AssignStmt:
						for i, lhs := range x.Lhs {
							if isHalt(lhs) {
								what := "?"
								if len(x.Rhs) == len(x.Lhs) {
									what = types.ExprString(x.Rhs[i])
								}
								hwSet[hw{fn, prefix + "assign", what}] = true
							}
						}
					case *ast.IncDecStmt:
						if isHalt(x.X) {
							hwSet[hw{fn, prefix + "assign", x.Tok.String()}] = true
						}
					case *ast.CallExpr:
						for i, a := range x.Args {
							u, ok := a.(*ast.UnaryExpr)
							if !ok || u.Op != token.AND || !isHalt(u.X) {
								continue
							}
							handled[u] = true
							callee := types.ExprString(x.Fun)
							atomicPkg := false
							if se, ok := x.Fun.(*ast.SelectorExpr); ok {
								if id, ok := se.X.(*ast.Ident); ok {
									if pn, ok := vmPkg.info.Uses[id].(*types.PkgName); ok && pn.Imported().Path() == "sync/atomic" {
										atomicPkg = true
									}
								}
							}
							switch {
							case atomicPkg && strings.HasPrefix(callee, "atomic.Load"):
								// a read
							case atomicPkg && i == 0:
								what := "?"
								if len(x.Args) >= 2 {
									what = types.ExprString(x.Args[len(x.Args)-1])
								}
								hwSet[hw{fn, prefix + callee, what}] = true
							default:
								hwSet[hw{fn, prefix + "escapes:" + callee, types.ExprString(a)}] = true
							}
						}
					case *ast.UnaryExpr:
						if x.Op == token.AND && isHalt(x.X) && !handled[x] {
							hwSet[hw{fn, prefix + "escapes:address-taken", types.ExprString(x)}] = true
						}
					}
					return true
				})
			}
			walk(fd.Body, "")
		}
	}
	var hws []hw
	for h := range hwSet {
		hws = append(hws, h)
	}
	sort.Slice(hws, func(i, j int) bool {
		if hws[i].fn != hws[j].fn {
			return hws[i].fn < hws[j].fn
		}
		if hws[i].how != hws[j].how {
			return hws[i].how < hws[j].how
		}
		return hws[i].what < hws[j].what
	})
	var b strings.Builder
	b.WriteString("/-- package vm: every write of a machine's `halt` flag and every place its address goes: (function, how, what) -/\n")
	b.WriteString("def haltWrites : List (String × String × String) := [\n")
	for i, h := range hws {
		sep := ","
		if i == len(hws)-1 {
			sep = ""
		}
		fmt.Fprintf(&b, "  (%s, %s, %s)%s\n", q(h.fn), q(h.how), q(h.what), sep)
	}
	b.WriteString("]\n\n")

	// libVars
	ctx := build.Default
	ctx.CgoEnabled = false
	fset := token.NewFileSet()
	parseDir := func(dir string) []*ast.File {
		ents, err := os.ReadDir(dir)
		if err != nil {
			panic(fmt.Sprintf("C09: libVars: %v", err))
		}
		var files []*ast.File
		for _, e := range ents {
			n := e.Name()
			if e.IsDir() || !strings.HasSuffix(n, ".go") || strings.HasSuffix(n, "_test.go") {
				continue
			}
			if ok, _ := ctx.MatchFile(dir, n); !ok {
				continue
			}
			f, err := parser.ParseFile(fset, filepath.Join(dir, n), nil, parser.SkipObjectResolution)
			if err != nil {
				panic(fmt.Sprintf("C09: libVars: %v", err))
			}
			files = append(files, f)
		}
		return files
	}
	rootFiles := parseDir(repo)
	pkgDirs := map[string]bool{"": true}
	for _, f := range rootFiles {
		for _, im := range f.Imports {
			path := strings.Trim(im.Path.Value, "\"")
			if strings.HasPrefix(path, c09Mod+"/modules/") {
				pkgDirs[strings.TrimPrefix(path, c09Mod+"/")] = true
			}
		}
	}
	var dirs []string
	for d := range pkgDirs {
		dirs = append(dirs, d)
	}
	sort.Strings(dirs)
	type lv struct {
		name, typ string
		writers   []string
	}
	var lvs []lv
	for _, d := range dirs {
		files := rootFiles
		label := "risor"
		if d != "" {
			files = parseDir(filepath.Join(repo, d))
			label = d
		}
		vars := map[string]string{}
		for _, f := range files {
			for _, dc := range f.Decls {
				gd, ok := dc.(*ast.GenDecl)
				if !ok || gd.Tok != token.VAR {
					continue
				}
				for _, sp := range gd.Specs {
					vs := sp.(*ast.ValueSpec)
					for i, id := range vs.Names {
						if id.Name == "_" {
							continue
						}
						typ := "?"
						switch {
						case vs.Type != nil:
							typ = types.ExprString(vs.Type)
						case i < len(vs.Values):
							switch v := vs.Values[i].(type) {
							case *ast.CompositeLit:
								typ = types.ExprString(v.Type)
							case *ast.UnaryExpr:
								if cl, ok := v.X.(*ast.CompositeLit); ok && v.Op == token.AND {
									typ = "*" + types.ExprString(cl.Type)
								} else {
									typ = "expr"
								}
							case *ast.CallExpr:
								typ = "call:" + types.ExprString(v.Fun)
							case *ast.BasicLit:
								typ = "literal:" + strings.ToLower(v.Kind.String())
							default:
								typ = "expr"
							}
						}
						vars[id.Name] = typ
					}
				}
			}
		}
		if len(vars) == 0 {
			continue
		}
		writers := map[string]map[string]bool{}
		rootName := func(e ast.Expr) string {
			for {
				switch x := e.(type) {
				case *ast.Ident:
					return x.Name
				case *ast.ParenExpr:
					e = x.X
				case *ast.SelectorExpr:
					e = x.X
				case *ast.IndexExpr:
					e = x.X
				case *ast.StarExpr:
					e = x.X
				default:
					return ""
				}
			}
		}
		for _, f := range files {
			for _, dc := range f.Decls {
				fd, ok := dc.(*ast.FuncDecl)
				if !ok || fd.Body == nil {
					continue
				}
				fn := label + "." + fd.Name.Name
				if fd.Recv != nil && len(fd.Recv.List) == 1 {
					fn = label + "." + strings.TrimPrefix(types.ExprString(fd.Recv.List[0].Type), "*") + "." + fd.Name.Name
				}
				mark := func(e ast.Expr) {
					if n := rootName(e); n != "" {
						if _, ok := vars[n]; ok {
							if writers[n] == nil {
								writers[n] = map[string]bool{}
							}
							writers[n][fn] = true
						}
					}
				}
				ast.Inspect(fd.Body, func(n ast.Node) bool {
					switch x := n.(type) {
					case *ast.AssignStmt:
						if x.Tok != token.DEFINE {
							for _, lhs := range x.Lhs {
								mark(lhs)
							}
						}
					case *ast.IncDecStmt:
						mark(x.X)
					case *ast.UnaryExpr:
						if x.Op == token.AND {
							mark(x.X)
						}
					case *ast.CallExpr:
						if id, ok := x.Fun.(*ast.Ident); ok && (id.Name == "delete" || id.Name == "clear") && len(x.Args) > 0 {
							mark(x.Args[0])
						}
					}
					return true
				})
			}
		}
		var names []string
		for n := range vars {
			names = append(names, n)
		}
		sort.Strings(names)
		for _, n := range names {
			var ws []string
			for w := range writers[n] {
				ws = append(ws, w)
			}
			sort.Strings(ws)
			lvs = append(lvs, lv{label + "." + n, vars[n], ws})
		}
	}
	b.WriteString("/-- package-level variables of the root package and of the modules/* packages it imports (the standard\n    library of DefaultGlobals): (name, type, functions that write it) -/\n")
	b.WriteString("def libVars : List (String × String × List String) := [\n")
	for i, v := range lvs {
		sep := ","
		if i == len(lvs)-1 {
			sep = ""
		}
		var ws []string
		for _, w := range v.writers {
			ws = append(ws, q(w))
		}
		fmt.Fprintf(&b, "  (%s, %s, [%s])%s\n", q(v.name), q(v.typ), strings.Join(ws, ", "), sep)
	}
	b.WriteString("]\n\n")
	return b.String()
}
