package main

// E6: translation of a tiny Go subset to Lean definitions.
//
// Supported: parameters of type string / int64 / int / bool; local variables; assignment;
// `if` with optional else; early `return`; comparisons, + - on ints, && || !; calls to an
// allow-listed set of library functions; string literals; `(T, error)` results where the
// error expression is mapped to a constructor by the per-function configuration.
// Statements after a non-returning `if` are duplicated into both branches (continuation
// passing), so the output is a plain if/let tree that `split`/`omega` handle well.
// Anything outside the subset makes the extractor FAIL LOUDLY (exit 1): the tie is then
// reported broken instead of being silently wrong.
//
// Upward-compatible extensions (all off unless the per-function configuration asks for them;
// a configuration that uses none of the new fields is translated exactly as before):
//   * `else if` chains (the inner `if` is translated as the else block);
//   * named results (`Named`): `let r : Int := 0` for each at the top, `err = <call>` records the
//     error on the current path, a bare `return` yields the recorded error or Ok(named…);
//     `return a, b, nil` with any number of values;
//   * the error term chosen by the call that builds the error (`ErrBy`);
//   * selector expressions `x.f` mapped to Lean identifiers (`Sel`), field reads `v.f` of a
//     local mapped to a Lean function (`Field`), comparisons with nil (`NotNil` / `IsNil`),
//     comma-ok type assertions `v, ok := x.(*T)` (`Assert`, `AssertOk`);
//   * methods (`Recv`), whole expressions / statements mapped by their printed source text
//     (`Exprs`, `Acts`: a statement mapped to a Lean term becomes the ACTION the function
//     returns at the next `return`/end of body, a statement mapped to "" is part of the
//     previous action) for `func (…) M(…)` without results whose effect is one of a few
//     slice operations chosen by index arithmetic;
//   * integer `*` and `/` `%` are still outside the subset.

import (
	"fmt"
	"go/ast"
	"go/parser"
	"go/printer"
	"go/token"
	"strconv"
	"strings"
)

type FuncCfg struct {
	File     string            // path under the repo
	Func     string            // Go function name
	Lean     string            // Lean definition name
	Params   map[string]string // Go param name -> Lean type ("" = dropped)
	Order    []string          // parameter order in Lean
	Calls    map[string]string // "pkg.Func" -> Lean function
	RetType  string            // Lean result type
	Ok       string            // format for success, e.g. ".ok %s"
	Err      string            // Lean term for every error return
	StrAsLst bool              // string literals become byte lists

	// extensions (see the header comment); zero values = the original subset
	Named    []string          // named non-error results, in order (initialised to 0)
	ErrName  string            // name of the named error result ("err")
	ErrBy    map[string]string // "pkg.Func" building the error -> Lean term (fallback: Err)
	Sel      map[string]string // printed selector expression "x.f" -> Lean identifier
	Field    map[string]string // field name f in `v.f` (v a local) -> Lean function
	NotNil   string            // Lean function for `x != nil`
	IsNil    string            // Lean function for `x == nil`
	Assert   map[string]string // asserted type, printed ("*Int") -> Lean function
	AssertOk string            // Lean function giving the `ok` of an assertion result
	Recv     bool              // the function is a method
	Exprs    map[string]string // printed expression -> Lean term (checked first)
	Acts     map[string]string // printed statement -> Lean action term, "" = no action of its own
}

func (t *tr) src(n ast.Node) string {
	var b strings.Builder
	if err := printer.Fprint(&b, t.fset, n); err != nil {
		t.fail(n, "cannot print node")
	}
	return b.String()
}

type tr struct {
	cfg  FuncCfg
	fset *token.FileSet
}

func (t *tr) fail(n ast.Node, msg string) {
	panic(fmt.Sprintf("translate %s.%s: %s at %s", t.cfg.File, t.cfg.Func, msg, t.fset.Position(n.Pos())))
}

func byteList(s string) string {
	if s == "" {
		return "[]"
	}
	parts := make([]string, len(s))
	for i := 0; i < len(s); i++ {
		parts[i] = strconv.Itoa(int(s[i]))
	}
	return "[" + strings.Join(parts, ", ") + "]"
}

func (t *tr) expr(e ast.Expr) string {
	if len(t.cfg.Exprs) > 0 {
		if lean, ok := t.cfg.Exprs[t.src(e)]; ok {
			return lean
		}
	}
	switch x := e.(type) {
	case *ast.SelectorExpr:
		if lean, ok := t.cfg.Sel[t.src(x)]; ok {
			return lean
		}
		if id, ok := x.X.(*ast.Ident); ok {
			if fn, ok := t.cfg.Field[x.Sel.Name]; ok {
				return "(" + fn + " " + id.Name + ")"
			}
		}
	case *ast.Ident:
		if x.Name == "true" || x.Name == "false" {
			return x.Name
		}
		return x.Name
	case *ast.BasicLit:
		switch x.Kind {
		case token.INT:
			return x.Value
		case token.STRING:
			s, err := strconv.Unquote(x.Value)
			if err != nil {
				t.fail(e, "bad string literal")
			}
			if t.cfg.StrAsLst {
				return byteList(s)
			}
			return strconv.Quote(s)
		}
	case *ast.ParenExpr:
		return "(" + t.expr(x.X) + ")"
	case *ast.UnaryExpr:
		switch x.Op {
		case token.NOT:
			return "(!" + t.expr(x.X) + ")"
		case token.SUB:
			return "(-" + t.expr(x.X) + ")"
		}
	case *ast.BinaryExpr:
		if isNil(x.Y) && x.Op == token.NEQ && t.cfg.NotNil != "" {
			return "(" + t.cfg.NotNil + " " + t.expr(x.X) + ")"
		}
		if isNil(x.Y) && x.Op == token.EQL && t.cfg.IsNil != "" {
			return "(" + t.cfg.IsNil + " " + t.expr(x.X) + ")"
		}
		l, r := t.expr(x.X), t.expr(x.Y)
		switch x.Op {
		case token.ADD:
			return "(" + l + " + " + r + ")"
		case token.SUB:
			return "(" + l + " - " + r + ")"
		case token.LAND:
			return "(" + l + " && " + r + ")"
		case token.LOR:
			return "(" + l + " || " + r + ")"
		case token.EQL:
			return "(" + l + " == " + r + ")"
		case token.NEQ:
			return "(" + l + " != " + r + ")"
		case token.LSS:
			return "(decide (" + l + " < " + r + "))"
		case token.LEQ:
			return "(decide (" + l + " ≤ " + r + "))"
		case token.GTR:
			return "(decide (" + l + " > " + r + "))"
		case token.GEQ:
			return "(decide (" + l + " ≥ " + r + "))"
		}
	case *ast.CallExpr:
		name := ""
		switch f := x.Fun.(type) {
		case *ast.SelectorExpr:
			if id, ok := f.X.(*ast.Ident); ok {
				name = id.Name + "." + f.Sel.Name
			}
		case *ast.Ident:
			name = f.Name
		}
		lean, ok := t.cfg.Calls[name]
		if !ok {
			t.fail(e, "call to "+name+" is outside the subset")
		}
		args := make([]string, len(x.Args))
		for i, a := range x.Args {
			args[i] = t.expr(a)
		}
		return "(" + lean + " " + strings.Join(args, " ") + ")"
	}
	t.fail(e, fmt.Sprintf("expression %T is outside the subset", e))
	return ""
}

func isNil(e ast.Expr) bool {
	id, ok := e.(*ast.Ident)
	return ok && id.Name == "nil"
}

// pathState is what the extensions remember along one control path.
type pathState struct {
	errTerm string // Lean term of the error recorded by `err = …` ("" = none)
	act     string // Lean term of the action chosen by a mapped statement ("" = none)
}

// stmts translates a statement list in continuation-passing style.
func (t *tr) stmts(ss []ast.Stmt, ind string) string { return t.stmtsX(ss, ind, pathState{}) }

func (t *tr) errTermOf(e ast.Expr) string {
	if call, ok := e.(*ast.CallExpr); ok && len(t.cfg.ErrBy) > 0 {
		name := ""
		switch f := call.Fun.(type) {
		case *ast.SelectorExpr:
			if id, ok := f.X.(*ast.Ident); ok {
				name = id.Name + "." + f.Sel.Name
			}
		case *ast.Ident:
			name = f.Name
		}
		if lean, ok := t.cfg.ErrBy[name]; ok {
			return lean
		}
		t.fail(e, "error built by "+name+" has no configured class")
	}
	return t.cfg.Err
}

func (t *tr) okOf(vals []string) string {
	args := make([]interface{}, len(vals))
	for i, v := range vals {
		args[i] = v
	}
	return fmt.Sprintf(t.cfg.Ok, args...)
}

func (t *tr) stmtsX(ss []ast.Stmt, ind string, st pathState) string {
	if len(ss) == 0 {
		if t.cfg.Acts != nil && st.act != "" {
			return ind + st.act // a method without results ends with the action it chose
		}
		t.fail(&ast.BadStmt{}, "control reaches the end of the function without return")
	}
	s, rest := ss[0], ss[1:]
	if t.cfg.Acts != nil {
		if lean, ok := t.cfg.Acts[t.src(s)]; ok {
			if lean != "" {
				if st.act != "" {
					t.fail(s, "second action on one path")
				}
				st.act = lean
			} else if st.act == "" {
				t.fail(s, "continuation statement without an action before it")
			}
			return t.stmtsX(rest, ind, st)
		}
	}
	switch x := s.(type) {
	case *ast.ReturnStmt:
		if len(x.Results) == 0 && t.cfg.Acts != nil {
			if st.act == "" {
				t.fail(s, "return without an action")
			}
			return ind + st.act
		}
		if len(x.Results) == 0 && len(t.cfg.Named) > 0 {
			if st.errTerm != "" {
				return ind + st.errTerm
			}
			return ind + t.okOf(t.cfg.Named)
		}
		if len(t.cfg.Named) > 0 {
			if len(x.Results) != len(t.cfg.Named)+1 {
				t.fail(s, "return must have one value per named result")
			}
			if !isNil(x.Results[len(x.Results)-1]) {
				return ind + t.errTermOf(x.Results[len(x.Results)-1])
			}
			vals := make([]string, len(t.cfg.Named))
			for i := range vals {
				vals[i] = t.expr(x.Results[i])
			}
			return ind + t.okOf(vals)
		}
		if len(x.Results) != 2 {
			t.fail(s, "return must have two results")
		}
		if isNil(x.Results[1]) {
			return ind + fmt.Sprintf(t.cfg.Ok, t.expr(x.Results[0]))
		}
		return ind + t.errTermOf(x.Results[1])
	case *ast.AssignStmt:
		// v, ok := x.(*T)
		if len(x.Lhs) == 2 && len(x.Rhs) == 1 && x.Tok == token.DEFINE && t.cfg.Assert != nil {
			if ta, ok := x.Rhs[0].(*ast.TypeAssertExpr); ok && ta.Type != nil {
				fn, known := t.cfg.Assert[t.src(ta.Type)]
				v, ok1 := x.Lhs[0].(*ast.Ident)
				okv, ok2 := x.Lhs[1].(*ast.Ident)
				if !known || !ok1 || !ok2 || t.cfg.AssertOk == "" {
					t.fail(s, "type assertion outside the subset")
				}
				return ind + "let " + v.Name + " := (" + fn + " " + t.expr(ta.X) + ")\n" +
					ind + "let " + okv.Name + " := (" + t.cfg.AssertOk + " " + v.Name + ")\n" + t.stmtsX(rest, ind, st)
			}
		}
		if len(x.Lhs) != 1 || len(x.Rhs) != 1 {
			t.fail(s, "only single assignment")
		}
		id, ok := x.Lhs[0].(*ast.Ident)
		if !ok {
			t.fail(s, "assignment target must be a variable")
		}
		if t.cfg.ErrName != "" && id.Name == t.cfg.ErrName {
			if x.Tok != token.ASSIGN || isNil(x.Rhs[0]) {
				t.fail(s, "only `err = <error>` is inside the subset")
			}
			st.errTerm = t.errTermOf(x.Rhs[0])
			return t.stmtsX(rest, ind, st)
		}
		rhs := t.expr(x.Rhs[0])
		switch x.Tok {
		case token.ASSIGN, token.DEFINE:
		case token.ADD_ASSIGN:
			rhs = "(" + id.Name + " + " + rhs + ")"
		case token.SUB_ASSIGN:
			rhs = "(" + id.Name + " - " + rhs + ")"
		default:
			t.fail(s, "assignment operator outside the subset")
		}
		return ind + "let " + id.Name + " := " + rhs + "\n" + t.stmtsX(rest, ind, st)
	case *ast.IfStmt:
		if x.Init != nil {
			t.fail(s, "if with init statement")
		}
		c := t.expr(x.Cond)
		thenS := append(append([]ast.Stmt{}, x.Body.List...), rest...)
		var elseS []ast.Stmt
		switch el := x.Else.(type) {
		case nil:
			elseS = rest
		case *ast.BlockStmt:
			elseS = append(append([]ast.Stmt{}, el.List...), rest...)
		case *ast.IfStmt:
			// `else if`: the inner if is the whole else block
			elseS = append([]ast.Stmt{el}, rest...)
		default:
			t.fail(s, "else branch outside the subset")
		}
		return ind + "if " + c + " then\n" + t.stmtsX(thenS, ind+"  ", st) + "\n" + ind + "else\n" + t.stmtsX(elseS, ind+"  ", st)
	}
	t.fail(s, fmt.Sprintf("statement %T is outside the subset", s))
	return ""
}

func translateFunc(repo string, cfg FuncCfg) string {
	fset := token.NewFileSet()
	f, err := parser.ParseFile(fset, repo+"/"+cfg.File, nil, 0)
	if err != nil {
		panic(err)
	}
	for _, d := range f.Decls {
		fd, ok := d.(*ast.FuncDecl)
		if !ok || fd.Name.Name != cfg.Func || (fd.Recv != nil) != cfg.Recv {
			continue
		}
		t := &tr{cfg: cfg, fset: fset}
		// every Go parameter must be configured
		for _, p := range fd.Type.Params.List {
			for _, n := range p.Names {
				if _, ok := cfg.Params[n.Name]; !ok {
					t.fail(p, "unconfigured parameter "+n.Name)
				}
			}
		}
		var ps []string
		for _, n := range cfg.Order {
			ps = append(ps, "("+n+" : "+cfg.Params[n]+")")
		}
		pre := ""
		for _, n := range cfg.Named {
			pre += "  let " + n + " : Int := 0\n"
		}
		body := pre + t.stmts(fd.Body.List, "  ")
		return "def " + cfg.Lean + " " + strings.Join(ps, " ") + " : " + cfg.RetType + " :=\n" + body + "\n"
	}
	panic("function " + cfg.Func + " not found in " + cfg.File)
}
