package main

// E6: translation of a tiny Go subset to Lean definitions.
//
// Supported: parameters of type string / int64 / int / bool; local variables; assignment;
// `if` with optional else; early `return`; comparisons, + - on ints, && || !; calls to an
// allow-listed set of library functions; string literals; `(T, error)` results where the
// error expression is mapped to a constructor by the per-function configuration.
// Statements after a non-returning `if` are duplicated into both branches (continuation
// passing), so the output is a plain if/let tree that `split`/`omega` handle well.
// Anything outside the subset makes the extractor FAIL LOUDLY (exit 1): the tie is then
// reported broken instead of being silently wrong.

import (
	"fmt"
	"go/ast"
	"go/parser"
	"go/token"
	"strconv"
	"strings"
)

type FuncCfg struct {
	File     string            // path under the repo
	Func     string            // Go function name
	Lean     string            // Lean definition name
	Params   map[string]string // Go param name -> Lean type ("" = dropped)
	Order    []string          // parameter order in Lean
	Calls    map[string]string // "pkg.Func" -> Lean function
	RetType  string            // Lean result type
	Ok       string            // format for success, e.g. ".ok %s"
	Err      string            // Lean term for every error return
	StrAsLst bool              // string literals become byte lists
}

type tr struct {
	cfg  FuncCfg
	fset *token.FileSet
}

func (t *tr) fail(n ast.Node, msg string) {
	panic(fmt.Sprintf("translate %s.%s: %s at %s", t.cfg.File, t.cfg.Func, msg, t.fset.Position(n.Pos())))
}

func byteList(s string) string {
	if s == "" {
		return "[]"
	}
	parts := make([]string, len(s))
	for i := 0; i < len(s); i++ {
		parts[i] = strconv.Itoa(int(s[i]))
	}
	return "[" + strings.Join(parts, ", ") + "]"
}

func (t *tr) expr(e ast.Expr) string {
	switch x := e.(type) {
	case *ast.Ident:
		if x.Name == "true" || x.Name == "false" {
			return x.Name
		}
		return x.Name
	case *ast.BasicLit:
		switch x.Kind {
		case token.INT:
			return x.Value
		case token.STRING:
			s, err := strconv.Unquote(x.Value)
			if err != nil {
				t.fail(e, "bad string literal")
			}
			if t.cfg.StrAsLst {
				return byteList(s)
			}
			return strconv.Quote(s)
		}
	case *ast.ParenExpr:
		return "(" + t.expr(x.X) + ")"
	case *ast.UnaryExpr:
		switch x.Op {
		case token.NOT:
			return "(!" + t.expr(x.X) + ")"
		case token.SUB:
			return "(-" + t.expr(x.X) + ")"
		}
	case *ast.BinaryExpr:
		l, r := t.expr(x.X), t.expr(x.Y)
		switch x.Op {
		case token.ADD:
			return "(" + l + " + " + r + ")"
		case token.SUB:
			return "(" + l + " - " + r + ")"
		case token.LAND:
			return "(" + l + " && " + r + ")"
		case token.LOR:
			return "(" + l + " || " + r + ")"
		case token.EQL:
			return "(" + l + " == " + r + ")"
		case token.NEQ:
			return "(" + l + " != " + r + ")"
		case token.LSS:
			return "(decide (" + l + " < " + r + "))"
		case token.LEQ:
			return "(decide (" + l + " ≤ " + r + "))"
		case token.GTR:
			return "(decide (" + l + " > " + r + "))"
		case token.GEQ:
			return "(decide (" + l + " ≥ " + r + "))"
		}
	case *ast.CallExpr:
		name := ""
		switch f := x.Fun.(type) {
		case *ast.SelectorExpr:
			if id, ok := f.X.(*ast.Ident); ok {
				name = id.Name + "." + f.Sel.Name
			}
		case *ast.Ident:
			name = f.Name
		}
		lean, ok := t.cfg.Calls[name]
		if !ok {
			t.fail(e, "call to "+name+" is outside the subset")
		}
		args := make([]string, len(x.Args))
		for i, a := range x.Args {
			args[i] = t.expr(a)
		}
		return "(" + lean + " " + strings.Join(args, " ") + ")"
	}
	t.fail(e, fmt.Sprintf("expression %T is outside the subset", e))
	return ""
}

func isNil(e ast.Expr) bool {
	id, ok := e.(*ast.Ident)
	return ok && id.Name == "nil"
}

// stmts translates a statement list in continuation-passing style.
func (t *tr) stmts(ss []ast.Stmt, ind string) string {
	if len(ss) == 0 {
		t.fail(&ast.BadStmt{}, "control reaches the end of the function without return")
	}
	s, rest := ss[0], ss[1:]
	switch x := s.(type) {
	case *ast.ReturnStmt:
		if len(x.Results) != 2 {
			t.fail(s, "return must have two results")
		}
		if isNil(x.Results[1]) {
			return ind + fmt.Sprintf(t.cfg.Ok, t.expr(x.Results[0]))
		}
		return ind + t.cfg.Err
	case *ast.AssignStmt:
		if len(x.Lhs) != 1 || len(x.Rhs) != 1 {
			t.fail(s, "only single assignment")
		}
		id, ok := x.Lhs[0].(*ast.Ident)
		if !ok {
			t.fail(s, "assignment target must be a variable")
		}
		rhs := t.expr(x.Rhs[0])
		switch x.Tok {
		case token.ASSIGN, token.DEFINE:
		case token.ADD_ASSIGN:
			rhs = "(" + id.Name + " + " + rhs + ")"
		case token.SUB_ASSIGN:
			rhs = "(" + id.Name + " - " + rhs + ")"
		default:
			t.fail(s, "assignment operator outside the subset")
		}
		return ind + "let " + id.Name + " := " + rhs + "\n" + t.stmts(rest, ind)
	case *ast.IfStmt:
		if x.Init != nil {
			t.fail(s, "if with init statement")
		}
		c := t.expr(x.Cond)
		thenS := append(append([]ast.Stmt{}, x.Body.List...), rest...)
		var elseS []ast.Stmt
		switch el := x.Else.(type) {
		case nil:
			elseS = rest
		case *ast.BlockStmt:
			elseS = append(append([]ast.Stmt{}, el.List...), rest...)
		default:
			t.fail(s, "else-if chains are outside the subset")
		}
		return ind + "if " + c + " then\n" + t.stmts(thenS, ind+"  ") + "\n" + ind + "else\n" + t.stmts(elseS, ind+"  ")
	}
	t.fail(s, fmt.Sprintf("statement %T is outside the subset", s))
	return ""
}

func translateFunc(repo string, cfg FuncCfg) string {
	fset := token.NewFileSet()
	f, err := parser.ParseFile(fset, repo+"/"+cfg.File, nil, 0)
	if err != nil {
		panic(err)
	}
	for _, d := range f.Decls {
		fd, ok := d.(*ast.FuncDecl)
		if !ok || fd.Name.Name != cfg.Func || fd.Recv != nil {
			continue
		}
		t := &tr{cfg: cfg, fset: fset}
		// every Go parameter must be configured
		for _, p := range fd.Type.Params.List {
			for _, n := range p.Names {
				if _, ok := cfg.Params[n.Name]; !ok {
					t.fail(p, "unconfigured parameter "+n.Name)
				}
			}
		}
		var ps []string
		for _, n := range cfg.Order {
			ps = append(ps, "("+n+" : "+cfg.Params[n]+")")
		}
		body := t.stmts(fd.Body.List, "  ")
		return "def " + cfg.Lean + " " + strings.Join(ps, " ") + " : " + cfg.RetType + " :=\n" + body + "\n"
	}
	panic("function " + cfg.Func + " not found in " + cfg.File)
}
