package main

// C06: structural facts of the halt test in vm/vm.go `eval` and of who writes `vm.halt`.
//
// The thread model of C06 stops a thread at the next poll whenever the flag is raised,
// WHATEVER context the running `eval` was handed (`pollImpl`: the decision reads only the
// flag; `halt_honoured_any_callee_ctx`).  That is a fact about the text of `eval`:
//
//	for vm.ip < len(...) {
//	    if atomic.LoadInt32(&vm.halt) == 1 { return ctx.Err() }
//
// — the condition does not mention ctx, the body is one unconditional return, nothing in
// `eval`/`callFunction`/`callObject` ever stores to the flag (only `start`, its watcher and
// `resetForNewCode` do), `callFunction` hands the context IT was given to `eval`, and the
// public callback API (`object.WithCallFunc`) is `vm.callFunction` itself.  The deferred calls
// of a frame are run by ONE Go-level defer of `callFunction` whose first statement is the loop
// over `callFrame.defers`, each through `vm.callObject(ctx, …)` with the same context, and
// nothing in it mentions the halt flag (model: `leaveT` — a deferred closure's first
// instruction polls the flag like any other; `halt_stops_deferred_calls`).  The top-level code
// of an imported module is evaluated by `importModule(ctx, …)` with `vm.eval(ctx)` — the context
// the importing `eval` runs under, handed over by every call site in `eval` unchanged (model:
// code inside an `.imp` frame sees the same signal as the code around it; `stepImp .follows`).
// The facts are regenerated on every run and compared with the model's expectations in
// C06/Ties.lean.

import (
	"fmt"
	"go/ast"
	"go/parser"
	"go/token"
	"go/types"
	"os"
	"path/filepath"
	"sort"
	"strings"
)

func init() {
	generators = append(generators, generator{"C06", func(repo string) string {
		fset := token.NewFileSet()
		str := func(e ast.Node) string {
			if e == nil {
				return ""
			}
			switch n := e.(type) {
			case ast.Expr:
				return types.ExprString(n)
			case *ast.ReturnStmt:
				rs := make([]string, len(n.Results))
				for i, r := range n.Results {
					rs[i] = types.ExprString(r)
				}
				if len(rs) == 0 {
					return "return"
				}
				return "return " + strings.Join(rs, ", ")
			case *ast.ExprStmt:
				return types.ExprString(n.X)
			case *ast.AssignStmt:
				l := make([]string, len(n.Lhs))
				for i, x := range n.Lhs {
					l[i] = types.ExprString(x)
				}
				r := make([]string, len(n.Rhs))
				for i, x := range n.Rhs {
					r[i] = types.ExprString(x)
				}
				return strings.Join(l, ", ") + " " + n.Tok.String() + " " + strings.Join(r, ", ")
			case *ast.IfStmt:
				return "if " + types.ExprString(n.Cond) + " {…}"
			}
			return fmt.Sprintf("%T", e)
		}

		// every non-test, non-verif file of package vm
		dir := filepath.Join(repo, "vm")
		ents, err := os.ReadDir(dir)
		if err != nil {
			panic(err)
		}
		var files []*ast.File
		var vmFile *ast.File
		for _, en := range ents {
			n := en.Name()
			if !strings.HasSuffix(n, ".go") || strings.HasSuffix(n, "_test.go") || strings.HasPrefix(n, "verif_") {
				continue
			}
			f, err := parser.ParseFile(fset, filepath.Join(dir, n), nil, 0)
			if err != nil {
				panic(err)
			}
			files = append(files, f)
			if n == "vm.go" {
				vmFile = f
			}
		}
		if vmFile == nil {
			panic("vm/vm.go not found")
		}
		method := func(name string) *ast.FuncDecl {
			for _, d := range vmFile.Decls {
				if fd, ok := d.(*ast.FuncDecl); ok && fd.Name.Name == name && fd.Recv != nil && fd.Body != nil {
					return fd
				}
			}
			panic("vm/vm.go: method " + name + " not found")
		}
		mentions := func(n ast.Node, ident string) bool {
			found := false
			ast.Inspect(n, func(m ast.Node) bool {
				if id, ok := m.(*ast.Ident); ok && id.Name == ident {
					found = true
				}
				return true
			})
			return found
		}
		isHalt := func(e ast.Expr) bool { // x.halt or &x.halt
			if u, ok := e.(*ast.UnaryExpr); ok && u.Op == token.AND {
				e = u.X
			}
			sel, ok := e.(*ast.SelectorExpr)
			return ok && sel.Sel.Name == "halt"
		}
		// writes to a `.halt` field inside a node: assignments, ++/--, atomic Store/Swap/CAS/Add/And/Or
		haltWrites := func(n ast.Node) []string {
			var out []string
			ast.Inspect(n, func(m ast.Node) bool {
				switch x := m.(type) {
				case *ast.AssignStmt:
					for _, l := range x.Lhs {
						if isHalt(l) {
							out = append(out, str(x))
						}
					}
				case *ast.IncDecStmt:
					if isHalt(x.X) {
						out = append(out, types.ExprString(x.X)+x.Tok.String())
					}
				case *ast.CallExpr:
					if sel, ok := x.Fun.(*ast.SelectorExpr); ok && len(x.Args) > 0 && isHalt(x.Args[0]) {
						if !strings.HasPrefix(sel.Sel.Name, "Load") {
							out = append(out, types.ExprString(x))
						}
					}
				}
				return true
			})
			return out
		}

		eval, callFn, callObj, initCtx := method("eval"), method("callFunction"), method("callObject"), method("initContext")
		importMod := method("importModule")

		// the dispatch loop of eval: the first `for` statement of its body
		var loop *ast.ForStmt
		for _, st := range eval.Body.List {
			if f, ok := st.(*ast.ForStmt); ok {
				loop = f
				break
			}
		}
		if loop == nil {
			panic("vm/vm.go eval: dispatch loop not found")
		}
		// every `if` in eval whose condition reads the halt flag
		var tests []*ast.IfStmt
		ast.Inspect(eval.Body, func(n ast.Node) bool {
			if ifs, ok := n.(*ast.IfStmt); ok {
				reads := false
				ast.Inspect(ifs.Cond, func(m ast.Node) bool {
					if e, ok := m.(ast.Expr); ok && isHalt(e) {
						reads = true
					}
					return true
				})
				if ifs.Init != nil {
					ast.Inspect(ifs.Init, func(m ast.Node) bool {
						if e, ok := m.(ast.Expr); ok && isHalt(e) {
							reads = true
						}
						return true
					})
				}
				if reads {
					tests = append(tests, ifs)
				}
			}
			return true
		})
		cond, firstInLoop, condMentionsCtx, uncond, hasElse := "", false, false, false, false
		body := []string{}
		if len(tests) >= 1 {
			t := tests[0]
			cond = str(t.Cond)
			firstInLoop = len(loop.Body.List) > 0 && loop.Body.List[0] == ast.Stmt(t)
			condMentionsCtx = mentions(t.Cond, "ctx") || (t.Init != nil && mentions(t.Init, "ctx"))
			for _, st := range t.Body.List {
				body = append(body, str(st))
			}
			hasElse = t.Else != nil
			if len(t.Body.List) == 1 {
				_, uncond = t.Body.List[0].(*ast.ReturnStmt)
			}
		}

		// who writes the flag, over the whole package
		writers := map[string]bool{}
		for _, f := range files {
			for _, d := range f.Decls {
				if fd, ok := d.(*ast.FuncDecl); ok && fd.Body != nil && len(haltWrites(fd.Body)) > 0 {
					writers[fd.Name.Name] = true
				}
			}
		}
		var wl []string
		for k := range writers {
			wl = append(wl, k)
		}
		sort.Strings(wl)

		// callFunction: the argument of its `vm.eval(…)` call; is `ctx` its own first parameter and never reassigned?
		evalArg := ""
		ast.Inspect(callFn.Body, func(n ast.Node) bool {
			if c, ok := n.(*ast.CallExpr); ok && types.ExprString(c.Fun) == "vm.eval" && len(c.Args) == 1 {
				evalArg = types.ExprString(c.Args[0])
			}
			return true
		})
		firstParam := ""
		if ps := callFn.Type.Params.List; len(ps) > 0 && len(ps[0].Names) > 0 {
			firstParam = ps[0].Names[0].Name + " " + types.ExprString(ps[0].Type)
		}
		ctxReassigned := false
		ast.Inspect(callFn.Body, func(n ast.Node) bool {
			if a, ok := n.(*ast.AssignStmt); ok {
				for _, l := range a.Lhs {
					if id, ok := l.(*ast.Ident); ok && id.Name == "ctx" {
						ctxReassigned = true
					}
				}
			}
			return true
		})
		// callFunction: the Go-level `defer func() { for _, partial := range callFrame.defers { … } }()`
		// that runs the deferred calls of the frame: how many there are, whether the loop is its
		// first statement (it runs however the frame is left), how each partial is called, and
		// whether anything in it reads or writes the halt flag
		runners, runnerLoopFirst, runnerTouchesHalt, runnerCall := 0, false, false, ""
		ast.Inspect(callFn.Body, func(n ast.Node) bool {
			ds, ok := n.(*ast.DeferStmt)
			if !ok {
				return true
			}
			lit, ok := ds.Call.Fun.(*ast.FuncLit)
			if !ok {
				return true
			}
			var loop *ast.RangeStmt
			ast.Inspect(lit.Body, func(m ast.Node) bool {
				if r, ok := m.(*ast.RangeStmt); ok && loop == nil {
					if sel, ok := r.X.(*ast.SelectorExpr); ok && sel.Sel.Name == "defers" {
						loop = r
					}
				}
				return true
			})
			if loop == nil {
				return true
			}
			runners++
			if runners > 1 {
				return true
			}
			runnerLoopFirst = len(lit.Body.List) > 0 && lit.Body.List[0] == ast.Stmt(loop)
			ast.Inspect(lit.Body, func(m ast.Node) bool {
				if sel, ok := m.(*ast.SelectorExpr); ok && sel.Sel.Name == "halt" {
					runnerTouchesHalt = true
				}
				return true
			})
			ast.Inspect(loop.Body, func(m ast.Node) bool {
				if c, ok := m.(*ast.CallExpr); ok && runnerCall == "" && types.ExprString(c.Fun) == "vm.callObject" {
					runnerCall = types.ExprString(c)
				}
				return true
			})
			return true
		})
		// importModule: its first parameter, the argument(s) of its `vm.eval(…)` call(s), whether `ctx`
		// is reassigned or a context is derived (any call into package context) in it; eval: the
		// context argument of every `vm.importModule(…)` call, whether eval reassigns its `ctx`
		reassigns := func(body ast.Node) bool {
			found := false
			ast.Inspect(body, func(n ast.Node) bool {
				if a, ok := n.(*ast.AssignStmt); ok {
					for _, l := range a.Lhs {
						if id, ok := l.(*ast.Ident); ok && id.Name == "ctx" {
							found = true
						}
					}
				}
				return true
			})
			return found
		}
		importFirstParam := ""
		if ps := importMod.Type.Params.List; len(ps) > 0 && len(ps[0].Names) > 0 {
			importFirstParam = ps[0].Names[0].Name + " " + types.ExprString(ps[0].Type)
		}
		importEvalArgs := []string{}
		importDerives := false
		ast.Inspect(importMod.Body, func(n ast.Node) bool {
			if c, ok := n.(*ast.CallExpr); ok {
				if types.ExprString(c.Fun) == "vm.eval" {
					for _, a := range c.Args {
						importEvalArgs = append(importEvalArgs, types.ExprString(a))
					}
				}
				if sel, ok := c.Fun.(*ast.SelectorExpr); ok {
					if id, ok := sel.X.(*ast.Ident); ok && id.Name == "context" {
						importDerives = true
					}
				}
			}
			return true
		})
		importCallCtxArgs := []string{}
		ast.Inspect(eval.Body, func(n ast.Node) bool {
			if c, ok := n.(*ast.CallExpr); ok && types.ExprString(c.Fun) == "vm.importModule" {
				if len(c.Args) > 0 {
					importCallCtxArgs = append(importCallCtxArgs, types.ExprString(c.Args[0]))
				} else {
					importCallCtxArgs = append(importCallCtxArgs, "")
				}
			}
			return true
		})
		// before the module body runs: `vm.importer.Import(…)` in importModule (its arguments), the
		// local importer's chain Import(ctx) -> parseAndCompile(ctx, …) -> parser.Parse(ctx, …), and the
		// check of `ctx.Done()` at the head of the statement loop of Parser.Parse
		importerCallArgs := []string{}
		ast.Inspect(importMod.Body, func(n ast.Node) bool {
			if c, ok := n.(*ast.CallExpr); ok && types.ExprString(c.Fun) == "vm.importer.Import" {
				for _, a := range c.Args {
					importerCallArgs = append(importerCallArgs, types.ExprString(a))
				}
			}
			return true
		})
		parseOne := func(rel string) *ast.File {
			f, err := parser.ParseFile(fset, filepath.Join(repo, rel), nil, 0)
			if err != nil {
				panic(err)
			}
			return f
		}
		funcIn := func(f *ast.File, recv, name string) *ast.FuncDecl {
			for _, d := range f.Decls {
				fd, ok := d.(*ast.FuncDecl)
				if !ok || fd.Name.Name != name || fd.Body == nil {
					continue
				}
				if recv == "" && fd.Recv == nil {
					return fd
				}
				if recv != "" && fd.Recv != nil && len(fd.Recv.List) == 1 && strings.TrimPrefix(types.ExprString(fd.Recv.List[0].Type), "*") == recv {
					return fd
				}
			}
			panic("function " + recv + "." + name + " not found")
		}
		firstParamOf := func(fd *ast.FuncDecl) string {
			if ps := fd.Type.Params.List; len(ps) > 0 && len(ps[0].Names) > 0 {
				return ps[0].Names[0].Name + " " + types.ExprString(ps[0].Type)
			}
			return ""
		}
		firstArgsOf := func(fd *ast.FuncDecl, callee string) string {
			var as []string
			ast.Inspect(fd.Body, func(n ast.Node) bool {
				if c, ok := n.(*ast.CallExpr); ok && types.ExprString(c.Fun) == callee {
					if len(c.Args) > 0 {
						as = append(as, types.ExprString(c.Args[0]))
					} else {
						as = append(as, "")
					}
				}
				return true
			})
			return strings.Join(as, ",")
		}
		impFile, parFile := parseOne("importer/importer.go"), parseOne("parser/parser.go")
		liImport, pac := funcIn(impFile, "LocalImporter", "Import"), funcIn(impFile, "", "parseAndCompile")
		ctxChain := []string{
			"Import(" + firstParamOf(liImport) + ")",
			"parseAndCompile(" + firstArgsOf(liImport, "parseAndCompile") + ")",
			"parseAndCompile(" + firstParamOf(pac) + ")",
			"parser.Parse(" + firstArgsOf(pac, "parser.Parse") + ")",
		}
		ctxChainReassigned := reassigns(liImport.Body) || reassigns(pac.Body)
		// Parser.Parse: the first statement of the body of its first `for` loop is a select whose
		// first clause receives from ctx.Done() and returns nil, ctx.Err()
		parserCheck := []string{}
		pp := funcIn(parFile, "Parser", "Parse")
		for _, st := range pp.Body.List {
			loop, ok := st.(*ast.ForStmt)
			if !ok {
				continue
			}
			if len(loop.Body.List) > 0 {
				if sel, ok := loop.Body.List[0].(*ast.SelectStmt); ok && len(sel.Body.List) > 0 {
					if cc, ok := sel.Body.List[0].(*ast.CommClause); ok && cc.Comm != nil {
						parserCheck = append(parserCheck, str(cc.Comm))
						for _, b := range cc.Body {
							parserCheck = append(parserCheck, str(b))
						}
					}
				}
			}
			break
		}
		// initContext: what is registered as the call function
		registered := ""
		ast.Inspect(initCtx.Body, func(n ast.Node) bool {
			if c, ok := n.(*ast.CallExpr); ok && types.ExprString(c.Fun) == "object.WithCallFunc" && len(c.Args) == 2 {
				registered = types.ExprString(c.Args[1])
			}
			return true
		})

		b := func(x bool) string { return fmt.Sprintf("%v", x) }
		strList := func(xs []string) string {
			q := make([]string, len(xs))
			for i, x := range xs {
				q[i] = fmt.Sprintf("%q", x)
			}
			return "[" + strings.Join(q, ", ") + "]"
		}
		s := "namespace Risor.Generated.C06\n\n"
		s += "/-- number of `if` statements in `eval` whose condition reads `vm.halt` -/\ndef haltTestCount : Nat := " + fmt.Sprint(len(tests)) + "\n"
		s += "/-- the condition of the halt test -/\ndef haltTestCond : String := " + fmt.Sprintf("%q", cond) + "\n"
		s += "/-- it is the first statement of the dispatch loop (before every instruction) -/\ndef haltTestFirstInLoop : Bool := " + b(firstInLoop) + "\n"
		s += "/-- the condition (or an init statement) mentions `ctx` -/\ndef haltTestCondMentionsCtx : Bool := " + b(condMentionsCtx) + "\n"
		s += "/-- the statements of its body -/\ndef haltTestBody : List String := " + strList(body) + "\n"
		s += "/-- the body is exactly one `return` statement: no nested test, nothing else -/\ndef haltTestUnconditionalReturn : Bool := " + b(uncond) + "\n"
		s += "def haltTestHasElse : Bool := " + b(hasElse) + "\n"
		s += "/-- writes to `vm.halt` (assignment, increment, decrement, atomic Store, Swap, CompareAndSwap, Add) inside `eval`, `callFunction`, `callObject` -/\n"
		s += "def evalHaltWrites : List String := " + strList(haltWrites(eval.Body)) + "\n"
		s += "def callFunctionHaltWrites : List String := " + strList(haltWrites(callFn.Body)) + "\n"
		s += "def callObjectHaltWrites : List String := " + strList(haltWrites(callObj.Body)) + "\n"
		s += "/-- functions of package vm (tests and verif hooks excluded) that write a `.halt` field -/\ndef haltWriters : List String := " + strList(wl) + "\n"
		s += "/-- `callFunction`: first parameter, the argument it passes to `vm.eval`, whether `ctx` is reassigned in it -/\n"
		s += "def callFunctionFirstParam : String := " + fmt.Sprintf("%q", firstParam) + "\n"
		s += "def callFunctionEvalArg : String := " + fmt.Sprintf("%q", evalArg) + "\n"
		s += "def callFunctionReassignsCtx : Bool := " + b(ctxReassigned) + "\n"
		s += "/-- `initContext`: the function registered with `object.WithCallFunc` (the public callback API) -/\ndef registeredCallFunc : String := " + fmt.Sprintf("%q", registered) + "\n"
		s += "/-- `callFunction`: the Go-level `defer` that runs the frame's deferred partials (`range callFrame.defers`): how many there are, whether the loop is the first statement of the deferred function (no early return before it), the call that runs a partial, whether anything in it mentions the halt flag -/\n"
		s += "def deferRunnerCount : Nat := " + fmt.Sprint(runners) + "\n"
		s += "def deferRunnerLoopFirst : Bool := " + b(runnerLoopFirst) + "\n"
		s += "def deferRunnerCall : String := " + fmt.Sprintf("%q", runnerCall) + "\n"
		s += "def deferRunnerTouchesHalt : Bool := " + b(runnerTouchesHalt) + "\n"
		s += "/-- `importModule`: first parameter, the arguments of its `vm.eval(…)` calls, whether `ctx` is reassigned in it, whether it calls into package `context` at all (derives a context); `eval`: the first argument of every `vm.importModule(…)` call, whether `eval` reassigns its `ctx` -/\n"
		s += "def importModuleFirstParam : String := " + fmt.Sprintf("%q", importFirstParam) + "\n"
		s += "def importModuleEvalArgs : List String := " + strList(importEvalArgs) + "\n"
		s += "def importModuleReassignsCtx : Bool := " + b(reassigns(importMod.Body)) + "\n"
		s += "def importModuleDerivesCtx : Bool := " + b(importDerives) + "\n"
		s += "def importModuleCallCtxArgs : List String := " + strList(importCallCtxArgs) + "\n"
		s += "def evalReassignsCtx : Bool := " + b(reassigns(eval.Body)) + "\n"
		s += "/-- before the module body runs: the arguments of `vm.importer.Import(…)` in `importModule`; the local importer's chain (first parameter of `LocalImporter.Import`, first argument of its `parseAndCompile` call, first parameter of `parseAndCompile`, first argument of its `parser.Parse` call), whether `ctx` is reassigned in either; the first clause of the `select` that opens the statement loop of `Parser.Parse` (its communication and body) -/\n"
		s += "def importerCallArgs : List String := " + strList(importerCallArgs) + "\n"
		s += "def localImporterCtxChain : List String := " + strList(ctxChain) + "\n"
		s += "def localImporterReassignsCtx : Bool := " + b(ctxChainReassigned) + "\n"
		s += "def parserCtxCheck : List String := " + strList(parserCheck) + "\n"
		s += "\nend Risor.Generated.C06\n"
		return s
	}})
}
