package main

// C13, two-path operations: for every method of *VirtualOS (os/virtual.go) that has two string
// parameters and looks paths up in the mount table, which PARAMETERS are passed to
// osObj.findMount (by position, in source order) and whether the mounts the lookups returned
// are compared with each other.  The model's `twoPath` is stated over exactly this: one lookup
// per path argument, forwarded only when both lookups name the same mount.

import (
	"fmt"
	"go/ast"
	"go/parser"
	"go/token"
	"sort"
	"strings"
)

func c13TwoPathFacts(repo string) string {
	fset := token.NewFileSet()
	f, err := parser.ParseFile(fset, repo+"/os/virtual.go", nil, 0)
	if err != nil {
		panic(err)
	}
	type fact struct {
		name    string
		lookups []int
		cmp     bool
	}
	var facts []fact
	for _, d := range f.Decls {
		fd, ok := d.(*ast.FuncDecl)
		if !ok || fd.Recv == nil || fd.Body == nil || len(fd.Recv.List) != 1 {
			continue
		}
		st, ok := fd.Recv.List[0].Type.(*ast.StarExpr)
		if !ok {
			continue
		}
		if id, ok := st.X.(*ast.Ident); !ok || id.Name != "VirtualOS" {
			continue
		}
		// string parameters, by position
		var params []string
		nStr := 0
		for _, fl := range fd.Type.Params.List {
			isStr := false
			if id, ok := fl.Type.(*ast.Ident); ok && id.Name == "string" {
				isStr = true
			}
			for _, n := range fl.Names {
				params = append(params, n.Name)
				if isStr {
					nStr++
				}
			}
		}
		if nStr < 2 {
			continue
		}
		idx := func(e ast.Expr) int {
			if id, ok := e.(*ast.Ident); ok {
				for i, p := range params {
					if p == id.Name {
						return i
					}
				}
			}
			return 99 // not a plain parameter
		}
		var fc fact
		fc.name = fd.Name.Name
		mounts := map[string]bool{}
		ast.Inspect(fd.Body, func(n ast.Node) bool {
			switch x := n.(type) {
			case *ast.AssignStmt:
				if len(x.Rhs) == 1 {
					if c, ok := x.Rhs[0].(*ast.CallExpr); ok {
						if se, ok := c.Fun.(*ast.SelectorExpr); ok && se.Sel.Name == "findMount" && len(c.Args) == 1 {
							if id, ok := x.Lhs[0].(*ast.Ident); ok {
								mounts[id.Name] = true
							}
						}
					}
				}
			case *ast.CallExpr:
				if se, ok := x.Fun.(*ast.SelectorExpr); ok && se.Sel.Name == "findMount" && len(x.Args) == 1 {
					fc.lookups = append(fc.lookups, idx(x.Args[0]))
				}
			}
			return true
		})
		ast.Inspect(fd.Body, func(n ast.Node) bool {
			if b, ok := n.(*ast.BinaryExpr); ok && (b.Op == token.NEQ || b.Op == token.EQL) {
				l, lok := b.X.(*ast.Ident)
				r, rok := b.Y.(*ast.Ident)
				if lok && rok && l.Name != r.Name && mounts[l.Name] && mounts[r.Name] {
					fc.cmp = true
				}
			}
			return true
		})
		if len(fc.lookups) == 0 {
			continue
		}
		facts = append(facts, fc)
	}
	sort.Slice(facts, func(i, j int) bool { return facts[i].name < facts[j].name })
	var items []string
	for _, fc := range facts {
		ls := make([]string, len(fc.lookups))
		for i, l := range fc.lookups {
			ls[i] = fmt.Sprint(l)
		}
		items = append(items, fmt.Sprintf("(%q, [%s], %v)", fc.name, strings.Join(ls, ", "), fc.cmp))
	}
	s := "/-- methods of *VirtualOS with two string parameters that consult the mount table: (method, positions of the\n" +
		"    parameters passed to findMount in source order (99 = not a plain parameter), the mounts found are compared) -/\n"
	s += "def twoStringMethodLookups : List (String × List Nat × Bool) := [" + strings.Join(items, ", ") + "]\n"
	return s
}
