package main

// C01 (E3): the tables the Lean Pratt-parser model (lean/RisorModel/C01/Pratt.lean) is written
// against, regenerated from /repo's working tree on every run:
//   * token/token.go        — the token-type constants (name, string value), in source order
//   * parser/precedence.go  — the precedence levels with their iota values, and the
//                             `precedences` map (token constant -> level constant)
//   * parser/parser.go      — the registerPrefix / registerInfix / registerPostfix calls of New,
//                             and the precedence argument of every parseExpression / parseNode
//                             call inside the expression-parsing functions the model mirrors
// PrattTies.lean states that each of these equals the table the model uses; a changed
// precedence entry, level order, registration or parse level breaks exactly one tie.
// Anything that does not have the expected shape makes the extractor fail loudly.

import (
	"bytes"
	"fmt"
	"go/ast"
	"go/parser"
	"go/printer"
	"go/token"
	"path/filepath"
	"sort"
	"strconv"
	"strings"
)

func c01Fail(format string, a ...any) { panic("C01 tables: " + fmt.Sprintf(format, a...)) }

func c01LeanStr(s string) string {
	var b strings.Builder
	b.WriteByte('"')
	for _, r := range s {
		switch {
		case r == '"' || r == '\\':
			b.WriteByte('\\')
			b.WriteRune(r)
		case r < 0x20 || r == 0x7f:
			fmt.Fprintf(&b, "\\x%02x", r)
		default:
			b.WriteRune(r)
		}
	}
	b.WriteByte('"')
	return b.String()
}

type c01Pair struct{ a, b string }

func c01Pairs(ps []c01Pair, second func(string) string) string {
	if len(ps) == 0 {
		return "[]"
	}
	var b strings.Builder
	b.WriteString("[\n")
	line := "  "
	for i, p := range ps {
		item := "(" + c01LeanStr(p.a) + ", " + second(p.b) + ")"
		if i < len(ps)-1 {
			item += ", "
		}
		if len(line)+len(item) > 100 {
			b.WriteString(strings.TrimRight(line, " ") + "\n")
			line = "  "
		}
		line += item
	}
	b.WriteString(line + "]")
	return b.String()
}

func c01TokenSel(e ast.Expr) string {
	s, ok := e.(*ast.SelectorExpr)
	if !ok {
		c01Fail("expected token.X, found %T", e)
	}
	x, ok := s.X.(*ast.Ident)
	if !ok || x.Name != "token" {
		c01Fail("expected token.X selector")
	}
	return s.Sel.Name
}

func init() {
	generators = append(generators, generator{"C01", func(repo string) string {
		fset := token.NewFileSet()
		parse := func(rel string) *ast.File {
			f, err := parser.ParseFile(fset, filepath.Join(repo, rel), nil, 0)
			if err != nil {
				c01Fail("%v", err)
			}
			return f
		}
		text := func(n ast.Node) string {
			var b bytes.Buffer
			printer.Fprint(&b, fset, n)
			return b.String()
		}

		// 1. token constants
		var tokenTypes []c01Pair
		tf := parse("token/token.go")
		for _, d := range tf.Decls {
			gd, ok := d.(*ast.GenDecl)
			if !ok || gd.Tok != token.CONST {
				continue
			}
			for _, sp := range gd.Specs {
				vs := sp.(*ast.ValueSpec)
				if len(vs.Names) != 1 || len(vs.Values) != 1 {
					c01Fail("token constant with unexpected shape: %s", text(vs))
				}
				bl, ok := vs.Values[0].(*ast.BasicLit)
				if !ok || bl.Kind != token.STRING {
					c01Fail("token constant %s is not a string literal", vs.Names[0].Name)
				}
				v, err := strconv.Unquote(bl.Value)
				if err != nil {
					c01Fail("%v", err)
				}
				tokenTypes = append(tokenTypes, c01Pair{vs.Names[0].Name, v})
			}
		}
		if len(tokenTypes) < 60 {
			c01Fail("only %d token constants found", len(tokenTypes))
		}
		seenVal := map[string]string{}
		for _, p := range tokenTypes {
			if o, dup := seenVal[p.b]; dup {
				c01Fail("token constants %s and %s share the value %q", o, p.a, p.b)
			}
			seenVal[p.b] = p.a
		}

		// 2. precedence levels and table
		pf := parse("parser/precedence.go")
		var levels []c01Pair
		var precs []c01Pair
		for _, d := range pf.Decls {
			gd, ok := d.(*ast.GenDecl)
			if !ok {
				continue
			}
			if gd.Tok == token.CONST {
				for i, sp := range gd.Specs {
					vs := sp.(*ast.ValueSpec)
					if len(vs.Names) != 1 {
						c01Fail("precedence constant with unexpected shape: %s", text(vs))
					}
					if i == 0 {
						if vs.Names[0].Name != "_" || len(vs.Values) != 1 || text(vs.Values[0]) != "iota" {
							c01Fail("the level block no longer starts with `_ int = iota`")
						}
						continue
					}
					if len(vs.Values) != 0 {
						c01Fail("level %s has an explicit value", vs.Names[0].Name)
					}
					levels = append(levels, c01Pair{vs.Names[0].Name, strconv.Itoa(i)})
				}
			}
			if gd.Tok == token.VAR {
				for _, sp := range gd.Specs {
					vs := sp.(*ast.ValueSpec)
					if len(vs.Names) != 1 || vs.Names[0].Name != "precedences" || len(vs.Values) != 1 {
						continue
					}
					cl, ok := vs.Values[0].(*ast.CompositeLit)
					if !ok {
						c01Fail("precedences is not a composite literal")
					}
					for _, el := range cl.Elts {
						kv, ok := el.(*ast.KeyValueExpr)
						if !ok {
							c01Fail("precedences element is not key: value")
						}
						lv, ok := kv.Value.(*ast.Ident)
						if !ok {
							c01Fail("precedence of %s is not a level constant", text(kv.Key))
						}
						precs = append(precs, c01Pair{c01TokenSel(kv.Key), lv.Name})
					}
				}
			}
		}
		if len(levels) < 10 || len(precs) < 20 {
			c01Fail("precedence.go: %d levels, %d table entries", len(levels), len(precs))
		}
		byName := func(ps []c01Pair) {
			sort.SliceStable(ps, func(i, j int) bool { return ps[i].a < ps[j].a })
		}
		byName(precs)

		// 3. registrations in parser.New; 4. parse levels inside the modelled functions
		gf := parse("parser/parser.go")
		var pre, inf, post []c01Pair
		modelled := map[string]bool{"parsePrefixExpr": true, "parseInfixExpr": true, "parseTernary": true,
			"parseGroupedExpr": true, "parseIn": true, "parseNotIn": true, "parseIndex": true,
			"parseExprList": true, "parseNodeList": true, "parseExpressionStatement": true}
		var parseLevels []c01Pair
		sawNew := false
		for _, d := range gf.Decls {
			fd, ok := d.(*ast.FuncDecl)
			if !ok || fd.Body == nil {
				continue
			}
			if fd.Name.Name == "New" && fd.Recv == nil {
				sawNew = true
				ast.Inspect(fd.Body, func(n ast.Node) bool {
					c, ok := n.(*ast.CallExpr)
					if !ok {
						return true
					}
					se, ok := c.Fun.(*ast.SelectorExpr)
					if !ok || !strings.HasPrefix(se.Sel.Name, "register") {
						return true
					}
					if len(c.Args) != 2 {
						c01Fail("%s with %d arguments", se.Sel.Name, len(c.Args))
					}
					fn, ok := c.Args[1].(*ast.SelectorExpr)
					if !ok {
						c01Fail("%s: the function is not a method value", se.Sel.Name)
					}
					p := c01Pair{c01TokenSel(c.Args[0]), fn.Sel.Name}
					switch se.Sel.Name {
					case "registerPrefix":
						pre = append(pre, p)
					case "registerInfix":
						inf = append(inf, p)
					case "registerPostfix":
						post = append(post, p)
					default:
						c01Fail("unknown registration %s", se.Sel.Name)
					}
					return true
				})
			}
			if fd.Recv != nil && modelled[fd.Name.Name] {
				var items []string
				ast.Inspect(fd.Body, func(n ast.Node) bool {
					switch x := n.(type) {
					case *ast.AssignStmt:
						if len(x.Lhs) == 1 && len(x.Rhs) == 1 {
							if id, ok := x.Lhs[0].(*ast.Ident); ok && id.Name == "precedence" {
								items = append(items, "precedence="+text(x.Rhs[0]))
							}
						}
					case *ast.CallExpr:
						if se, ok := x.Fun.(*ast.SelectorExpr); ok && (se.Sel.Name == "parseExpression" || se.Sel.Name == "parseNode") && len(x.Args) == 1 {
							items = append(items, se.Sel.Name+"("+text(x.Args[0])+")")
						}
					}
					return true
				})
				parseLevels = append(parseLevels, c01Pair{fd.Name.Name, strings.Join(items, " ")})
				delete(modelled, fd.Name.Name)
			}
		}
		if !sawNew || len(pre) < 20 || len(inf) < 20 || len(post) < 1 {
			c01Fail("parser.New: %d prefix, %d infix, %d postfix registrations", len(pre), len(inf), len(post))
		}
		if len(modelled) != 0 {
			var miss []string
			for k := range modelled {
				miss = append(miss, k)
			}
			sort.Strings(miss)
			c01Fail("parser.go no longer has the functions %v", miss)
		}
		byName(pre)
		byName(inf)
		byName(post)
		byName(parseLevels)

		str := c01LeanStr
		num := func(s string) string { return s }
		s := "namespace Risor.Generated.C01\n\n"
		s += "/-- token/token.go: constant name and string value, in source order -/\n"
		s += "def tokenTypes : List (String × String) := " + c01Pairs(tokenTypes, str) + "\n\n"
		s += "/-- parser/precedence.go: the levels of the iota block with their values -/\n"
		s += "def levels : List (String × Nat) := " + c01Pairs(levels, num) + "\n\n"
		s += "/-- parser/precedence.go: `precedences` (token constant, level constant), sorted by token -/\n"
		s += "def precedences : List (String × String) := " + c01Pairs(precs, str) + "\n\n"
		s += "/-- parser.New: registerPrefix(token, function), sorted by token -/\n"
		s += "def prefixRegs : List (String × String) := " + c01Pairs(pre, str) + "\n\n"
		s += "/-- parser.New: registerInfix(token, function), sorted by token -/\n"
		s += "def infixRegs : List (String × String) := " + c01Pairs(inf, str) + "\n\n"
		s += "/-- parser.New: registerPostfix(token, function), sorted by token -/\n"
		s += "def postfixRegs : List (String × String) := " + c01Pairs(post, str) + "\n\n"
		s += "/-- per modelled parse function: its `precedence := …` assignments and the arguments of its\n    parseExpression/parseNode calls, in source order -/\n"
		s += "def parseLevels : List (String × String) := " + c01Pairs(parseLevels, str) + "\n\n"
		s += "end Risor.Generated.C01\n"
		return s
	}})
}
