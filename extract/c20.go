package main

// E4 for C20: the keyword table of token/token.go, the one-/two-character operator decision
// table of the `switch l.ch` in lexer.Next, the first runes that switch treats specially,
// and the character classes isTabOrSpace / isDigit.

import (
	"fmt"
	"go/ast"
	"go/parser"
	"go/token"
	"sort"
	"strconv"
	"strings"
	"unicode"
)

func init() {
	generators = append(generators, generator{"C20", c20_genC20})
}

// runeOf evaluates rune('x') / rune(0) / 'x'.
func c20_runeOf(e ast.Expr) (int, bool) {
	if c, ok := e.(*ast.CallExpr); ok {
		if id, ok := c.Fun.(*ast.Ident); ok && id.Name == "rune" && len(c.Args) == 1 {
			return c20_runeOf(c.Args[0])
		}
		return 0, false
	}
	if b, ok := e.(*ast.BasicLit); ok {
		switch b.Kind {
		case token.CHAR:
			s, err := strconv.Unquote(b.Value)
			if err != nil {
				return 0, false
			}
			r := []rune(s)
			if len(r) != 1 {
				return 0, false
			}
			return int(r[0]), true
		case token.INT:
			n, err := strconv.Atoi(b.Value)
			return n, err == nil
		}
	}
	return 0, false
}

func c20_genC20(repo string) string {
	fset := token.NewFileSet()
	// ---- token/token.go: constants and the keywords map
	tf, err := parser.ParseFile(fset, repo+"/token/token.go", nil, 0)
	if err != nil {
		panic(err)
	}
	consts := map[string]string{}
	type kw struct{ text, typ string }
	var kws []kw
	for _, d := range tf.Decls {
		gd, ok := d.(*ast.GenDecl)
		if !ok {
			continue
		}
		for _, sp := range gd.Specs {
			vs, ok := sp.(*ast.ValueSpec)
			if !ok {
				continue
			}
			if gd.Tok == token.CONST {
				for i, n := range vs.Names {
					if i < len(vs.Values) {
						if b, ok := vs.Values[i].(*ast.BasicLit); ok && b.Kind == token.STRING {
							s, _ := strconv.Unquote(b.Value)
							consts[n.Name] = s
						}
					}
				}
			}
			if gd.Tok == token.VAR && len(vs.Names) == 1 && vs.Names[0].Name == "keywords" && len(vs.Values) == 1 {
				cl, ok := vs.Values[0].(*ast.CompositeLit)
				if !ok {
					panic("token.keywords is not a composite literal")
				}
				for _, el := range cl.Elts {
					kv := el.(*ast.KeyValueExpr)
					k, _ := strconv.Unquote(kv.Key.(*ast.BasicLit).Value)
					id, ok := kv.Value.(*ast.Ident)
					if !ok {
						panic("keyword value is not a constant name")
					}
					v, ok := consts[id.Name]
					if !ok {
						panic("unknown token constant " + id.Name)
					}
					kws = append(kws, kw{k, v})
				}
			}
		}
	}
	if len(kws) == 0 {
		panic("token.keywords not found")
	}
	sort.Slice(kws, func(i, j int) bool { return kws[i].text < kws[j].text })

	// ---- lexer/lexer.go: the switch in Next, isTabOrSpace, isDigit
	lf, err := parser.ParseFile(fset, repo+"/lexer/lexer.go", nil, 0)
	if err != nil {
		panic(err)
	}
	var next, tabOrSpace, digit *ast.FuncDecl
	for _, d := range lf.Decls {
		if fd, ok := d.(*ast.FuncDecl); ok {
			switch fd.Name.Name {
			case "Next":
				next = fd
			case "isTabOrSpace":
				tabOrSpace = fd
			case "isDigit":
				digit = fd
			}
		}
	}
	if next == nil || tabOrSpace == nil || digit == nil {
		panic("lexer.Next / isTabOrSpace / isDigit not found")
	}
	var sw *ast.SwitchStmt
	ast.Inspect(next, func(n ast.Node) bool {
		if s, ok := n.(*ast.SwitchStmt); ok && sw == nil {
			if sel, ok := s.Tag.(*ast.SelectorExpr); ok && sel.Sel.Name == "ch" {
				sw = s
			}
		}
		return true
	})
	if sw == nil {
		panic("switch l.ch not found in lexer.Next")
	}
	// tokType finds the token.X of the single `tok = l.newToken(token.X, …)` in a block
	tokType := func(stmts []ast.Stmt) (string, bool) {
		found, n := "", 0
		for _, st := range stmts {
			ast.Inspect(st, func(x ast.Node) bool {
				c, ok := x.(*ast.CallExpr)
				if !ok {
					return true
				}
				if sel, ok := c.Fun.(*ast.SelectorExpr); ok && sel.Sel.Name == "newToken" && len(c.Args) == 2 {
					if ts, ok := c.Args[0].(*ast.SelectorExpr); ok {
						if v, ok := consts[ts.Sel.Name]; ok {
							found = v
							n++
						}
					}
				}
				return true
			})
		}
		return found, n == 1
	}
	// peekIs matches `l.peekChar() == rune('d')`
	peekIs := func(e ast.Expr) (int, bool) {
		b, ok := e.(*ast.BinaryExpr)
		if !ok || b.Op != token.EQL {
			return 0, false
		}
		c, ok := b.X.(*ast.CallExpr)
		if !ok {
			return 0, false
		}
		if sel, ok := c.Fun.(*ast.SelectorExpr); !ok || sel.Sel.Name != "peekChar" {
			return 0, false
		}
		return c20_runeOf(b.Y)
	}
	type ent struct {
		c, d int
		typ  string
	}
	var table []ent
	var special []int
	for _, cc := range sw.Body.List {
		clause := cc.(*ast.CaseClause)
		if clause.List == nil {
			continue // default: digits and identifiers
		}
		for _, ce := range clause.List {
			c, ok := c20_runeOf(ce)
			if !ok {
				panic("case label of switch l.ch is not a rune")
			}
			if c == 0 { // end of input: the literal is "", not the rune
				special = append(special, c)
				continue
			}
			// shape A: one statement, tok = l.newToken(token.X, …)
			if len(clause.Body) == 1 {
				if _, isIf := clause.Body[0].(*ast.IfStmt); !isIf {
					if t, ok := tokType(clause.Body); ok {
						table = append(table, ent{c, 0, t})
						continue
					}
				}
			}
			// shape B: if l.peekChar() == 'd' {…} else if … else {…}
			if len(clause.Body) == 1 {
				if ifs, ok := clause.Body[0].(*ast.IfStmt); ok {
					var es []ent
					good := true
					var cur ast.Stmt = ifs
					for cur != nil && good {
						switch x := cur.(type) {
						case *ast.IfStmt:
							d, ok1 := peekIs(x.Cond)
							t, ok2 := tokType(x.Body.List)
							if !ok1 || !ok2 || d == 0 {
								good = false
								break
							}
							es = append(es, ent{c, d, t})
							cur = x.Else
						case *ast.BlockStmt:
							t, ok := tokType(x.List)
							if !ok {
								good = false
								break
							}
							es = append(es, ent{c, 0, t})
							cur = nil
						default:
							good = false
						}
					}
					if good && len(es) > 0 && es[len(es)-1].d == 0 {
						table = append(table, es...)
						continue
					}
				}
			}
			special = append(special, c)
		}
	}
	if len(table) < 30 {
		panic("operator decision table not recognised in lexer.Next")
	}
	// character classes
	var blanks []int
	ast.Inspect(tabOrSpace, func(n ast.Node) bool {
		if b, ok := n.(*ast.BinaryExpr); ok && b.Op == token.EQL {
			if r, ok := c20_runeOf(b.Y); ok {
				blanks = append(blanks, r)
			}
		}
		return true
	})
	var digitLo, digitHi = -1, -1
	ast.Inspect(digit, func(n ast.Node) bool {
		if b, ok := n.(*ast.BinaryExpr); ok && b.Op == token.LEQ {
			if r, ok := c20_runeOf(b.X); ok {
				digitLo = r
			}
			if r, ok := c20_runeOf(b.Y); ok {
				digitHi = r
			}
		}
		return true
	})
	if len(blanks) == 0 || digitLo < 0 || digitHi < 0 {
		panic("isTabOrSpace / isDigit have an unexpected shape")
	}

	// ---- non-ASCII runes: which predicates of package unicode decide what an identifier rune is
	// (isIdentifier), what may not follow a number (readNumber), and which functions of the lexer
	// move the read position (the model's positions are a pure function of the RUNE offset because
	// readChar alone moves it, one rune at a time)
	unicodeCalls := func(fd *ast.FuncDecl) []string {
		var out []string
		ast.Inspect(fd, func(n ast.Node) bool {
			if sel, ok := n.(*ast.SelectorExpr); ok {
				if id, ok := sel.X.(*ast.Ident); ok && id.Name == "unicode" {
					out = append(out, sel.Sel.Name)
				}
			}
			return true
		})
		return out
	}
	var identFn, readNumberFn, readIdentFn *ast.FuncDecl
	posWriters := map[string]bool{}
	posFields := map[string]bool{"position": true, "nextPosition": true, "column": true, "line": true, "lineStart": true, "ch": true}
	for _, d := range lf.Decls {
		fd, ok := d.(*ast.FuncDecl)
		if !ok || fd.Body == nil {
			continue
		}
		switch fd.Name.Name {
		case "isIdentifier":
			identFn = fd
		case "readNumber":
			readNumberFn = fd
		case "readIdentifier":
			readIdentFn = fd
		}
		recv := ""
		if fd.Recv != nil && len(fd.Recv.List) == 1 && len(fd.Recv.List[0].Names) == 1 {
			recv = fd.Recv.List[0].Names[0].Name
		}
		if recv == "" {
			continue // New builds the lexer through a composite literal and calls readChar
		}
		isPosField := func(e ast.Expr) bool {
			sel, ok := e.(*ast.SelectorExpr)
			if !ok {
				return false
			}
			id, ok := sel.X.(*ast.Ident)
			return ok && id.Name == recv && posFields[sel.Sel.Name]
		}
		ast.Inspect(fd.Body, func(n ast.Node) bool {
			switch x := n.(type) {
			case *ast.AssignStmt:
				for _, l := range x.Lhs {
					if isPosField(l) {
						posWriters[fd.Name.Name] = true
					}
				}
			case *ast.IncDecStmt:
				if isPosField(x.X) {
					posWriters[fd.Name.Name] = true
				}
			}
			return true
		})
	}
	if identFn == nil || readNumberFn == nil || readIdentFn == nil {
		panic("lexer.isIdentifier / readNumber / readIdentifier not found")
	}
	var posWriterNames []string
	for k := range posWriters {
		posWriterNames = append(posWriterNames, k)
	}
	sort.Strings(posWriterNames)
	// every other way of indexing the input: functions that mention the rune slice or any
	// string/byte view of the input (a search on bytes is not a search on runes)
	lexerFields := []string{}
	for _, d := range lf.Decls {
		gd, ok := d.(*ast.GenDecl)
		if !ok || gd.Tok != token.TYPE {
			continue
		}
		for _, sp := range gd.Specs {
			ts := sp.(*ast.TypeSpec)
			st, ok := ts.Type.(*ast.StructType)
			if !ok || ts.Name.Name != "Lexer" {
				continue
			}
			for _, f := range st.Fields.List {
				var tb strings.Builder
				switch t := f.Type.(type) {
				case *ast.Ident:
					tb.WriteString(t.Name)
				case *ast.ArrayType:
					if id, ok := t.Elt.(*ast.Ident); ok {
						tb.WriteString("[]" + id.Name)
					} else {
						tb.WriteString("[]?")
					}
				case *ast.SelectorExpr:
					if id, ok := t.X.(*ast.Ident); ok {
						tb.WriteString(id.Name + "." + t.Sel.Name)
					}
				default:
					tb.WriteString("?")
				}
				for _, n := range f.Names {
					lexerFields = append(lexerFields, n.Name+":"+tb.String())
				}
			}
		}
	}
	sort.Strings(lexerFields)

	var sb strings.Builder
	sb.WriteString("namespace Risor.Generated.C20\n\n")
	sb.WriteString("/-- token/token.go `keywords`, sorted by identifier: (identifier, token type) -/\n")
	sb.WriteString("def keywords : List (String × String) := [\n")
	for i, k := range kws {
		sep := ","
		if i == len(kws)-1 {
			sep = ""
		}
		fmt.Fprintf(&sb, "  (%s, %s)%s\n", strconv.Quote(k.text), strconv.Quote(k.typ), sep)
	}
	sb.WriteString("]\n\n")
	sb.WriteString("/-- lexer.Next `switch l.ch`: (first rune, peeked second rune or 0 = otherwise, token type), source order -/\n")
	sb.WriteString("def opTable : List (Nat × Nat × String) := [\n")
	for i, e := range table {
		sep := ","
		if i == len(table)-1 {
			sep = ""
		}
		fmt.Fprintf(&sb, "  (%d, %d, %s)%s\n", e.c, e.d, strconv.Quote(e.typ), sep)
	}
	sb.WriteString("]\n\n")
	sb.WriteString("/-- first runes the switch handles by other code (error, string readers, end of input) -/\n")
	fmt.Fprintf(&sb, "def specialFirst : List Nat := %s\n\n", c20_leanNatList(special))
	sb.WriteString("/-- lexer.isTabOrSpace -/\n")
	fmt.Fprintf(&sb, "def blankChars : List Nat := %s\n\n", c20_leanNatList(blanks))
	sb.WriteString("/-- lexer.isDigit: inclusive bounds -/\n")
	fmt.Fprintf(&sb, "def digitBounds : Nat × Nat := (%d, %d)\n\n", digitLo, digitHi)
	sb.WriteString("/-- the predicates of package unicode called by lexer.isIdentifier (what an identifier rune is, besides `_`) -/\n")
	fmt.Fprintf(&sb, "def identClasses : List String := %s\n\n", c20_leanStrList(unicodeCalls(identFn)))
	sb.WriteString("/-- the predicates of package unicode called by lexer.readNumber (what may not follow a number) -/\n")
	fmt.Fprintf(&sb, "def numberTrailClasses : List String := %s\n\n", c20_leanStrList(unicodeCalls(readNumberFn)))
	sb.WriteString("/-- the names of package unicode used by lexer.readIdentifier (the bound above which a rune after an identifier is an error) -/\n")
	fmt.Fprintf(&sb, "def identEndNames : List String := %s\n\n", c20_leanStrList(unicodeCalls(readIdentFn)))
	sb.WriteString("/-- the methods of Lexer that assign position, nextPosition, column, line, lineStart or ch -/\n")
	fmt.Fprintf(&sb, "def posWriters : List String := %s\n\n", c20_leanStrList(posWriterNames))
	sb.WriteString("/-- the fields of Lexer with their types (name:type), sorted: the input is held as runes only -/\n")
	fmt.Fprintf(&sb, "def lexerFields : List String := %s\n\n", c20_leanStrList(lexerFields))
	sb.WriteString(c20_unicodeTables())
	sb.WriteString("end Risor.Generated.C20\n")
	return sb.String()
}

func c20_leanNatList(xs []int) string {
	parts := make([]string, len(xs))
	for i, x := range xs {
		parts[i] = strconv.Itoa(x)
	}
	return "[" + strings.Join(parts, ", ") + "]"
}

func c20_leanStrList(xs []string) string {
	parts := make([]string, len(xs))
	for i, x := range xs {
		parts[i] = strconv.Quote(x)
	}
	return "[" + strings.Join(parts, ", ") + "]"
}

// c20_unicodeTables prints the range tables of Go's package unicode (the one this toolchain
// compiles risor with) for the categories the lexer asks about: L (IsLetter), Nd (IsDigit),
// N (IsNumber), as (lo, hi, stride) triples in chunks of 64.
func c20_unicodeTables() string {
	var sb strings.Builder
	one := func(name, doc string, t *unicode.RangeTable) {
		type tr struct{ lo, hi, st uint32 }
		var all []tr
		for _, r := range t.R16 {
			all = append(all, tr{uint32(r.Lo), uint32(r.Hi), uint32(r.Stride)})
		}
		for _, r := range t.R32 {
			all = append(all, tr{r.Lo, r.Hi, r.Stride})
		}
		var chunks []string
		for i := 0; i < len(all); i += 64 {
			j := i + 64
			if j > len(all) {
				j = len(all)
			}
			cn := fmt.Sprintf("%s%d", name, i/64)
			chunks = append(chunks, cn)
			fmt.Fprintf(&sb, "def %s : List (Nat × Nat × Nat) := [\n", cn)
			for k := i; k < j; k++ {
				sep := ","
				if k == j-1 {
					sep = ""
				}
				fmt.Fprintf(&sb, "  (%d, %d, %d)%s\n", all[k].lo, all[k].hi, all[k].st, sep)
			}
			sb.WriteString("]\n")
		}
		fmt.Fprintf(&sb, "/-- %s: (lo, hi, stride), Unicode %s -/\n", doc, unicode.Version)
		fmt.Fprintf(&sb, "def %s : List (Nat × Nat × Nat) := %s\n\n", name, strings.Join(chunks, " ++ "))
	}
	one("letterRanges", "unicode.Letter (category L), the table behind unicode.IsLetter", unicode.Letter)
	one("digitRanges", "unicode.Digit (category Nd), the table behind unicode.IsDigit", unicode.Digit)
	one("numberRanges", "unicode.Number (category N), the table behind unicode.IsNumber", unicode.Number)
	return sb.String()
}
