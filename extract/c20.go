package main

// E4 for C20: the keyword table of token/token.go, the one-/two-character operator decision
// table of the `switch l.ch` in lexer.Next, the first runes that switch treats specially,
// and the character classes isTabOrSpace / isDigit.

import (
	"fmt"
	"go/ast"
	"go/parser"
	"go/token"
	"sort"
	"strconv"
	"strings"
)

func init() {
	generators = append(generators, generator{"C20", c20_genC20})
}

// runeOf evaluates rune('x') / rune(0) / 'x'.
func c20_runeOf(e ast.Expr) (int, bool) {
	if c, ok := e.(*ast.CallExpr); ok {
		if id, ok := c.Fun.(*ast.Ident); ok && id.Name == "rune" && len(c.Args) == 1 {
			return c20_runeOf(c.Args[0])
		}
		return 0, false
	}
	if b, ok := e.(*ast.BasicLit); ok {
		switch b.Kind {
		case token.CHAR:
			s, err := strconv.Unquote(b.Value)
			if err != nil {
				return 0, false
			}
			r := []rune(s)
			if len(r) != 1 {
				return 0, false
			}
			return int(r[0]), true
		case token.INT:
			n, err := strconv.Atoi(b.Value)
			return n, err == nil
		}
	}
	return 0, false
}

func c20_genC20(repo string) string {
	fset := token.NewFileSet()
	// ---- token/token.go: constants and the keywords map
	tf, err := parser.ParseFile(fset, repo+"/token/token.go", nil, 0)
	if err != nil {
		panic(err)
	}
	consts := map[string]string{}
	type kw struct{ text, typ string }
	var kws []kw
	for _, d := range tf.Decls {
		gd, ok := d.(*ast.GenDecl)
		if !ok {
			continue
		}
		for _, sp := range gd.Specs {
			vs, ok := sp.(*ast.ValueSpec)
			if !ok {
				continue
			}
			if gd.Tok == token.CONST {
				for i, n := range vs.Names {
					if i < len(vs.Values) {
						if b, ok := vs.Values[i].(*ast.BasicLit); ok && b.Kind == token.STRING {
							s, _ := strconv.Unquote(b.Value)
							consts[n.Name] = s
						}
					}
				}
			}
			if gd.Tok == token.VAR && len(vs.Names) == 1 && vs.Names[0].Name == "keywords" && len(vs.Values) == 1 {
				cl, ok := vs.Values[0].(*ast.CompositeLit)
				if !ok {
					panic("token.keywords is not a composite literal")
				}
				for _, el := range cl.Elts {
					kv := el.(*ast.KeyValueExpr)
					k, _ := strconv.Unquote(kv.Key.(*ast.BasicLit).Value)
					id, ok := kv.Value.(*ast.Ident)
					if !ok {
						panic("keyword value is not a constant name")
					}
					v, ok := consts[id.Name]
					if !ok {
						panic("unknown token constant " + id.Name)
					}
					kws = append(kws, kw{k, v})
				}
			}
		}
	}
	if len(kws) == 0 {
		panic("token.keywords not found")
	}
	sort.Slice(kws, func(i, j int) bool { return kws[i].text < kws[j].text })

	// ---- lexer/lexer.go: the switch in Next, isTabOrSpace, isDigit
	lf, err := parser.ParseFile(fset, repo+"/lexer/lexer.go", nil, 0)
	if err != nil {
		panic(err)
	}
	var next, tabOrSpace, digit *ast.FuncDecl
	for _, d := range lf.Decls {
		if fd, ok := d.(*ast.FuncDecl); ok {
			switch fd.Name.Name {
			case "Next":
				next = fd
			case "isTabOrSpace":
				tabOrSpace = fd
			case "isDigit":
				digit = fd
			}
		}
	}
	if next == nil || tabOrSpace == nil || digit == nil {
		panic("lexer.Next / isTabOrSpace / isDigit not found")
	}
	var sw *ast.SwitchStmt
	ast.Inspect(next, func(n ast.Node) bool {
		if s, ok := n.(*ast.SwitchStmt); ok && sw == nil {
			if sel, ok := s.Tag.(*ast.SelectorExpr); ok && sel.Sel.Name == "ch" {
				sw = s
			}
		}
		return true
	})
	if sw == nil {
		panic("switch l.ch not found in lexer.Next")
	}
	// tokType finds the token.X of the single `tok = l.newToken(token.X, …)` in a block
	tokType := func(stmts []ast.Stmt) (string, bool) {
		found, n := "", 0
		for _, st := range stmts {
			ast.Inspect(st, func(x ast.Node) bool {
				c, ok := x.(*ast.CallExpr)
				if !ok {
					return true
				}
				if sel, ok := c.Fun.(*ast.SelectorExpr); ok && sel.Sel.Name == "newToken" && len(c.Args) == 2 {
					if ts, ok := c.Args[0].(*ast.SelectorExpr); ok {
						if v, ok := consts[ts.Sel.Name]; ok {
							found = v
							n++
						}
					}
				}
				return true
			})
		}
		return found, n == 1
	}
	// peekIs matches `l.peekChar() == rune('d')`
	peekIs := func(e ast.Expr) (int, bool) {
		b, ok := e.(*ast.BinaryExpr)
		if !ok || b.Op != token.EQL {
			return 0, false
		}
		c, ok := b.X.(*ast.CallExpr)
		if !ok {
			return 0, false
		}
		if sel, ok := c.Fun.(*ast.SelectorExpr); !ok || sel.Sel.Name != "peekChar" {
			return 0, false
		}
		return c20_runeOf(b.Y)
	}
	type ent struct {
		c, d int
		typ  string
	}
	var table []ent
	var special []int
	for _, cc := range sw.Body.List {
		clause := cc.(*ast.CaseClause)
		if clause.List == nil {
			continue // default: digits and identifiers
		}
		for _, ce := range clause.List {
			c, ok := c20_runeOf(ce)
			if !ok {
				panic("case label of switch l.ch is not a rune")
			}
			if c == 0 { // end of input: the literal is "", not the rune
				special = append(special, c)
				continue
			}
			// shape A: one statement, tok = l.newToken(token.X, …)
			if len(clause.Body) == 1 {
				if _, isIf := clause.Body[0].(*ast.IfStmt); !isIf {
					if t, ok := tokType(clause.Body); ok {
						table = append(table, ent{c, 0, t})
						continue
					}
				}
			}
			// shape B: if l.peekChar() == 'd' {…} else if … else {…}
			if len(clause.Body) == 1 {
				if ifs, ok := clause.Body[0].(*ast.IfStmt); ok {
					var es []ent
					good := true
					var cur ast.Stmt = ifs
					for cur != nil && good {
						switch x := cur.(type) {
						case *ast.IfStmt:
							d, ok1 := peekIs(x.Cond)
							t, ok2 := tokType(x.Body.List)
							if !ok1 || !ok2 || d == 0 {
								good = false
								break
							}
							es = append(es, ent{c, d, t})
							cur = x.Else
						case *ast.BlockStmt:
							t, ok := tokType(x.List)
							if !ok {
								good = false
								break
							}
							es = append(es, ent{c, 0, t})
							cur = nil
						default:
							good = false
						}
					}
					if good && len(es) > 0 && es[len(es)-1].d == 0 {
						table = append(table, es...)
						continue
					}
				}
			}
			special = append(special, c)
		}
	}
	if len(table) < 30 {
		panic("operator decision table not recognised in lexer.Next")
	}
	// character classes
	var blanks []int
	ast.Inspect(tabOrSpace, func(n ast.Node) bool {
		if b, ok := n.(*ast.BinaryExpr); ok && b.Op == token.EQL {
			if r, ok := c20_runeOf(b.Y); ok {
				blanks = append(blanks, r)
			}
		}
		return true
	})
	var digitLo, digitHi = -1, -1
	ast.Inspect(digit, func(n ast.Node) bool {
		if b, ok := n.(*ast.BinaryExpr); ok && b.Op == token.LEQ {
			if r, ok := c20_runeOf(b.X); ok {
				digitLo = r
			}
			if r, ok := c20_runeOf(b.Y); ok {
				digitHi = r
			}
		}
		return true
	})
	if len(blanks) == 0 || digitLo < 0 || digitHi < 0 {
		panic("isTabOrSpace / isDigit have an unexpected shape")
	}

	var sb strings.Builder
	sb.WriteString("namespace Risor.Generated.C20\n\n")
	sb.WriteString("/-- token/token.go `keywords`, sorted by identifier: (identifier, token type) -/\n")
	sb.WriteString("def keywords : List (String × String) := [\n")
	for i, k := range kws {
		sep := ","
		if i == len(kws)-1 {
			sep = ""
		}
		fmt.Fprintf(&sb, "  (%s, %s)%s\n", strconv.Quote(k.text), strconv.Quote(k.typ), sep)
	}
	sb.WriteString("]\n\n")
	sb.WriteString("/-- lexer.Next `switch l.ch`: (first rune, peeked second rune or 0 = otherwise, token type), source order -/\n")
	sb.WriteString("def opTable : List (Nat × Nat × String) := [\n")
	for i, e := range table {
		sep := ","
		if i == len(table)-1 {
			sep = ""
		}
		fmt.Fprintf(&sb, "  (%d, %d, %s)%s\n", e.c, e.d, strconv.Quote(e.typ), sep)
	}
	sb.WriteString("]\n\n")
	sb.WriteString("/-- first runes the switch handles by other code (error, string readers, end of input) -/\n")
	fmt.Fprintf(&sb, "def specialFirst : List Nat := %s\n\n", c20_leanNatList(special))
	sb.WriteString("/-- lexer.isTabOrSpace -/\n")
	fmt.Fprintf(&sb, "def blankChars : List Nat := %s\n\n", c20_leanNatList(blanks))
	sb.WriteString("/-- lexer.isDigit: inclusive bounds -/\n")
	fmt.Fprintf(&sb, "def digitBounds : Nat × Nat := (%d, %d)\n\n", digitLo, digitHi)
	sb.WriteString("end Risor.Generated.C20\n")
	return sb.String()
}

func c20_leanNatList(xs []int) string {
	parts := make([]string, len(xs))
	for i, x := range xs {
		parts[i] = strconv.Itoa(x)
	}
	return "[" + strings.Join(parts, ", ") + "]"
}
