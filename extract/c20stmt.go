package main

// C20, statement level: the places of parser/parser.go where the statement-level code looks at
// NEWLINE / SEMICOLON, as tables for lean/RisorModel/C20/StmtTies.lean.

import (
	"fmt"
	"go/ast"
	"go/parser"
	"go/token"
	"sort"
	"strings"
)

func init() {
	generators = append(generators, generator{"C20Stmt", c20stmt_gen})
}

// token.X -> "X"
func c20stmt_tokName(e ast.Expr) (string, bool) {
	se, ok := e.(*ast.SelectorExpr)
	if !ok {
		return "", false
	}
	id, ok := se.X.(*ast.Ident)
	if !ok || id.Name != "token" {
		return "", false
	}
	return se.Sel.Name, true
}

func c20stmt_gen(repo string) string {
	fset := token.NewFileSet()
	pf, err := parser.ParseFile(fset, repo+"/parser/parser.go", nil, 0)
	if err != nil {
		panic(err)
	}
	funcs := map[string]*ast.FuncDecl{}
	var terms []string
	for _, d := range pf.Decls {
		switch v := d.(type) {
		case *ast.FuncDecl:
			funcs[v.Name.Name] = v
		case *ast.GenDecl:
			for _, sp := range v.Specs {
				vs, ok := sp.(*ast.ValueSpec)
				if !ok || len(vs.Names) != 1 || vs.Names[0].Name != "statementTerminators" || len(vs.Values) != 1 {
					continue
				}
				cl, ok := vs.Values[0].(*ast.CompositeLit)
				if !ok {
					panic("statementTerminators is not a composite literal")
				}
				for _, el := range cl.Elts {
					kv, ok := el.(*ast.KeyValueExpr)
					if !ok {
						panic("statementTerminators: element without key")
					}
					name, ok := c20stmt_tokName(kv.Key)
					val, isId := kv.Value.(*ast.Ident)
					if !ok || !isId || val.Name != "true" {
						panic("statementTerminators: unexpected entry")
					}
					terms = append(terms, name)
				}
			}
		}
	}
	if terms == nil {
		panic("statementTerminators not found")
	}
	// functions that mention token.NEWLINE or call eatNewlines
	var sites []string
	for name, fd := range funcs {
		if fd.Body == nil {
			continue
		}
		hit := false
		ast.Inspect(fd.Body, func(n ast.Node) bool {
			switch v := n.(type) {
			case *ast.SelectorExpr:
				if t, ok := c20stmt_tokName(v); ok && t == "NEWLINE" {
					hit = true
				}
				if v.Sel.Name == "eatNewlines" {
					hit = true
				}
			}
			return true
		})
		if hit {
			sites = append(sites, name)
		}
	}
	sort.Strings(sites)
	// the token arguments of peekTokenIs / curTokenIs / expectPeek calls of a function, in source order
	looks := func(fn string) []string {
		fd := funcs[fn]
		if fd == nil {
			panic("parser.go: no function " + fn)
		}
		var out []string
		ast.Inspect(fd.Body, func(n ast.Node) bool {
			ce, ok := n.(*ast.CallExpr)
			if !ok {
				return true
			}
			se, ok := ce.Fun.(*ast.SelectorExpr)
			if !ok {
				return true
			}
			switch se.Sel.Name {
			case "peekTokenIs", "curTokenIs", "expectPeek":
				if t, ok := c20stmt_tokName(ce.Args[len(ce.Args)-1]); ok {
					out = append(out, se.Sel.Name+":"+t)
				}
			}
			return true
		})
		return out
	}
	// the cases of `switch p.curToken.Type` in parseStatement, in source order
	var cases []string
	ast.Inspect(funcs["parseStatement"].Body, func(n ast.Node) bool {
		cc, ok := n.(*ast.CaseClause)
		if !ok {
			return true
		}
		for _, e := range cc.List {
			if t, ok := c20stmt_tokName(e); ok {
				cases = append(cases, t)
			}
		}
		return true
	})
	var sb strings.Builder
	sb.WriteString("namespace Risor.Generated.C20Stmt\n\n")
	sb.WriteString("/-- keys of `var statementTerminators` (parser/parser.go), in source order -/\n")
	fmt.Fprintf(&sb, "def statementTerminators : List String := %s\n\n", c20_leanStrList(terms))
	sb.WriteString("/-- functions of parser/parser.go that mention token.NEWLINE or call eatNewlines, sorted -/\n")
	fmt.Fprintf(&sb, "def newlineSites : List String := %s\n\n", c20_leanStrList(sites))
	sb.WriteString("/-- the cases of `switch p.curToken.Type` in parseStatement, in source order -/\n")
	fmt.Fprintf(&sb, "def statementCases : List String := %s\n\n", c20_leanStrList(cases))
	for _, fn := range []string{"parseStatement", "parseStatementStrict", "parseReturn", "parseIf", "parseBlock", "parseVar", "parseDeclaration"} {
		fmt.Fprintf(&sb, "/-- the token tests (peekTokenIs / curTokenIs / expectPeek) of %s, in source order -/\n", fn)
		fmt.Fprintf(&sb, "def looks_%s : List String := %s\n\n", fn, c20_leanStrList(looks(fn)))
	}
	sb.WriteString("end Risor.Generated.C20Stmt\n")
	return sb.String()
}
