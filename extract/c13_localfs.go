package main

// C13, the rooted local filesystem as an object (os/localfs/localfs.go):
//
//   * the method (*Filesystem).resolvePath, statement by statement — the model's
//     `localResolve base p := resolvePath base p` says that it is ONE statement that hands the
//     stored base and the RAW argument to os.ResolvePath, i.e. that nothing looks at the
//     argument before it is cleaned and checked;
//   * for every method of *Filesystem with string parameters: which of them are passed to
//     fs.resolvePath and which are passed to anything else unresolved.
//
// Both are compared with reviewed tables in C13/Ties.lean.

import (
	"bytes"
	"fmt"
	"go/ast"
	"go/parser"
	"go/printer"
	"go/token"
	"sort"
	"strconv"
	"strings"
)

func c13LocalFSFacts(repo string) string {
	fset := token.NewFileSet()
	f, err := parser.ParseFile(fset, repo+"/os/localfs/localfs.go", nil, 0)
	if err != nil {
		panic(err)
	}
	show := func(n any) string {
		var b bytes.Buffer
		if err := printer.Fprint(&b, fset, n); err != nil {
			panic(err)
		}
		return strings.Join(strings.Fields(b.String()), " ")
	}
	type flow struct {
		name          string
		resolved, raw []int
	}
	var flows []flow
	var sig string
	var stmts []string
	found := false
	for _, d := range f.Decls {
		fd, ok := d.(*ast.FuncDecl)
		if !ok || fd.Recv == nil || fd.Body == nil || len(fd.Recv.List) != 1 {
			continue
		}
		st, ok := fd.Recv.List[0].Type.(*ast.StarExpr)
		if !ok {
			continue
		}
		if id, ok := st.X.(*ast.Ident); !ok || id.Name != "Filesystem" {
			continue
		}
		recv := ""
		if len(fd.Recv.List[0].Names) == 1 {
			recv = fd.Recv.List[0].Names[0].Name
		}
		if fd.Name.Name == "resolvePath" {
			found = true
			sig = "func (" + show(fd.Recv.List[0].Names[0]) + " " + show(fd.Recv.List[0].Type) + ") " + fd.Name.Name + strings.TrimPrefix(show(fd.Type), "func")
			for _, s := range fd.Body.List {
				stmts = append(stmts, show(s))
			}
			continue
		}
		// string parameters by position
		pos := map[string]int{}
		i := 0
		for _, fl := range fd.Type.Params.List {
			isStr := false
			if id, ok := fl.Type.(*ast.Ident); ok && id.Name == "string" {
				isStr = true
			}
			for _, n := range fl.Names {
				if isStr {
					pos[n.Name] = i
				}
				i++
			}
		}
		if len(pos) == 0 {
			continue
		}
		isResolve := func(c *ast.CallExpr) bool {
			se, ok := c.Fun.(*ast.SelectorExpr)
			if !ok || se.Sel.Name != "resolvePath" {
				return false
			}
			id, ok := se.X.(*ast.Ident)
			return ok && id.Name == recv
		}
		// a parameter that is overwritten with the result of fs.resolvePath(itself, …) holds a
		// resolved path afterwards
		inPlace := map[string]bool{}
		ast.Inspect(fd.Body, func(n ast.Node) bool {
			as, ok := n.(*ast.AssignStmt)
			if !ok || len(as.Rhs) != 1 || len(as.Lhs) == 0 {
				return true
			}
			c, ok := as.Rhs[0].(*ast.CallExpr)
			if !ok || !isResolve(c) || len(c.Args) == 0 {
				return true
			}
			l, lok := as.Lhs[0].(*ast.Ident)
			a, aok := c.Args[0].(*ast.Ident)
			if lok && aok && l.Name == a.Name {
				inPlace[l.Name] = true
			}
			return true
		})
		fl := flow{name: fd.Name.Name}
		seenRes, seenRaw := map[int]bool{}, map[int]bool{}
		var walk func(n ast.Node, shadow map[string]bool)
		walk = func(n ast.Node, shadow map[string]bool) {
			ast.Inspect(n, func(m ast.Node) bool {
				switch x := m.(type) {
				case *ast.FuncLit:
					sh := map[string]bool{}
					for k := range shadow {
						sh[k] = true
					}
					for _, p := range x.Type.Params.List {
						for _, nm := range p.Names {
							sh[nm.Name] = true
						}
					}
					walk(x.Body, sh)
					return false
				case *ast.CallExpr:
					for ai, a := range x.Args {
						id, ok := a.(*ast.Ident)
						if !ok || shadow[id.Name] {
							continue
						}
						p, isParam := pos[id.Name]
						if !isParam {
							continue
						}
						if isResolve(x) && ai == 0 {
							if !seenRes[p] {
								seenRes[p] = true
								fl.resolved = append(fl.resolved, p)
							}
						} else if !inPlace[id.Name] && !seenRaw[p] {
							seenRaw[p] = true
							fl.raw = append(fl.raw, p)
						}
					}
				}
				return true
			})
		}
		walk(fd.Body, map[string]bool{})
		sort.Ints(fl.resolved)
		sort.Ints(fl.raw)
		flows = append(flows, fl)
	}
	if !found {
		panic("method (*Filesystem).resolvePath not found in os/localfs/localfs.go")
	}
	sort.Slice(flows, func(i, j int) bool { return flows[i].name < flows[j].name })
	ints := func(xs []int) string {
		ss := make([]string, len(xs))
		for i, x := range xs {
			ss[i] = fmt.Sprint(x)
		}
		return "[" + strings.Join(ss, ", ") + "]"
	}
	var items []string
	for _, fl := range flows {
		items = append(items, fmt.Sprintf("(%q, %s, %s)", fl.name, ints(fl.resolved), ints(fl.raw)))
	}
	qs := make([]string, len(stmts))
	for i, s := range stmts {
		qs[i] = strconv.Quote(s)
	}
	s := "/-- os/localfs/localfs.go: the method through which every operation resolves its path arguments -/\n"
	s += "def localResolveSig : String := " + strconv.Quote(sig) + "\n"
	s += "/-- … and its body, statement by statement -/\n"
	s += "def localResolveStmts : List String := [" + strings.Join(qs, ", ") + "]\n\n"
	s += "/-- methods of *Filesystem with string parameters: (method, positions of the parameters passed to fs.resolvePath,\n" +
		"    positions of the string parameters passed to any other call without having been resolved) -/\n"
	s += "def localfsPathFlow : List (String × List Nat × List Nat) := [" + strings.Join(items, ", ") + "]\n"
	return s
}
