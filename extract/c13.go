package main

func init() {
	generators = append(generators, generator{"C13", func(repo string) string {
		s := "import RisorModel.C13.Model\nnamespace Risor.Generated.C13\nopen Risor.C13\n\n"
		s += "/-- translated from os/os.go `ResolvePath` -/\n"
		s += translateFunc(repo, FuncCfg{
			File: "os/os.go", Func: "ResolvePath", Lean: "resolvePath",
			Params: map[string]string{"base": "Path", "path": "Path", "op": ""}, Order: []string{"base", "path"},
			Calls: map[string]string{"filepath.Clean": "cleanStr", "filepath.Join": "join2", "strings.HasPrefix": "hasPrefix",
				"strings.HasSuffix": "hasSuffix", "strings.TrimPrefix": "trimPrefix", "filepath.IsAbs": "isAbs"},
			RetType: "Res", Ok: ".ok %s", Err: ".invalid", StrAsLst: true,
		})
		s += "\n" + c13TwoPathFacts(repo)
		s += "\n" + c13LocalFSFacts(repo)
		s += "\nend Risor.Generated.C13\n"
		return s
	}})
}
