package main

// C07: structural facts of vm/vm.go the run-state model is written from.  They are
// regenerated on every run and compared (Ties.lean, by decide) with the values the model
// assumes, so that an edit to start/stop/resetForNewCode/eval's halt poll/callFunction's
// deferred unwinding is noticed even where no generated history happens to exercise it.

import (
	"fmt"
	"go/ast"
	"go/parser"
	"go/token"
	"go/types"
	"path/filepath"
	"sort"
	"strings"
)

func init() {
	generators = append(generators, generator{"C07", func(repo string) string {
		fset := token.NewFileSet()
		f, err := parser.ParseFile(fset, filepath.Join(repo, "vm", "vm.go"), nil, 0)
		if err != nil {
			panic(err)
		}
		method := func(name string) *ast.FuncDecl {
			for _, d := range f.Decls {
				if fd, ok := d.(*ast.FuncDecl); ok && fd.Name.Name == name && fd.Recv != nil && fd.Body != nil {
					return fd
				}
			}
			panic("vm/vm.go: method " + name + " not found")
		}
		str := func(e ast.Expr) string { return types.ExprString(e) }
		// fields of the receiver assigned (=, :=, ++, --) anywhere in a function body
		assigned := func(fd *ast.FuncDecl) []string {
			set := map[string]bool{}
			ast.Inspect(fd.Body, func(n ast.Node) bool {
				switch n := n.(type) {
				case *ast.AssignStmt:
					for _, l := range n.Lhs {
						if s := str(l); strings.HasPrefix(s, "vm.") {
							set[strings.SplitN(strings.TrimPrefix(s, "vm."), "[", 2)[0]] = true
						}
					}
				case *ast.IncDecStmt:
					if s := str(n.X); strings.HasPrefix(s, "vm.") {
						set[strings.TrimPrefix(s, "vm.")] = true
					}
				}
				return true
			})
			out := []string{}
			for k := range set {
				out = append(out, k)
			}
			sort.Strings(out)
			return out
		}
		hasAssign := func(fd *ast.FuncDecl, lhs, rhs string) bool {
			found := false
			ast.Inspect(fd.Body, func(n ast.Node) bool {
				if a, ok := n.(*ast.AssignStmt); ok && len(a.Lhs) == 1 && len(a.Rhs) == 1 && str(a.Lhs[0]) == lhs && str(a.Rhs[0]) == rhs {
					found = true
				}
				return true
			})
			return found
		}
		callsIn := func(n ast.Node) []string {
			out := []string{}
			ast.Inspect(n, func(n ast.Node) bool {
				if c, ok := n.(*ast.CallExpr); ok {
					out = append(out, str(c))
				}
				return true
			})
			return out
		}
		contains := func(xs []string, x string) bool {
			for _, y := range xs {
				if y == x {
					return true
				}
			}
			return false
		}

		start, stop, reset := method("start"), method("stop"), method("resetForNewCode")
		rci, eval, callFn, call, applyOpt := method("runCodeInternal"), method("eval"), method("callFunction"), method("Call"), method("applyOptions")

		// start: clears halt; the watcher: `if doneChan := ctx.Done(); doneChan != nil { go func() { <-doneChan; atomic.StoreInt32(&vm.halt, 1) }() }`
		watcherArmed, watcherGuarded := false, false
		ast.Inspect(start.Body, func(n ast.Node) bool {
			if ifs, ok := n.(*ast.IfStmt); ok && str(ifs.Cond) == "doneChan != nil" {
				ast.Inspect(ifs.Body, func(m ast.Node) bool {
					if g, ok := m.(*ast.GoStmt); ok {
						cs := callsIn(g.Call.Fun)
						recv := false
						ast.Inspect(g.Call.Fun, func(k ast.Node) bool {
							if u, ok := k.(*ast.UnaryExpr); ok && u.Op == token.ARROW && str(u.X) == "doneChan" {
								recv = true
							}
							return true
						})
						if recv && contains(cs, "atomic.StoreInt32(&vm.halt, 1)") {
							watcherArmed, watcherGuarded = true, true
						}
					}
					return true
				})
			}
			return true
		})
		goStmts := 0
		ast.Inspect(start.Body, func(n ast.Node) bool {
			if _, ok := n.(*ast.GoStmt); ok {
				goStmts++
			}
			return true
		})

		// runCodeInternal: `if resetState && vm.startCount > 1 { vm.resetForNewCode() }`, `startIP = vm.ip` under `!resetState`
		resetCond := ""
		ast.Inspect(rci.Body, func(n ast.Node) bool {
			if ifs, ok := n.(*ast.IfStmt); ok && contains(callsIn(ifs.Body), "vm.resetForNewCode()") {
				resetCond = str(ifs.Cond)
			}
			return true
		})
		runResumesAtIP := false
		ast.Inspect(rci.Body, func(n ast.Node) bool {
			if ifs, ok := n.(*ast.IfStmt); ok && str(ifs.Cond) == "!resetState" {
				ast.Inspect(ifs.Body, func(m ast.Node) bool {
					if a, ok := m.(*ast.AssignStmt); ok && str(a.Lhs[0]) == "startIP" && str(a.Rhs[0]) == "vm.ip" {
						runResumesAtIP = true
					}
					return true
				})
			}
			return true
		})

		// eval: `if atomic.LoadInt32(&vm.halt) == 1 { return ctx.Err() }`
		pollReturnsCtxErr := false
		ast.Inspect(eval.Body, func(n ast.Node) bool {
			if ifs, ok := n.(*ast.IfStmt); ok && str(ifs.Cond) == "atomic.LoadInt32(&vm.halt) == 1" && len(ifs.Body.List) == 1 {
				if r, ok := ifs.Body.List[0].(*ast.ReturnStmt); ok && len(r.Results) == 1 && str(r.Results[0]) == "ctx.Err()" {
					pollReturnsCtxErr = true
				}
			}
			return true
		})

		// deferred cleanups
		deferCalls := func(fd *ast.FuncDecl) []string {
			out := []string{}
			for _, s := range fd.Body.List {
				if d, ok := s.(*ast.DeferStmt); ok {
					if _, isLit := d.Call.Fun.(*ast.FuncLit); isLit {
						out = append(out, callsIn(d.Call.Fun)...)
					} else {
						out = append(out, str(d.Call))
					}
				}
			}
			return out
		}
		recoversAndStops := func(fd *ast.FuncDecl) bool {
			cs := deferCalls(fd)
			return contains(cs, "recover()") && contains(cs, "vm.stop()")
		}
		// the deferred closure must reach vm.stop() on every path: no `return` inside it
		deferHasReturn := func(fd *ast.FuncDecl) bool {
			found := false
			for _, s := range fd.Body.List {
				if d, ok := s.(*ast.DeferStmt); ok {
					if lit, isLit := d.Call.Fun.(*ast.FuncLit); isLit && contains(callsIn(lit), "vm.stop()") {
						ast.Inspect(lit.Body, func(n ast.Node) bool {
							if _, ok := n.(*ast.ReturnStmt); ok {
								found = true
							}
							return true
						})
					}
				}
			}
			return found
		}

		// Get / GlobalNames: the fields of the VM they assign (none) and read (the active code only)
		reads := func(fd *ast.FuncDecl) []string {
			set := map[string]bool{}
			ast.Inspect(fd.Body, func(n ast.Node) bool {
				if sel, ok := n.(*ast.SelectorExpr); ok {
					if id, ok := sel.X.(*ast.Ident); ok && id.Name == "vm" {
						set[sel.Sel.Name] = true
					}
				}
				return true
			})
			out := []string{}
			for k := range set {
				out = append(out, k)
			}
			sort.Strings(out)
			return out
		}
		get, globalNames := method("Get"), method("GlobalNames")
		// the fields of VirtualMachine: the storage that can survive an invocation
		vmFields := []string{}
		for _, d := range f.Decls {
			if g, ok := d.(*ast.GenDecl); ok && g.Tok == token.TYPE {
				for _, sp := range g.Specs {
					ts := sp.(*ast.TypeSpec)
					if st, ok := ts.Type.(*ast.StructType); ok && ts.Name.Name == "VirtualMachine" {
						for _, fl := range st.Fields.List {
							if len(fl.Names) == 0 {
								vmFields = append(vmFields, "embedded:"+str(fl.Type))
							}
							for _, n := range fl.Names {
								vmFields = append(vmFields, n.Name)
							}
						}
					}
				}
			}
		}
		sort.Strings(vmFields)

		consts := map[string]string{}
		for _, d := range f.Decls {
			if g, ok := d.(*ast.GenDecl); ok && g.Tok == token.CONST {
				for _, sp := range g.Specs {
					vs := sp.(*ast.ValueSpec)
					for i, n := range vs.Names {
						if i < len(vs.Values) {
							consts[n.Name] = str(vs.Values[i])
						}
					}
				}
			}
		}
		need := func(k string) string {
			v, ok := consts[k]
			if !ok {
				panic("vm/vm.go: constant " + k + " not found")
			}
			return v
		}
		b := func(x bool) string { return fmt.Sprintf("%v", x) }
		strList := func(xs []string) string {
			q := make([]string, len(xs))
			for i, x := range xs {
				q[i] = fmt.Sprintf("%q", x)
			}
			return "[" + strings.Join(q, ", ") + "]"
		}

		s := "namespace Risor.Generated.C07\n\n"
		s += "/-- `start` contains the assignment `vm.halt = 0` -/\ndef startClearsHalt : Bool := " + b(hasAssign(start, "vm.halt", "0")) + "\n"
		s += "/-- fields of the VM assigned in `start` -/\ndef startAssigns : List String := " + strList(assigned(start)) + "\n"
		s += "/-- `start` spawns `go func(){ <-doneChan; atomic.StoreInt32(&vm.halt, 1) }()` -/\ndef startArmsWatcher : Bool := " + b(watcherArmed) + "\n"
		s += "/-- … only when `ctx.Done() != nil` -/\ndef watcherOnlyWithDoneChan : Bool := " + b(watcherGuarded) + "\n"
		s += "/-- number of `go` statements in `start` -/\ndef startGoStmts : Nat := " + fmt.Sprint(goStmts) + "\n"
		s += "/-- fields of the VM assigned in `stop` (a disarmed watcher would show up here) -/\ndef stopAssigns : List String := " + strList(assigned(stop)) + "\n"
		s += "/-- calls made by `stop` besides locking -/\ndef stopCalls : List String := " + strList(callsIn(stop.Body)) + "\n"
		s += "/-- fields of the VM assigned in `resetForNewCode` -/\ndef resetAssigns : List String := " + strList(assigned(reset)) + "\n"
		s += "/-- the condition under which `runCodeInternal` calls `resetForNewCode` -/\ndef resetCondition : String := " + fmt.Sprintf("%q", resetCond) + "\n"
		s += "/-- `Run` (no reset) starts at `vm.ip` -/\ndef runResumesAtIP : Bool := " + b(runResumesAtIP) + "\n"
		s += "/-- `eval` polls `halt` and returns `ctx.Err()` of the context it was given -/\ndef pollReturnsCtxErr : Bool := " + b(pollReturnsCtxErr) + "\n"
		s += "/-- `callFunction` defers `vm.resumeFrame(baseFP, baseIP, baseSP)` -/\ndef callFunctionDefersResume : Bool := " + b(contains(deferCalls(callFn), "vm.resumeFrame(baseFP, baseIP, baseSP)")) + "\n"
		s += "/-- `runCodeInternal` and `Call` defer a closure that recovers and always reaches `vm.stop()` -/\ndef runRecoversAndStops : Bool := " + b(recoversAndStops(rci) && !deferHasReturn(rci)) + "\n"
		s += "def callRecoversAndStops : Bool := " + b(recoversAndStops(call) && !deferHasReturn(call)) + "\n"
		s += "/-- `applyOptions` registers the modules found among the globals in `vm.modules` -/\ndef applyOptionsRegistersModules : Bool := " + b(hasAssign(applyOpt, "vm.modules[name]", "module")) + "\n"
		s += "/-- fields of the VM assigned in `Get` / in `GlobalNames` (a look-up must leave no trace) -/\ndef getAssigns : List String := " + strList(assigned(get)) + "\n"
		s += "def globalNamesAssigns : List String := " + strList(assigned(globalNames)) + "\n"
		s += "/-- fields of the VM that `Get` / `GlobalNames` read -/\ndef getReads : List String := " + strList(reads(get)) + "\n"
		s += "def globalNamesReads : List String := " + strList(reads(globalNames)) + "\n"
		s += "/-- every field of `VirtualMachine`, sorted -/\ndef vmFields : List String := " + strList(vmFields) + "\n"
		s += "def maxFrameDepth : Nat := " + need("MaxFrameDepth") + "\n"
		s += "def maxStackDepth : Nat := " + need("MaxStackDepth") + "\n"
		s += "\nend Risor.Generated.C07\n"
		return s
	}})
}
