package main

// E1 + E2 for C04: the opcode table of op/op.go and, for every arm of the `switch opcode`
// in vm/vm.go's eval, the *shape* of its operand-stack traffic: the sequence of vm.pop(),
// vm.push(), vm.fetch() calls with loops and alternatives (error exits dropped).

import (
	"fmt"
	"go/ast"
	"go/parser"
	"go/printer"
	"go/token"
	"sort"
	"strconv"
	"strings"
)

func init() {
	generators = append(generators, generator{"C04", genC04})
}

func leanStr(s string) string { return strconv.Quote(s) }

func genC04(repo string) string {
	fset := token.NewFileSet()
	// ---- E1: op table
	f, err := parser.ParseFile(fset, repo+"/op/op.go", nil, 0)
	if err != nil {
		panic(err)
	}
	type opInfo struct {
		goName, name string
		count        int
	}
	var ops []opInfo
	ast.Inspect(f, func(n ast.Node) bool {
		cl, ok := n.(*ast.CompositeLit)
		if !ok || len(cl.Elts) != 3 {
			return true
		}
		id, ok1 := cl.Elts[0].(*ast.Ident)
		nm, ok2 := cl.Elts[1].(*ast.BasicLit)
		ct, ok3 := cl.Elts[2].(*ast.BasicLit)
		if ok1 && ok2 && ok3 && nm.Kind == token.STRING && ct.Kind == token.INT {
			s, _ := strconv.Unquote(nm.Value)
			c, _ := strconv.Atoi(ct.Value)
			ops = append(ops, opInfo{id.Name, s, c})
		}
		return true
	})
	if len(ops) < 30 {
		panic("op table not found in op/op.go")
	}
	sort.Slice(ops, func(i, j int) bool { return ops[i].name < ops[j].name })
	var sb strings.Builder
	sb.WriteString("namespace Risor.Generated.C04\n\n")
	sb.WriteString("/-- (name, operand count) of every opcode registered in op/op.go, sorted by name -/\n")
	sb.WriteString("def opTable : List (String × Nat) := [\n")
	for i, o := range ops {
		sep := ","
		if i == len(ops)-1 {
			sep = ""
		}
		fmt.Fprintf(&sb, "  (%s, %d)%s\n", leanStr(o.name), o.count, sep)
	}
	sb.WriteString("]\n\n")
	goToName := map[string]string{}
	for _, o := range ops {
		goToName[o.goName] = o.name
	}

	// ---- E2: shapes of the eval arms
	fv, err := parser.ParseFile(fset, repo+"/vm/vm.go", nil, 0)
	if err != nil {
		panic(err)
	}
	var evalFn *ast.FuncDecl
	for _, d := range fv.Decls {
		if fd, ok := d.(*ast.FuncDecl); ok && fd.Name.Name == "eval" && fd.Recv != nil {
			evalFn = fd
		}
	}
	if evalFn == nil {
		panic("vm.eval not found")
	}
	var sw *ast.SwitchStmt
	ast.Inspect(evalFn, func(n ast.Node) bool {
		if s, ok := n.(*ast.SwitchStmt); ok && sw == nil {
			if id, ok := s.Tag.(*ast.Ident); ok && id.Name == "opcode" {
				sw = s
			}
		}
		return true
	})
	if sw == nil {
		panic("switch opcode not found in vm.eval")
	}
	sh := &shaper{fset: fset}
	type arm struct{ name, shape string }
	var arms []arm
	for _, cc := range sw.Body.List {
		clause := cc.(*ast.CaseClause)
		if clause.List == nil {
			continue // default
		}
		shape := sh.stmts(clause.Body)
		for _, e := range clause.List {
			sel, ok := e.(*ast.SelectorExpr)
			if !ok {
				panic("unexpected case expression in switch opcode")
			}
			name, ok := goToName[sel.Sel.Name]
			if !ok {
				panic("eval handles an opcode that op/op.go does not register: " + sel.Sel.Name)
			}
			arms = append(arms, arm{name, shape})
		}
	}
	sort.Slice(arms, func(i, j int) bool { return arms[i].name < arms[j].name })
	sb.WriteString("/-- per opcode handled by vm.eval: the shape of its stack traffic (pop/push/fetch, loops, alternatives; error exits dropped) -/\n")
	sb.WriteString("def vmShapes : List (String × String) := [\n")
	for i, a := range arms {
		sep := ","
		if i == len(arms)-1 {
			sep = ""
		}
		fmt.Fprintf(&sb, "  (%s, %s)%s\n", leanStr(a.name), leanStr(a.shape), sep)
	}
	sb.WriteString("]\n\n")
	sb.WriteString("/-- for straight-line arms (only pop/push/fetch): the counted (pops, pushes, fetches); `none` for arms with loops, alternatives or helper calls; every arm: number of fetches -/\n")
	sb.WriteString("def vmEffects : List (String × Option (Nat × Nat) × Nat) := [\n")
	for i, a := range arms {
		sep := ","
		if i == len(arms)-1 {
			sep = ""
		}
		toks := strings.Fields(a.shape)
		pops, pushes, fetches, straight := 0, 0, 0, true
		for _, t := range toks {
			switch t {
			case "pop":
				pops++
			case "push":
				pushes++
			case "fetch":
				fetches++
			default:
				straight = false
			}
		}
		fetches = strings.Count(a.shape, "fetch")
		eff := "none"
		if straight {
			eff = fmt.Sprintf("some (%d, %d)", pops, pushes)
		}
		fmt.Fprintf(&sb, "  (%s, %s, %d)%s\n", leanStr(a.name), eff, fetches, sep)
	}
	sb.WriteString("]\n\nend Risor.Generated.C04\n")
	return sb.String()
}

type shaper struct{ fset *token.FileSet }

func (s *shaper) src(n ast.Node) string {
	var sb strings.Builder
	printer.Fprint(&sb, s.fset, n)
	return strings.Join(strings.Fields(sb.String()), " ")
}

// calls lists the vm.* stack operations inside an expression, innermost first (evaluation order).
func (s *shaper) calls(n ast.Node) []string {
	var out []string
	var visit func(n ast.Node)
	visit = func(n ast.Node) {
		if n == nil {
			return
		}
		switch x := n.(type) {
		case *ast.FuncLit:
			return
		case *ast.CallExpr:
			for _, a := range x.Args {
				visit(a)
			}
			if sel, ok := x.Fun.(*ast.SelectorExpr); ok {
				if id, ok := sel.X.(*ast.Ident); ok && id.Name == "vm" {
					switch sel.Sel.Name {
					case "pop", "push", "fetch", "swap", "callObject", "resumeFrame", "importModule":
						out = append(out, sel.Sel.Name)
					}
					return
				}
				visit(sel.X)
			}
			return
		}
		ast.Inspect(n, func(m ast.Node) bool {
			if m == n {
				return true
			}
			switch m.(type) {
			case *ast.CallExpr, *ast.FuncLit:
				visit(m)
				return false
			}
			return true
		})
	}
	visit(n)
	return out
}

func isErrorReturn(r *ast.ReturnStmt) bool {
	if len(r.Results) == 0 {
		return false
	}
	if id, ok := r.Results[len(r.Results)-1].(*ast.Ident); ok && id.Name == "nil" {
		return false
	}
	return true
}

// stmts renders a statement list; a path that ends in an error return renders as "!".
func (s *shaper) stmts(list []ast.Stmt) string {
	var parts []string
	for _, st := range list {
		p := s.stmt(st)
		if p != "" {
			parts = append(parts, p)
		}
		if strings.HasSuffix(p, "!") || strings.HasSuffix(p, "ret") {
			break
		}
	}
	return strings.Join(parts, " ")
}

func (s *shaper) alt(alts []string) string {
	var keep []string
	for _, a := range alts {
		if strings.HasSuffix(a, "!") {
			continue // error exit
		}
		keep = append(keep, a)
	}
	uniq := map[string]bool{}
	var out []string
	for _, k := range keep {
		if !uniq[k] {
			uniq[k] = true
			out = append(out, k)
		}
	}
	switch len(out) {
	case 0:
		return "!"
	case 1:
		return out[0]
	}
	return "alt{" + strings.Join(out, " | ") + "}"
}

func (s *shaper) stmt(st ast.Stmt) string {
	switch x := st.(type) {
	case *ast.ReturnStmt:
		pre := strings.Join(s.calls(x), " ")
		if isErrorReturn(x) {
			return strings.TrimSpace(pre + " !")
		}
		return strings.TrimSpace(pre + " ret")
	case *ast.IfStmt:
		var pre []string
		if x.Init != nil {
			pre = append(pre, s.stmt(x.Init))
		}
		pre = append(pre, s.calls(x.Cond)...)
		thenP := s.stmts(x.Body.List)
		elseP := ""
		switch el := x.Else.(type) {
		case *ast.BlockStmt:
			elseP = s.stmts(el.List)
		case *ast.IfStmt:
			elseP = s.stmt(el)
		}
		a := s.alt([]string{thenP, elseP})
		return strings.TrimSpace(strings.Join(append(pre, a), " "))
	case *ast.SwitchStmt, *ast.TypeSwitchStmt:
		var pre []string
		var body *ast.BlockStmt
		hasDefault := false
		switch y := x.(type) {
		case *ast.SwitchStmt:
			if y.Init != nil {
				pre = append(pre, s.stmt(y.Init))
			}
			if y.Tag != nil {
				pre = append(pre, s.calls(y.Tag)...)
			}
			body = y.Body
		case *ast.TypeSwitchStmt:
			if y.Init != nil {
				pre = append(pre, s.stmt(y.Init))
			}
			pre = append(pre, s.calls(y.Assign)...)
			body = y.Body
		}
		var alts []string
		for _, c := range body.List {
			cc := c.(*ast.CaseClause)
			if cc.List == nil {
				hasDefault = true
			}
			alts = append(alts, s.stmts(cc.Body))
		}
		if !hasDefault {
			alts = append(alts, "")
		}
		return strings.TrimSpace(strings.Join(append(pre, s.alt(alts)), " "))
	case *ast.ForStmt:
		head := ""
		if x.Cond != nil {
			head = s.src(x.Cond)
		}
		if x.Init != nil {
			head = s.src(x.Init) + "; " + head
		}
		return "loop[" + head + "]{" + s.stmts(x.Body.List) + "}"
	case *ast.RangeStmt:
		return "loop[range " + s.src(x.X) + "]{" + s.stmts(x.Body.List) + "}"
	case *ast.BlockStmt:
		return s.stmts(x.List)
	case *ast.BranchStmt:
		if x.Tok == token.BREAK {
			return "break"
		}
		return ""
	default:
		return strings.Join(s.calls(st), " ")
	}
}
