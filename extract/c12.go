package main

// C12 generator (E9 + the structural facts of the OS plumbing in vm/vm.go and os/os.go).
//
// Purely syntactic (go/parser, go/ast): package identifiers are resolved through the file's
// import table and the parser's own scope resolution (an identifier that names an imported
// package has no ast.Object; a local variable that shadows it, as `os := GetOS(ctx)` in
// modules/os/os.go, has one).
//
// Output: lean/RisorModel/Generated/C12.lean with
//   facts     : Facts          how getOS / initContext / Clone / cloneCall* / importModule /
//                              the entry points / GetDefaultOS are written, and how risor.Eval /
//                              EvalCode / Call configure an existing machine (Config.VMOpts)
//   inventory : List FnEntry   for every function of modules/{os,filepath,fmt}, builtins and
//                              object/file*.go that touches an OS at all: the OS-touching members
//                              of Go packages it uses, the methods it calls on risor os.OS values
//                              and whether every such receiver is GetOS(ctx)/os.GetDefaultOS(ctx)
//                              of a context parameter
//   virtualSinks : List (String × List String)
//                              for every function of os/virtual.go, os/nil_file.go, os/buffer_file.go
//                              and os/in_memory_file.go (the OS implementation risor ships for hosts
//                              and the files it hands out): the OS-touching members of Go packages
//                              its body uses (and uses of risor's own SimpleOS); functions without
//                              any are not listed
// Anything the generator cannot classify makes it fail loudly.

import (
	"bytes"
	"fmt"
	"go/ast"
	"go/parser"
	"go/printer"
	"go/token"
	"os"
	"path/filepath"
	"sort"
	"strconv"
	"strings"
)

func init() {
	generators = append(generators, generator{"C12", c12_genC12})
}

const c12_risorOSPath = "github.com/risor-io/risor/os"

// Go packages whose members reach the operating system. "*" = every member.
var c12Dangerous = map[string][]string{
	"os":            {"*"},
	"io/ioutil":     {"*"},
	"syscall":       {"*"},
	"os/exec":       {"*"},
	"os/user":       {"*"},
	"os/signal":     {"*"},
	"log":           {"*"},
	"path/filepath": {"Abs", "EvalSymlinks", "Glob", "Walk", "WalkDir"},
	"fmt":           {"Print", "Printf", "Println", "Scan", "Scanf", "Scanln"},
	"bufio":         {},
	c12_risorOSPath:     {"NewSimpleOS", "Current", "LookupUser", "LookupUid", "LookupGroup", "LookupGid"},
}

func c12Str(fset *token.FileSet, n ast.Node) string {
	var b bytes.Buffer
	printer.Fprint(&b, fset, n)
	return strings.Join(strings.Fields(b.String()), " ")
}

type c12Entry struct {
	fn       string
	direct   map[string]bool
	mediated map[string]bool
	recvOK   bool
}

func c12Imports(f *ast.File) map[string]string {
	m := map[string]string{}
	for _, im := range f.Imports {
		p, _ := strconv.Unquote(im.Path.Value)
		name := p[strings.LastIndex(p, "/")+1:]
		if im.Name != nil {
			name = im.Name.Name
		}
		if name == "_" || name == "." {
			continue
		}
		m[name] = p
	}
	return m
}

// isGetOSCall reports whether e is GetOS(x) or <risor os>.GetDefaultOS(x), and returns x.
func c12IsGetOSCall(e ast.Expr, imports map[string]string) (ast.Expr, bool) {
	call, ok := e.(*ast.CallExpr)
	if !ok || len(call.Args) != 1 {
		return nil, false
	}
	switch fn := call.Fun.(type) {
	case *ast.Ident:
		if fn.Name == "GetOS" && (fn.Obj == nil || fn.Obj.Kind == ast.Fun) {
			return call.Args[0], true
		}
	case *ast.SelectorExpr:
		if x, ok := fn.X.(*ast.Ident); ok && x.Obj == nil && imports[x.Name] == c12_risorOSPath && fn.Sel.Name == "GetDefaultOS" {
			return call.Args[0], true
		}
	}
	return nil, false
}

// isCtxParam: an identifier that is a parameter of type context.Context of some enclosing function.
func c12IsCtxParam(e ast.Expr, fset *token.FileSet) bool {
	id, ok := e.(*ast.Ident)
	if !ok || id.Obj == nil || id.Obj.Kind != ast.Var {
		return false
	}
	fld, ok := id.Obj.Decl.(*ast.Field)
	if !ok {
		return false
	}
	return c12Str(fset, fld.Type) == "context.Context"
}

func c12ScanFile(fset *token.FileSet, pkgKey string, f *ast.File, out map[string]*c12Entry) {
	imports := c12Imports(f)
	for _, d := range f.Decls {
		fd, ok := d.(*ast.FuncDecl)
		if !ok || fd.Body == nil {
			continue
		}
		name := fd.Name.Name
		if fd.Recv != nil && len(fd.Recv.List) == 1 {
			t := c12Str(fset, fd.Recv.List[0].Type)
			name = strings.TrimPrefix(t, "*") + "." + name
		}
		key := pkgKey + "." + name
		ent := &c12Entry{fn: key, direct: map[string]bool{}, mediated: map[string]bool{}, recvOK: true}
		ast.Inspect(fd.Body, func(n ast.Node) bool {
			switch x := n.(type) {
			case *ast.SelectorExpr:
				if id, ok := x.X.(*ast.Ident); ok && id.Obj == nil {
					if p, ok := imports[id.Name]; ok {
						if members, ok := c12Dangerous[p]; ok {
							for _, m := range members {
								if m == "*" || m == x.Sel.Name {
									base := p[strings.LastIndex(p, "/")+1:]
									if p == c12_risorOSPath {
										base = "risoros"
									}
									ent.direct[base+"."+x.Sel.Name] = true
								}
							}
						}
					}
				}
			case *ast.CallExpr:
				if id, ok := x.Fun.(*ast.Ident); ok && id.Obj == nil && (id.Name == "print" || id.Name == "println") {
					ent.direct["builtin."+id.Name] = true
				}
				sel, ok := x.Fun.(*ast.SelectorExpr)
				if !ok {
					return true
				}
				// receiver: GetOS(ctx) directly, or a variable assigned from it
				var ctxArg ast.Expr
				found := false
				if a, ok := c12IsGetOSCall(sel.X, imports); ok {
					ctxArg, found = a, true
				} else if id, ok := sel.X.(*ast.Ident); ok && id.Obj != nil {
					if as, ok := id.Obj.Decl.(*ast.AssignStmt); ok {
						for i, lhs := range as.Lhs {
							if l, ok := lhs.(*ast.Ident); ok && l.Name == id.Name && len(as.Rhs) == len(as.Lhs) {
								if a, ok := c12IsGetOSCall(as.Rhs[i], imports); ok {
									ctxArg, found = a, true
								}
							}
						}
					}
				}
				if found {
					ent.mediated[sel.Sel.Name] = true
					if !c12IsCtxParam(ctxArg, fset) {
						ent.recvOK = false
					}
				}
			}
			return true
		})
		if len(ent.direct) > 0 || len(ent.mediated) > 0 {
			out[key] = ent
		}
	}
}

func c12ParseDir(fset *token.FileSet, dir string, filter func(string) bool) []*ast.File {
	ents, err := os.ReadDir(dir)
	if err != nil {
		panic(err)
	}
	var files []*ast.File
	for _, e := range ents {
		n := e.Name()
		if e.IsDir() || !strings.HasSuffix(n, ".go") || strings.HasSuffix(n, "_test.go") || !filter(n) {
			continue
		}
		f, err := parser.ParseFile(fset, filepath.Join(dir, n), nil, 0)
		if err != nil {
			panic(err)
		}
		files = append(files, f)
	}
	if len(files) == 0 {
		panic("no Go files in " + dir)
	}
	return files
}

func c12FindFunc(files []*ast.File, recv, name string) *ast.FuncDecl {
	for _, f := range files {
		for _, d := range f.Decls {
			fd, ok := d.(*ast.FuncDecl)
			if !ok || fd.Name.Name != name || fd.Body == nil {
				continue
			}
			if recv == "" && fd.Recv == nil {
				return fd
			}
			if recv != "" && fd.Recv != nil && len(fd.Recv.List) == 1 {
				return fd
			}
		}
	}
	panic(fmt.Sprintf("function %s %s not found", recv, name))
}

func c12HasCall(fset *token.FileSet, n ast.Node, want string) bool {
	found := false
	ast.Inspect(n, func(x ast.Node) bool {
		if c, ok := x.(*ast.CallExpr); ok && c12Str(fset, c) == want {
			found = true
		}
		return true
	})
	return found
}

func c12HasCallPrefix(fset *token.FileSet, n ast.Node, prefix string) bool {
	found := false
	ast.Inspect(n, func(x ast.Node) bool {
		if c, ok := x.(*ast.CallExpr); ok && strings.HasPrefix(c12Str(fset, c), prefix) {
			found = true
		}
		return true
	})
	return found
}

func c12AssignsTo(n ast.Node, name string) bool {
	found := false
	ast.Inspect(n, func(x ast.Node) bool {
		if as, ok := x.(*ast.AssignStmt); ok {
			for _, l := range as.Lhs {
				if id, ok := l.(*ast.Ident); ok && id.Name == name {
					found = true
				}
			}
		}
		return true
	})
	return found
}

// the order in which getOS returns its three sources
func c12GetOSOrder(fset *token.FileSet, fd *ast.FuncDecl) []string {
	bound := map[string]string{} // local variable -> source
	var order []string
	ast.Inspect(fd.Body, func(n ast.Node) bool {
		switch x := n.(type) {
		case *ast.AssignStmt:
			if len(x.Rhs) == 1 && c12Str(fset, x.Rhs[0]) == "os.GetOS(ctx)" {
				if id, ok := x.Lhs[0].(*ast.Ident); ok {
					bound[id.Name] = ".ctx"
				}
			}
		case *ast.ReturnStmt:
			if len(x.Results) != 1 {
				panic("getOS: return with " + strconv.Itoa(len(x.Results)) + " results")
			}
			s := c12Str(fset, x.Results[0])
			switch {
			case bound[s] != "":
				order = append(order, bound[s])
			case s == "vm.os":
				order = append(order, ".vmField")
			case strings.HasPrefix(s, "os.NewSimpleOS("):
				order = append(order, ".simple")
			default:
				panic("getOS: cannot classify return " + s)
			}
		}
		return true
	})
	return order
}

// c12WithOSGuarded: Config.VMOpts mentions vm.WithOS exactly as `vm.WithOS(cfg.os)` and only inside the
// body of `if cfg.os != nil { … }` (no else branch), at least once.
func c12WithOSGuarded(fset *token.FileSet, fd *ast.FuncDecl) bool {
	total, guarded := 0, 0
	ast.Inspect(fd.Body, func(n ast.Node) bool {
		if c, ok := n.(*ast.CallExpr); ok && c12Str(fset, c.Fun) == "vm.WithOS" {
			total++
		}
		if is, ok := n.(*ast.IfStmt); ok && is.Init == nil && is.Else == nil && c12Str(fset, is.Cond) == "cfg.os != nil" {
			ast.Inspect(is.Body, func(m ast.Node) bool {
				if c, ok := m.(*ast.CallExpr); ok && c12Str(fset, c) == "vm.WithOS(cfg.os)" {
					guarded++
				}
				return true
			})
		}
		return true
	})
	return total > 0 && total == guarded
}

func c12_leanBool(b bool) string {
	if b {
		return "true"
	}
	return "false"
}

func c12_genC12(repo string) string {
	fset := token.NewFileSet()
	all := func(string) bool { return true }

	// ---- facts
	vmFiles := c12ParseDir(fset, filepath.Join(repo, "vm"), all)
	getOS := c12FindFunc(vmFiles, "vm", "getOS")
	order := c12GetOSOrder(fset, getOS)
	initCtx := c12FindFunc(vmFiles, "vm", "initContext")
	initInstalls := (c12HasCall(fset, initCtx, "os.WithOS(ctx, oss)") && c12HasCall(fset, initCtx, "vm.getOS(ctx)") &&
		strings.Contains(c12Str(fset, initCtx.Body), "oss := vm.getOS(ctx)")) || c12HasCall(fset, initCtx, "os.WithOS(ctx, vm.getOS(ctx))")
	initInstalls = initInstalls && strings.Contains(c12Str(fset, initCtx.Body), "ctx = os.WithOS(ctx,")
	runInt := c12FindFunc(vmFiles, "vm", "runCodeInternal")
	callFn := c12FindFunc(vmFiles, "vm", "Call")
	entryInits := c12HasCall(fset, runInt, "vm.eval(vm.initContext(ctx))") && c12HasCallPrefix(fset, callFn, "vm.callFunction(vm.initContext(ctx),") &&
		!c12AssignsTo(runInt.Body, "ctx") && !c12AssignsTo(callFn.Body, "ctx")
	cloneFn := c12FindFunc(vmFiles, "vm", "Clone")
	cloneCopies := false
	ast.Inspect(cloneFn.Body, func(n ast.Node) bool {
		if cl, ok := n.(*ast.CompositeLit); ok && c12Str(fset, cl.Type) == "VirtualMachine" {
			for _, el := range cl.Elts {
				if kv, ok := el.(*ast.KeyValueExpr); ok && c12Str(fset, kv.Key) == "os" && c12Str(fset, kv.Value) == "vm.os" {
					cloneCopies = true
				}
			}
		}
		return true
	})
	if c12AssignsTo(cloneFn.Body, "clone.os") {
		cloneCopies = false
	}
	async := c12FindFunc(vmFiles, "vm", "cloneCallAsync")
	spawnInits := c12HasCallPrefix(fset, async, "object.NewThread(clone.initContext(ctx),") && c12HasCall(fset, async, "vm.Clone()") && !c12AssignsTo(async.Body, "ctx")
	syncFn := c12FindFunc(vmFiles, "vm", "cloneCallSync")
	cloneCallInits := c12HasCallPrefix(fset, syncFn, "clone.callFunction(clone.initContext(ctx),") && c12HasCall(fset, syncFn, "vm.Clone()") && !c12AssignsTo(syncFn.Body, "ctx")
	imp := c12FindFunc(vmFiles, "vm", "importModule")
	importSame := c12HasCall(fset, imp, "vm.eval(ctx)") && !c12AssignsTo(imp.Body, "ctx")

	osFiles := c12ParseDir(fset, filepath.Join(repo, "os"), all)
	gdo := c12Str(fset, c12FindFunc(osFiles, "", "GetDefaultOS").Body)
	gos := c12Str(fset, c12FindFunc(osFiles, "", "GetOS").Body)
	wos := c12Str(fset, c12FindFunc(osFiles, "", "WithOS").Body)
	moduleFromCtx := strings.Contains(gdo, "if osObj, found := GetOS(ctx); found { return osObj }") && strings.Contains(gdo, "return NewSimpleOS(ctx)") &&
		strings.Contains(gos, "ctx.Value(osKey).(OS)") && strings.Contains(wos, "context.WithValue(ctx, osKey, osObj)")
	for _, m := range []string{"modules/os", "modules/filepath"} {
		fs := c12ParseDir(fset, filepath.Join(repo, m), all)
		body := c12Str(fset, c12FindFunc(fs, "", "GetOS").Body)
		if body != "{ return os.GetDefaultOS(ctx) }" {
			moduleFromCtx = false
		}
	}

	// object.DynamicAttr.ResolveAttr memoises its first result
	objFiles := c12ParseDir(fset, filepath.Join(repo, "object"), func(n string) bool { return n == "dynamic_attr.go" })
	resolve := c12Str(fset, c12FindFunc(objFiles, "d", "ResolveAttr").Body)
	dynCaches := strings.Contains(resolve, "d.value = attr") || strings.Contains(resolve, "return d.value")

	// risor's top-level API on an existing machine (risor.WithVM): Config.VMOpts turns the configuration
	// into VM options, Eval/EvalCode/Call hand them to RunCodeOnVM/RunCode, RunCode applies them
	rootFiles := c12ParseDir(fset, repo, func(n string) bool { return n == "risor.go" || n == "risor_config.go" })
	vmOpts := c12FindFunc(rootFiles, "cfg", "VMOpts")
	cfgOSOnlyIfSet := c12WithOSGuarded(fset, vmOpts)
	apiApplies := c12HasCall(fset, c12FindFunc(rootFiles, "", "Eval"), "vm.RunCodeOnVM(ctx, cfg.vm, main, cfg.VMOpts()...)") &&
		c12HasCall(fset, c12FindFunc(rootFiles, "", "EvalCode"), "vm.RunCodeOnVM(ctx, cfg.vm, main, cfg.VMOpts()...)") &&
		c12HasCall(fset, c12FindFunc(rootFiles, "", "Call"), "machine.RunCode(ctx, main, cfg.VMOpts()...)") &&
		strings.Contains(c12Str(fset, c12FindFunc(rootFiles, "", "Call").Body), "machine = cfg.vm") &&
		c12HasCall(fset, c12FindFunc(vmFiles, "", "RunCodeOnVM"), "vm.RunCode(ctx, code, opts...)") &&
		c12HasCall(fset, c12FindFunc(vmFiles, "vm", "RunCode"), "vm.applyOptions(opts)") &&
		strings.Contains(c12Str(fset, c12FindFunc(vmFiles, "vm", "applyOptions").Body), "for _, opt := range options { opt(vm) }") &&
		strings.Contains(c12Str(fset, c12FindFunc(vmFiles, "", "WithOS").Body), "vm.os = os")

	// ---- inventory
	ents := map[string]*c12Entry{}
	for _, m := range []string{"modules/os", "modules/filepath", "modules/fmt", "builtins"} {
		for _, f := range c12ParseDir(fset, filepath.Join(repo, m), all) {
			c12ScanFile(fset, m, f, ents)
		}
	}
	for _, f := range c12ParseDir(fset, filepath.Join(repo, "object"), func(n string) bool { return strings.HasPrefix(n, "file") }) {
		c12ScanFile(fset, "object", f, ents)
	}
	// script-visible names of the three modules -> implementing Go function
	var exports []string
	for _, m := range []string{"modules/os", "modules/filepath", "modules/fmt"} {
		mod := m[strings.LastIndex(m, "/")+1:]
		files := c12ParseDir(fset, filepath.Join(repo, m), all)
		for _, fname := range []string{"Module", "Builtins"} {
			var fd *ast.FuncDecl
			func() {
				defer func() { recover() }()
				fd = c12FindFunc(files, "", fname)
			}()
			if fd == nil {
				continue
			}
			ast.Inspect(fd.Body, func(n ast.Node) bool {
				kv, ok := n.(*ast.KeyValueExpr)
				if !ok {
					return true
				}
				lit, ok := kv.Key.(*ast.BasicLit)
				if !ok || lit.Kind != token.STRING {
					return true
				}
				name, _ := strconv.Unquote(lit.Value)
				call, ok := kv.Value.(*ast.CallExpr)
				if !ok {
					return true
				}
				script := name
				if fname == "Module" {
					script = mod + "." + name
				}
				switch c12Str(fset, call.Fun) {
				case "object.NewBuiltin":
					if len(call.Args) == 2 {
						if id, ok := call.Args[1].(*ast.Ident); ok {
							exports = append(exports, fmt.Sprintf("(%s, %s)", strconv.Quote(script), strconv.Quote(m+"."+id.Name)))
						} else {
							// not a plain function name (e.g. a wrapper applied to one): recorded as written, so that the
							// tie exports_covered fails (no operation has such a Go function) while the tables still build
							// and the correspondence run still exercises the script-visible name
							exports = append(exports, fmt.Sprintf("(%s, %s)", strconv.Quote(script), strconv.Quote(m+"."+c12Str(fset, call.Args[1]))))
						}
					}
				case "object.NewDynamicAttr":
					exports = append(exports, fmt.Sprintf("(%s, %s)", strconv.Quote(script), strconv.Quote(m+"."+fname)))
				}
				return true
			})
		}
	}
	sort.Strings(exports)

	// ---- the OS implementation risor ships for hosts: direct sinks in its own bodies
	vents := map[string]*c12Entry{}
	vfiles := map[string]bool{"virtual.go": true, "nil_file.go": true, "buffer_file.go": true, "in_memory_file.go": true}
	for _, f := range c12ParseDir(fset, filepath.Join(repo, "os"), func(n string) bool { return vfiles[n] }) {
		c12ScanFile(fset, "os", f, vents)
		// inside package os the real implementation is reachable without a package qualifier
		for _, d := range f.Decls {
			fd, ok := d.(*ast.FuncDecl)
			if !ok || fd.Body == nil {
				continue
			}
			name := fd.Name.Name
			if fd.Recv != nil && len(fd.Recv.List) == 1 {
				name = strings.TrimPrefix(c12Str(fset, fd.Recv.List[0].Type), "*") + "." + name
			}
			key := "os." + name
			ast.Inspect(fd.Body, func(n ast.Node) bool {
				if id, ok := n.(*ast.Ident); ok && id.Obj == nil && (id.Name == "NewSimpleOS" || id.Name == "SimpleOS") {
					if vents[key] == nil {
						vents[key] = &c12Entry{fn: key, direct: map[string]bool{}, mediated: map[string]bool{}, recvOK: true}
					}
					vents[key].direct["risoros."+id.Name] = true
				}
				return true
			})
		}
	}
	var vkeys []string
	for k, e := range vents {
		if len(e.direct) > 0 {
			vkeys = append(vkeys, k)
		}
	}
	sort.Strings(vkeys)

	keys := make([]string, 0, len(ents))
	for k := range ents {
		keys = append(keys, k)
	}
	sort.Strings(keys)
	strList := func(m map[string]bool) string {
		var xs []string
		for k := range m {
			xs = append(xs, strconv.Quote(k))
		}
		sort.Strings(xs)
		return "[" + strings.Join(xs, ", ") + "]"
	}

	var b strings.Builder
	b.WriteString("import RisorModel.C12.Model\nnamespace Risor.Generated.C12\nopen Risor.C12\n\n")
	b.WriteString("/-- read from vm/vm.go (getOS, initContext, runCodeInternal, Call, Clone, cloneCallAsync, cloneCallSync,\n    importModule, RunCodeOnVM, RunCode, applyOptions, WithOS), os/os.go (WithOS, GetOS, GetDefaultOS) and the modules' GetOS,\n    object/dynamic_attr.go (ResolveAttr), risor.go (Eval, EvalCode, Call) and risor_config.go (Config.VMOpts) -/\n")
	b.WriteString("def facts : Facts :=\n  { getOSOrder := [" + strings.Join(order, ", ") + "],\n")
	b.WriteString("    initInstalls := " + c12_leanBool(initInstalls) + ",\n")
	b.WriteString("    entryInits := " + c12_leanBool(entryInits) + ",\n")
	b.WriteString("    cloneCopiesOS := " + c12_leanBool(cloneCopies) + ",\n")
	b.WriteString("    spawnInits := " + c12_leanBool(spawnInits) + ",\n")
	b.WriteString("    cloneCallInits := " + c12_leanBool(cloneCallInits) + ",\n")
	b.WriteString("    importSameCtx := " + c12_leanBool(importSame) + ",\n")
	b.WriteString("    moduleFromCtx := " + c12_leanBool(moduleFromCtx) + ",\n")
	b.WriteString("    dynAttrCaches := " + c12_leanBool(dynCaches) + ",\n")
	b.WriteString("    cfgOSOnlyIfSet := " + c12_leanBool(cfgOSOnlyIfSet) + ",\n")
	b.WriteString("    apiAppliesOpts := " + c12_leanBool(apiApplies) + " }\n\n")
	b.WriteString("/-- E9: functions of modules/{os,filepath,fmt}, builtins, object/file*.go that touch an OS -/\n")
	b.WriteString("def inventory : List FnEntry := [\n")
	for i, k := range keys {
		e := ents[k]
		sep := ","
		if i == len(keys)-1 {
			sep = ""
		}
		b.WriteString(fmt.Sprintf("  ⟨%s, %s, %s, %s⟩%s\n", strconv.Quote(e.fn), strList(e.direct), strList(e.mediated), c12_leanBool(e.recvOK), sep))
	}
	b.WriteString("]\n\n/-- every script-visible function/attribute of the os, filepath and fmt modules (their `Module()` and\n    `Builtins()` tables) with the Go function behind it -/\n")
	b.WriteString("def exports : List (String × String) := [\n  " + strings.Join(exports, ",\n  ") + "\n]\n")
	b.WriteString("\n/-- functions of os/virtual.go, os/nil_file.go, os/buffer_file.go, os/in_memory_file.go whose body uses\n    an OS-touching member of a Go package (or risor's SimpleOS), with those members -/\n")
	b.WriteString("def virtualSinks : List (String × List String) := [\n")
	for i, k := range vkeys {
		sep := ","
		if i == len(vkeys)-1 {
			sep = ""
		}
		b.WriteString(fmt.Sprintf("  (%s, %s)%s\n", strconv.Quote(strings.TrimPrefix(k, "os.")), strList(vents[k].direct), sep))
	}
	b.WriteString("]\n")
	b.WriteString("\nend Risor.Generated.C12\n")
	return b.String()
}
