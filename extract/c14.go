package main

// E11 (+ the importer/VM facts C14's model is stated over): regenerated from the sources.
//   parser/parser.go   validateImportPath: regular-expression literals, strings.Trim cutset
//   importer/*.go      default extensions; the file-name expressions of both importers
//   risor_config.go    the extension list WithLocalImporter configures
//   vm/vm.go           MaxFrameDepth; the module-name expressions of op.FromImport;
//                      the keys of the vm.modules cache in importModule; the steps of
//                      importModule in source order (cache lookup, cyclic-import guard over
//                      vm.importing, importer.Import, push, eval, store), the guard's condition and
//                      what it returns, every write of vm.importing in the file, and the statements of
//                      the deferred frame restore (pop of vm.importing, resumeFrame, dropping what the
//                      module's code left above the importer's stack pointer)
//   importer/*.go      where the code object an importer hands out comes from (every
//                      assignment to `code` in Import: the by-name cache or a fresh
//                      parseAndCompile — the model's `LocalImporter`, `Env.reuse = none`)
//   importer/*.go      where the MODULE OBJECT an importer hands out comes from (the first result of
//                      every `return` of Import that is not nil: a new object.NewModule per call — the
//                      model's `St.enter` appends a new object; `importModuleMC` is the other importer);
//   object/module.go   what NewModule returns (a composite literal: a new object) and the statements of
//                      Module.UseGlobals (the module object is bound to the globals slice it is given);
//   vm/vm.go           the binding step of importModule (`module.UseGlobals(code.Globals)` between eval
//                      and store) and the code a function call activates (`vm.loadCode(fn.Code())`:
//                      the function view `St.fnArray`)

import (
	"bytes"
	"fmt"
	"go/ast"
	"go/parser"
	"go/printer"
	"go/token"
	"go/types"
	"strconv"
	"strings"
)

// source text of a statement on one line (runs of white space collapsed)
func c14StmtText(n ast.Node) string {
	var b bytes.Buffer
	if err := printer.Fprint(&b, token.NewFileSet(), n); err != nil {
		panic(err)
	}
	return strings.Join(strings.Fields(b.String()), " ")
}

func c14Parse(repo, file string) *ast.File {
	fset := token.NewFileSet()
	f, err := parser.ParseFile(fset, repo+"/"+file, nil, 0)
	if err != nil {
		panic(err)
	}
	return f
}

func c14Func(f *ast.File, name string) *ast.FuncDecl {
	for _, d := range f.Decls {
		if fd, ok := d.(*ast.FuncDecl); ok && fd.Name.Name == name {
			return fd
		}
	}
	panic("function " + name + " not found")
}

func c14CallName(c *ast.CallExpr) string {
	switch f := c.Fun.(type) {
	case *ast.SelectorExpr:
		if id, ok := f.X.(*ast.Ident); ok {
			return id.Name + "." + f.Sel.Name
		}
		return "." + f.Sel.Name
	case *ast.Ident:
		return f.Name
	}
	return ""
}

func c14Str(e ast.Expr) string {
	bl, ok := e.(*ast.BasicLit)
	if !ok || bl.Kind != token.STRING {
		panic("expected a string literal, got " + types.ExprString(e))
	}
	s, err := strconv.Unquote(bl.Value)
	if err != nil {
		panic(err)
	}
	return s
}

func c14_leanStr(s string) string {
	var b strings.Builder
	b.WriteByte('"')
	for _, r := range s {
		switch r {
		case '"':
			b.WriteString("\\\"")
		case '\\':
			b.WriteString("\\\\")
		case '\n':
			b.WriteString("\\n")
		default:
			b.WriteRune(r)
		}
	}
	b.WriteByte('"')
	return b.String()
}

func c14_leanStrList(xs []string) string {
	o := make([]string, len(xs))
	for i, x := range xs {
		o[i] = c14_leanStr(x)
	}
	return "[" + strings.Join(o, ", ") + "]"
}

func c14_leanBytesList(xs []string) string {
	o := make([]string, len(xs))
	for i, x := range xs {
		o[i] = byteList(x)
	}
	return "[" + strings.Join(o, ", ") + "]"
}

// string elements of a composite literal []string{...}
func c14StrSlice(e ast.Expr) []string {
	cl, ok := e.(*ast.CompositeLit)
	if !ok {
		panic("expected a []string literal, got " + types.ExprString(e))
	}
	var out []string
	for _, el := range cl.Elts {
		out = append(out, c14Str(el))
	}
	return out
}

func init() {
	generators = append(generators, generator{"C14", func(repo string) string {
		// parser.validateImportPath
		pf := c14Parse(repo, "parser/parser.go")
		var regexes, cutsets []string
		ast.Inspect(c14Func(pf, "validateImportPath"), func(n ast.Node) bool {
			if c, ok := n.(*ast.CallExpr); ok {
				switch c14CallName(c) {
				case "regexp.MustCompile":
					regexes = append(regexes, c14Str(c.Args[0]))
				case "strings.Trim", "strings.TrimLeft", "strings.TrimRight", "strings.TrimPrefix", "strings.TrimSuffix", "strings.ReplaceAll", "strings.Replace":
					cutsets = append(cutsets, c14CallName(c)+" "+c14Str(c.Args[1]))
				}
			}
			return true
		})
		// how often the parser validates a path (parseImport, parseFromImport)
		validateCalls := 0
		for _, fn := range []string{"parseImport", "parseFromImport"} {
			ast.Inspect(c14Func(pf, fn), func(n ast.Node) bool {
				if c, ok := n.(*ast.CallExpr); ok && c14CallName(c) == "validateImportPath" {
					validateCalls++
				}
				return true
			})
		}
		// importer
		imf := c14Parse(repo, "importer/importer.go")
		var defExts []string
		for _, d := range imf.Decls {
			gd, ok := d.(*ast.GenDecl)
			if !ok {
				continue
			}
			for _, sp := range gd.Specs {
				if vs, ok := sp.(*ast.ValueSpec); ok && len(vs.Names) == 1 && vs.Names[0].Name == "defaultExtensions" {
					defExts = c14StrSlice(vs.Values[0])
				}
			}
		}
		if defExts == nil {
			panic("defaultExtensions not found")
		}
		assignOf := func(fd *ast.FuncDecl, lhs string) string {
			out := ""
			ast.Inspect(fd, func(n ast.Node) bool {
				if as, ok := n.(*ast.AssignStmt); ok && len(as.Lhs) >= 1 && len(as.Rhs) == 1 {
					if id, ok := as.Lhs[0].(*ast.Ident); ok && id.Name == lhs {
						out = types.ExprString(as.Rhs[0])
					}
				}
				return true
			})
			if out == "" {
				panic("assignment to " + lhs + " not found in " + fd.Name.Name)
			}
			return out
		}
		localExpr := assignOf(c14Func(imf, "readFileWithExtensions"), "fullPath")
		fsf := c14Parse(repo, "importer/fs_importer.go")
		fsExpr := assignOf(c14Func(fsf, "readFileWithExtensions"), "fullName")
		// Import: every expression assigned to `code` (the origin of the code objects handed out)
		codeSources := func(fd *ast.FuncDecl) []string {
			var out []string
			ast.Inspect(fd, func(n ast.Node) bool {
				if as, ok := n.(*ast.AssignStmt); ok && len(as.Lhs) >= 1 && len(as.Rhs) == 1 {
					if id, ok := as.Lhs[0].(*ast.Ident); ok && id.Name == "code" {
						out = append(out, types.ExprString(as.Rhs[0]))
					}
				}
				return true
			})
			return out
		}
		localCodeSources := codeSources(c14Func(imf, "Import"))
		fsCodeSources := codeSources(c14Func(fsf, "Import"))
		// Import: the module object of every successful return (first result, when it is not nil)
		moduleSources := func(fd *ast.FuncDecl) []string {
			var out []string
			ast.Inspect(fd, func(n ast.Node) bool {
				if _, ok := n.(*ast.FuncLit); ok {
					return false
				}
				if rs, ok := n.(*ast.ReturnStmt); ok && len(rs.Results) == 2 {
					if x := types.ExprString(rs.Results[0]); x != "nil" {
						out = append(out, x)
					}
				}
				return true
			})
			return out
		}
		localModuleSources := moduleSources(c14Func(imf, "Import"))
		fsModuleSources := moduleSources(c14Func(fsf, "Import"))
		// every struct field of the importers that is a map (their caches), with its type
		cacheFields := func(f *ast.File, typ string) []string {
			var out []string
			for _, d := range f.Decls {
				gd, ok := d.(*ast.GenDecl)
				if !ok {
					continue
				}
				for _, sp := range gd.Specs {
					ts, ok := sp.(*ast.TypeSpec)
					if !ok || ts.Name.Name != typ {
						continue
					}
					if st, ok := ts.Type.(*ast.StructType); ok {
						for _, fl := range st.Fields.List {
							if _, isMap := fl.Type.(*ast.MapType); isMap {
								for _, nm := range fl.Names {
									out = append(out, nm.Name+" "+types.ExprString(fl.Type))
								}
							}
						}
					}
				}
			}
			return out
		}
		localCaches := cacheFields(imf, "LocalImporter")
		fsCaches := cacheFields(fsf, "FSImporter")
		// object.NewModule: what it returns; Module.UseGlobals: its statements
		mf := c14Parse(repo, "object/module.go")
		var newModuleReturns []string
		ast.Inspect(c14Func(mf, "NewModule"), func(n ast.Node) bool {
			if rs, ok := n.(*ast.ReturnStmt); ok && len(rs.Results) == 1 {
				x := rs.Results[0]
				if u, ok := x.(*ast.UnaryExpr); ok && u.Op == token.AND {
					if cl, ok := u.X.(*ast.CompositeLit); ok {
						newModuleReturns = append(newModuleReturns, "&"+types.ExprString(cl.Type)+"{...}")
						return true
					}
				}
				newModuleReturns = append(newModuleReturns, types.ExprString(x))
			}
			return true
		})
		var useGlobalsStmts []string
		for _, d := range mf.Decls {
			if fd, ok := d.(*ast.FuncDecl); ok && fd.Name.Name == "UseGlobals" && fd.Recv != nil {
				for _, st := range fd.Body.List {
					if _, isIf := st.(*ast.IfStmt); isIf {
						useGlobalsStmts = append(useGlobalsStmts, "if "+types.ExprString(st.(*ast.IfStmt).Cond)+" { panic }")
						continue
					}
					useGlobalsStmts = append(useGlobalsStmts, c14StmtText(st))
				}
			}
		}
		// risor_config.newLocalImporter
		cf := c14Parse(repo, "risor_config.go")
		var cfgExts []string
		ast.Inspect(c14Func(cf, "newLocalImporter"), func(n ast.Node) bool {
			if kv, ok := n.(*ast.KeyValueExpr); ok {
				if id, ok := kv.Key.(*ast.Ident); ok && id.Name == "Extensions" {
					cfgExts = c14StrSlice(kv.Value)
				}
			}
			return true
		})
		// vm
		vf := c14Parse(repo, "vm/vm.go")
		maxFrame := ""
		for _, d := range vf.Decls {
			gd, ok := d.(*ast.GenDecl)
			if !ok {
				continue
			}
			for _, sp := range gd.Specs {
				if vs, ok := sp.(*ast.ValueSpec); ok {
					for i, nm := range vs.Names {
						if nm.Name == "MaxFrameDepth" && i < len(vs.Values) {
							maxFrame = types.ExprString(vs.Values[i])
						}
					}
				}
			}
		}
		if _, err := strconv.Atoi(maxFrame); err != nil {
			panic("MaxFrameDepth is not an integer literal: " + maxFrame)
		}
		// importModule: keys of the modules cache, and the order lookup < importer.Import < store
		var lookupKeys, storeKeys, importArgs []string
		im := c14Func(vf, "importModule")
		isModules := func(e ast.Expr) (string, bool) {
			ix, ok := e.(*ast.IndexExpr)
			if !ok {
				return "", false
			}
			if types.ExprString(ix.X) != "vm.modules" {
				return "", false
			}
			return types.ExprString(ix.Index), true
		}
		ast.Inspect(im, func(n ast.Node) bool {
			switch x := n.(type) {
			case *ast.AssignStmt:
				for _, l := range x.Lhs {
					if k, ok := isModules(l); ok {
						storeKeys = append(storeKeys, k)
					}
				}
				for _, r := range x.Rhs {
					if k, ok := isModules(r); ok {
						lookupKeys = append(lookupKeys, k)
					}
				}
			case *ast.CallExpr:
				if types.ExprString(x.Fun) == "vm.importer.Import" && len(x.Args) == 2 {
					importArgs = append(importArgs, types.ExprString(x.Args[1]))
				}
			}
			return true
		})
		// importModule after the repairs: its steps in source order, the cyclic-import guard, the
		// deferred frame restore; every write of vm.importing in vm/vm.go
		var steps, guard, deferred, importingWrites []string
		ast.Inspect(im.Body, func(n ast.Node) bool {
			switch x := n.(type) {
			case *ast.RangeStmt:
				if types.ExprString(x.X) == "vm.importing" {
					steps = append(steps, "cyclic-guard")
					guard = append(guard, "range "+types.ExprString(x.X))
					ast.Inspect(x.Body, func(m ast.Node) bool {
						switch y := m.(type) {
						case *ast.IfStmt:
							guard = append(guard, "if "+types.ExprString(y.Cond))
						case *ast.ReturnStmt:
							guard = append(guard, c14StmtText(y))
						}
						return true
					})
					return false
				}
			case *ast.DeferStmt:
				if fl, ok := x.Call.Fun.(*ast.FuncLit); ok {
					isRestore := false
					for _, st := range fl.Body.List {
						if strings.Contains(c14StmtText(st), "resumeFrame") {
							isRestore = true
						}
					}
					if isRestore {
						for _, st := range fl.Body.List {
							deferred = append(deferred, c14StmtText(st))
						}
						return false
					}
				} else if strings.Contains(types.ExprString(x.Call.Fun), "resumeFrame") {
					deferred = append(deferred, c14StmtText(x.Call))
				}
			case *ast.AssignStmt:
				for _, r := range x.Rhs {
					if _, ok := isModules(r); ok {
						steps = append(steps, "lookup")
					}
				}
				for _, l := range x.Lhs {
					if _, ok := isModules(l); ok {
						steps = append(steps, "store")
					}
					if types.ExprString(l) == "vm.importing" && len(x.Rhs) == 1 {
						if c, ok := x.Rhs[0].(*ast.CallExpr); ok && types.ExprString(c.Fun) == "append" {
							steps = append(steps, "push")
						}
					}
				}
			case *ast.CallExpr:
				switch types.ExprString(x.Fun) {
				case "vm.importer.Import":
					steps = append(steps, "importer.Import")
				case "vm.eval":
					steps = append(steps, "eval")
				case "module.UseGlobals":
					steps = append(steps, "bind "+c14StmtText(x))
				}
			}
			return true
		})
		ast.Inspect(vf, func(n ast.Node) bool {
			switch x := n.(type) {
			case *ast.AssignStmt:
				for _, l := range x.Lhs {
					if se, ok := l.(*ast.SelectorExpr); ok && se.Sel.Name == "importing" {
						importingWrites = append(importingWrites, c14StmtText(x))
					}
				}
			case *ast.KeyValueExpr:
				if id, ok := x.Key.(*ast.Ident); ok && id.Name == "importing" {
					importingWrites = append(importingWrites, "literal: "+c14StmtText(x))
				}
			}
			return true
		})
		// op.FromImport: the names handed to importModule inside the eval switch
		var fromArgs []string
		ast.Inspect(c14Func(vf, "eval"), func(n ast.Node) bool {
			cc, ok := n.(*ast.CaseClause)
			if !ok || len(cc.List) != 1 || types.ExprString(cc.List[0]) != "op.FromImport" {
				return true
			}
			ast.Inspect(cc, func(m ast.Node) bool {
				if c, ok := m.(*ast.CallExpr); ok && types.ExprString(c.Fun) == "vm.importModule" && len(c.Args) == 2 {
					fromArgs = append(fromArgs, types.ExprString(c.Args[1]))
				}
				return true
			})
			return false
		})
		// activateFunction: the code a function call activates
		var callLoads []string
		ast.Inspect(c14Func(vf, "activateFunction"), func(n ast.Node) bool {
			if c, ok := n.(*ast.CallExpr); ok && types.ExprString(c.Fun) == "vm.loadCode" {
				callLoads = append(callLoads, c14StmtText(c))
			}
			return true
		})
		// compiler: what compileImport loads as the module name
		cpf := c14Parse(repo, "compiler/compiler.go")
		moduleNameExpr := assignOf(c14Func(cpf, "compileImport"), "moduleName")

		s := "namespace Risor.Generated.C14\n\n"
		s += "/-- regular-expression literals of parser.validateImportPath, in source order -/\n"
		s += "def importPathRegexes : List String := " + c14_leanStrList(regexes) + "\n"
		s += "/-- string rewriting applied to the path before matching -/\n"
		s += "def pathRewrites : List String := " + c14_leanStrList(cutsets) + "\n"
		s += fmt.Sprintf("/-- calls of validateImportPath in parseImport + parseFromImport -/\ndef validateCalls : Nat := %d\n", validateCalls)
		s += "def defaultExtensions : List (List Nat) := " + c14_leanBytesList(defExts) + "\n"
		s += "def configExtensions : List (List Nat) := " + c14_leanBytesList(cfgExts) + "\n"
		s += "def localFileExpr : String := " + c14_leanStr(localExpr) + "\n"
		s += "def fsFileExpr : String := " + c14_leanStr(fsExpr) + "\n"
		s += "def maxFrameDepth : Nat := " + maxFrame + "\n"
		s += "def moduleCacheLookupKeys : List String := " + c14_leanStrList(lookupKeys) + "\n"
		s += "def moduleCacheStoreKeys : List String := " + c14_leanStrList(storeKeys) + "\n"
		s += "def importerArgs : List String := " + c14_leanStrList(importArgs) + "\n"
		s += "def fromImportNames : List String := " + c14_leanStrList(fromArgs) + "\n"
		s += "def compileImportName : String := " + c14_leanStr(moduleNameExpr) + "\n"
		s += "/-- the steps of vm.importModule in source order -/\n"
		s += "def importModuleSteps : List String := " + c14_leanStrList(steps) + "\n"
		s += "/-- the loop over vm.importing in vm.importModule: range expression, condition, what it returns -/\n"
		s += "def cyclicImportGuard : List String := " + c14_leanStrList(guard) + "\n"
		s += "/-- the statements of the deferred frame restore of vm.importModule, in order -/\n"
		s += "def importDeferredRestore : List String := " + c14_leanStrList(deferred) + "\n"
		s += "/-- every assignment to a field `importing` (and every struct literal that sets it) in vm/vm.go -/\n"
		s += "def importingWrites : List String := " + c14_leanStrList(importingWrites) + "\n"
		s += "/-- every expression assigned to `code` in LocalImporter.Import / FSImporter.Import, in source order -/\n"
		s += "def localImporterCodeSources : List String := " + c14_leanStrList(localCodeSources) + "\n"
		s += "def fsImporterCodeSources : List String := " + c14_leanStrList(fsCodeSources) + "\n"
		s += "/-- the first result of every successful `return` of LocalImporter.Import / FSImporter.Import, in source order -/\n"
		s += "def localImporterModuleSources : List String := " + c14_leanStrList(localModuleSources) + "\n"
		s += "def fsImporterModuleSources : List String := " + c14_leanStrList(fsModuleSources) + "\n"
		s += "/-- the map-typed fields (caches) of the two importer structs -/\n"
		s += "def localImporterCaches : List String := " + c14_leanStrList(localCaches) + "\n"
		s += "def fsImporterCaches : List String := " + c14_leanStrList(fsCaches) + "\n"
		s += "/-- what object.NewModule returns -/\n"
		s += "def newModuleReturns : List String := " + c14_leanStrList(newModuleReturns) + "\n"
		s += "/-- the statements of Module.UseGlobals -/\n"
		s += "def useGlobalsStmts : List String := " + c14_leanStrList(useGlobalsStmts) + "\n"
		s += "/-- the vm.loadCode calls of vm.activateFunction (the code a function call runs on) -/\n"
		s += "def activateFunctionLoads : List String := " + c14_leanStrList(callLoads) + "\n"
		s += "\nend Risor.Generated.C14\n"
		return s
	}})
}
