package main

// C16: object/list.go ResolveIndex translated to a Lean definition over Int (E6).

func init() {
	generators = append(generators, generator{"C16", func(repo string) string {
		s := "import RisorModel.C16.Model\nnamespace Risor.Generated.C16\nopen Risor.C16\n\n"
		s += "/-- translated from object/list.go `ResolveIndex` -/\n"
		s += translateFunc(repo, FuncCfg{
			File: "object/list.go", Func: "ResolveIndex", Lean: "resolveIndex",
			Params: map[string]string{"idx": "Int", "size": "Int"}, Order: []string{"idx", "size"},
			Calls:   map[string]string{},
			RetType: "IdxRes", Ok: ".ok %s", Err: ".err",
		})
		s += "\nend Risor.Generated.C16\n"
		return s
	}})
}
