package main

// C16: object/list.go ResolveIndex translated to a Lean definition over Int (E6).

func init() {
	generators = append(generators, generator{"C16", func(repo string) string {
		s := "import RisorModel.C16.Model\nnamespace Risor.Generated.C16\nopen Risor.C16\n\n"
		s += "/-- translated from object/list.go `ResolveIndex` -/\n"
		s += translateFunc(repo, FuncCfg{
			File: "object/list.go", Func: "ResolveIndex", Lean: "resolveIndex",
			Params: map[string]string{"idx": "Int", "size": "Int"}, Order: []string{"idx", "size"},
			Calls:   map[string]string{},
			RetType: "IdxRes", Ok: ".ok %s", Err: ".err",
		})
		s += "\n/-- translated from object/list.go `ResolveIntSlice` (type assertions on the two bounds,\n    defaults, negative bounds relative to the end, the five range checks, in source order) -/\n"
		s += translateFunc(repo, FuncCfg{
			File: "object/list.go", Func: "ResolveIntSlice", Lean: "resolveIntSliceGo",
			Params: map[string]string{"slice": "", "size": "Int", "sStart": "Option Val", "sStop": "Option Val"},
			Order:  []string{"sStart", "sStop", "size"},
			Calls:  map[string]string{},
			RetType: "SliceResI", Ok: ".ok %s %s", Err: ".err .slice",
			Named: []string{"start", "stop"}, ErrName: "err",
			ErrBy:  map[string]string{"errz.TypeErrorf": ".err .type", "fmt.Errorf": ".err .slice"},
			Sel:    map[string]string{"slice.Start": "sStart", "slice.Stop": "sStop"},
			Field:  map[string]string{"value": "intValue"},
			NotNil: "notNil", Assert: map[string]string{"*Int": "boundInt"}, AssertOk: "isOk",
		})
		s += "\n/-- translated from object/list.go `(*List).Insert`: the index arithmetic (negative index\n    relative to the end, clamped to 0) and the choice between the three slice operations of\n    the body; `n` stands for `int64(len(ls.items))` -/\n"
		s += translateFunc(repo, FuncCfg{
			File: "object/list.go", Func: "Insert", Lean: "insertAct", Recv: true,
			Params: map[string]string{"index": "Int", "obj": "", "n": "Int"}, Order: []string{"index", "n"},
			Calls:   map[string]string{},
			RetType: "InsAct", Ok: "%s", Err: ".prepend",
			Exprs:   map[string]string{"int64(len(ls.items))": "n"},
			Acts: map[string]string{
				"ls.items = append([]Object{obj}, ls.items...)": ".prepend",
				"ls.items = append(ls.items, obj)":              ".append",
				"ls.items = append(ls.items, nil)":              "(.shift index)",
				"copy(ls.items[index+1:], ls.items[index:])":    "",
				"ls.items[index] = obj":                         "",
			},
		})
		s += "\nend Risor.Generated.C16\n"
		return s
	}})
}
