package main

// C04, host entry points: the facts about vm/vm.go that the entry-point machine of
// lean/RisorModel/C04/Host.lean assumes — where sp is written at all, that runCodeInternal
// resets unconditionally on every start after the first, what resetForNewCode sets sp to, that
// Run drops what the previous run left, how Run / RunCode enter runCodeInternal, and how
// callFunction saves and restores sp.  Ties.lean proves them equal to the reviewed constants.

import (
	"bytes"
	"go/ast"
	"go/parser"
	"go/printer"
	"go/token"
	"strconv"
	"strings"
)

func init() {
	generators = append(generators, generator{"C04Host", genC04Host})
}

func genC04Host(repo string) string {
	fset := token.NewFileSet()
	f, err := parser.ParseFile(fset, repo+"/vm/vm.go", nil, 0)
	if err != nil {
		panic(err)
	}
	src := func(n ast.Node) string {
		var b bytes.Buffer
		printer.Fprint(&b, fset, n)
		return strings.Join(strings.Fields(b.String()), " ")
	}
	funcs := map[string]*ast.FuncDecl{}
	var order []string
	for _, d := range f.Decls {
		if fd, ok := d.(*ast.FuncDecl); ok && fd.Body != nil {
			funcs[fd.Name.Name] = fd
			order = append(order, fd.Name.Name)
		}
	}
	need := func(name string) *ast.FuncDecl {
		fd := funcs[name]
		if fd == nil {
			panic("vm/vm.go: function " + name + " not found")
		}
		return fd
	}
	isSp := func(e ast.Expr) bool {
		s, ok := e.(*ast.SelectorExpr)
		if !ok || s.Sel.Name != "sp" {
			return false
		}
		id, ok := s.X.(*ast.Ident)
		return ok && id.Name == "vm"
	}
	contains := func(n ast.Node, what string) bool { return strings.Contains(src(n), what) }
	stmtsOf := func(b *ast.BlockStmt) []string {
		var out []string
		for _, s := range b.List {
			out = append(out, src(s))
		}
		return out
	}
	list := func(xs []string) string {
		q := make([]string, len(xs))
		for i, x := range xs {
			q[i] = leanStr(x)
		}
		return "[" + strings.Join(q, ", ") + "]"
	}
	var sb strings.Builder
	sb.WriteString("namespace Risor.Generated.C04Host\n\n")

	// every write of vm.sp in vm/vm.go: (function, statement)
	sb.WriteString("/-- every statement of vm/vm.go that writes vm.sp, in source order: (function, statement) -/\n")
	sb.WriteString("def spWrites : List (String × String) := [\n")
	var ws []string
	for _, name := range order {
		ast.Inspect(funcs[name].Body, func(n ast.Node) bool {
			switch s := n.(type) {
			case *ast.AssignStmt:
				for _, l := range s.Lhs {
					if isSp(l) {
						ws = append(ws, "  ("+leanStr(name)+", "+leanStr(src(s))+")")
					}
				}
			case *ast.IncDecStmt:
				if isSp(s.X) {
					ws = append(ws, "  ("+leanStr(name)+", "+leanStr(src(s))+")")
				}
			}
			return true
		})
	}
	sb.WriteString(strings.Join(ws, ",\n") + "\n]\n\n")

	// runCodeInternal: the guard(s) around resetForNewCode
	rci := need("runCodeInternal")
	sb.WriteString("/-- runCodeInternal: every `if` whose body reaches vm.resetForNewCode(): (condition, statements of its body), outermost first -/\n")
	sb.WriteString("def resetGuards : List (String × List String) := [\n")
	var gs []string
	ast.Inspect(rci.Body, func(n ast.Node) bool {
		if is, ok := n.(*ast.IfStmt); ok && contains(is.Body, "resetForNewCode") {
			c := src(is.Cond)
			if is.Init != nil {
				c = src(is.Init) + "; " + c
			}
			gs = append(gs, "  ("+leanStr(c)+", "+list(stmtsOf(is.Body))+")")
		}
		return true
	})
	sb.WriteString(strings.Join(gs, ",\n") + "\n]\n\n")
	// calls of resetForNewCode outside any if (would be an unconditional reset on every start)
	n := 0
	for _, s := range rci.Body.List {
		if es, ok := s.(*ast.ExprStmt); ok && contains(es, "resetForNewCode") {
			n++
		}
	}
	sb.WriteString("/-- runCodeInternal: calls of vm.resetForNewCode() at the top level of its body (outside every if) -/\n")
	sb.WriteString("def resetUnguarded : Nat := " + strconv.Itoa(n) + "\n\n")

	// runCodeInternal: loops (the drop of the previous result on the Run path)
	sb.WriteString("/-- runCodeInternal: every `for`: (condition of the innermost enclosing if, loop condition, loop body) -/\n")
	sb.WriteString("def runLoops : List (String × String × List String) := [\n")
	var ls []string
	var walk func(n ast.Node, encl string)
	walk = func(n ast.Node, encl string) {
		ast.Inspect(n, func(m ast.Node) bool {
			if m == n {
				return true
			}
			switch s := m.(type) {
			case *ast.IfStmt:
				walk(s.Body, src(s.Cond))
				if s.Else != nil {
					walk(s.Else, "else of "+src(s.Cond))
				}
				return false
			case *ast.ForStmt:
				c := ""
				if s.Cond != nil {
					c = src(s.Cond)
				}
				if s.Init != nil || s.Post != nil {
					c = src(s.Init) + "; " + c + "; " + src(s.Post)
				}
				ls = append(ls, "  ("+leanStr(encl)+", "+leanStr(c)+", "+list(stmtsOf(s.Body))+")")
				return false
			}
			return true
		})
	}
	walk(rci.Body, "")
	sb.WriteString(strings.Join(ls, ",\n") + "\n]\n\n")

	// how the entry points enter runCodeInternal / callFunction
	sb.WriteString("/-- (entry point, its calls of runCodeInternal / callFunction / eval) -/\n")
	sb.WriteString("def entryCalls : List (String × List String) := [\n")
	var es []string
	for _, name := range []string{"Run", "RunCode", "Call", "runCodeInternal"} {
		var cs []string
		ast.Inspect(need(name).Body, func(n ast.Node) bool {
			if c, ok := n.(*ast.CallExpr); ok {
				if s, ok := c.Fun.(*ast.SelectorExpr); ok {
					switch s.Sel.Name {
					case "runCodeInternal", "callFunction", "eval", "activateCode", "start", "stop":
						cs = append(cs, src(c))
					}
				}
			}
			return true
		})
		es = append(es, "  ("+leanStr(name)+", "+list(cs)+")")
	}
	sb.WriteString(strings.Join(es, ",\n") + "\n]\n\n")

	// resetForNewCode: what sp is set to
	val := ""
	ast.Inspect(need("resetForNewCode").Body, func(n ast.Node) bool {
		if a, ok := n.(*ast.AssignStmt); ok && len(a.Lhs) == 1 && isSp(a.Lhs[0]) {
			val += src(a.Rhs[0])
		}
		return true
	})
	sb.WriteString("/-- resetForNewCode: the value assigned to vm.sp -/\n")
	sb.WriteString("def resetSp : String := " + leanStr(val) + "\n\n")

	// callFunction: where sp is saved, the deferred restore, the result
	cf := need("callFunction")
	var saves, defers, rets []string
	ast.Inspect(cf.Body, func(n ast.Node) bool {
		switch s := n.(type) {
		case *ast.AssignStmt:
			if len(s.Rhs) == 1 && isSp(s.Rhs[0]) {
				saves = append(saves, src(s))
			}
		case *ast.DeferStmt:
			if fl, ok := s.Call.Fun.(*ast.FuncLit); ok && contains(fl.Body, "resumeFrame") {
				defers = append(defers, stmtsOf(fl.Body)...)
			}
			return false
		case *ast.ReturnStmt:
			if contains(s, "vm.pop()") {
				rets = append(rets, src(s))
			}
		case *ast.FuncLit:
			return false
		}
		return true
	})
	sb.WriteString("/-- callFunction: the statements that save vm.sp -/\n")
	sb.WriteString("def callSaves : List String := " + list(saves) + "\n\n")
	sb.WriteString("/-- callFunction: the body of the deferred function that calls resumeFrame -/\n")
	sb.WriteString("def callRestore : List String := " + list(defers) + "\n\n")
	sb.WriteString("/-- callFunction: the return statements that pop the result -/\n")
	sb.WriteString("def callReturns : List String := " + list(rets) + "\n\n")
	sb.WriteString("/-- resumeFrame: its statements up to the activation of the resumed frame -/\n")
	rf := stmtsOf(need("resumeFrame").Body)
	sb.WriteString("def resumeFrameBody : List String := " + list(rf) + "\n\n")
	sb.WriteString("end Risor.Generated.C04Host\n")
	return sb.String()
}
