package main

// E13 for C17: the JSON schema of compiler/store.go.
//   * every struct type declared in store.go: field name, json name, omitempty (in order)
//   * the constant type tags marshalConstant writes (`Type: "..."`) and the ones
//     unmarshalConstant switches on (`case "..."`)
//   * which fields stateFromCode copies into a codeDef and which fields codeFromState sets
//     on a Code (dropping `Names` from either breaks the tie), and the expression it
//     recomputes `isNamed` from
//   * the function definition fields written/read (definitionFromFunction / NewFunction call)
//   * every place of package compiler that gives a Code its `name` / `isNamed`: the composite
//     literals of type Code (function, what `name:` is, the shape of `isNamed:`) and every
//     assignment to a field called name / isNamed anywhere in the package (none: isNamed is
//     not serialised, so the reload is faithful only while it is a function of the name)

import (
	"bytes"
	"fmt"
	"go/ast"
	"go/importer"
	"go/parser"
	"go/printer"
	"go/token"
	"go/types"
	"os"
	"reflect"
	"sort"
	"strconv"
	"strings"
)

func init() {
	generators = append(generators, generator{"C17", c17_genC17})
}

func c17_leanStrList(xs []string) string {
	q := make([]string, len(xs))
	for i, x := range xs {
		q[i] = strconv.Quote(x)
	}
	return "[" + strings.Join(q, ", ") + "]"
}

func c17_genC17(repo string) string {
	fset := token.NewFileSet()
	f, err := parser.ParseFile(fset, repo+"/compiler/store.go", nil, 0)
	if err != nil {
		panic(err)
	}
	expr := func(e ast.Expr) string {
		var b bytes.Buffer
		printer.Fprint(&b, fset, e)
		return b.String()
	}
	var sb strings.Builder
	sb.WriteString("namespace Risor.Generated.C17\n\n")

	// ---- struct definitions
	sb.WriteString("/-- (struct, [(Go field, json name, omitempty)]) for every struct type of compiler/store.go, in source order -/\n")
	sb.WriteString("def schema : List (String × List (String × String × Bool)) := [\n")
	nStructs := 0
	for _, d := range f.Decls {
		gd, ok := d.(*ast.GenDecl)
		if !ok || gd.Tok != token.TYPE {
			continue
		}
		for _, s := range gd.Specs {
			ts := s.(*ast.TypeSpec)
			st, ok := ts.Type.(*ast.StructType)
			if !ok {
				continue
			}
			var fields []string
			for _, fl := range st.Fields.List {
				tag := ""
				if fl.Tag != nil {
					raw, _ := strconv.Unquote(fl.Tag.Value)
					tag = reflect.StructTag(raw).Get("json")
				}
				if len(fl.Names) == 0 {
					panic("embedded field in " + ts.Name.Name)
				}
				for _, nm := range fl.Names {
					parts := strings.Split(tag, ",")
					jname := parts[0]
					if jname == "" {
						jname = nm.Name
					}
					omit := false
					for _, p := range parts[1:] {
						if p == "omitempty" {
							omit = true
						} else {
							panic("unknown json option " + p + " in " + ts.Name.Name)
						}
					}
					if jname == "-" {
						continue
					}
					fields = append(fields, fmt.Sprintf("(%s, %s, %v)", strconv.Quote(nm.Name), strconv.Quote(jname), omit))
				}
			}
			if nStructs > 0 {
				sb.WriteString(",\n")
			}
			nStructs++
			fmt.Fprintf(&sb, "  (%s, [%s])", strconv.Quote(ts.Name.Name), strings.Join(fields, ", "))
		}
	}
	sb.WriteString("]\n\n")
	if nStructs < 8 {
		panic("store.go: JSON struct definitions not found")
	}

	funcs := map[string]*ast.FuncDecl{}
	for _, d := range f.Decls {
		if fd, ok := d.(*ast.FuncDecl); ok && fd.Recv == nil {
			funcs[fd.Name.Name] = fd
		}
	}
	need := func(name string) *ast.FuncDecl {
		fd := funcs[name]
		if fd == nil {
			panic("store.go: func " + name + " not found")
		}
		return fd
	}

	// ---- type tags
	var mtags, utags []string
	ast.Inspect(need("marshalConstant"), func(n ast.Node) bool {
		if kv, ok := n.(*ast.KeyValueExpr); ok {
			if id, ok := kv.Key.(*ast.Ident); ok && id.Name == "Type" {
				if bl, ok := kv.Value.(*ast.BasicLit); ok && bl.Kind == token.STRING {
					s, _ := strconv.Unquote(bl.Value)
					mtags = append(mtags, s)
				}
			}
		}
		return true
	})
	ast.Inspect(need("unmarshalConstant"), func(n ast.Node) bool {
		if cc, ok := n.(*ast.CaseClause); ok {
			for _, e := range cc.List {
				if bl, ok := e.(*ast.BasicLit); ok && bl.Kind == token.STRING {
					s, _ := strconv.Unquote(bl.Value)
					utags = append(utags, s)
				}
			}
		}
		return true
	})
	sb.WriteString("/-- the `Type:` literals of marshalConstant, in source order -/\n")
	sb.WriteString("def marshalTags : List String := " + c17_leanStrList(mtags) + "\n\n")
	sb.WriteString("/-- the string cases of unmarshalConstant's switch, in source order -/\n")
	sb.WriteString("def unmarshalTags : List String := " + c17_leanStrList(utags) + "\n\n")

	// ---- composite literal keys
	litKeys := func(fn *ast.FuncDecl, typ string) (keys []string, vals map[string]string) {
		vals = map[string]string{}
		ast.Inspect(fn, func(n ast.Node) bool {
			cl, ok := n.(*ast.CompositeLit)
			if !ok {
				return true
			}
			if id, ok := cl.Type.(*ast.Ident); !ok || id.Name != typ {
				return true
			}
			for _, e := range cl.Elts {
				if kv, ok := e.(*ast.KeyValueExpr); ok {
					k := expr(kv.Key)
					keys = append(keys, k)
					vals[k] = expr(kv.Value)
				}
			}
			return true
		})
		return
	}
	// only the field names are tied (Go identifiers inside the value expressions are not:
	// renaming a local variable must not break a tie)
	pairs := func(keys []string, vals map[string]string) string {
		ks := append([]string{}, keys...)
		sort.Strings(ks) // the order of the keys in the literal is irrelevant
		return c17_leanStrList(ks)
	}
	k1, v1 := litKeys(need("stateFromCode"), "codeDef")
	// conditional assignments `cdef.X = ...`
	ast.Inspect(need("stateFromCode"), func(n ast.Node) bool {
		if as, ok := n.(*ast.AssignStmt); ok && len(as.Lhs) == 1 {
			if sel, ok := as.Lhs[0].(*ast.SelectorExpr); ok {
				if id, ok := sel.X.(*ast.Ident); ok && id.Name == "cdef" {
					k1 = append(k1, sel.Sel.Name)
					v1[sel.Sel.Name] = expr(as.Rhs[0])
				}
			}
		}
		return true
	})
	sb.WriteString("/-- what stateFromCode puts into each codeDef field -/\n")
	sb.WriteString("def codeDefFields : List String := " + pairs(k1, v1) + "\n\n")
	k2, v2 := litKeys(need("codeFromState"), "Code")
	sb.WriteString("/-- what codeFromState puts into each Code field -/\n")
	sb.WriteString("def codeFields : List String := " + pairs(k2, v2) + "\n\n")
	// the shape of the expression isNamed is recomputed from: its string literals and operators
	var lits, ops []string
	ast.Inspect(need("codeFromState"), func(n ast.Node) bool {
		kv, ok := n.(*ast.KeyValueExpr)
		if !ok {
			return true
		}
		if id, ok := kv.Key.(*ast.Ident); !ok || id.Name != "isNamed" {
			return true
		}
		ast.Inspect(kv.Value, func(m ast.Node) bool {
			switch x := m.(type) {
			case *ast.BasicLit:
				if x.Kind == token.STRING {
					s, _ := strconv.Unquote(x.Value)
					lits = append(lits, s)
				} else {
					lits = append(lits, x.Value)
				}
			case *ast.BinaryExpr:
				ops = append(ops, x.Op.String())
			case *ast.UnaryExpr:
				ops = append(ops, "unary"+x.Op.String())
			case *ast.CallExpr:
				ops = append(ops, "call")
			case *ast.SelectorExpr:
				ops = append(ops, "."+x.Sel.Name)
			}
			return true
		})
		return false
	})
	sb.WriteString("/-- the expression codeFromState recomputes `isNamed` from: operators/selectors and literals in syntax-tree order -/\n")
	sb.WriteString("def isNamedOps : List String := " + c17_leanStrList(ops) + "\n")
	sb.WriteString("def isNamedLits : List String := " + c17_leanStrList(lits) + "\n\n")
	k3, v3 := litKeys(need("definitionFromFunction"), "functionDef")
	sb.WriteString("def functionDefFields : List String := " + pairs(k3, v3) + "\n\n")
	k4, v4 := litKeys(need("unmarshalConstant"), "FunctionOpts")
	sb.WriteString("def functionOptsFields : List String := " + pairs(k4, v4) + "\n\n")
	k5, v5 := litKeys(need("definitionFromSymbolTable"), "symbolTableDef")
	sb.WriteString("def symbolTableDefFields : List String := " + pairs(k5, v5) + "\n\n")
	k6, v6 := litKeys(need("symbolTableFromDefinition"), "SymbolTable")
	sb.WriteString("def symbolTableFields : List String := " + pairs(k6, v6) + "\n\n")
	k7, v7 := litKeys(need("definitionFromSymbol"), "symbolDef")
	sb.WriteString("def symbolDefFields : List String := " + pairs(k7, v7) + "\n\n")
	k8, v8 := litKeys(need("symbolFromDefinition"), "Symbol")
	sb.WriteString("def symbolFields : List String := " + pairs(k8, v8) + "\n\n")
	// ---- who writes Code.name / Code.isNamed (whole package compiler, test files excluded)
	{
		ents, err := os.ReadDir(repo + "/compiler")
		if err != nil {
			panic(err)
		}
		var names []string
		for _, e := range ents {
			if !e.IsDir() && strings.HasSuffix(e.Name(), ".go") && !strings.HasSuffix(e.Name(), "_test.go") {
				names = append(names, e.Name())
			}
		}
		sort.Strings(names)
		var lits, assigns []string
		for _, nm := range names {
			pf, err := parser.ParseFile(fset, repo+"/compiler/"+nm, nil, 0)
			if err != nil {
				panic(err)
			}
			for _, d := range pf.Decls {
				fd, ok := d.(*ast.FuncDecl)
				if !ok || fd.Body == nil {
					continue
				}
				ast.Inspect(fd.Body, func(n ast.Node) bool {
					switch x := n.(type) {
					case *ast.CompositeLit:
						if id, ok := x.Type.(*ast.Ident); !ok || id.Name != "Code" {
							return true
						}
						nameKind, nameIdent, named := "absent", "", "absent"
						for _, el := range x.Elts {
							kv, ok := el.(*ast.KeyValueExpr)
							if !ok {
								continue
							}
							if k, ok := kv.Key.(*ast.Ident); ok && k.Name == "name" {
								switch v := kv.Value.(type) {
								case *ast.BasicLit:
									nameKind = "lit:" + v.Value
								case *ast.Ident:
									nameKind, nameIdent = "ident", v.Name
								case *ast.SelectorExpr:
									nameKind, nameIdent = "sel:."+v.Sel.Name, expr(v)
								default:
									nameKind = "expr"
								}
							}
						}
						for _, el := range x.Elts {
							kv, ok := el.(*ast.KeyValueExpr)
							if !ok {
								continue
							}
							if k, ok := kv.Key.(*ast.Ident); ok && k.Name == "isNamed" {
								// the expression with the operand that is the `name:` value written $name
								var parts []string
								var walk func(e ast.Expr)
								walk = func(e ast.Expr) {
									switch v := e.(type) {
									case *ast.BinaryExpr:
										parts = append(parts, "(")
										walk(v.X)
										parts = append(parts, v.Op.String())
										walk(v.Y)
										parts = append(parts, ")")
									case *ast.ParenExpr:
										walk(v.X)
									case *ast.BasicLit:
										parts = append(parts, v.Value)
									default:
										if expr(e) == nameIdent {
											parts = append(parts, "$name")
										} else {
											parts = append(parts, "other:"+expr(e))
										}
									}
								}
								walk(kv.Value)
								named = strings.Join(parts, " ")
							}
						}
						lits = append(lits, fmt.Sprintf("(%s, %s, %s)", strconv.Quote(fd.Name.Name), strconv.Quote(nameKind), strconv.Quote(named)))
					case *ast.AssignStmt:
						for _, l := range x.Lhs {
							if sel, ok := l.(*ast.SelectorExpr); ok && (sel.Sel.Name == "name" || sel.Sel.Name == "isNamed") {
								assigns = append(assigns, fd.Name.Name+": "+expr(l))
							}
						}
					case *ast.IncDecStmt:
						if sel, ok := x.X.(*ast.SelectorExpr); ok && (sel.Sel.Name == "name" || sel.Sel.Name == "isNamed") {
							assigns = append(assigns, fd.Name.Name+": "+expr(x.X))
						}
					}
					return true
				})
			}
		}
		if len(lits) < 2 {
			panic("compiler: composite literals of type Code not found")
		}
		sb.WriteString("/-- every composite literal of type Code in package compiler: (function, what `name:` is, `isNamed:` with the name operand written $name) -/\n")
		sb.WriteString("def codeLits : List (String × String × String) := [" + strings.Join(lits, ", ") + "]\n\n")
		sb.WriteString("/-- every assignment to a field called `name` or `isNamed` in package compiler (function: target) -/\n")
		sb.WriteString("def codeNameAssigns : List String := " + c17_leanStrList(assigns) + "\n\n")
	}
	if len(k1) < 5 || len(k2) < 5 || len(k3) < 3 || len(k4) < 3 || len(k5) < 4 || len(k6) < 3 {
		panic("store.go: composite literals of stateFromCode/codeFromState/... not found")
	}
	c17_codeFieldTables(&sb, repo, need("stateFromCode"))
	c17_opcodes(&sb, repo)
	sb.WriteString("end Risor.Generated.C17\n")
	return sb.String()
}

func c17_sortedSet(m map[string]bool) []string {
	out := []string{}
	for k := range m {
		out = append(out, k)
	}
	sort.Strings(out)
	return out
}

// c17_codeFieldTables: the fields of `type Code struct` against what is serialised and what the
// VM can observe.  stateFromCodeReads / flattenReads are syntactic (selectors on the identifier
// `code` / on the receiver); codeAccessors and vmCodeMethods are type-checked (go/types, loader
// of c09.go): a selector counts when the selected object is a field / method of compiler.Code.
func c17_codeFieldTables(sb *strings.Builder, repo string, stateFromCode *ast.FuncDecl) {
	fset := token.NewFileSet()
	l := &c09Loader{repo: repo, fset: fset, pkgs: map[string]*c09Pkg{}, busy: map[string]bool{}}
	l.std = importer.ForCompiler(fset, "source", nil)
	vmPkg, err := l.load(c09Mod + "/vm")
	if err != nil {
		panic(fmt.Sprintf("C17: package vm: %v", err))
	}
	cp, err := l.load(c09Mod + "/compiler")
	if err != nil {
		panic(fmt.Sprintf("C17: package compiler: %v", err))
	}
	codeObj, _ := cp.pkg.Scope().Lookup("Code").(*types.TypeName)
	if codeObj == nil {
		panic("C17: compiler.Code not found")
	}
	codeNamed, _ := codeObj.Type().(*types.Named)
	codeStruct, _ := codeObj.Type().Underlying().(*types.Struct)
	if codeNamed == nil || codeStruct == nil {
		panic("C17: compiler.Code is not a named struct type")
	}
	isCode := func(t types.Type) bool {
		if p, ok := t.(*types.Pointer); ok {
			t = p.Elem()
		}
		n, ok := t.(*types.Named)
		return ok && n.Obj() == codeObj
	}
	// the method selected is declared on Code/*Code (also when promoted through an embedding,
	// e.g. vm's `type code struct { *compiler.Code; ... }`)
	isCodeMethod := func(o types.Object) bool {
		fn, ok := o.(*types.Func)
		if !ok {
			return false
		}
		sig, ok := fn.Type().(*types.Signature)
		return ok && sig.Recv() != nil && isCode(sig.Recv().Type())
	}
	codeField := map[*types.Var]bool{}
	var structFields []string
	for i := 0; i < codeStruct.NumFields(); i++ {
		codeField[codeStruct.Field(i)] = true
	}
	// source order from the syntax (go/types keeps it too; the syntax is the reference)
	var codeGo *ast.File
	for _, f := range cp.files {
		if strings.HasSuffix(fset.Position(f.Pos()).Filename, "/compiler/code.go") {
			codeGo = f
		}
	}
	if codeGo == nil {
		panic("C17: compiler/code.go not found")
	}
	for _, d := range codeGo.Decls {
		gd, ok := d.(*ast.GenDecl)
		if !ok || gd.Tok != token.TYPE {
			continue
		}
		for _, s := range gd.Specs {
			ts := s.(*ast.TypeSpec)
			st, ok := ts.Type.(*ast.StructType)
			if !ok || ts.Name.Name != "Code" {
				continue
			}
			for _, fl := range st.Fields.List {
				if len(fl.Names) == 0 {
					panic("C17: embedded field in Code")
				}
				for _, nm := range fl.Names {
					structFields = append(structFields, nm.Name)
				}
			}
		}
	}
	if len(structFields) != codeStruct.NumFields() || len(structFields) < 5 {
		panic("C17: fields of type Code struct not found")
	}
	isField := map[string]bool{}
	for _, f := range structFields {
		isField[f] = true
	}
	sb.WriteString("/-- every field of `type Code struct` (compiler/code.go), in source order -/\n")
	sb.WriteString("def codeStructFields : List String := " + c17_leanStrList(structFields) + "\n\n")

	// selectors `<ident>.f` / `<ident>.M()` directly on the identifier called `name`
	identReads := func(body ast.Node, name string) []string {
		set := map[string]bool{}
		called := map[*ast.SelectorExpr]bool{}
		ast.Inspect(body, func(n ast.Node) bool {
			if c, ok := n.(*ast.CallExpr); ok {
				if sel, ok := c.Fun.(*ast.SelectorExpr); ok {
					called[sel] = true
				}
			}
			return true
		})
		ast.Inspect(body, func(n ast.Node) bool {
			sel, ok := n.(*ast.SelectorExpr)
			if !ok {
				return true
			}
			if id, ok := sel.X.(*ast.Ident); ok && id.Name == name {
				if called[sel] && !isField[sel.Sel.Name] {
					set[sel.Sel.Name+"()"] = true
				} else {
					set[sel.Sel.Name] = true
				}
			}
			return true
		})
		return c17_sortedSet(set)
	}
	sfc := identReads(stateFromCode.Body, "code")
	if len(sfc) < 5 {
		panic("C17: stateFromCode reads of `code` not found")
	}
	sb.WriteString("/-- the fields of Code that stateFromCode (compiler/store.go) selects on an identifier called `code` (parameter and loop variable), sorted; a method call is written `M()` -/\n")
	sb.WriteString("def stateFromCodeReads : List String := " + c17_leanStrList(sfc) + "\n\n")

	// methods of *Code in code.go
	type meth struct {
		name string
		fd   *ast.FuncDecl
	}
	var meths []meth
	for _, d := range codeGo.Decls {
		fd, ok := d.(*ast.FuncDecl)
		if !ok || fd.Recv == nil || fd.Body == nil || c05_recvName(fd) != "Code" {
			continue
		}
		meths = append(meths, meth{fd.Name.Name, fd})
	}
	recvIdent := func(fd *ast.FuncDecl) string {
		if len(fd.Recv.List[0].Names) == 0 {
			return "_"
		}
		return fd.Recv.List[0].Names[0].Name
	}
	var flat []string
	foundFlatten := false
	for _, m := range meths {
		if m.name == "Flatten" {
			foundFlatten = true
			for _, r := range identReads(m.fd.Body, recvIdent(m.fd)) {
				if isField[r] {
					flat = append(flat, r)
				}
			}
		}
	}
	if !foundFlatten {
		panic("C17: (*Code).Flatten not found")
	}
	sb.WriteString("/-- the fields of Code that (*Code).Flatten reads through its receiver, sorted -/\n")
	sb.WriteString("def flattenReads : List String := " + c17_leanStrList(flat) + "\n\n")

	sort.Slice(meths, func(i, j int) bool { return meths[i].name < meths[j].name })
	var accs []string
	for _, m := range meths {
		if !ast.IsExported(m.name) {
			continue
		}
		set := map[string]bool{}
		recv := recvIdent(m.fd)
		ast.Inspect(m.fd.Body, func(n ast.Node) bool {
			switch x := n.(type) {
			case *ast.SelectorExpr:
				s := cp.info.Selections[x]
				if s == nil {
					return true
				}
				switch s.Kind() {
				case types.FieldVal:
					if v, ok := s.Obj().(*types.Var); ok && codeField[v] {
						set[v.Name()] = true
					}
				case types.MethodVal, types.MethodExpr:
					if isCodeMethod(s.Obj()) {
						set[s.Obj().Name()+"()"] = true
					}
				}
			case *ast.CallExpr:
				// the receiver handed on as a plain argument: f(c) (builtins such as append excluded)
				if id, ok := x.Fun.(*ast.Ident); ok {
					if _, builtin := cp.info.Uses[id].(*types.Builtin); builtin {
						return true
					}
				}
				for _, a := range x.Args {
					if id, ok := a.(*ast.Ident); ok && id.Name == recv {
						set[types.ExprString(x.Fun)+"(recv)"] = true
					}
				}
			}
			return true
		})
		accs = append(accs, fmt.Sprintf("(%s, %s)", strconv.Quote(m.name), c17_leanStrList(c17_sortedSet(set))))
	}
	if len(accs) < 5 {
		panic("C17: exported methods of *Code not found")
	}
	sb.WriteString("/-- every exported method of *Code in compiler/code.go, sorted by name, with the sorted fields of Code its body selects on any value of type Code/*Code (type-checked, so `curr := c; curr.parent` counts); a method of *Code it uses is written `M()`, the receiver passed on as an argument `f(recv)` -/\n")
	sb.WriteString("def codeAccessors : List (String × List String) := [\n  " + strings.Join(accs, ",\n  ") + "]\n\n")

	// package vm: every selector that resolves (go/types) to a method of compiler.Code
	vmSet := map[string]bool{}
	vmFieldSel := 0
	for _, f := range vmPkg.files {
		ast.Inspect(f, func(n ast.Node) bool {
			x, ok := n.(*ast.SelectorExpr)
			if !ok {
				return true
			}
			s := vmPkg.info.Selections[x]
			if s == nil {
				return true
			}
			switch s.Kind() {
			case types.MethodVal, types.MethodExpr:
				if isCodeMethod(s.Obj()) {
					vmSet[s.Obj().Name()] = true
				}
			case types.FieldVal:
				if v, ok := s.Obj().(*types.Var); ok && codeField[v] {
					vmFieldSel++
				}
			}
			return true
		})
	}
	if len(vmSet) < 3 || vmFieldSel != 0 {
		panic("C17: methods of *compiler.Code used by package vm not found")
	}
	sb.WriteString("/-- the methods of *compiler.Code that package vm (non-test files) selects, called or taken as a value, sorted; resolved with go/types (the method selected is declared on compiler.Code, directly or promoted through the embedding in vm.code; files behind the `verif` build tag are not loaded) -/\n")
	sb.WriteString("def vmCodeMethods : List String := " + c17_leanStrList(c17_sortedSet(vmSet)) + "\n\n")
}

// c17_opcodes: every constant of type Code declared in op/op.go with its number, in source
// order (FragWF.lean assembles the fragment compilers' output into []op.Code words).
func c17_opcodes(sb *strings.Builder, repo string) {
	fset := token.NewFileSet()
	f, err := parser.ParseFile(fset, repo+"/op/op.go", nil, 0)
	if err != nil {
		panic(err)
	}
	var items []string
	for _, d := range f.Decls {
		gd, ok := d.(*ast.GenDecl)
		if !ok || gd.Tok != token.CONST {
			continue
		}
		for _, s := range gd.Specs {
			vs := s.(*ast.ValueSpec)
			id, ok := vs.Type.(*ast.Ident)
			if !ok || id.Name != "Code" || len(vs.Names) != 1 || len(vs.Values) != 1 {
				continue
			}
			lit, ok := vs.Values[0].(*ast.BasicLit)
			if !ok || lit.Kind != token.INT {
				panic("C17: opcode " + vs.Names[0].Name + " is not an integer literal")
			}
			items = append(items, "("+strconv.Quote(vs.Names[0].Name)+", "+lit.Value+")")
		}
	}
	if len(items) < 40 {
		panic("C17: too few opcodes found in op/op.go")
	}
	sb.WriteString("\n/-- every `Code` constant of op/op.go with its number, in source order -/\n")
	sb.WriteString("def opcodes : List (String × Nat) := [" + strings.Join(items, ", ") + "]\n\n")
}
