package main

// E13 for C17: the JSON schema of compiler/store.go.
//   * every struct type declared in store.go: field name, json name, omitempty (in order)
//   * the constant type tags marshalConstant writes (`Type: "..."`) and the ones
//     unmarshalConstant switches on (`case "..."`)
//   * which fields stateFromCode copies into a codeDef and which fields codeFromState sets
//     on a Code (dropping `Names` from either breaks the tie), and the expression it
//     recomputes `isNamed` from
//   * the function definition fields written/read (definitionFromFunction / NewFunction call)
//   * every place of package compiler that gives a Code its `name` / `isNamed`: the composite
//     literals of type Code (function, what `name:` is, the shape of `isNamed:`) and every
//     assignment to a field called name / isNamed anywhere in the package (none: isNamed is
//     not serialised, so the reload is faithful only while it is a function of the name)

import (
	"bytes"
	"fmt"
	"go/ast"
	"go/parser"
	"go/printer"
	"go/token"
	"os"
	"reflect"
	"sort"
	"strconv"
	"strings"
)

func init() {
	generators = append(generators, generator{"C17", c17_genC17})
}

func c17_leanStrList(xs []string) string {
	q := make([]string, len(xs))
	for i, x := range xs {
		q[i] = strconv.Quote(x)
	}
	return "[" + strings.Join(q, ", ") + "]"
}

func c17_genC17(repo string) string {
	fset := token.NewFileSet()
	f, err := parser.ParseFile(fset, repo+"/compiler/store.go", nil, 0)
	if err != nil {
		panic(err)
	}
	expr := func(e ast.Expr) string {
		var b bytes.Buffer
		printer.Fprint(&b, fset, e)
		return b.String()
	}
	var sb strings.Builder
	sb.WriteString("namespace Risor.Generated.C17\n\n")

	// ---- struct definitions
	sb.WriteString("/-- (struct, [(Go field, json name, omitempty)]) for every struct type of compiler/store.go, in source order -/\n")
	sb.WriteString("def schema : List (String × List (String × String × Bool)) := [\n")
	nStructs := 0
	for _, d := range f.Decls {
		gd, ok := d.(*ast.GenDecl)
		if !ok || gd.Tok != token.TYPE {
			continue
		}
		for _, s := range gd.Specs {
			ts := s.(*ast.TypeSpec)
			st, ok := ts.Type.(*ast.StructType)
			if !ok {
				continue
			}
			var fields []string
			for _, fl := range st.Fields.List {
				tag := ""
				if fl.Tag != nil {
					raw, _ := strconv.Unquote(fl.Tag.Value)
					tag = reflect.StructTag(raw).Get("json")
				}
				if len(fl.Names) == 0 {
					panic("embedded field in " + ts.Name.Name)
				}
				for _, nm := range fl.Names {
					parts := strings.Split(tag, ",")
					jname := parts[0]
					if jname == "" {
						jname = nm.Name
					}
					omit := false
					for _, p := range parts[1:] {
						if p == "omitempty" {
							omit = true
						} else {
							panic("unknown json option " + p + " in " + ts.Name.Name)
						}
					}
					if jname == "-" {
						continue
					}
					fields = append(fields, fmt.Sprintf("(%s, %s, %v)", strconv.Quote(nm.Name), strconv.Quote(jname), omit))
				}
			}
			if nStructs > 0 {
				sb.WriteString(",\n")
			}
			nStructs++
			fmt.Fprintf(&sb, "  (%s, [%s])", strconv.Quote(ts.Name.Name), strings.Join(fields, ", "))
		}
	}
	sb.WriteString("]\n\n")
	if nStructs < 8 {
		panic("store.go: JSON struct definitions not found")
	}

	funcs := map[string]*ast.FuncDecl{}
	for _, d := range f.Decls {
		if fd, ok := d.(*ast.FuncDecl); ok && fd.Recv == nil {
			funcs[fd.Name.Name] = fd
		}
	}
	need := func(name string) *ast.FuncDecl {
		fd := funcs[name]
		if fd == nil {
			panic("store.go: func " + name + " not found")
		}
		return fd
	}

	// ---- type tags
	var mtags, utags []string
	ast.Inspect(need("marshalConstant"), func(n ast.Node) bool {
		if kv, ok := n.(*ast.KeyValueExpr); ok {
			if id, ok := kv.Key.(*ast.Ident); ok && id.Name == "Type" {
				if bl, ok := kv.Value.(*ast.BasicLit); ok && bl.Kind == token.STRING {
					s, _ := strconv.Unquote(bl.Value)
					mtags = append(mtags, s)
				}
			}
		}
		return true
	})
	ast.Inspect(need("unmarshalConstant"), func(n ast.Node) bool {
		if cc, ok := n.(*ast.CaseClause); ok {
			for _, e := range cc.List {
				if bl, ok := e.(*ast.BasicLit); ok && bl.Kind == token.STRING {
					s, _ := strconv.Unquote(bl.Value)
					utags = append(utags, s)
				}
			}
		}
		return true
	})
	sb.WriteString("/-- the `Type:` literals of marshalConstant, in source order -/\n")
	sb.WriteString("def marshalTags : List String := " + c17_leanStrList(mtags) + "\n\n")
	sb.WriteString("/-- the string cases of unmarshalConstant's switch, in source order -/\n")
	sb.WriteString("def unmarshalTags : List String := " + c17_leanStrList(utags) + "\n\n")

	// ---- composite literal keys
	litKeys := func(fn *ast.FuncDecl, typ string) (keys []string, vals map[string]string) {
		vals = map[string]string{}
		ast.Inspect(fn, func(n ast.Node) bool {
			cl, ok := n.(*ast.CompositeLit)
			if !ok {
				return true
			}
			if id, ok := cl.Type.(*ast.Ident); !ok || id.Name != typ {
				return true
			}
			for _, e := range cl.Elts {
				if kv, ok := e.(*ast.KeyValueExpr); ok {
					k := expr(kv.Key)
					keys = append(keys, k)
					vals[k] = expr(kv.Value)
				}
			}
			return true
		})
		return
	}
	// only the field names are tied (Go identifiers inside the value expressions are not:
	// renaming a local variable must not break a tie)
	pairs := func(keys []string, vals map[string]string) string {
		ks := append([]string{}, keys...)
		sort.Strings(ks) // the order of the keys in the literal is irrelevant
		return c17_leanStrList(ks)
	}
	k1, v1 := litKeys(need("stateFromCode"), "codeDef")
	// conditional assignments `cdef.X = ...`
	ast.Inspect(need("stateFromCode"), func(n ast.Node) bool {
		if as, ok := n.(*ast.AssignStmt); ok && len(as.Lhs) == 1 {
			if sel, ok := as.Lhs[0].(*ast.SelectorExpr); ok {
				if id, ok := sel.X.(*ast.Ident); ok && id.Name == "cdef" {
					k1 = append(k1, sel.Sel.Name)
					v1[sel.Sel.Name] = expr(as.Rhs[0])
				}
			}
		}
		return true
	})
	sb.WriteString("/-- what stateFromCode puts into each codeDef field -/\n")
	sb.WriteString("def codeDefFields : List String := " + pairs(k1, v1) + "\n\n")
	k2, v2 := litKeys(need("codeFromState"), "Code")
	sb.WriteString("/-- what codeFromState puts into each Code field -/\n")
	sb.WriteString("def codeFields : List String := " + pairs(k2, v2) + "\n\n")
	// the shape of the expression isNamed is recomputed from: its string literals and operators
	var lits, ops []string
	ast.Inspect(need("codeFromState"), func(n ast.Node) bool {
		kv, ok := n.(*ast.KeyValueExpr)
		if !ok {
			return true
		}
		if id, ok := kv.Key.(*ast.Ident); !ok || id.Name != "isNamed" {
			return true
		}
		ast.Inspect(kv.Value, func(m ast.Node) bool {
			switch x := m.(type) {
			case *ast.BasicLit:
				if x.Kind == token.STRING {
					s, _ := strconv.Unquote(x.Value)
					lits = append(lits, s)
				} else {
					lits = append(lits, x.Value)
				}
			case *ast.BinaryExpr:
				ops = append(ops, x.Op.String())
			case *ast.UnaryExpr:
				ops = append(ops, "unary"+x.Op.String())
			case *ast.CallExpr:
				ops = append(ops, "call")
			case *ast.SelectorExpr:
				ops = append(ops, "."+x.Sel.Name)
			}
			return true
		})
		return false
	})
	sb.WriteString("/-- the expression codeFromState recomputes `isNamed` from: operators/selectors and literals in syntax-tree order -/\n")
	sb.WriteString("def isNamedOps : List String := " + c17_leanStrList(ops) + "\n")
	sb.WriteString("def isNamedLits : List String := " + c17_leanStrList(lits) + "\n\n")
	k3, v3 := litKeys(need("definitionFromFunction"), "functionDef")
	sb.WriteString("def functionDefFields : List String := " + pairs(k3, v3) + "\n\n")
	k4, v4 := litKeys(need("unmarshalConstant"), "FunctionOpts")
	sb.WriteString("def functionOptsFields : List String := " + pairs(k4, v4) + "\n\n")
	k5, v5 := litKeys(need("definitionFromSymbolTable"), "symbolTableDef")
	sb.WriteString("def symbolTableDefFields : List String := " + pairs(k5, v5) + "\n\n")
	k6, v6 := litKeys(need("symbolTableFromDefinition"), "SymbolTable")
	sb.WriteString("def symbolTableFields : List String := " + pairs(k6, v6) + "\n\n")
	k7, v7 := litKeys(need("definitionFromSymbol"), "symbolDef")
	sb.WriteString("def symbolDefFields : List String := " + pairs(k7, v7) + "\n\n")
	k8, v8 := litKeys(need("symbolFromDefinition"), "Symbol")
	sb.WriteString("def symbolFields : List String := " + pairs(k8, v8) + "\n\n")
	// ---- who writes Code.name / Code.isNamed (whole package compiler, test files excluded)
	{
		ents, err := os.ReadDir(repo + "/compiler")
		if err != nil {
			panic(err)
		}
		var names []string
		for _, e := range ents {
			if !e.IsDir() && strings.HasSuffix(e.Name(), ".go") && !strings.HasSuffix(e.Name(), "_test.go") {
				names = append(names, e.Name())
			}
		}
		sort.Strings(names)
		var lits, assigns []string
		for _, nm := range names {
			pf, err := parser.ParseFile(fset, repo+"/compiler/"+nm, nil, 0)
			if err != nil {
				panic(err)
			}
			for _, d := range pf.Decls {
				fd, ok := d.(*ast.FuncDecl)
				if !ok || fd.Body == nil {
					continue
				}
				ast.Inspect(fd.Body, func(n ast.Node) bool {
					switch x := n.(type) {
					case *ast.CompositeLit:
						if id, ok := x.Type.(*ast.Ident); !ok || id.Name != "Code" {
							return true
						}
						nameKind, nameIdent, named := "absent", "", "absent"
						for _, el := range x.Elts {
							kv, ok := el.(*ast.KeyValueExpr)
							if !ok {
								continue
							}
							if k, ok := kv.Key.(*ast.Ident); ok && k.Name == "name" {
								switch v := kv.Value.(type) {
								case *ast.BasicLit:
									nameKind = "lit:" + v.Value
								case *ast.Ident:
									nameKind, nameIdent = "ident", v.Name
								case *ast.SelectorExpr:
									nameKind, nameIdent = "sel:."+v.Sel.Name, expr(v)
								default:
									nameKind = "expr"
								}
							}
						}
						for _, el := range x.Elts {
							kv, ok := el.(*ast.KeyValueExpr)
							if !ok {
								continue
							}
							if k, ok := kv.Key.(*ast.Ident); ok && k.Name == "isNamed" {
								// the expression with the operand that is the `name:` value written $name
								var parts []string
								var walk func(e ast.Expr)
								walk = func(e ast.Expr) {
									switch v := e.(type) {
									case *ast.BinaryExpr:
										parts = append(parts, "(")
										walk(v.X)
										parts = append(parts, v.Op.String())
										walk(v.Y)
										parts = append(parts, ")")
									case *ast.ParenExpr:
										walk(v.X)
									case *ast.BasicLit:
										parts = append(parts, v.Value)
									default:
										if expr(e) == nameIdent {
											parts = append(parts, "$name")
										} else {
											parts = append(parts, "other:"+expr(e))
										}
									}
								}
								walk(kv.Value)
								named = strings.Join(parts, " ")
							}
						}
						lits = append(lits, fmt.Sprintf("(%s, %s, %s)", strconv.Quote(fd.Name.Name), strconv.Quote(nameKind), strconv.Quote(named)))
					case *ast.AssignStmt:
						for _, l := range x.Lhs {
							if sel, ok := l.(*ast.SelectorExpr); ok && (sel.Sel.Name == "name" || sel.Sel.Name == "isNamed") {
								assigns = append(assigns, fd.Name.Name+": "+expr(l))
							}
						}
					case *ast.IncDecStmt:
						if sel, ok := x.X.(*ast.SelectorExpr); ok && (sel.Sel.Name == "name" || sel.Sel.Name == "isNamed") {
							assigns = append(assigns, fd.Name.Name+": "+expr(x.X))
						}
					}
					return true
				})
			}
		}
		if len(lits) < 2 {
			panic("compiler: composite literals of type Code not found")
		}
		sb.WriteString("/-- every composite literal of type Code in package compiler: (function, what `name:` is, `isNamed:` with the name operand written $name) -/\n")
		sb.WriteString("def codeLits : List (String × String × String) := [" + strings.Join(lits, ", ") + "]\n\n")
		sb.WriteString("/-- every assignment to a field called `name` or `isNamed` in package compiler (function: target) -/\n")
		sb.WriteString("def codeNameAssigns : List String := " + c17_leanStrList(assigns) + "\n\n")
	}
	if len(k1) < 5 || len(k2) < 5 || len(k3) < 3 || len(k4) < 3 || len(k5) < 4 || len(k6) < 3 {
		panic("store.go: composite literals of stateFromCode/codeFromState/... not found")
	}
	sb.WriteString("end Risor.Generated.C17\n")
	return sb.String()
}
