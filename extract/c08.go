package main

// E12: the converter registries of object/typeconv.go.
//   kindConverters / typeConverters   keys and converter type names
//   per converter                     the Go type asserted in From (`obj.(T)`), and the object
//                                     types accepted by To's type switch / assertion
//   getTypeConverter                  the order of its lookups (kind table, type table, switch)
//   repaired sites                    per converter the expression `To` returns for an *Int object
//                                     (narrowInt[T] or a plain conversion) and the conditions of the
//                                     `if`s of `From`; the `if` conditions of ArrayConverter.To; the
//                                     cases of AsObjects' type switch; the `if` conditions of
//                                     Proxy.call that mention len(args) (object/proxy.go); the function
//                                     vm.Run creates its machine with (vm/run.go); the condition under
//                                     which getTypeConverter wraps a kind converter in a namedConverter
//   converter state                   per converter struct type the types of its fields (a converter
//                                     is shared by every conversion of its Go type in the process:
//                                     what it may keep between two conversions is what its fields can
//                                     hold); the first statement of StructConverter.To's `case *Map`
//                                     (where the struct that is filled comes from)

import (
	"bytes"
	"fmt"
	"go/ast"
	"go/parser"
	"go/printer"
	"go/token"
	"path/filepath"
	"sort"
	"strings"
)

func c08Src(fset *token.FileSet, n ast.Node) string {
	var b bytes.Buffer
	printer.Fprint(&b, fset, n)
	return b.String()
}

func c08_leanStrPairs(ps [][2]string) string {
	parts := make([]string, len(ps))
	for i, p := range ps {
		parts[i] = fmt.Sprintf("(%q, %q)", p[0], p[1])
	}
	return "[" + strings.Join(parts, ",\n  ") + "]"
}

// c08IfConds: the conditions of the `if` statements of a function body, in source order
func c08IfConds(fset *token.FileSet, body *ast.BlockStmt) []string {
	var out []string
	ast.Inspect(body, func(n ast.Node) bool {
		if is, ok := n.(*ast.IfStmt); ok {
			out = append(out, c08Src(fset, is.Cond))
		}
		return true
	})
	return out
}

func c08_leanStrs(xs []string) string {
	parts := make([]string, len(xs))
	for i, x := range xs {
		parts[i] = fmt.Sprintf("%q", x)
	}
	return "[" + strings.Join(parts, ", ") + "]"
}

func init() {
	generators = append(generators, generator{"C08", func(repo string) string {
		fset := token.NewFileSet()
		f, err := parser.ParseFile(fset, filepath.Join(repo, "object/typeconv.go"), nil, 0)
		if err != nil {
			panic(err)
		}
		tables := map[string][][2]string{}
		fromAssert := map[string]string{}
		toAccept := map[string][]string{}
		toIntCase := map[string]string{}
		fromIfs := map[string][]string{}
		var arrayToIfs, asObjectsCases []string
		var lookupOrder, declaredTypeConds []string
		convFields := map[string][]string{}
		structMapAlloc := "-"
		for _, d := range f.Decls {
			switch d := d.(type) {
			case *ast.GenDecl:
				for _, sp := range d.Specs {
					if ts, ok := sp.(*ast.TypeSpec); ok && strings.HasSuffix(ts.Name.Name, "Converter") {
						if st, ok := ts.Type.(*ast.StructType); ok {
							tys := []string{}
							for _, fl := range st.Fields.List {
								n := len(fl.Names)
								if n == 0 {
									n = 1 // embedded field
								}
								for k := 0; k < n; k++ {
									tys = append(tys, c08Src(fset, fl.Type))
								}
							}
							convFields[ts.Name.Name] = tys
						}
					}
				}
				for _, sp := range d.Specs {
					vs, ok := sp.(*ast.ValueSpec)
					if !ok || len(vs.Names) != 1 || len(vs.Values) != 1 {
						continue
					}
					name := vs.Names[0].Name
					if name != "kindConverters" && name != "typeConverters" {
						continue
					}
					cl, ok := vs.Values[0].(*ast.CompositeLit)
					if !ok {
						panic(name + " is not a composite literal")
					}
					for _, el := range cl.Elts {
						kv := el.(*ast.KeyValueExpr)
						key := c08Src(fset, kv.Key)
						key = strings.TrimPrefix(key, "reflect.")
						if strings.HasPrefix(key, "TypeOf(") {
							key = strings.TrimSuffix(strings.TrimPrefix(key, "TypeOf("), ")")
						}
						val := c08Src(fset, kv.Value)
						val = strings.TrimSuffix(strings.TrimPrefix(val, "&"), "{}")
						tables[name] = append(tables[name], [2]string{key, val})
					}
				}
			case *ast.FuncDecl:
				if d.Name.Name == "getTypeConverter" && d.Recv == nil {
					for _, c := range c08IfConds(fset, d.Body) {
						if strings.Contains(c, "PkgPath") {
							declaredTypeConds = append(declaredTypeConds, c)
						}
					}
					ast.Inspect(d.Body, func(n ast.Node) bool {
						switch x := n.(type) {
						case *ast.IndexExpr:
							lookupOrder = append(lookupOrder, c08Src(fset, x))
						case *ast.SwitchStmt:
							lookupOrder = append(lookupOrder, "switch "+c08Src(fset, x.Tag))
							return false
						}
						return true
					})
					continue
				}
				if d.Name.Name == "AsObjects" && d.Recv == nil {
					ast.Inspect(d.Body, func(n ast.Node) bool {
						if ts, ok := n.(*ast.TypeSwitchStmt); ok {
							for _, c := range ts.Body.List {
								cc := c.(*ast.CaseClause)
								if cc.List == nil {
									asObjectsCases = append(asObjectsCases, "default")
								}
								for _, e := range cc.List {
									asObjectsCases = append(asObjectsCases, c08Src(fset, e))
								}
							}
							return false
						}
						return true
					})
					continue
				}
				if d.Recv == nil || len(d.Recv.List) != 1 {
					continue
				}
				star, ok := d.Recv.List[0].Type.(*ast.StarExpr)
				if !ok {
					continue
				}
				recv := c08Src(fset, star.X)
				if !strings.HasSuffix(recv, "Converter") {
					continue
				}
				switch d.Name.Name {
				case "From":
					param := d.Type.Params.List[0].Names[0].Name
					asserted := "-"
					ast.Inspect(d.Body, func(n ast.Node) bool {
						if ta, ok := n.(*ast.TypeAssertExpr); ok && ta.Type != nil {
							if id, ok := ta.X.(*ast.Ident); ok && id.Name == param {
								asserted = c08Src(fset, ta.Type)
							}
						}
						return true
					})
					fromAssert[recv] = asserted
					fromIfs[recv] = c08IfConds(fset, d.Body)
				case "To":
					var acc []string
					ast.Inspect(d.Body, func(n ast.Node) bool {
						switch x := n.(type) {
						case *ast.TypeSwitchStmt:
							for _, c := range x.Body.List {
								for _, e := range c.(*ast.CaseClause).List {
									acc = append(acc, strings.TrimPrefix(c08Src(fset, e), "*"))
								}
							}
							return false
						case *ast.TypeAssertExpr:
							if x.Type != nil {
								acc = append(acc, strings.TrimPrefix(c08Src(fset, x.Type), "*"))
							}
						}
						return true
					})
					toAccept[recv] = acc
					if recv == "ArrayConverter" {
						arrayToIfs = c08IfConds(fset, d.Body)
					}
					if recv == "StructConverter" {
						ast.Inspect(d.Body, func(n ast.Node) bool {
							cc, ok := n.(*ast.CaseClause)
							if !ok || len(cc.List) != 1 || c08Src(fset, cc.List[0]) != "*Map" {
								return true
							}
							if len(cc.Body) > 0 {
								structMapAlloc = c08Src(fset, cc.Body[0])
							}
							return false
						})
					}
					// what is returned for an *Int object
					ast.Inspect(d.Body, func(n ast.Node) bool {
						cc, ok := n.(*ast.CaseClause)
						if !ok || len(cc.List) != 1 || c08Src(fset, cc.List[0]) != "*Int" {
							return true
						}
						for _, st := range cc.Body {
							if rs, ok := st.(*ast.ReturnStmt); ok && len(rs.Results) > 0 {
								toIntCase[recv] = c08Src(fset, rs.Results[0])
							}
						}
						return false
					})
				}
			}
		}
		if len(tables["kindConverters"]) == 0 || len(tables["typeConverters"]) == 0 || len(lookupOrder) == 0 {
			panic("object/typeconv.go: kindConverters / typeConverters / getTypeConverter not found")
		}
		// object/proxy.go: the `if` conditions of Proxy.call that mention len(args)
		var callArgConds []string
		pf, err := parser.ParseFile(fset, filepath.Join(repo, "object/proxy.go"), nil, 0)
		if err != nil {
			panic(err)
		}
		for _, d := range pf.Decls {
			if fd, ok := d.(*ast.FuncDecl); ok && fd.Name.Name == "call" && fd.Recv != nil {
				for _, c := range c08IfConds(fset, fd.Body) {
					if strings.Contains(c, "len(args)") {
						callArgConds = append(callArgConds, c)
					}
				}
			}
		}
		// goTypeRegistry: which functions of package object touch it, and NewGoType's statements
		// (the lookup and the description of a type happen under goTypeMutex)
		var registryUsers, newGoTypeStmts []string
		objFiles, _ := filepath.Glob(filepath.Join(repo, "object", "*.go"))
		sort.Strings(objFiles)
		for _, of := range objFiles {
			if strings.HasSuffix(of, "_test.go") {
				continue
			}
			gf, err := parser.ParseFile(fset, of, nil, 0)
			if err != nil {
				panic(err)
			}
			for _, d := range gf.Decls {
				fd, ok := d.(*ast.FuncDecl)
				if !ok || fd.Body == nil {
					continue
				}
				uses := false
				ast.Inspect(fd.Body, func(n ast.Node) bool {
					if id, ok := n.(*ast.Ident); ok && id.Name == "goTypeRegistry" {
						uses = true
					}
					return true
				})
				if uses {
					registryUsers = append(registryUsers, fd.Name.Name)
				}
				if fd.Name.Name == "NewGoType" && fd.Recv == nil {
					for _, st := range fd.Body.List {
						newGoTypeStmts = append(newGoTypeStmts, c08Src(fset, st))
					}
				}
			}
		}
		sort.Strings(registryUsers)
		// vm/run.go: the first call in Run (what creates the machine)
		runCreates := "-"
		rf, err := parser.ParseFile(fset, filepath.Join(repo, "vm/run.go"), nil, 0)
		if err != nil {
			panic(err)
		}
		for _, d := range rf.Decls {
			if fd, ok := d.(*ast.FuncDecl); ok && fd.Name.Name == "Run" && fd.Recv == nil {
				ast.Inspect(fd.Body, func(n ast.Node) bool {
					if ce, ok := n.(*ast.CallExpr); ok && runCreates == "-" {
						runCreates = c08Src(fset, ce.Fun)
					}
					return runCreates == "-"
				})
			}
		}
		var fa, ta [][2]string
		var ti, fi [][2]string
		for k, v := range toIntCase {
			ti = append(ti, [2]string{k, v})
		}
		for k, v := range fromIfs {
			if len(v) > 0 {
				fi = append(fi, [2]string{k, strings.Join(v, " ; ")})
			}
		}
		sort.Slice(ti, func(i, j int) bool { return ti[i][0] < ti[j][0] })
		sort.Slice(fi, func(i, j int) bool { return fi[i][0] < fi[j][0] })
		for k, v := range fromAssert {
			fa = append(fa, [2]string{k, v})
		}
		for k, v := range toAccept {
			ta = append(ta, [2]string{k, strings.Join(v, " ")})
		}
		sort.Slice(fa, func(i, j int) bool { return fa[i][0] < fa[j][0] })
		sort.Slice(ta, func(i, j int) bool { return ta[i][0] < ta[j][0] })
		lo := make([]string, len(lookupOrder))
		for i, s := range lookupOrder {
			lo[i] = fmt.Sprintf("%q", s)
		}
		s := "namespace Risor.Generated.C08\n\n"
		s += "/-- object/typeconv.go `kindConverters`: reflect.Kind → converter -/\n"
		s += "def kindConverters : List (String × String) :=\n  " + c08_leanStrPairs(tables["kindConverters"]) + "\n\n"
		s += "/-- object/typeconv.go `typeConverters` (initial entries): reflect.TypeOf(key) → converter -/\n"
		s += "def typeConverters : List (String × String) :=\n  " + c08_leanStrPairs(tables["typeConverters"]) + "\n\n"
		s += "/-- per converter: the Go type its `From` asserts on its argument (`-`: none) -/\n"
		s += "def fromAsserts : List (String × String) :=\n  " + c08_leanStrPairs(fa) + "\n\n"
		s += "/-- per converter: the object types its `To` accepts (type switch cases / assertion) -/\n"
		s += "def toAccepts : List (String × String) :=\n  " + c08_leanStrPairs(ta) + "\n\n"
		s += "/-- `getTypeConverter`: its lookups, in source order -/\n"
		s += "def lookupOrder : List String := [" + strings.Join(lo, ", ") + "]\n\n"
		s += "/-- `getTypeConverter`: the `if` conditions that ask whether the type is a declared one -/\n"
		s += "def declaredTypeConds : List String := " + c08_leanStrs(declaredTypeConds) + "\n\n"
		s += "/-- per converter: the expression its `To` returns for an `*Int` object -/\n"
		s += "def toIntCases : List (String × String) :=\n  " + c08_leanStrPairs(ti) + "\n\n"
		s += "/-- per converter with an `if` in `From`: the conditions, in source order -/\n"
		s += "def fromIfConds : List (String × String) :=\n  " + c08_leanStrPairs(fi) + "\n\n"
		s += "/-- `ArrayConverter.To`: the conditions of its `if`s, in source order -/\n"
		s += "def arrayToIfConds : List String := " + c08_leanStrs(arrayToIfs) + "\n\n"
		s += "/-- `AsObjects`: the cases of its type switch, in source order -/\n"
		s += "def asObjectsCases : List String := " + c08_leanStrs(asObjectsCases) + "\n\n"
		s += "/-- object/proxy.go `Proxy.call`: the `if` conditions that mention len(args) -/\n"
		s += "def callArgConds : List String := " + c08_leanStrs(callArgConds) + "\n\n"
		var cfNames []string
		for k := range convFields {
			cfNames = append(cfNames, k)
		}
		sort.Strings(cfNames)
		cfParts := make([]string, len(cfNames))
		for i, k := range cfNames {
			cfParts[i] = fmt.Sprintf("(%q, %s)", k, c08_leanStrs(convFields[k]))
		}
		s += "/-- per converter struct type of object/typeconv.go: the types of its fields, in source order -/\n"
		s += "def converterFieldTypes : List (String × List String) :=\n  [" + strings.Join(cfParts, ",\n  ") + "]\n\n"
		s += "/-- `StructConverter.To`, `case *Map`: its first statement (where the struct it fills comes from) -/\n"
		s += "def structMapAlloc : String := " + fmt.Sprintf("%q", structMapAlloc) + "\n\n"
		s += "/-- vm/run.go `Run`: the function its first call goes to (what creates the machine) -/\n"
		s += "def runCreatesWith : String := " + fmt.Sprintf("%q", runCreates) + "\n\n"
		s += "/-- the functions of package object (tests excluded) that mention `goTypeRegistry` -/\n"
		s += "def registryUsers : List String := " + c08_leanStrs(registryUsers) + "\n\n"
		s += "/-- the statements of `NewGoType`, in source order -/\n"
		s += "def newGoTypeStmts : List String := " + c08_leanStrs(newGoTypeStmts) + "\n\n"
		s += "end Risor.Generated.C08\n"
		return s
	}})
}
