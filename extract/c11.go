package main

// C11: regenerates (a) the attribute-name universe the harness walks the real object graph
// with — every `case "…"` string of every GetAttr method, every string key of a
// map[string]… composite literal and every `m["…"] = …` assignment in object/, builtins/
// and the module packages imported by risor_globals.go — and (b) three control facts of
// risor_config.go the Impl model depends on: the order of the apply* calls in Config.init,
// whether resolveModule's loop looks names up in a variable it never re-assigns (the root
// module: the pre-fix defect) or in a cursor that starts at its first parameter, and
// the member keys that contain a "." (they would be unreachable to WithoutGlobal); and (c) the
// facts the option-sequence and reused-VM models depend on: which Config fields each option
// constructor of risor_options.go writes, which VM fields vm.WithGlobals writes, that
// applyOptions converts inputGlobals unconditionally, that resetForNewCode assigns vm.modules.

import (
	"fmt"
	"go/ast"
	"go/parser"
	"go/token"
	"os"
	"path/filepath"
	"sort"
	"strconv"
	"strings"
)

func c11LeanStr(s string) string {
	var b strings.Builder
	b.WriteByte('"')
	for _, r := range s {
		switch {
		case r == '"' || r == '\\':
			b.WriteByte('\\')
			b.WriteRune(r)
		case r < 0x20 || r == 0x7f:
			fmt.Fprintf(&b, "\\x%02x", r)
		default:
			b.WriteRune(r)
		}
	}
	b.WriteByte('"')
	return b.String()
}

func c11StrList(xs []string) string {
	if len(xs) == 0 {
		return "[]"
	}
	var b strings.Builder
	b.WriteString("[\n")
	line := "  "
	for i, x := range xs {
		item := c11LeanStr(x)
		if i < len(xs)-1 {
			item += ", "
		}
		if len(line)+len(item) > 100 {
			b.WriteString(strings.TrimRight(line, " ") + "\n")
			line = "  "
		}
		line += item
	}
	b.WriteString(line + "]")
	return b.String()
}

func c11ParseDir(fset *token.FileSet, dir string) []*ast.File {
	ents, err := os.ReadDir(dir)
	if err != nil {
		panic(fmt.Sprintf("C11: cannot read %s: %v", dir, err))
	}
	var out []*ast.File
	for _, e := range ents {
		n := e.Name()
		if e.IsDir() || !strings.HasSuffix(n, ".go") || strings.HasSuffix(n, "_test.go") {
			continue
		}
		f, err := parser.ParseFile(fset, filepath.Join(dir, n), nil, 0)
		if err != nil {
			panic(fmt.Sprintf("C11: parse %s: %v", n, err))
		}
		out = append(out, f)
	}
	return out
}

func c11Lit(e ast.Expr) (string, bool) {
	bl, ok := e.(*ast.BasicLit)
	if !ok || bl.Kind != token.STRING {
		return "", false
	}
	s, err := strconv.Unquote(bl.Value)
	if err != nil {
		return "", false
	}
	return s, true
}

func init() {
	generators = append(generators, generator{"C11", func(repo string) string {
		fset := token.NewFileSet()
		// module packages imported by risor_globals.go
		gf, err := parser.ParseFile(fset, filepath.Join(repo, "risor_globals.go"), nil, 0)
		if err != nil {
			panic(fmt.Sprintf("C11: %v", err))
		}
		dirs := []string{"object", "builtins"}
		const modPrefix = "github.com/risor-io/risor/"
		for _, im := range gf.Imports {
			p, _ := strconv.Unquote(im.Path.Value)
			if strings.HasPrefix(p, modPrefix+"modules/") {
				dirs = append(dirs, strings.TrimPrefix(p, modPrefix))
			}
		}
		if len(dirs) < 10 {
			panic("C11: risor_globals.go imports fewer module packages than expected")
		}
		caseNames := map[string]bool{}
		keyNames := map[string]bool{}
		for _, d := range dirs {
			for _, f := range c11ParseDir(fset, filepath.Join(repo, d)) {
				ast.Inspect(f, func(n ast.Node) bool {
					switch x := n.(type) {
					case *ast.FuncDecl:
						if x.Name.Name == "GetAttr" && x.Body != nil {
							ast.Inspect(x.Body, func(m ast.Node) bool {
								if cc, ok := m.(*ast.CaseClause); ok {
									for _, e := range cc.List {
										if s, ok := c11Lit(e); ok {
											caseNames[s] = true
										}
									}
								}
								return true
							})
						}
					case *ast.CompositeLit:
						mt, ok := x.Type.(*ast.MapType)
						if !ok {
							return true
						}
						if id, ok := mt.Key.(*ast.Ident); !ok || id.Name != "string" {
							return true
						}
						for _, el := range x.Elts {
							if kv, ok := el.(*ast.KeyValueExpr); ok {
								if s, ok := c11Lit(kv.Key); ok {
									keyNames[s] = true
								}
							}
						}
					case *ast.AssignStmt:
						for _, l := range x.Lhs {
							if ix, ok := l.(*ast.IndexExpr); ok {
								if s, ok := c11Lit(ix.Index); ok {
									keyNames[s] = true
								}
							}
						}
					}
					return true
				})
			}
		}
		if len(caseNames) < 50 || len(keyNames) < 200 {
			panic(fmt.Sprintf("C11: universe suspiciously small (%d case names, %d keys)", len(caseNames), len(keyNames)))
		}
		all := map[string]bool{"__name__": true, "__module__": true}
		var dotted []string
		for k := range caseNames {
			all[k] = true
		}
		for k := range keyNames {
			all[k] = true
			if strings.Contains(k, ".") {
				dotted = append(dotted, k)
			}
		}
		var universe []string
		for k := range all {
			if k != "" && len(k) <= 64 {
				universe = append(universe, k)
			}
		}
		sort.Strings(universe)
		sort.Strings(dotted)

		// control facts of risor_config.go
		cf, err := parser.ParseFile(fset, filepath.Join(repo, "risor_config.go"), nil, 0)
		if err != nil {
			panic(fmt.Sprintf("C11: %v", err))
		}
		var initOrder []string
		resolveInRoot, resolveFromParam, sawResolve, sawInit := false, false, false, false
		for _, d := range cf.Decls {
			fd, ok := d.(*ast.FuncDecl)
			if !ok || fd.Body == nil {
				continue
			}
			switch {
			case fd.Name.Name == "init" && fd.Recv != nil:
				sawInit = true
				recv := ""
				if len(fd.Recv.List) == 1 && len(fd.Recv.List[0].Names) == 1 {
					recv = fd.Recv.List[0].Names[0].Name
				}
				ast.Inspect(fd.Body, func(n ast.Node) bool {
					if c, ok := n.(*ast.CallExpr); ok {
						if se, ok := c.Fun.(*ast.SelectorExpr); ok {
							if id, ok := se.X.(*ast.Ident); ok && id.Name == recv {
								initOrder = append(initOrder, se.Sel.Name)
							}
						}
					}
					return true
				})
			case fd.Name.Name == "resolveModule" && fd.Recv == nil:
				sawResolve = true
				first := ""
				if len(fd.Type.Params.List) > 0 && len(fd.Type.Params.List[0].Names) > 0 {
					first = fd.Type.Params.List[0].Names[0].Name
				}
				// The loop's GetAttr receiver is a CURSOR when the loop body assigns it (the
				// module found for one component becomes the module the next component is
				// looked up in); a receiver the loop never assigns is the same module for every
				// component (the root module: the pre-fix defect).  The cursor must start at the
				// first parameter: it is the parameter itself, or a variable defined from it
				// before the loop.
				found := false
				ast.Inspect(fd.Body, func(n ast.Node) bool {
					rs, ok := n.(*ast.RangeStmt)
					if !ok {
						return true
					}
					ast.Inspect(rs.Body, func(m ast.Node) bool {
						if c, ok := m.(*ast.CallExpr); ok {
							if se, ok := c.Fun.(*ast.SelectorExpr); ok && se.Sel.Name == "GetAttr" {
								found = true
								recv := ""
								if id, ok := se.X.(*ast.Ident); ok {
									recv = id.Name
								}
								assignedInLoop := false
								ast.Inspect(rs.Body, func(k ast.Node) bool {
									if as, ok := k.(*ast.AssignStmt); ok && as.Tok == token.ASSIGN {
										for _, l := range as.Lhs {
											if id, ok := l.(*ast.Ident); ok && id.Name == recv && recv != "" {
												assignedInLoop = true
											}
										}
									}
									return true
								})
								if !assignedInLoop {
									resolveInRoot = true
								}
								if recv == first && recv != "" {
									resolveFromParam = true
								}
								for _, st := range fd.Body.List {
									if st.Pos() >= rs.Pos() {
										break
									}
									if as, ok := st.(*ast.AssignStmt); ok && len(as.Lhs) == 1 && len(as.Rhs) == 1 {
										l, lok := as.Lhs[0].(*ast.Ident)
										r, rok := as.Rhs[0].(*ast.Ident)
										if lok && rok && l.Name == recv && r.Name == first && recv != "" {
											resolveFromParam = true
										}
									}
								}
							}
						}
						return true
					})
					return true
				})
				if !found {
					panic("C11: resolveModule has no GetAttr call inside a range loop any more")
				}
			}
		}
		if !sawInit || !sawResolve {
			panic("C11: Config.init or resolveModule not found in risor_config.go")
		}
		// control facts of risor_options.go and vm/: which fields each option writes, and how a
		// (reused) VM takes a configuration's globals over
		writes := func(fd *ast.FuncDecl, recv string) []string {
			set := map[string]bool{}
			field := func(x ast.Expr) {
				for {
					switch y := x.(type) {
					case *ast.IndexExpr:
						x = y.X
						continue
					case *ast.ParenExpr:
						x = y.X
						continue
					}
					break
				}
				if se, ok := x.(*ast.SelectorExpr); ok {
					if id, ok := se.X.(*ast.Ident); ok && id.Name == recv {
						set[se.Sel.Name] = true
					}
				}
			}
			ast.Inspect(fd.Body, func(n ast.Node) bool {
				switch x := n.(type) {
				case *ast.AssignStmt:
					for _, l := range x.Lhs {
						field(l)
					}
				case *ast.IncDecStmt:
					field(x.X)
				case *ast.CallExpr:
					if id, ok := x.Fun.(*ast.Ident); ok && (id.Name == "delete" || id.Name == "clear") && len(x.Args) > 0 {
						field(x.Args[0])
					}
				}
				return true
			})
			var out []string
			for k := range set {
				out = append(out, k)
			}
			sort.Strings(out)
			return out
		}
		of, err := parser.ParseFile(fset, filepath.Join(repo, "risor_options.go"), nil, 0)
		if err != nil {
			panic(fmt.Sprintf("C11: %v", err))
		}
		// writeForms: like writes, but telling a store THROUGH the field (`cfg.f[k] = v`, delete(cfg.f, k):
		// "f[]") from an assignment OF the field (`cfg.f = x`: "f=")
		writeForms := func(fd *ast.FuncDecl, recv string) []string {
			set := map[string]bool{}
			field := func(x ast.Expr, whole bool) {
				for {
					switch y := x.(type) {
					case *ast.IndexExpr:
						x, whole = y.X, false
						continue
					case *ast.ParenExpr:
						x = y.X
						continue
					}
					break
				}
				if se, ok := x.(*ast.SelectorExpr); ok {
					if id, ok := se.X.(*ast.Ident); ok && id.Name == recv {
						if whole {
							set[se.Sel.Name+"="] = true
						} else {
							set[se.Sel.Name+"[]"] = true
						}
					}
				}
			}
			ast.Inspect(fd.Body, func(n ast.Node) bool {
				switch x := n.(type) {
				case *ast.AssignStmt:
					for _, l := range x.Lhs {
						field(l, true)
					}
				case *ast.IncDecStmt:
					field(x.X, true)
				case *ast.CallExpr:
					if id, ok := x.Fun.(*ast.Ident); ok && (id.Name == "delete" || id.Name == "clear") && len(x.Args) > 0 {
						field(x.Args[0], false)
					}
				}
				return true
			})
			var out []string
			for k := range set {
				out = append(out, k)
			}
			sort.Strings(out)
			return out
		}
		var optionWrites, optionWriteForms []string
		for _, d := range of.Decls {
			fd, ok := d.(*ast.FuncDecl)
			if !ok || fd.Body == nil || fd.Recv != nil {
				continue
			}
			switch fd.Name.Name {
			case "WithGlobal", "WithGlobals", "WithoutGlobal", "WithoutGlobals", "WithGlobalOverride", "WithoutDefaultGlobals":
				optionWrites = append(optionWrites, fd.Name.Name+":"+strings.Join(writes(fd, "cfg"), "+"))
				optionWriteForms = append(optionWriteForms, fd.Name.Name+":"+strings.Join(writeForms(fd, "cfg"), "+"))
			}
		}
		sort.Strings(optionWrites)
		sort.Strings(optionWriteForms)
		// the OTHER option constructors (everything in risor_options.go that is not one of the six
		// above): which Config fields they write
		var otherOptionWrites []string
		for _, d := range of.Decls {
			fd, ok := d.(*ast.FuncDecl)
			if !ok || fd.Body == nil || fd.Recv != nil || !strings.HasPrefix(fd.Name.Name, "With") {
				continue
			}
			switch fd.Name.Name {
			case "WithGlobal", "WithGlobals", "WithoutGlobal", "WithoutGlobals", "WithGlobalOverride", "WithoutDefaultGlobals":
			default:
				otherOptionWrites = append(otherOptionWrites, fd.Name.Name+":"+strings.Join(writes(fd, "cfg"), "+"))
			}
		}
		sort.Strings(otherOptionWrites)
		// the Config fields that Config.init and the methods it calls mention at all
		initFns := map[string]bool{"init": true}
		for _, n := range initOrder {
			initFns[n] = true
		}
		initReadSet := map[string]bool{}
		for _, d := range cf.Decls {
			fd, ok := d.(*ast.FuncDecl)
			if !ok || fd.Body == nil || fd.Recv == nil || !initFns[fd.Name.Name] {
				continue
			}
			recv := ""
			if len(fd.Recv.List) == 1 && len(fd.Recv.List[0].Names) == 1 {
				recv = fd.Recv.List[0].Names[0].Name
			}
			ast.Inspect(fd.Body, func(n ast.Node) bool {
				if se, ok := n.(*ast.SelectorExpr); ok {
					if id, ok := se.X.(*ast.Ident); ok && id.Name == recv && !initFns[se.Sel.Name] {
						initReadSet[se.Sel.Name] = true
					}
				}
				return true
			})
		}
		var initReads []string
		for k := range initReadSet {
			initReads = append(initReads, k)
		}
		sort.Strings(initReads)
		// every place of the root package where a Config's map fields are set AS A WHOLE
		mapFields := map[string]bool{"globals": true, "overrides": true, "denylist": true}
		rhsKind := func(e ast.Expr) string {
			switch x := e.(type) {
			case *ast.CompositeLit:
				if _, ok := x.Type.(*ast.MapType); ok && len(x.Elts) == 0 {
					return "fresh"
				}
			case *ast.CallExpr:
				if id, ok := x.Fun.(*ast.Ident); ok && id.Name == "make" && len(x.Args) > 0 {
					if _, ok := x.Args[0].(*ast.MapType); ok {
						return "fresh"
					}
				}
			}
			return "other"
		}
		var configMapAssigns []string
		for _, f := range c11ParseDir(fset, repo) {
			for _, d := range f.Decls {
				fd, ok := d.(*ast.FuncDecl)
				if !ok || fd.Body == nil {
					continue
				}
				ast.Inspect(fd.Body, func(n ast.Node) bool {
					switch x := n.(type) {
					case *ast.AssignStmt:
						for i, l := range x.Lhs {
							if se, ok := l.(*ast.SelectorExpr); ok && mapFields[se.Sel.Name] {
								k := "other"
								if len(x.Rhs) == len(x.Lhs) {
									k = rhsKind(x.Rhs[i])
								}
								configMapAssigns = append(configMapAssigns, fd.Name.Name+":"+se.Sel.Name+"="+k)
							}
						}
					case *ast.CompositeLit:
						if id, ok := x.Type.(*ast.Ident); ok && id.Name == "Config" {
							for _, el := range x.Elts {
								if kv, ok := el.(*ast.KeyValueExpr); ok {
									if kid, ok := kv.Key.(*ast.Ident); ok && mapFields[kid.Name] {
										configMapAssigns = append(configMapAssigns, fd.Name.Name+":"+kid.Name+"="+rhsKind(kv.Value))
									}
								}
							}
						}
					}
					return true
				})
			}
		}
		sort.Strings(configMapAssigns)
		var vmWithGlobalsWrites []string
		vo, err := parser.ParseFile(fset, filepath.Join(repo, "vm", "options.go"), nil, 0)
		if err != nil {
			panic(fmt.Sprintf("C11: %v", err))
		}
		for _, d := range vo.Decls {
			if fd, ok := d.(*ast.FuncDecl); ok && fd.Body != nil && fd.Name.Name == "WithGlobals" {
				vmWithGlobalsWrites = writes(fd, "vm")
			}
		}
		vf, err := parser.ParseFile(fset, filepath.Join(repo, "vm", "vm.go"), nil, 0)
		if err != nil {
			panic(fmt.Sprintf("C11: %v", err))
		}
		convertsAlways, resetClearsModules, sawApply := false, false, false
		for _, d := range vf.Decls {
			fd, ok := d.(*ast.FuncDecl)
			if !ok || fd.Body == nil || fd.Recv == nil {
				continue
			}
			switch fd.Name.Name {
			case "applyOptions":
				sawApply = true
				// `vm.globals, err = object.AsObjects(vm.inputGlobals)` as a statement of the function
				// body itself (not under a condition)
				for _, st := range fd.Body.List {
					as, ok := st.(*ast.AssignStmt)
					if !ok || len(as.Rhs) != 1 || len(as.Lhs) == 0 {
						continue
					}
					c, ok := as.Rhs[0].(*ast.CallExpr)
					if !ok {
						continue
					}
					se, ok := c.Fun.(*ast.SelectorExpr)
					if !ok || se.Sel.Name != "AsObjects" || len(c.Args) != 1 {
						continue
					}
					arg, ok1 := c.Args[0].(*ast.SelectorExpr)
					lhs, ok2 := as.Lhs[0].(*ast.SelectorExpr)
					if ok1 && ok2 && arg.Sel.Name == "inputGlobals" && lhs.Sel.Name == "globals" {
						convertsAlways = true
					}
				}
			case "resetForNewCode":
				for _, w := range writes(fd, "vm") {
					if w == "modules" {
						resetClearsModules = true
					}
				}
			}
		}
		if !sawApply {
			panic("C11: applyOptions not found in vm/vm.go")
		}
		// control facts of object/: who writes a builtin's `module` field (what `__module__` shows), and
		// what Module.Override does besides storing into the module's own tables
		var builtinModuleAssigns, overrideCalls, overrideWrites []string
		sawOverride := false
		for _, f := range c11ParseDir(fset, filepath.Join(repo, "object")) {
			for _, d := range f.Decls {
				fd, ok := d.(*ast.FuncDecl)
				if !ok || fd.Body == nil {
					continue
				}
				fname := fd.Name.Name
				recvName, recvType := "", ""
				if fd.Recv != nil && len(fd.Recv.List) == 1 {
					if len(fd.Recv.List[0].Names) == 1 {
						recvName = fd.Recv.List[0].Names[0].Name
					}
					t := fd.Recv.List[0].Type
					if st, ok := t.(*ast.StarExpr); ok {
						t = st.X
					}
					if id, ok := t.(*ast.Ident); ok {
						recvType = id.Name
						fname = id.Name + "." + fname
					}
				}
				seen := map[string]bool{}
				ast.Inspect(fd.Body, func(n ast.Node) bool {
					switch x := n.(type) {
					case *ast.AssignStmt:
						for _, l := range x.Lhs {
							if se, ok := l.(*ast.SelectorExpr); ok && se.Sel.Name == "module" && !seen[fname] {
								seen[fname] = true
								builtinModuleAssigns = append(builtinModuleAssigns, fname)
							}
						}
					case *ast.CompositeLit:
						if id, ok := x.Type.(*ast.Ident); ok && id.Name == "Builtin" {
							for _, el := range x.Elts {
								if kv, ok := el.(*ast.KeyValueExpr); ok {
									if kid, ok := kv.Key.(*ast.Ident); ok && kid.Name == "module" && !seen[fname+":new"] {
										seen[fname+":new"] = true
										builtinModuleAssigns = append(builtinModuleAssigns, fname+":new")
									}
								}
							}
						}
					}
					return true
				})
				if recvType == "Module" && fd.Name.Name == "Override" {
					sawOverride = true
					overrideWrites = writeForms(fd, recvName)
					cs := map[string]bool{}
					ast.Inspect(fd.Body, func(n ast.Node) bool {
						if c, ok := n.(*ast.CallExpr); ok {
							if se, ok := c.Fun.(*ast.SelectorExpr); ok {
								if id, ok := se.X.(*ast.Ident); ok && id.Name == recvName {
									cs[se.Sel.Name] = true
								}
							}
							// the receiver handed to another function
							for _, a := range c.Args {
								if id, ok := a.(*ast.Ident); ok && id.Name == recvName && recvName != "" {
									if fid, ok := c.Fun.(*ast.Ident); ok {
										cs[fid.Name+"(recv)"] = true
									} else if se, ok := c.Fun.(*ast.SelectorExpr); ok {
										cs[se.Sel.Name+"(recv)"] = true
									}
								}
							}
						}
						return true
					})
					for k := range cs {
						overrideCalls = append(overrideCalls, k)
					}
				}
			}
		}
		if !sawOverride {
			panic("C11: Module.Override not found in object/")
		}
		sort.Strings(builtinModuleAssigns)
		sort.Strings(overrideCalls)
		s := "namespace Risor.Generated.C11\n\n"
		s += "/-- attribute names: GetAttr `case` strings (" + strconv.Itoa(len(caseNames)) + ") and string map keys (" + strconv.Itoa(len(keyNames)) + ") of " + strings.Join(dirs, ", ") + " -/\n"
		s += "def attrUniverse : List String := " + c11StrList(universe) + "\n\n"
		s += "/-- member keys containing a dot -/\ndef dottedMemberKeys : List String := " + c11StrList(dotted) + "\n\n"
		s += "/-- methods Config.init calls on its receiver, in source order -/\ndef initOrder : List String := " + c11StrList(initOrder) + "\n\n"
		s += "/-- resolveModule's loop calls GetAttr on a variable the loop never assigns: every path component is looked up in the same (the root) module -/\ndef resolveLooksUpInRoot : Bool := " + strconv.FormatBool(resolveInRoot) + "\n\n"
		s += "/-- the variable resolveModule's loop calls GetAttr on is its first parameter or is defined from it before the loop: the lookup starts at the root module -/\ndef resolveStartsAtRoot : Bool := " + strconv.FormatBool(resolveFromParam) + "\n\n"
		s += "/-- per option constructor of risor_options.go: the Config fields its body writes (assignment, delete) -/\ndef optionWrites : List String := " + c11StrList(optionWrites) + "\n\n"
		s += "/-- the other option constructors of risor_options.go (not global-related): the Config fields each one writes -/\ndef otherOptionWrites : List String := " + c11StrList(otherOptionWrites) + "\n\n"
		s += "/-- the Config fields (and methods outside init's own call list) that Config.init and the methods it calls mention -/\ndef initReads : List String := " + c11StrList(initReads) + "\n\n"
		s += "/-- per option constructor: HOW it writes each Config field — `f[]` a store through the field (cfg.f[k] = v, delete), `f=` an assignment of the field itself -/\ndef optionWriteForms : List String := " + c11StrList(optionWriteForms) + "\n\n"
		s += "/-- every assignment OF a Config map field (globals, overrides, denylist) in the root package, as func:field=fresh|other (fresh = an empty map literal or make) -/\ndef configMapAssigns : List String := " + c11StrList(configMapAssigns) + "\n\n"
		s += "/-- the VirtualMachine fields vm.WithGlobals writes -/\ndef vmWithGlobalsWrites : List String := " + c11StrList(vmWithGlobalsWrites) + "\n\n"
		s += "/-- applyOptions converts ALL of inputGlobals into vm.globals unconditionally on every call -/\ndef vmConvertsAlways : Bool := " + strconv.FormatBool(convertsAlways) + "\n\n"
		s += "/-- resetForNewCode assigns vm.modules -/\ndef vmResetClearsModules : Bool := " + strconv.FormatBool(resetClearsModules) + "\n\n"
		s += "/-- every function of package object that assigns a `module` field (`x.module = …`; `:new` = sets it in a Builtin composite literal, i.e. on a fresh object) -/\ndef builtinModuleAssigns : List String := " + c11StrList(builtinModuleAssigns) + "\n\n"
		s += "/-- Module.Override: the receiver's fields its body writes (`f[]` = a store through the field) -/\ndef overrideWrites : List String := " + c11StrList(overrideWrites) + "\n\n"
		s += "/-- Module.Override: methods it calls on its receiver, functions it hands its receiver to -/\ndef overrideCalls : List String := " + c11StrList(overrideCalls) + "\n\n"
		s += "end Risor.Generated.C11\n"
		return s
	}})
}
