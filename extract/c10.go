package main

// C10: structural facts of object/chan.go, object/spawn.go, object/thread.go,
// builtins/builtins.go and vm/vm.go that the channel/iterator/thread model is written from,
// and the inventory of every Go channel operation in object/, vm/, builtins/ (and
// modules/thread when it exists).  Regenerated on every run and compared (C10/Ties.lean, by
// decide) with the constants the model states next to the definitions that rest on them
// (C10/ModelCap.lean, `expect…`), so that an edit to Send/Receive/Next/Entry/Close, to the
// capacity path chan(n) → NewChan → make, to the ForIter / Go arms, to Spawn's private copy
// or to NewThread/Wait — or a new place that touches a Go channel — is noticed even where no
// generated schedule happens to exercise it.  go/ast + go/printer only.

import (
	"bytes"
	"fmt"
	"go/ast"
	"go/parser"
	"go/printer"
	"go/token"
	"os"
	"path/filepath"
	"sort"
	"strings"
)

func init() {
	generators = append(generators, generator{"C10", func(repo string) string {
		fset := token.NewFileSet()
		parse := func(rel string) *ast.File {
			f, err := parser.ParseFile(fset, filepath.Join(repo, rel), nil, 0)
			if err != nil {
				panic(err)
			}
			return f
		}
		// source text of a node on one line
		src := func(n ast.Node) string {
			var b bytes.Buffer
			if err := printer.Fprint(&b, fset, n); err != nil {
				panic(err)
			}
			return strings.Join(strings.Fields(b.String()), " ")
		}
		srcs := func(ss []ast.Stmt) []string {
			out := []string{}
			for _, s := range ss {
				out = append(out, src(s))
			}
			return out
		}
		recvName := func(fd *ast.FuncDecl) string {
			if fd.Recv == nil || len(fd.Recv.List) == 0 {
				return ""
			}
			t := fd.Recv.List[0].Type
			if st, ok := t.(*ast.StarExpr); ok {
				t = st.X
			}
			if id, ok := t.(*ast.Ident); ok {
				return id.Name
			}
			return ""
		}
		// fn("Chan", "Send") = method Send of type Chan; fn("", "NewChan") = function
		fn := func(f *ast.File, recv, name string) *ast.FuncDecl {
			for _, d := range f.Decls {
				if fd, ok := d.(*ast.FuncDecl); ok && fd.Name.Name == name && fd.Body != nil && recvName(fd) == recv {
					return fd
				}
			}
			panic(fmt.Sprintf("%s: func %s.%s not found", f.Name.Name, recv, name))
		}
		// the one select statement directly in a function body: statements before it, its arms
		// ("<comm> => stmt; stmt" in source order, `default` for a default arm), statements after it
		selectShape := func(fd *ast.FuncDecl) (pre, arms, post []string) {
			pre, arms, post = []string{}, []string{}, []string{}
			seen := 0
			for _, s := range fd.Body.List {
				sel, ok := s.(*ast.SelectStmt)
				if !ok {
					if seen == 0 {
						pre = append(pre, src(s))
					} else {
						post = append(post, src(s))
					}
					continue
				}
				seen++
				for _, c := range sel.Body.List {
					cc := c.(*ast.CommClause)
					comm := "default"
					if cc.Comm != nil {
						comm = src(cc.Comm)
					}
					arms = append(arms, comm+" => "+strings.Join(srcs(cc.Body), "; "))
				}
			}
			if seen != 1 {
				panic(fmt.Sprintf("%s: expected exactly one top-level select, found %d", fd.Name.Name, seen))
			}
			// no further select anywhere (nested)
			n := 0
			ast.Inspect(fd.Body, func(x ast.Node) bool {
				if _, ok := x.(*ast.SelectStmt); ok {
					n++
				}
				return true
			})
			if n != 1 {
				panic(fmt.Sprintf("%s: nested select", fd.Name.Name))
			}
			return
		}
		recvVar := func(fd *ast.FuncDecl) string {
			if fd.Recv != nil && len(fd.Recv.List) == 1 && len(fd.Recv.List[0].Names) == 1 {
				return fd.Recv.List[0].Names[0].Name
			}
			return ""
		}
		uniq := func(set map[string]bool) []string {
			out := []string{}
			for k := range set {
				out = append(out, k)
			}
			sort.Strings(out)
			return out
		}
		// fields of the receiver assigned (=, op=, ++, --) anywhere in the body
		writes := func(fd *ast.FuncDecl) []string {
			rv := recvVar(fd) + "."
			set := map[string]bool{}
			ast.Inspect(fd.Body, func(n ast.Node) bool {
				switch n := n.(type) {
				case *ast.AssignStmt:
					for _, l := range n.Lhs {
						if s := src(l); strings.HasPrefix(s, rv) {
							set[strings.SplitN(strings.TrimPrefix(s, rv), "[", 2)[0]] = true
						}
					}
				case *ast.IncDecStmt:
					if s := src(n.X); strings.HasPrefix(s, rv) {
						set[strings.TrimPrefix(s, rv)] = true
					}
				}
				return true
			})
			return uniq(set)
		}
		// fields of the receiver mentioned anywhere in the body
		reads := func(fd *ast.FuncDecl) []string {
			rv := recvVar(fd)
			set := map[string]bool{}
			ast.Inspect(fd.Body, func(n ast.Node) bool {
				if sel, ok := n.(*ast.SelectorExpr); ok {
					if id, ok := sel.X.(*ast.Ident); ok && id.Name == rv {
						set[sel.Sel.Name] = true
					}
				}
				return true
			})
			return uniq(set)
		}
		callsTo := func(n ast.Node, fun string) []string {
			out := []string{}
			ast.Inspect(n, func(x ast.Node) bool {
				if c, ok := x.(*ast.CallExpr); ok && src(c.Fun) == fun {
					out = append(out, src(c))
				}
				return true
			})
			return out
		}

		// ---- object/chan.go
		cf := parse("object/chan.go")
		send, receive, next := fn(cf, "Chan", "Send"), fn(cf, "Chan", "Receive"), fn(cf, "Chan", "Next")
		entry, closeFn, iter, newChan := fn(cf, "Chan", "Entry"), fn(cf, "Chan", "Close"), fn(cf, "Chan", "Iter"), fn(cf, "", "NewChan")
		sendPre, sendArms, sendPost := selectShape(send)
		recvPre, recvArms, recvPost := selectShape(receive)
		nextPre, nextArms, nextPost := selectShape(next)
		// Entry: the key / value of the entry literal
		entryKey, entryValue := "", ""
		ast.Inspect(entry.Body, func(n ast.Node) bool {
			if cl, ok := n.(*ast.CompositeLit); ok && src(cl.Type) == "Entry" {
				for _, el := range cl.Elts {
					if kv, ok := el.(*ast.KeyValueExpr); ok {
						switch src(kv.Key) {
						case "key":
							entryKey = src(kv.Value)
						case "value":
							entryValue = src(kv.Value)
						}
					}
				}
			}
			return true
		})
		iterReturns := []string{}
		ast.Inspect(iter.Body, func(n ast.Node) bool {
			if r, ok := n.(*ast.ReturnStmt); ok {
				for _, x := range r.Results {
					iterReturns = append(iterReturns, src(x))
				}
			}
			return true
		})
		newChanMake, newChanCap := "", ""
		ast.Inspect(newChan.Body, func(n ast.Node) bool {
			if cl, ok := n.(*ast.CompositeLit); ok && src(cl.Type) == "Chan" {
				for _, el := range cl.Elts {
					if kv, ok := el.(*ast.KeyValueExpr); ok {
						switch src(kv.Key) {
						case "value":
							newChanMake = src(kv.Value)
						case "capacity":
							newChanCap = src(kv.Value)
						}
					}
				}
			}
			return true
		})
		// methods of Chan that hand the raw Go channel out (operations on it elsewhere bypass Send/Receive/Close)
		rawAccessors := []string{}
		for _, d := range cf.Decls {
			if fd, ok := d.(*ast.FuncDecl); ok && fd.Body != nil && recvName(fd) == "Chan" {
				ast.Inspect(fd.Body, func(n ast.Node) bool {
					if r, ok := n.(*ast.ReturnStmt); ok {
						for _, x := range r.Results {
							if src(x) == recvVar(fd)+".value" {
								rawAccessors = append(rawAccessors, fd.Name.Name)
							}
						}
					}
					return true
				})
			}
		}
		sort.Strings(rawAccessors)
		newChanParams := []string{}
		for _, p := range newChan.Type.Params.List {
			for _, n := range p.Names {
				newChanParams = append(newChanParams, n.Name+" "+src(p.Type))
			}
		}

		// ---- builtins/builtins.go: chan(n), make(chan, n)
		bf := parse("builtins/builtins.go")
		chanB, makeB := fn(bf, "", "Chan"), fn(bf, "", "Make")
		sizeFacts := func(fd *ast.FuncDecl) (sizes, bounds []string) {
			sizes, bounds = []string{}, []string{}
			ast.Inspect(fd.Body, func(n ast.Node) bool {
				switch n := n.(type) {
				case *ast.AssignStmt:
					for i, l := range n.Lhs {
						if src(l) == "size" && i < len(n.Rhs) {
							sizes = append(sizes, src(n.Rhs[i]))
						}
					}
				case *ast.IfStmt:
					mentions := false
					ast.Inspect(n.Cond, func(x ast.Node) bool {
						if id, ok := x.(*ast.Ident); ok && id.Name == "size" {
							mentions = true
						}
						return true
					})
					if mentions {
						bounds = append(bounds, src(n.Cond))
					}
				}
				return true
			})
			return
		}
		chanSizes, chanBounds := sizeFacts(chanB)
		makeSizes, makeBounds := sizeFacts(makeB)
		chanArity := callsTo(chanB.Body, "arg.RequireRange")
		chanResult := callsTo(chanB.Body, "object.NewChan")
		// make: what the `case "chan":` clause returns
		makeChanResult := []string{}
		ast.Inspect(makeB.Body, func(n ast.Node) bool {
			if cc, ok := n.(*ast.CaseClause); ok && len(cc.List) == 1 && src(cc.List[0]) == `"chan"` {
				makeChanResult = append(makeChanResult, srcs(cc.Body)...)
			}
			return true
		})
		// every caller of NewChan in the non-test sources of the whole repository
		newChanCallers := []string{}

		// ---- vm/vm.go: the arms of eval's switch
		vf := parse("vm/vm.go")
		eval := fn(vf, "VirtualMachine", "eval")
		arm := func(opName string) []string {
			var out []string
			ast.Inspect(eval.Body, func(n ast.Node) bool {
				if cc, ok := n.(*ast.CaseClause); ok && len(cc.List) == 1 && src(cc.List[0]) == "op."+opName {
					if out != nil {
						panic("vm/vm.go: two arms for op." + opName)
					}
					out = srcs(cc.Body)
				}
				return true
			})
			if out == nil {
				panic("vm/vm.go: no arm for op." + opName)
			}
			return out
		}
		forIter, goArm, sendArm, receiveArm := arm("ForIter"), arm("Go"), arm("Send"), arm("Receive")
		cloneCallAsync := srcs(fn(vf, "VirtualMachine", "cloneCallAsync").Body.List)

		// ---- object/spawn.go
		sf := parse("object/spawn.go")
		spawn := fn(sf, "", "Spawn")
		spawnCopy := []string{}
		copyEnd := token.NoPos
		for _, s := range spawn.Body.List {
			t := src(s)
			if strings.HasPrefix(t, "argsCopy :=") || strings.HasPrefix(t, "argsCopy =") || strings.HasPrefix(t, "copy(argsCopy") {
				spawnCopy = append(spawnCopy, t)
				copyEnd = s.End()
			}
		}
		spawnCalls := []string{}
		copyBeforeCalls := copyEnd != token.NoPos
		ast.Inspect(spawn.Body, func(n ast.Node) bool {
			if c, ok := n.(*ast.CallExpr); ok && src(c.Fun) == "spawnFunc" {
				spawnCalls = append(spawnCalls, src(c))
				if c.Pos() < copyEnd {
					copyBeforeCalls = false
				}
			}
			return true
		})
		argsUses := 0
		ast.Inspect(spawn.Body, func(n ast.Node) bool {
			if id, ok := n.(*ast.Ident); ok && id.Name == "args" {
				argsUses++
			}
			return true
		})
		adapterCall := callsTo(fn(sf, "callFuncAdapter", "Call").Body, "callFunc")

		// ---- object/thread.go
		tf := parse("object/thread.go")
		newThread, wait := fn(tf, "", "NewThread"), fn(tf, "Thread", "Wait")
		goStmts := 0
		threadBody, threadDeferred := []string{}, []string{}
		ast.Inspect(newThread.Body, func(n ast.Node) bool {
			if g, ok := n.(*ast.GoStmt); ok {
				goStmts++
				if lit, ok := g.Call.Fun.(*ast.FuncLit); ok {
					for _, s := range lit.Body.List {
						if d, ok := s.(*ast.DeferStmt); ok {
							if dl, ok := d.Call.Fun.(*ast.FuncLit); ok {
								threadDeferred = append(threadDeferred, srcs(dl.Body.List)...)
							} else {
								threadDeferred = append(threadDeferred, src(d.Call))
							}
						} else {
							threadBody = append(threadBody, src(s))
						}
					}
				} else {
					threadBody = append(threadBody, src(g.Call))
				}
			}
			return true
		})
		threadLit := []string{}
		ast.Inspect(newThread.Body, func(n ast.Node) bool {
			if cl, ok := n.(*ast.CompositeLit); ok && src(cl.Type) == "Thread" {
				for _, el := range cl.Elts {
					threadLit = append(threadLit, src(el))
				}
			}
			return true
		})
		_, waitArms, _ := selectShape(wait)

		// ---- inventory of channel operations
		chanFields := map[string]bool{}
		chanFieldsOf := map[string]map[string]bool{} // struct type -> its fields of channel type
		type fileT struct {
			rel string
			f   *ast.File
		}
		var files []fileT
		dirs := []string{"object", "vm", "builtins", "modules/thread"}
		dirsPresent := []string{}
		for _, d := range dirs {
			ents, err := os.ReadDir(filepath.Join(repo, d))
			if err != nil {
				continue
			}
			dirsPresent = append(dirsPresent, d)
			for _, e := range ents {
				if e.IsDir() || !strings.HasSuffix(e.Name(), ".go") || strings.HasSuffix(e.Name(), "_test.go") {
					continue
				}
				rel := d + "/" + e.Name()
				files = append(files, fileT{rel, parse(rel)})
			}
		}
		for _, ft := range files {
			ast.Inspect(ft.f, func(n ast.Node) bool {
				if ts, ok := n.(*ast.TypeSpec); ok {
					if st, ok := ts.Type.(*ast.StructType); ok {
						for _, fl := range st.Fields.List {
							if _, ok := fl.Type.(*ast.ChanType); ok {
								for _, nm := range fl.Names {
									chanFields[ts.Name.Name+"."+nm.Name] = true
									if chanFieldsOf[ts.Name.Name] == nil {
										chanFieldsOf[ts.Name.Name] = map[string]bool{}
									}
									chanFieldsOf[ts.Name.Name][nm.Name] = true
								}
							}
						}
					}
				}
				return true
			})
		}
		sites := []string{}
		for _, ft := range files {
			for _, d := range ft.f.Decls {
				where := "-"
				rcvVar, rcvType := "", ""
				if fd, ok := d.(*ast.FuncDecl); ok {
					where = fd.Name.Name
					rcvVar, rcvType = recvVar(fd), recvName(fd)
				}
				add := func(kind, what string) { sites = append(sites, ft.rel+":"+where+":"+kind+":"+what) }
				ast.Inspect(d, func(n ast.Node) bool {
					switch n := n.(type) {
					case *ast.SendStmt:
						add("send", src(n.Chan))
					case *ast.UnaryExpr:
						if n.Op == token.ARROW {
							add("recv", src(n.X))
						}
					case *ast.CallExpr:
						if id, ok := n.Fun.(*ast.Ident); ok {
							if id.Name == "close" && len(n.Args) == 1 {
								add("close", src(n.Args[0]))
							}
							if id.Name == "make" && len(n.Args) >= 1 {
								if _, ok := n.Args[0].(*ast.ChanType); ok {
									as := []string{}
									for _, a := range n.Args {
										as = append(as, src(a))
									}
									add("make", strings.Join(as, ", "))
								}
							}
						}
						if src(n.Fun) == "object.NewChan" || (src(n.Fun) == "NewChan" && strings.HasPrefix(ft.rel, "object/")) {
							newChanCallers = append(newChanCallers, ft.rel+":"+where+":"+src(n))
						}
					case *ast.RangeStmt:
						x := n.X
						// a range over a channel-typed field of the receiver, or over ctx.Done()
						if sel, ok := x.(*ast.SelectorExpr); ok {
							if id, ok := sel.X.(*ast.Ident); ok && rcvVar != "" && id.Name == rcvVar && chanFieldsOf[rcvType][sel.Sel.Name] {
								add("range", src(x))
							}
						}
						if c, ok := x.(*ast.CallExpr); ok && strings.HasSuffix(src(c.Fun), ".Done") {
							add("range", src(x))
						}
					}
					return true
				})
			}
		}
		sort.Strings(sites)
		sort.Strings(newChanCallers)
		cfNames := uniq(chanFields)

		b := func(x bool) string { return fmt.Sprintf("%v", x) }
		q := func(x string) string { return fmt.Sprintf("%q", x) }
		strList := func(xs []string) string {
			if len(xs) == 0 {
				return "[]"
			}
			qs := make([]string, len(xs))
			for i, x := range xs {
				qs[i] = q(x)
			}
			return "[\n  " + strings.Join(qs, ",\n  ") + "]"
		}
		one := func(what string, xs []string) string {
			if len(xs) != 1 {
				panic(fmt.Sprintf("%s: expected exactly one, found %d: %v", what, len(xs), xs))
			}
			return xs[0]
		}

		s := "namespace Risor.Generated.C10\n\n"
		s += "/-! object/chan.go -/\n\n"
		s += "/-- `Chan.Send`: statements before its one `select` -/\ndef sendPrelude : List String := " + strList(sendPre) + "\n"
		s += "/-- the arms of that `select`, in source order (`default =>` would be a default arm) -/\ndef sendArms : List String := " + strList(sendArms) + "\n"
		s += "def sendAfter : List String := " + strList(sendPost) + "\n"
		s += "/-- fields of the channel object assigned in `Send` -/\ndef sendWrites : List String := " + strList(writes(send)) + "\n"
		s += "/-- `Chan.Receive` -/\ndef receivePrelude : List String := " + strList(recvPre) + "\n"
		s += "def receiveArms : List String := " + strList(recvArms) + "\n"
		s += "def receiveAfter : List String := " + strList(recvPost) + "\n"
		s += "def receiveWrites : List String := " + strList(writes(receive)) + "\n"
		s += "/-- `Chan.Next` -/\ndef nextPrelude : List String := " + strList(nextPre) + "\n"
		s += "def nextArms : List String := " + strList(nextArms) + "\n"
		s += "def nextAfter : List String := " + strList(nextPost) + "\n"
		s += "/-- fields `Next` assigns: the shared state of the two-step iteration -/\ndef nextWrites : List String := " + strList(writes(next)) + "\n"
		s += "/-- `Chan.Entry`: fields read, fields assigned, key and value of the entry it builds, its statements -/\n"
		s += "def entryReads : List String := " + strList(reads(entry)) + "\n"
		s += "def entryWrites : List String := " + strList(writes(entry)) + "\n"
		s += "def entryKey : String := " + q(entryKey) + "\n"
		s += "def entryValue : String := " + q(entryValue) + "\n"
		s += "def entryBody : List String := " + strList(srcs(entry.Body.List)) + "\n"
		s += "/-- `Chan.Close`: its statements, the fields it assigns -/\ndef closeBody : List String := " + strList(srcs(closeFn.Body.List)) + "\n"
		s += "def closeWrites : List String := " + strList(writes(closeFn)) + "\n"
		s += "/-- what `Chan.Iter` returns -/\ndef iterReturns : List String := " + strList(iterReturns) + "\n"
		s += "/-- `NewChan`: parameters, the `value:` and `capacity:` of the literal -/\ndef newChanParams : List String := " + strList(newChanParams) + "\n"
		s += "def newChanMake : String := " + q(newChanMake) + "\n"
		s += "def newChanCapacityField : String := " + q(newChanCap) + "\n"
		s += "/-- methods of `Chan` that return the raw Go channel -/\ndef rawChanAccessors : List String := " + strList(rawAccessors) + "\n"
		s += "/-- every call of `NewChan` in object/, vm/, builtins/ -/\ndef newChanCallers : List String := " + strList(newChanCallers) + "\n"
		s += "\n/-! builtins/builtins.go -/\n\n"
		s += "/-- builtin `chan`: the arity test, every expression assigned to `size`, every `if` condition that mentions `size`, the result -/\n"
		s += "def chanBuiltinArity : String := " + q(one("Chan: arg.RequireRange", chanArity)) + "\n"
		s += "def chanBuiltinSizes : List String := " + strList(chanSizes) + "\n"
		s += "def chanBuiltinBounds : List String := " + strList(chanBounds) + "\n"
		s += "def chanBuiltinResult : String := " + q(one("Chan: object.NewChan", chanResult)) + "\n"
		s += "/-- builtin `make`: the same for its `size`, and the body of its `case \"chan\":` -/\n"
		s += "def makeSizes : List String := " + strList(makeSizes) + "\n"
		s += "def makeBounds : List String := " + strList(makeBounds) + "\n"
		s += "def makeChanResult : List String := " + strList(makeChanResult) + "\n"
		s += "\n/-! vm/vm.go -/\n\n"
		s += "/-- the statements of `case op.ForIter:` in `eval` -/\ndef forIterArm : List String := " + strList(forIter) + "\n"
		s += "/-- `case op.Go:` -/\ndef goArm : List String := " + strList(goArm) + "\n"
		s += "/-- `case op.Send:` / `case op.Receive:` -/\ndef sendOpArm : List String := " + strList(sendArm) + "\n"
		s += "def receiveOpArm : List String := " + strList(receiveArm) + "\n"
		s += "/-- `cloneCallAsync` -/\ndef cloneCallAsync : List String := " + strList(cloneCallAsync) + "\n"
		s += "\n/-! object/spawn.go, object/thread.go -/\n\n"
		s += "/-- `Spawn`: the statements that build `argsCopy`; they all precede every call of the spawn function; every such call; how often `args` is mentioned at all -/\n"
		s += "def spawnCopy : List String := " + strList(spawnCopy) + "\n"
		s += "def spawnCopyBeforeCalls : Bool := " + b(copyBeforeCalls) + "\n"
		s += "def spawnCalls : List String := " + strList(spawnCalls) + "\n"
		s += "def spawnArgsUses : Nat := " + fmt.Sprint(argsUses) + "\n"
		s += "/-- `callFuncAdapter.Call` hands its arguments on unchanged -/\ndef adapterCall : List String := " + strList(adapterCall) + "\n"
		s += "/-- `NewThread`: number of `go` statements, the thread literal, the goroutine's statements, its deferred function's statements -/\n"
		s += "def threadGoStmts : Nat := " + fmt.Sprint(goStmts) + "\n"
		s += "def threadLit : List String := " + strList(threadLit) + "\n"
		s += "def threadBody : List String := " + strList(threadBody) + "\n"
		s += "def threadDeferred : List String := " + strList(threadDeferred) + "\n"
		s += "/-- `Thread.Wait`: the arms of its select -/\ndef waitArms : List String := " + strList(waitArms) + "\n"
		s += "\n/-! inventory -/\n\n"
		s += "/-- directories searched (those that exist) -/\ndef chanSiteDirs : List String := " + strList(dirsPresent) + "\n"
		s += "/-- struct fields of channel type declared there -/\ndef chanFields : List String := " + strList(cfNames) + "\n"
		s += "/-- every channel operation: file:function:kind:expression, sorted -/\ndef chanSites : List String := " + strList(sites) + "\n"
		s += "\nend Risor.Generated.C10\n"
		return s
	}})
}
