package main

// E14 + E5 for C03.
//
// E14: every explicit `panic(` call, every single-value type assertion `x.(T)` (no comma-ok,
// not a type switch) and every function containing `recover()` in the packages an embedding
// call goes through before/around the VM's recover: lexer, parser, ast, token, op, errz,
// internal/tmpl, compiler and the root package (option handling).  For vm and
// object/thread.go only the recovering functions and the array limits are listed.
// Keys never contain line numbers: "<pkg>.<Func>#<ordinal>: <expression text>".
//
// Native nesting (Model 4c): the declared types of the VM's arrays (`frames`, `stack`) and,
// for every function of vm/ that calls `….eval(` the
// activate… call that precedes it (which frame it claims); the uses of callFunction's nesting
// counter `vm.callDepth` in source order relative to the Go defers, activateFunction and eval.
// Mutexes (Model 4d): for every function of importer/, vm/, compiler/ and the root package
// the calls of Lock / Unlock / RLock / RUnlock / TryLock it contains, in source order, with
// `defer` marked.
//
// E5: every `c.emit(op.X, …)` call site of the compiler with the number of operands it
// passes, and the operand count op/op.go registers for each opcode constant.

import (
	"fmt"
	"go/ast"
	"go/parser"
	"go/printer"
	"go/token"
	"os"
	"path/filepath"
	"sort"
	"strconv"
	"strings"
)

func init() {
	generators = append(generators, generator{"C03", c03_genC03})
}

type c03File struct {
	pkg  string
	file *ast.File
}

func c03Parse(fset *token.FileSet, repo, dir, pkg string) []c03File {
	ents, err := os.ReadDir(filepath.Join(repo, dir))
	if err != nil {
		panic(err)
	}
	var out []c03File
	for _, e := range ents {
		n := e.Name()
		if e.IsDir() || !strings.HasSuffix(n, ".go") || strings.HasSuffix(n, "_test.go") {
			continue
		}
		f, err := parser.ParseFile(fset, filepath.Join(repo, dir, n), nil, 0)
		if err != nil {
			panic(err)
		}
		out = append(out, c03File{pkg, f})
	}
	return out
}

func c03Src(fset *token.FileSet, n ast.Node) string {
	var sb strings.Builder
	printer.Fprint(&sb, fset, n)
	s := strings.Join(strings.Fields(sb.String()), " ")
	if len(s) > 70 {
		s = s[:70] + "…"
	}
	return s
}

func c03_funcKey(pkg string, fd *ast.FuncDecl) string {
	name := fd.Name.Name
	if fd.Recv != nil && len(fd.Recv.List) > 0 {
		t := fd.Recv.List[0].Type
		if st, ok := t.(*ast.StarExpr); ok {
			t = st.X
		}
		if id, ok := t.(*ast.Ident); ok {
			name = id.Name + "." + name
		}
	}
	return pkg + "." + name
}

func c03_leanStrList(name, doc string, xs []string) string {
	var sb strings.Builder
	fmt.Fprintf(&sb, "/-- %s -/\ndef %s : List String := [\n", doc, name)
	for i, x := range xs {
		sep := ","
		if i == len(xs)-1 {
			sep = ""
		}
		fmt.Fprintf(&sb, "  %s%s\n", strconv.Quote(x), sep)
	}
	sb.WriteString("]\n\n")
	return sb.String()
}

func c03_genC03(repo string) string {
	fset := token.NewFileSet()
	var files []c03File
	for _, d := range [][2]string{{"lexer", "lexer"}, {"parser", "parser"}, {"ast", "ast"}, {"token", "token"}, {"op", "op"},
		{"errz", "errz"}, {"internal/tmpl", "tmpl"}, {"compiler", "compiler"}, {".", "risor"}} {
		files = append(files, c03Parse(fset, repo, d[0], d[1])...)
	}
	var panics, asserts, vmPanics []string
	scan := func(cf c03File, wantSites bool, recovers *[]string) {
		vmPkg := cf.pkg == "vm"
		for _, d := range cf.file.Decls {
			fd, ok := d.(*ast.FuncDecl)
			if !ok || fd.Body == nil {
				continue
			}
			key := c03_funcKey(cf.pkg, fd)
			checked := map[*ast.TypeAssertExpr]bool{}
			ast.Inspect(fd.Body, func(n ast.Node) bool {
				switch x := n.(type) {
				case *ast.AssignStmt:
					if len(x.Lhs) == 2 && len(x.Rhs) == 1 {
						if ta, ok := x.Rhs[0].(*ast.TypeAssertExpr); ok {
							checked[ta] = true
						}
					}
				case *ast.ValueSpec:
					if len(x.Names) == 2 && len(x.Values) == 1 {
						if ta, ok := x.Values[0].(*ast.TypeAssertExpr); ok {
							checked[ta] = true
						}
					}
				}
				return true
			})
			np, na := 0, 0
			hasRecover := false
			ast.Inspect(fd.Body, func(n ast.Node) bool {
				switch x := n.(type) {
				case *ast.CallExpr:
					if id, ok := x.Fun.(*ast.Ident); ok {
						if id.Name == "panic" && vmPkg {
							arg := ""
							if len(x.Args) > 0 {
								arg = c03Src(fset, x.Args[0])
							}
							vmPanics = append(vmPanics, fmt.Sprintf("%s#%d: panic(%s)", key, np, arg))
							np++
						}
						if id.Name == "panic" && wantSites {
							arg := ""
							if len(x.Args) > 0 {
								arg = c03Src(fset, x.Args[0])
							}
							panics = append(panics, fmt.Sprintf("%s#%d: panic(%s)", key, np, arg))
							np++
						}
						if id.Name == "recover" {
							hasRecover = true
						}
					}
				case *ast.TypeAssertExpr:
					if x.Type != nil && !checked[x] && wantSites {
						asserts = append(asserts, fmt.Sprintf("%s#%d: %s", key, na, c03Src(fset, x)))
						na++
					}
				}
				return true
			})
			if hasRecover && recovers != nil {
				*recovers = append(*recovers, key)
			}
		}
	}
	var frontRecovers, vmRecovers []string
	for _, cf := range files {
		scan(cf, true, &frontRecovers)
	}
	for _, cf := range c03Parse(fset, repo, "vm", "vm") {
		scan(cf, false, &vmRecovers)
	}
	// object/thread.go only
	if f, err := parser.ParseFile(fset, filepath.Join(repo, "object", "thread.go"), nil, 0); err == nil {
		scan(c03File{"object", f}, false, &vmRecovers)
	} else {
		panic(err)
	}
	sort.Strings(panics)
	sort.Strings(asserts)
	sort.Strings(vmPanics)
	sort.Strings(frontRecovers)
	sort.Strings(vmRecovers)

	// ---- VM limits
	limits := map[string]int{}
	for _, cf := range c03Parse(fset, repo, "vm", "vm") {
		ast.Inspect(cf.file, func(n ast.Node) bool {
			vs, ok := n.(*ast.ValueSpec)
			if !ok {
				return true
			}
			for i, nm := range vs.Names {
				if (nm.Name == "MaxStackDepth" || nm.Name == "MaxFrameDepth") && i < len(vs.Values) {
					if bl, ok := vs.Values[i].(*ast.BasicLit); ok {
						v, _ := strconv.Atoi(bl.Value)
						limits[nm.Name] = v
					}
				}
			}
			return true
		})
	}
	if limits["MaxStackDepth"] == 0 || limits["MaxFrameDepth"] == 0 {
		panic("MaxStackDepth/MaxFrameDepth not found as integer literals in vm/")
	}

	// ---- native nesting: array field types, frame index sites, re-entries of eval
	var vmArrays, evalReentries []string
	for _, cf := range c03Parse(fset, repo, "vm", "vm") {
		ast.Inspect(cf.file, func(n ast.Node) bool {
			ts, ok := n.(*ast.TypeSpec)
			if !ok || ts.Name.Name != "VirtualMachine" {
				return true
			}
			if st, ok := ts.Type.(*ast.StructType); ok {
				for _, f := range st.Fields.List {
					for _, nm := range f.Names {
						if nm.Name == "frames" || nm.Name == "stack" {
							vmArrays = append(vmArrays, nm.Name+": "+c03Src(fset, f.Type))
						}
					}
				}
			}
			return false
		})
		for _, d := range cf.file.Decls {
			fd, ok := d.(*ast.FuncDecl)
			if !ok || fd.Body == nil {
				continue
			}
			key := c03_funcKey(cf.pkg, fd)
			type callAt struct {
				pos  token.Pos
				text string
			}
			var activates []callAt
			var evals []token.Pos
			ast.Inspect(fd.Body, func(n ast.Node) bool {
				switch x := n.(type) {
				case *ast.CallExpr:
					if sel, ok := x.Fun.(*ast.SelectorExpr); ok {
						switch sel.Sel.Name {
						case "activateCode", "activateFunction":
							arg := ""
							if len(x.Args) > 0 {
								arg = c03Src(fset, x.Args[0])
							}
							activates = append(activates, callAt{x.Pos(), sel.Sel.Name + "(" + arg + ", …)"})
						case "eval":
							evals = append(evals, x.Pos())
						}
					}
				}
				return true
			})
			for _, ep := range evals {
				claim := "NO activate… call before it"
				for _, a := range activates {
					if a.pos < ep {
						claim = a.text
					}
				}
				evalReentries = append(evalReentries, fmt.Sprintf("%s: %s then eval", key, claim))
			}
		}
	}
	// ---- native nesting: the nesting counter of callFunction (vm.callDepth).  For callFunction
	// and for every other function of vm/ that mentions a selector `.callDepth` (or sets it in a
	// struct literal): the events that matter for the bound, in source order — the test, the
	// increment / decrement, the Go defer statements (as brackets), the loop over the frame's
	// deferred calls, activateFunction and eval.
	var callDepthUses []string
	for _, cf := range c03Parse(fset, repo, "vm", "vm") {
		for _, d := range cf.file.Decls {
			fd, ok := d.(*ast.FuncDecl)
			if !ok || fd.Body == nil {
				continue
			}
			type ev struct {
				pos  token.Pos
				text string
			}
			var evs []ev
			covered := map[token.Pos]bool{}
			var mentions []token.Pos
			isDepth := func(e ast.Expr) bool {
				sel, ok := e.(*ast.SelectorExpr)
				return ok && sel.Sel.Name == "callDepth"
			}
			cover := func(n ast.Node) {
				ast.Inspect(n, func(m ast.Node) bool {
					if e, ok := m.(ast.Expr); ok && isDepth(e) {
						covered[m.Pos()] = true
					}
					return true
				})
			}
			ast.Inspect(fd.Body, func(n ast.Node) bool {
				switch x := n.(type) {
				case *ast.SelectorExpr:
					if x.Sel.Name == "callDepth" {
						mentions = append(mentions, x.Pos())
					}
				case *ast.IfStmt:
					has := false
					ast.Inspect(x.Cond, func(m ast.Node) bool {
						if e, ok := m.(ast.Expr); ok && isDepth(e) {
							has = true
						}
						return true
					})
					if has {
						cover(x.Cond)
						body := "…"
						if k := len(x.Body.List); k > 0 {
							if _, ok := x.Body.List[k-1].(*ast.ReturnStmt); ok {
								body = "return"
							}
						}
						evs = append(evs, ev{x.Pos(), "if " + c03Src(fset, x.Cond) + " { " + body + " }"})
					}
				case *ast.IncDecStmt:
					if isDepth(x.X) {
						covered[x.X.Pos()] = true
						evs = append(evs, ev{x.Pos(), "callDepth" + x.Tok.String()})
					}
				case *ast.AssignStmt:
					for _, l := range x.Lhs {
						if isDepth(l) {
							covered[l.Pos()] = true
							evs = append(evs, ev{x.Pos(), c03Src(fset, x)})
						}
					}
				case *ast.KeyValueExpr:
					if id, ok := x.Key.(*ast.Ident); ok && id.Name == "callDepth" {
						evs = append(evs, ev{x.Pos(), "callDepth: " + c03Src(fset, x.Value)})
					}
				case *ast.DeferStmt:
					evs = append(evs, ev{x.Pos(), "defer{"}, ev{x.End(), "}"})
				case *ast.RangeStmt:
					if sel, ok := x.X.(*ast.SelectorExpr); ok && sel.Sel.Name == "defers" {
						evs = append(evs, ev{x.Pos(), "range defers"})
					}
				case *ast.CallExpr:
					if sel, ok := x.Fun.(*ast.SelectorExpr); ok {
						switch sel.Sel.Name {
						case "activateFunction", "eval":
							evs = append(evs, ev{x.Pos(), sel.Sel.Name})
						}
					}
				}
				return true
			})
			relevant := fd.Name.Name == "callFunction" && fd.Recv != nil
			for _, e := range evs {
				if strings.Contains(e.text, "callDepth") {
					relevant = true
				}
			}
			for _, mp := range mentions {
				relevant = true
				if !covered[mp] {
					evs = append(evs, ev{mp, "other use of callDepth"})
				}
			}
			if !relevant {
				continue
			}
			sort.SliceStable(evs, func(i, j int) bool { return evs[i].pos < evs[j].pos })
			var ts []string
			for _, e := range evs {
				ts = append(ts, e.text)
			}
			callDepthUses = append(callDepthUses, c03_funcKey(cf.pkg, fd)+": "+strings.Join(ts, "; "))
		}
	}
	sort.Strings(callDepthUses)
	sort.Strings(vmArrays)
	sort.Strings(evalReentries)
	if len(vmArrays) != 2 {
		panic("fields frames / stack of vm.VirtualMachine not found")
	}
	if len(evalReentries) == 0 {
		panic("no call of eval found in vm/: the extractor no longer recognises the re-entries")
	}

	// ---- mutex operations per function (source order)
	type muFn struct {
		key string
		ops [][3]string // receiver expression, method, "true"/"false" (deferred)
	}
	var mutexOps []muFn
	muFiles := append([]c03File{}, c03Parse(fset, repo, "importer", "importer")...)
	muFiles = append(muFiles, c03Parse(fset, repo, "vm", "vm")...)
	for _, cf := range files {
		if cf.pkg == "compiler" || cf.pkg == "risor" {
			muFiles = append(muFiles, cf)
		}
	}
	for _, cf := range muFiles {
		for _, d := range cf.file.Decls {
			fd, ok := d.(*ast.FuncDecl)
			if !ok || fd.Body == nil {
				continue
			}
			deferred := map[*ast.CallExpr]bool{}
			ast.Inspect(fd.Body, func(n ast.Node) bool {
				if ds, ok := n.(*ast.DeferStmt); ok {
					deferred[ds.Call] = true
				}
				return true
			})
			var ops [][3]string
			ast.Inspect(fd.Body, func(n ast.Node) bool {
				call, ok := n.(*ast.CallExpr)
				if !ok {
					return true
				}
				if sel, ok := call.Fun.(*ast.SelectorExpr); ok && len(call.Args) == 0 {
					switch sel.Sel.Name {
					case "Lock", "Unlock", "RLock", "RUnlock", "TryLock", "TryRLock":
						ops = append(ops, [3]string{c03Src(fset, sel.X), sel.Sel.Name, strconv.FormatBool(deferred[call])})
					}
				}
				return true
			})
			if len(ops) > 0 {
				mutexOps = append(mutexOps, muFn{c03_funcKey(cf.pkg, fd), ops})
			}
		}
	}
	sort.Slice(mutexOps, func(i, j int) bool { return mutexOps[i].key < mutexOps[j].key })

	// ---- E5: op table + emit sites
	opf, err := parser.ParseFile(fset, repo+"/op/op.go", nil, 0)
	if err != nil {
		panic(err)
	}
	opCount := map[string]int{}
	ast.Inspect(opf, func(n ast.Node) bool {
		cl, ok := n.(*ast.CompositeLit)
		if !ok || len(cl.Elts) != 3 {
			return true
		}
		id, ok1 := cl.Elts[0].(*ast.Ident)
		nm, ok2 := cl.Elts[1].(*ast.BasicLit)
		ct, ok3 := cl.Elts[2].(*ast.BasicLit)
		if ok1 && ok2 && ok3 && nm.Kind == token.STRING && ct.Kind == token.INT {
			c, _ := strconv.Atoi(ct.Value)
			opCount[id.Name] = c
		}
		return true
	})
	if len(opCount) < 30 {
		panic("op table not found in op/op.go")
	}
	type site struct {
		fn, op string
		n      int
	}
	seen := map[site]int{}
	var sites []site
	var dynamic []string
	total := 0
	for _, cf := range files {
		if cf.pkg != "compiler" {
			continue
		}
		for _, d := range cf.file.Decls {
			fd, ok := d.(*ast.FuncDecl)
			if !ok || fd.Body == nil {
				continue
			}
			key := c03_funcKey(cf.pkg, fd)
			ast.Inspect(fd.Body, func(n ast.Node) bool {
				call, ok := n.(*ast.CallExpr)
				if !ok {
					return true
				}
				sel, ok := call.Fun.(*ast.SelectorExpr)
				isEmit := ok && sel.Sel.Name == "emit"
				if id, ok2 := call.Fun.(*ast.Ident); ok2 && id.Name == "makeInstruction" && fd.Name.Name != "emit" {
					isEmit = true
				}
				if !isEmit {
					return true
				}
				total++
				if len(call.Args) == 0 || call.Ellipsis.IsValid() {
					dynamic = append(dynamic, key+": "+c03Src(fset, call))
					return true
				}
				osel, ok := call.Args[0].(*ast.SelectorExpr)
				pk, ok2 := interface{}(nil), false
				if ok {
					pk, ok2 = osel.X.(*ast.Ident)
				}
				if !ok || !ok2 || pk.(*ast.Ident).Name != "op" {
					dynamic = append(dynamic, key+": "+c03Src(fset, call))
					return true
				}
				s := site{key, osel.Sel.Name, len(call.Args) - 1}
				if seen[s] == 0 {
					sites = append(sites, s)
				}
				seen[s]++
				return true
			})
		}
	}
	if total < 50 {
		panic("fewer than 50 emit sites found in compiler/: the extractor no longer recognises them")
	}
	sort.Slice(sites, func(i, j int) bool {
		if sites[i].fn != sites[j].fn {
			return sites[i].fn < sites[j].fn
		}
		if sites[i].op != sites[j].op {
			return sites[i].op < sites[j].op
		}
		return sites[i].n < sites[j].n
	})
	sort.Strings(dynamic)

	// ---- loops of parser/parser.go that advance with `p.nextToken()` and drop its result
	// (nextToken stops advancing once p.err is set: such a loop must end some other way)
	var advLoops []string
	nLoops := 0
	for _, cf := range files {
		if cf.pkg != "parser" {
			continue
		}
		for _, d := range cf.file.Decls {
			fd, ok := d.(*ast.FuncDecl)
			if !ok || fd.Body == nil {
				continue
			}
			key := c03_funcKey(cf.pkg, fd)
			k := 0
			ast.Inspect(fd.Body, func(n ast.Node) bool {
				fs, ok := n.(*ast.ForStmt)
				if !ok {
					return true
				}
				idx := k
				k++
				nLoops++
				// unchecked advances directly in this loop's body (nested loops are listed on
				// their own, function literals are not part of the loop)
				unchecked := 0
				var walk func(n ast.Node) bool
				walk = func(n ast.Node) bool {
					switch x := n.(type) {
					case *ast.ForStmt, *ast.RangeStmt, *ast.FuncLit:
						return false
					case *ast.ExprStmt:
						if call, ok := x.X.(*ast.CallExpr); ok {
							if sel, ok := call.Fun.(*ast.SelectorExpr); ok && sel.Sel.Name == "nextToken" {
								unchecked++
							}
						}
					}
					return true
				}
				for _, st := range fs.Body.List {
					ast.Inspect(st, walk)
				}
				if unchecked > 0 {
					cond := "(no condition)"
					if fs.Cond != nil {
						cond = c03Src(fset, fs.Cond)
					}
					advLoops = append(advLoops, fmt.Sprintf("%s#%d: for %s: %d unchecked nextToken()", key, idx, cond, unchecked))
				}
				return true
			})
		}
	}
	if nLoops < 20 {
		panic("fewer than 20 for-loops found in parser/: the extractor no longer recognises them")
	}
	sort.Strings(advLoops)

	var sb strings.Builder
	sb.WriteString("namespace Risor.Generated.C03\n\n")
	sb.WriteString(c03_leanStrList("panicSites", "explicit `panic(` calls outside the VM's recover (lexer, parser, ast, token, op, errz, tmpl, compiler, root package)", panics))
	sb.WriteString(c03_leanStrList("uncheckedAsserts", "single-value type assertions `x.(T)` in the same packages", asserts))
	sb.WriteString(c03_leanStrList("vmPanicSites", "explicit `panic(` calls in vm/ (inside or outside its recover scopes)", vmPanics))
	sb.WriteString(c03_leanStrList("frontRecovers", "functions of those packages that call recover()", frontRecovers))
	sb.WriteString(c03_leanStrList("vmRecovers", "functions of vm/ and object/thread.go that call recover()", vmRecovers))
	sb.WriteString(c03_leanStrList("parserAdvanceLoops", "for-loops of parser/ (function#ordinal of the loop in the function, condition) whose body calls `p.nextToken()` as a statement, its result dropped, with the number of such calls directly in the loop (not in nested loops)", advLoops))
	sb.WriteString(c03_leanStrList("vmArrays", "declared types of the fields `frames` and `stack` of vm.VirtualMachine", vmArrays))
	sb.WriteString(c03_leanStrList("callDepthUses", "callFunction, and every other function of vm/ that mentions `.callDepth` (the nesting counter of callFunction) or sets it in a struct literal: in source order the test of the counter, its increments / decrements / assignments, the Go defer statements as brackets, the loop over the frame's deferred calls, activateFunction and eval", callDepthUses))
	sb.WriteString(c03_leanStrList("evalReentries", "every call of `….eval(` in vm/ with the activateCode / activateFunction call (first argument = the frame index it claims) that precedes it in its function", evalReentries))
	sb.WriteString("/-- functions of importer/, vm/, compiler/ and the root package that call Lock / Unlock / RLock / RUnlock / TryLock on anything, with those calls in source order: (receiver expression, method, is it the call of a `defer` statement) -/\ndef mutexOps : List (String × List (String × String × Bool)) := [\n")
	for i, m := range mutexOps {
		sep := ","
		if i == len(mutexOps)-1 {
			sep = ""
		}
		var parts []string
		for _, o := range m.ops {
			parts = append(parts, fmt.Sprintf("(%s, %s, %s)", strconv.Quote(o[0]), strconv.Quote(o[1]), o[2]))
		}
		fmt.Fprintf(&sb, "  (%s, [%s])%s\n", strconv.Quote(m.key), strings.Join(parts, ", "), sep)
	}
	sb.WriteString("]\n\n")
	fmt.Fprintf(&sb, "def maxStackDepth : Nat := %d\ndef maxFrameDepth : Nat := %d\n\n", limits["MaxStackDepth"], limits["MaxFrameDepth"])
	var names []string
	for k := range opCount {
		names = append(names, k)
	}
	sort.Strings(names)
	sb.WriteString("/-- op/op.go: Go constant name of each opcode and its registered operand count -/\ndef opOperands : List (String × Nat) := [\n")
	for i, k := range names {
		sep := ","
		if i == len(names)-1 {
			sep = ""
		}
		fmt.Fprintf(&sb, "  (%s, %d)%s\n", strconv.Quote(k), opCount[k], sep)
	}
	sb.WriteString("]\n\n")
	fmt.Fprintf(&sb, "/-- compiler/: distinct (function, opcode constant, operands passed) over all %d `c.emit(op.X, …)` / makeInstruction call sites -/\ndef emitSites : List (String × String × Nat) := [\n", total)
	for i, s := range sites {
		sep := ","
		if i == len(sites)-1 {
			sep = ""
		}
		fmt.Fprintf(&sb, "  (%s, %s, %d)%s\n", strconv.Quote(s.fn), strconv.Quote(s.op), s.n, sep)
	}
	sb.WriteString("]\n\n")
	sb.WriteString(c03_leanStrList("emitDynamic", "emit sites whose opcode is not a constant `op.X` or whose operands are spread with `...` (arity not decidable statically)", dynamic))
	sb.WriteString("end Risor.Generated.C03\n")
	return sb.String()
}
