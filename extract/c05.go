package main

// E7 for C05: every `range` over a map-typed expression in the packages in scope, keyed by
// enclosing function + ordinal (never by line number), with what the loop body does
// syntactically and whether the enclosing function calls a sort routine after the loop.
//
// go/types is needed to know that `node.Items()` or `vos.env` is a map.  The stock source
// importer cannot resolve the module path offline, so repoImporter maps
// github.com/risor-io/risor/... onto directories of the repository (parse + type-check
// recursively, cached), uses the "source" importer for the standard library (GOROOT/src is
// present) and stubs anything else with an empty package; type errors are swallowed so that
// checking continues.

import (
	"fmt"
	"go/ast"
	"go/build"
	"go/importer"
	"go/parser"
	"go/token"
	"go/types"
	"os"
	"path/filepath"
	"sort"
	"strings"
)

const c05_risorModule = "github.com/risor-io/risor"

// packages in scope of the property, relative to the repository root ("" = root package)
var c05Scope = []string{"", "ast", "builtins", "compiler", "errz", "importer", "object", "op", "os", "parser", "vm"}

func init() {
	generators = append(generators, generator{"C05", c05_genC05})
}

type c05_repoImporter struct {
	repo  string
	fset  *token.FileSet
	std   types.Importer
	cache map[string]*types.Package
	files map[string][]*ast.File
	infos map[string]*types.Info
	busy  map[string]bool
}

func c05_newRepoImporter(repo string) *c05_repoImporter {
	fset := token.NewFileSet()
	return &c05_repoImporter{repo: repo, fset: fset, std: importer.ForCompiler(fset, "source", nil),
		cache: map[string]*types.Package{}, files: map[string][]*ast.File{}, infos: map[string]*types.Info{}, busy: map[string]bool{}}
}

func (im *c05_repoImporter) Import(path string) (*types.Package, error) {
	if p, ok := im.cache[path]; ok {
		return p, nil
	}
	if path == c05_risorModule || strings.HasPrefix(path, c05_risorModule+"/") {
		rel := strings.TrimPrefix(strings.TrimPrefix(path, c05_risorModule), "/")
		dir := filepath.Join(im.repo, rel)
		// nested modules (modules/* with their own go.mod and third-party imports) are stubbed
		if rel != "" {
			if _, err := os.Stat(filepath.Join(dir, "go.mod")); err == nil {
				p := types.NewPackage(path, filepath.Base(path))
				p.MarkComplete()
				im.cache[path] = p
				return p, nil
			}
		}
		if im.busy[path] {
			return nil, fmt.Errorf("import cycle through %s", path)
		}
		im.busy[path] = true
		defer delete(im.busy, path)
		p, err := im.check(path, dir)
		if err != nil {
			return nil, err
		}
		im.cache[path] = p
		return p, nil
	}
	p, err := im.std.Import(path)
	if err != nil || p == nil {
		// third-party or unavailable: an empty package keeps the checker going
		p = types.NewPackage(path, filepath.Base(path))
		p.MarkComplete()
	}
	im.cache[path] = p
	return p, nil
}

func (im *c05_repoImporter) check(path, dir string) (*types.Package, error) {
	ents, err := os.ReadDir(dir)
	if err != nil {
		return nil, err
	}
	ctx := build.Default
	ctx.BuildTags = append(append([]string{}, ctx.BuildTags...), "verif")
	var files []*ast.File
	for _, e := range ents {
		name := e.Name()
		if e.IsDir() || !strings.HasSuffix(name, ".go") || strings.HasSuffix(name, "_test.go") {
			continue
		}
		if ok, err := ctx.MatchFile(dir, name); err != nil || !ok {
			continue
		}
		f, err := parser.ParseFile(im.fset, filepath.Join(dir, name), nil, 0)
		if err != nil {
			return nil, fmt.Errorf("%s: %v", name, err)
		}
		files = append(files, f)
	}
	if len(files) == 0 {
		return nil, fmt.Errorf("no Go files in %s", dir)
	}
	info := &types.Info{Types: map[ast.Expr]types.TypeAndValue{}}
	conf := types.Config{Importer: im, Error: func(error) {}, FakeImportC: true}
	pkg, _ := conf.Check(path, im.fset, files, info)
	if pkg == nil {
		return nil, fmt.Errorf("type-check of %s produced no package", path)
	}
	im.files[path] = files
	im.infos[path] = info
	return pkg, nil
}

type c05Site struct {
	fn      string // pkg.Func or pkg.(Recv).Method
	ord     int    // ordinal of the map range inside that function
	mapType string
	acts    []string // what the body does, sorted, from a fixed vocabulary
	sorted  bool     // a sort.* / slices.Sort* call follows the loop in the same function
}

func c05_recvName(fd *ast.FuncDecl) string {
	if fd.Recv == nil || len(fd.Recv.List) == 0 {
		return ""
	}
	t := fd.Recv.List[0].Type
	if s, ok := t.(*ast.StarExpr); ok {
		t = s.X
	}
	if ix, ok := t.(*ast.IndexExpr); ok {
		t = ix.X
	}
	if id, ok := t.(*ast.Ident); ok {
		return id.Name
	}
	return "?"
}

func c05_isSortCall(call *ast.CallExpr) bool {
	sel, ok := call.Fun.(*ast.SelectorExpr)
	if !ok {
		return false
	}
	id, ok := sel.X.(*ast.Ident)
	if !ok {
		return false
	}
	if id.Name == "sort" {
		return true
	}
	return id.Name == "slices" && strings.HasPrefix(sel.Sel.Name, "Sort")
}

func c05_isReflectMapKeys(e ast.Expr) bool {
	call, ok := e.(*ast.CallExpr)
	if !ok {
		return false
	}
	sel, ok := call.Fun.(*ast.SelectorExpr)
	return ok && (sel.Sel.Name == "MapKeys" || sel.Sel.Name == "MapRange")
}

// bodyActs classifies the statements of a range body with a fixed vocabulary.
func c05_bodyActs(info *types.Info, body *ast.BlockStmt) []string {
	set := map[string]bool{}
	ast.Inspect(body, func(n ast.Node) bool {
		switch x := n.(type) {
		case *ast.AssignStmt:
			for _, l := range x.Lhs {
				if ix, ok := l.(*ast.IndexExpr); ok {
					if tv, ok := info.Types[ix.X]; ok && tv.Type != nil {
						switch tv.Type.Underlying().(type) {
						case *types.Map:
							set["mapwrite"] = true
						case *types.Slice, *types.Array, *types.Pointer:
							set["indexwrite"] = true
						default:
							set["indexwrite"] = true
						}
					} else {
						set["indexwrite"] = true
					}
				}
			}
		case *ast.CallExpr:
			switch f := x.Fun.(type) {
			case *ast.Ident:
				switch f.Name {
				case "append":
					set["append"] = true
				case "delete":
					set["mapdelete"] = true
				case "len", "cap", "string", "int", "int64", "uint16", "make", "new", "panic":
				default:
					set["call"] = true
				}
			case *ast.SelectorExpr:
				if f.Sel.Name == "emit" {
					set["emit"] = true
				} else {
					set["call"] = true
				}
			default:
				set["call"] = true
			}
		case *ast.ReturnStmt:
			set["return"] = true
		case *ast.BranchStmt:
			if x.Tok == token.BREAK {
				set["break"] = true
			}
		case *ast.SendStmt:
			set["send"] = true
		case *ast.FuncLit:
			return false
		}
		return true
	})
	var out []string
	for k := range set {
		out = append(out, k)
	}
	sort.Strings(out)
	return out
}

func c05_genC05(repo string) string {
	im := c05_newRepoImporter(repo)
	var sites []c05Site
	for _, rel := range c05Scope {
		path := c05_risorModule
		if rel != "" {
			path += "/" + rel
		}
		if _, err := im.Import(path); err != nil {
			panic(fmt.Sprintf("cannot type-check %s: %v", path, err))
		}
		info := im.infos[path]
		pkgName := rel
		if rel == "" {
			pkgName = "risor"
		}
		files := im.files[path]
		sort.Slice(files, func(i, j int) bool {
			return im.fset.Position(files[i].Pos()).Filename < im.fset.Position(files[j].Pos()).Filename
		})
		for _, f := range files {
			for _, d := range f.Decls {
				fd, ok := d.(*ast.FuncDecl)
				if !ok || fd.Body == nil {
					continue
				}
				name := pkgName + "." + fd.Name.Name
				if r := c05_recvName(fd); r != "" {
					name = pkgName + "." + r + "." + fd.Name.Name
				}
				// sort calls in this function, by position
				var sortPos []token.Pos
				ast.Inspect(fd.Body, func(n ast.Node) bool {
					if c, ok := n.(*ast.CallExpr); ok && c05_isSortCall(c) {
						sortPos = append(sortPos, c.Pos())
					}
					return true
				})
				ord := 0
				ast.Inspect(fd.Body, func(n ast.Node) bool {
					rs, ok := n.(*ast.RangeStmt)
					if !ok {
						return true
					}
					s := c05Site{fn: name, ord: ord}
					if c05_isReflectMapKeys(rs.X) {
						// `range v.MapKeys()`: reflect hands out the keys in map order too
						s.mapType = "reflect.Value.MapKeys()"
					} else {
						tv, ok := info.Types[rs.X]
						if !ok || tv.Type == nil {
							return true
						}
						mt, ok := tv.Type.Underlying().(*types.Map)
						if !ok {
							return true
						}
						s.mapType = types.TypeString(mt, func(p *types.Package) string { return p.Name() })
					}
					s.acts = c05_bodyActs(info, rs.Body)
					for _, p := range sortPos {
						if p > rs.End() {
							s.sorted = true
						}
					}
					sites = append(sites, s)
					ord++
					return true
				})
			}
		}
	}
	if len(sites) < 10 {
		panic(fmt.Sprintf("only %d map range sites found: the type information is incomplete", len(sites)))
	}
	sort.SliceStable(sites, func(i, j int) bool {
		if sites[i].fn != sites[j].fn {
			return sites[i].fn < sites[j].fn
		}
		return sites[i].ord < sites[j].ord
	})
	var sb strings.Builder
	sb.WriteString("namespace Risor.Generated.C05\n\n")
	sb.WriteString("/-- every `range` over a map-typed expression in the packages in scope:\n")
	sb.WriteString("    (function, ordinal within the function, body actions, a sort call follows in the function).\n")
	sb.WriteString("    The map types are given in the comment after each entry. -/\n")
	sb.WriteString("def mapRangeSites : List (String × Nat × String × Bool) := [\n")
	for i, s := range sites {
		sep := ","
		if i == len(sites)-1 {
			sep = ""
		}
		fmt.Fprintf(&sb, "  (%s, %d, %s, %v)%s -- %s\n", leanStr(s.fn), s.ord, leanStr(strings.Join(s.acts, ",")), s.sorted, sep, s.mapType)
	}
	sb.WriteString("]\n\n")
	fmt.Fprintf(&sb, "def scope : List String := [%s]\n", func() string {
		var q []string
		for _, r := range c05Scope {
			if r == "" {
				r = "risor"
			}
			q = append(q, leanStr(r))
		}
		return strings.Join(q, ", ")
	}())
	sb.WriteString("\nend Risor.Generated.C05\n")
	return sb.String()
}
