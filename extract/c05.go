package main

// E7 for C05: every `range` over a map-typed expression in the packages in scope, keyed by
// enclosing function + ordinal (never by line number), with what the loop body does
// syntactically and whether the enclosing function calls a sort routine after the loop.
//
// go/types is needed to know that `node.Items()` or `vos.env` is a map.  The stock source
// importer cannot resolve the module path offline, so repoImporter maps
// github.com/risor-io/risor/... onto directories of the repository (parse + type-check
// recursively, cached), uses the "source" importer for the standard library (GOROOT/src is
// present) and stubs anything else with an empty package; type errors are swallowed so that
// checking continues.

import (
	"fmt"
	"go/ast"
	"go/build"
	"go/importer"
	"go/parser"
	"go/printer"
	"go/token"
	"go/types"
	"os"
	"path/filepath"
	"sort"
	"strings"
)

const c05_risorModule = "github.com/risor-io/risor"

// packages in scope of the property, relative to the repository root ("" = root package)
var c05Scope = []string{"", "ast", "builtins", "compiler", "errz", "importer", "object", "op", "os", "parser", "vm",
	// every package of the root module a script can reach through the default globals (the
	// modules that are Go modules of their own — aws, sql, … — are not built into the harness)
	"arg", "lexer", "limits", "token",
	"modules/all", "modules/base64", "modules/bytes", "modules/dns", "modules/errors", "modules/exec", "modules/filepath",
	"modules/fmt", "modules/http", "modules/json", "modules/math", "modules/net", "modules/os", "modules/rand", "modules/regexp",
	"modules/strconv", "modules/strings", "modules/time"}

// c05_rootModules lists the directories under modules/ that belong to the root module (no
// go.mod of their own): the scope above must name every one of them
func c05_rootModules(repo string) []string {
	ents, err := os.ReadDir(filepath.Join(repo, "modules"))
	if err != nil {
		panic(err)
	}
	var out []string
	for _, e := range ents {
		if !e.IsDir() {
			continue
		}
		dir := filepath.Join(repo, "modules", e.Name())
		if _, err := os.Stat(filepath.Join(dir, "go.mod")); err == nil {
			continue
		}
		gos, _ := filepath.Glob(filepath.Join(dir, "*.go"))
		has := false
		for _, g := range gos {
			if !strings.HasSuffix(g, "_test.go") {
				has = true
			}
		}
		if has {
			out = append(out, "modules/"+e.Name())
		}
	}
	sort.Strings(out)
	return out
}

func init() {
	generators = append(generators, generator{"C05", c05_genC05})
}

type c05_repoImporter struct {
	repo  string
	fset  *token.FileSet
	std   types.Importer
	cache map[string]*types.Package
	files map[string][]*ast.File
	infos map[string]*types.Info
	busy  map[string]bool
}

func c05_newRepoImporter(repo string) *c05_repoImporter {
	fset := token.NewFileSet()
	return &c05_repoImporter{repo: repo, fset: fset, std: importer.ForCompiler(fset, "source", nil),
		cache: map[string]*types.Package{}, files: map[string][]*ast.File{}, infos: map[string]*types.Info{}, busy: map[string]bool{}}
}

func (im *c05_repoImporter) Import(path string) (*types.Package, error) {
	if p, ok := im.cache[path]; ok {
		return p, nil
	}
	if path == c05_risorModule || strings.HasPrefix(path, c05_risorModule+"/") {
		rel := strings.TrimPrefix(strings.TrimPrefix(path, c05_risorModule), "/")
		dir := filepath.Join(im.repo, rel)
		// nested modules (modules/* with their own go.mod and third-party imports) are stubbed
		if rel != "" {
			if _, err := os.Stat(filepath.Join(dir, "go.mod")); err == nil {
				p := types.NewPackage(path, filepath.Base(path))
				p.MarkComplete()
				im.cache[path] = p
				return p, nil
			}
		}
		if im.busy[path] {
			return nil, fmt.Errorf("import cycle through %s", path)
		}
		im.busy[path] = true
		defer delete(im.busy, path)
		p, err := im.check(path, dir)
		if err != nil {
			return nil, err
		}
		im.cache[path] = p
		return p, nil
	}
	p, err := im.std.Import(path)
	if err != nil || p == nil {
		// third-party or unavailable: an empty package keeps the checker going
		p = types.NewPackage(path, filepath.Base(path))
		p.MarkComplete()
	}
	im.cache[path] = p
	return p, nil
}

func (im *c05_repoImporter) check(path, dir string) (*types.Package, error) {
	ents, err := os.ReadDir(dir)
	if err != nil {
		return nil, err
	}
	ctx := build.Default
	ctx.BuildTags = append(append([]string{}, ctx.BuildTags...), "verif")
	var files []*ast.File
	for _, e := range ents {
		name := e.Name()
		if e.IsDir() || !strings.HasSuffix(name, ".go") || strings.HasSuffix(name, "_test.go") {
			continue
		}
		if ok, err := ctx.MatchFile(dir, name); err != nil || !ok {
			continue
		}
		f, err := parser.ParseFile(im.fset, filepath.Join(dir, name), nil, 0)
		if err != nil {
			return nil, fmt.Errorf("%s: %v", name, err)
		}
		files = append(files, f)
	}
	if len(files) == 0 {
		return nil, fmt.Errorf("no Go files in %s", dir)
	}
	info := &types.Info{Types: map[ast.Expr]types.TypeAndValue{}}
	conf := types.Config{Importer: im, Error: func(error) {}, FakeImportC: true}
	pkg, _ := conf.Check(path, im.fset, files, info)
	if pkg == nil {
		return nil, fmt.Errorf("type-check of %s produced no package", path)
	}
	im.files[path] = files
	im.infos[path] = info
	return pkg, nil
}

type c05Site struct {
	fn      string // pkg.Func or pkg.(Recv).Method
	ord     int    // ordinal of the map range inside that function
	mapType string
	acts    []string // what the body does, sorted, from a fixed vocabulary
	sorted  bool     // a sort.* / slices.Sort* call follows the loop in the same function
}

func c05_recvName(fd *ast.FuncDecl) string {
	if fd.Recv == nil || len(fd.Recv.List) == 0 {
		return ""
	}
	t := fd.Recv.List[0].Type
	if s, ok := t.(*ast.StarExpr); ok {
		t = s.X
	}
	if ix, ok := t.(*ast.IndexExpr); ok {
		t = ix.X
	}
	if id, ok := t.(*ast.Ident); ok {
		return id.Name
	}
	return "?"
}

func c05_isSortCall(call *ast.CallExpr) bool {
	sel, ok := call.Fun.(*ast.SelectorExpr)
	if !ok {
		return false
	}
	id, ok := sel.X.(*ast.Ident)
	if !ok {
		return false
	}
	if id.Name == "sort" {
		return true
	}
	return id.Name == "slices" && strings.HasPrefix(sel.Sel.Name, "Sort")
}

func c05_isReflectMapKeys(e ast.Expr) bool {
	call, ok := e.(*ast.CallExpr)
	if !ok {
		return false
	}
	sel, ok := call.Fun.(*ast.SelectorExpr)
	return ok && (sel.Sel.Name == "MapKeys" || sel.Sel.Name == "MapRange")
}

// bodyActs classifies the statements of a range body with a fixed vocabulary.
func c05_bodyActs(info *types.Info, body *ast.BlockStmt) []string {
	set := map[string]bool{}
	ast.Inspect(body, func(n ast.Node) bool {
		switch x := n.(type) {
		case *ast.AssignStmt:
			for _, l := range x.Lhs {
				if ix, ok := l.(*ast.IndexExpr); ok {
					if tv, ok := info.Types[ix.X]; ok && tv.Type != nil {
						switch tv.Type.Underlying().(type) {
						case *types.Map:
							set["mapwrite"] = true
						case *types.Slice, *types.Array, *types.Pointer:
							set["indexwrite"] = true
						default:
							set["indexwrite"] = true
						}
					} else {
						set["indexwrite"] = true
					}
				}
			}
		case *ast.CallExpr:
			switch f := x.Fun.(type) {
			case *ast.Ident:
				switch f.Name {
				case "append":
					set["append"] = true
				case "delete":
					set["mapdelete"] = true
				case "len", "cap", "string", "int", "int64", "uint16", "make", "new", "panic":
				default:
					set["call"] = true
				}
			case *ast.SelectorExpr:
				if f.Sel.Name == "emit" {
					set["emit"] = true
				} else {
					set["call"] = true
				}
			default:
				set["call"] = true
			}
		case *ast.ReturnStmt:
			set["return"] = true
		case *ast.BranchStmt:
			if x.Tok == token.BREAK {
				set["break"] = true
			}
		case *ast.SendStmt:
			set["send"] = true
		case *ast.FuncLit:
			return false
		}
		return true
	})
	var out []string
	for k := range set {
		out = append(out, k)
	}
	sort.Strings(out)
	return out
}

func c05_genC05(repo string) string {
	im := c05_newRepoImporter(repo)
	var sites []c05Site
	for _, rel := range c05Scope {
		path := c05_risorModule
		if rel != "" {
			path += "/" + rel
		}
		if _, err := im.Import(path); err != nil {
			panic(fmt.Sprintf("cannot type-check %s: %v", path, err))
		}
		info := im.infos[path]
		pkgName := rel
		if rel == "" {
			pkgName = "risor"
		}
		files := im.files[path]
		sort.Slice(files, func(i, j int) bool {
			return im.fset.Position(files[i].Pos()).Filename < im.fset.Position(files[j].Pos()).Filename
		})
		for _, f := range files {
			for _, d := range f.Decls {
				fd, ok := d.(*ast.FuncDecl)
				if !ok || fd.Body == nil {
					continue
				}
				name := pkgName + "." + fd.Name.Name
				if r := c05_recvName(fd); r != "" {
					name = pkgName + "." + r + "." + fd.Name.Name
				}
				// sort calls in this function, by position
				var sortPos []token.Pos
				ast.Inspect(fd.Body, func(n ast.Node) bool {
					if c, ok := n.(*ast.CallExpr); ok && c05_isSortCall(c) {
						sortPos = append(sortPos, c.Pos())
					}
					return true
				})
				ord := 0
				ast.Inspect(fd.Body, func(n ast.Node) bool {
					rs, ok := n.(*ast.RangeStmt)
					if !ok {
						return true
					}
					s := c05Site{fn: name, ord: ord}
					if c05_isReflectMapKeys(rs.X) {
						// `range v.MapKeys()`: reflect hands out the keys in map order too
						s.mapType = "reflect.Value.MapKeys()"
					} else {
						tv, ok := info.Types[rs.X]
						if !ok || tv.Type == nil {
							return true
						}
						mt, ok := tv.Type.Underlying().(*types.Map)
						if !ok {
							return true
						}
						s.mapType = types.TypeString(mt, func(p *types.Package) string { return p.Name() })
					}
					s.acts = c05_bodyActs(info, rs.Body)
					for _, p := range sortPos {
						if p > rs.End() {
							s.sorted = true
						}
					}
					sites = append(sites, s)
					ord++
					return true
				})
			}
		}
	}
	if len(sites) < 10 {
		panic(fmt.Sprintf("only %d map range sites found: the type information is incomplete", len(sites)))
	}
	sort.SliceStable(sites, func(i, j int) bool {
		if sites[i].fn != sites[j].fn {
			return sites[i].fn < sites[j].fn
		}
		return sites[i].ord < sites[j].ord
	})
	var sb strings.Builder
	sb.WriteString("namespace Risor.Generated.C05\n\n")
	sb.WriteString("/-- every `range` over a map-typed expression in the packages in scope:\n")
	sb.WriteString("    (function, ordinal within the function, body actions, a sort call follows in the function).\n")
	sb.WriteString("    The map types are given in the comment after each entry. -/\n")
	sb.WriteString("def mapRangeSites : List (String × Nat × String × Bool) := [\n")
	for i, s := range sites {
		sep := ","
		if i == len(sites)-1 {
			sep = ""
		}
		fmt.Fprintf(&sb, "  (%s, %d, %s, %v)%s -- %s\n", leanStr(s.fn), s.ord, leanStr(strings.Join(s.acts, ",")), s.sorted, sep, s.mapType)
	}
	sb.WriteString("]\n\n")
	fmt.Fprintf(&sb, "def scope : List String := [%s]\n", func() string {
		var q []string
		for _, r := range c05Scope {
			if r == "" {
				r = "risor"
			}
			q = append(q, leanStr(r))
		}
		return strings.Join(q, ", ")
	}())
	fmt.Fprintf(&sb, "\n/-- the directories under modules/ that are part of the root module (no go.mod of their own) -/\ndef rootModules : List String := [%s]\n", func() string {
		var q []string
		for _, r := range c05_rootModules(repo) {
			q = append(q, leanStr(r))
		}
		return strings.Join(q, ", ")
	}())
	c05_marshalPaths(im, &sb)
	c05_hashKeys(im, &sb)
	c05_findMountLoop(im, &sb)
	c05_objectTypes(im, &sb)
	c05_printableDispatch(im, &sb)
	c05_formatSites(repo, &sb)
	sb.WriteString("\nend Risor.Generated.C05\n")
	return sb.String()
}

// ---------------------------------------------------------------------------------------
// the json paths: the MarshalJSON method of every type of package object, summarised as
//   fails                      the body is a single `return nil, <non-nil expression>`
//   json.Marshal(<expr>)       the body ends in a single `return json.Marshal(<expr>)` and has no
//                              loop; a struct literal argument is printed as `struct`
//   bytes                      every return is `[]byte(...), nil`, no loop, no json.Marshal
//   other[,range][,loop]       anything else (a hand-written walk over the elements)
func c05_marshalPaths(im *c05_repoImporter, sb *strings.Builder) {
	path := c05_risorModule + "/object"
	files := im.files[path]
	type row struct{ ty, what string }
	var rows []row
	for _, f := range files {
		for _, d := range f.Decls {
			fd, ok := d.(*ast.FuncDecl)
			if !ok || fd.Body == nil || fd.Name.Name != "MarshalJSON" || fd.Recv == nil {
				continue
			}
			hasRange, hasLoop, nMarshal := false, false, 0
			var rets []*ast.ReturnStmt
			ast.Inspect(fd.Body, func(n ast.Node) bool {
				switch x := n.(type) {
				case *ast.RangeStmt:
					hasRange = true
				case *ast.ForStmt:
					hasLoop = true
				case *ast.ReturnStmt:
					rets = append(rets, x)
				case *ast.CallExpr:
					if sel, ok := x.Fun.(*ast.SelectorExpr); ok {
						if id, ok := sel.X.(*ast.Ident); ok && id.Name == "json" && strings.HasPrefix(sel.Sel.Name, "Marshal") {
							nMarshal++
						}
					}
				case *ast.FuncLit:
					return false
				}
				return true
			})
			isNil := func(e ast.Expr) bool { id, ok := e.(*ast.Ident); return ok && id.Name == "nil" }
			isBytes := func(e ast.Expr) bool {
				c, ok := e.(*ast.CallExpr)
				if !ok {
					return false
				}
				at, ok := c.Fun.(*ast.ArrayType)
				if !ok || at.Len != nil {
					return false
				}
				id, ok := at.Elt.(*ast.Ident)
				return ok && id.Name == "byte"
			}
			what := ""
			last, _ := fd.Body.List[len(fd.Body.List)-1].(*ast.ReturnStmt)
			switch {
			case hasRange || hasLoop:
			case len(fd.Body.List) == 1 && last != nil && len(last.Results) == 2 && isNil(last.Results[0]) && !isNil(last.Results[1]):
				what = "fails"
			case len(rets) == 1 && last != nil && len(last.Results) == 1 && nMarshal == 1:
				if c, ok := last.Results[0].(*ast.CallExpr); ok && len(c.Args) == 1 {
					if sel, ok := c.Fun.(*ast.SelectorExpr); ok && sel.Sel.Name == "Marshal" {
						if _, isLit := c.Args[0].(*ast.CompositeLit); isLit {
							what = "json.Marshal(struct)"
						} else if len(fd.Body.List) == 1 {
							what = "json.Marshal(" + types.ExprString(c.Args[0]) + ")"
						}
					}
				}
			case nMarshal == 0 && len(rets) > 0:
				all := true
				for _, r := range rets {
					if len(r.Results) != 2 || !isBytes(r.Results[0]) || !isNil(r.Results[1]) {
						all = false
					}
				}
				if all {
					what = "bytes"
				}
			}
			if what == "" {
				what = "other"
				if hasRange {
					what += ",range"
				}
				if hasLoop {
					what += ",loop"
				}
			}
			rows = append(rows, row{c05_recvName(fd), what})
		}
	}
	if len(rows) < 10 {
		panic(fmt.Sprintf("only %d MarshalJSON methods found in package object", len(rows)))
	}
	sort.Slice(rows, func(i, j int) bool { return rows[i].ty < rows[j].ty })
	sb.WriteString("\n/-- the MarshalJSON method of every type of package object: (type, what its body does) -/\n")
	sb.WriteString("def marshalPaths : List (String × String) := [\n")
	for i, r := range rows {
		sep := ","
		if i == len(rows)-1 {
			sep = ""
		}
		fmt.Fprintf(sb, "  (%s, %s)%s\n", leanStr(r.ty), leanStr(r.what), sep)
	}
	sb.WriteString("]\n")
}

// ---------------------------------------------------------------------------------------
// c05_nodeText prints a syntax node with go/printer (the files are parsed without comments) and
// collapses every run of white space to one space: the text of the code, insensitive to layout.
func c05_nodeText(fset *token.FileSet, n ast.Node) string {
	var sb strings.Builder
	if err := printer.Fprint(&sb, fset, n); err != nil {
		panic(err)
	}
	return strings.Join(strings.Fields(sb.String()), " ")
}

// the hash keys: the body of the HashKey() method of every type of package object (the types
// that can be members of a set), as text.  A member's place in a set's listing is the place of
// its hash key, so each body must be a function of the value alone.
func c05_hashKeys(im *c05_repoImporter, sb *strings.Builder) {
	path := c05_risorModule + "/object"
	type row struct{ ty, body string }
	var rows []row
	for _, f := range im.files[path] {
		for _, d := range f.Decls {
			fd, ok := d.(*ast.FuncDecl)
			if !ok || fd.Body == nil || fd.Name.Name != "HashKey" || fd.Recv == nil {
				continue
			}
			rows = append(rows, row{c05_recvName(fd), c05_nodeText(im.fset, fd.Body)})
		}
	}
	if len(rows) < 5 {
		panic(fmt.Sprintf("only %d HashKey methods found in package object", len(rows)))
	}
	sort.Slice(rows, func(i, j int) bool { return rows[i].ty < rows[j].ty })
	sb.WriteString("\n/-- the HashKey() method of every type of package object: (type, the text of its body) -/\n")
	sb.WriteString("def hashKeys : List (String × String) := [\n")
	for i, r := range rows {
		sep := ","
		if i == len(rows)-1 {
			sep = ""
		}
		fmt.Fprintf(sb, "  (%s, %s)%s\n", leanStr(r.ty), leanStr(r.body), sep)
	}
	sb.WriteString("]\n")
}

// the choosing loop of VirtualOS.findMount: the text of every range-over-map statement of the
// function (there is one), and the statements of the function that mention the variable the
// loop assigns its candidate to before the loop starts
func c05_findMountLoop(im *c05_repoImporter, sb *strings.Builder) {
	path := c05_risorModule + "/os"
	info := im.infos[path]
	var loops []string
	for _, f := range im.files[path] {
		for _, d := range f.Decls {
			fd, ok := d.(*ast.FuncDecl)
			if !ok || fd.Body == nil || fd.Name.Name != "findMount" || c05_recvName(fd) != "VirtualOS" {
				continue
			}
			ast.Inspect(fd.Body, func(n ast.Node) bool {
				rs, ok := n.(*ast.RangeStmt)
				if !ok {
					return true
				}
				if tv, ok := info.Types[rs.X]; ok && tv.Type != nil {
					if _, isMap := tv.Type.Underlying().(*types.Map); isMap {
						loops = append(loops, c05_nodeText(im.fset, rs))
					}
				}
				return true
			})
		}
	}
	sb.WriteString("\n/-- VirtualOS.findMount: the text of its range-over-map statements -/\n")
	sb.WriteString("def findMountLoops : List String := [")
	for i, l := range loops {
		if i > 0 {
			sb.WriteString(", ")
		}
		sb.WriteString(leanStr(l))
	}
	sb.WriteString("]\n")
}

// ---------------------------------------------------------------------------------------
// rendering: every type of package object that implements object.Object, whether it has a
// String() method, and which operands of the fmt calls inside its Inspect()/String() bodies
// could print an address (a %p verb; an operand whose static type is a pointer, channel,
// func, unsafe.Pointer, uintptr, a map/slice of those, or an interface other than error).

func c05_addrKind(t types.Type) string {
	if t == nil {
		return "untyped"
	}
	if n, ok := t.(*types.Named); ok && n.Obj().Pkg() == nil && n.Obj().Name() == "error" {
		return ""
	}
	switch u := t.Underlying().(type) {
	case *types.Pointer:
		return "ptr"
	case *types.Chan:
		return "chan"
	case *types.Signature:
		return "func"
	case *types.Interface:
		return "iface"
	case *types.Map:
		if k := c05_addrKind(u.Elem()); k != "" {
			return "map-of-" + k
		}
		return c05_addrKind(u.Key())
	case *types.Slice:
		if k := c05_addrKind(u.Elem()); k != "" {
			return "slice-of-" + k
		}
	case *types.Array:
		if k := c05_addrKind(u.Elem()); k != "" {
			return "array-of-" + k
		}
	case *types.Basic:
		if u.Kind() == types.UnsafePointer || u.Kind() == types.Uintptr {
			return "uintptr"
		}
	case *types.Struct:
		for i := 0; i < u.NumFields(); i++ {
			if k := c05_addrKind(u.Field(i).Type()); k != "" {
				return "struct-with-" + k
			}
		}
	}
	return ""
}

// verbs of a Printf-style format, one per consumed operand ("*" widths count as operands)
func c05_verbs(format string) []string {
	var out []string
	for i := 0; i < len(format); i++ {
		if format[i] != '%' {
			continue
		}
		j := i + 1
		for j < len(format) && strings.ContainsRune("+-# 0123456789.[]", rune(format[j])) {
			j++
		}
		if j < len(format) && format[j] == '*' {
			out = append(out, "%*")
			j++
		}
		if j >= len(format) {
			break
		}
		if format[j] != '%' {
			out = append(out, "%"+string(format[j]))
		}
		i = j
	}
	return out
}

func c05_fmtOperands(info *types.Info, body *ast.BlockStmt) string {
	set := map[string]bool{}
	ast.Inspect(body, func(n ast.Node) bool {
		call, ok := n.(*ast.CallExpr)
		if !ok {
			return true
		}
		sel, ok := call.Fun.(*ast.SelectorExpr)
		if !ok {
			return true
		}
		id, ok := sel.X.(*ast.Ident)
		if !ok || id.Name != "fmt" {
			return true
		}
		name := sel.Sel.Name
		args := call.Args
		if strings.HasPrefix(name, "F") && len(args) > 0 {
			args = args[1:]
		}
		var verbs []string
		if strings.HasSuffix(name, "f") {
			if len(args) == 0 {
				return true
			}
			lit, ok := args[0].(*ast.BasicLit)
			if !ok {
				set["format-not-literal"] = true
				return true
			}
			verbs = c05_verbs(lit.Value)
			args = args[1:]
		} else {
			for range args {
				verbs = append(verbs, "%v")
			}
		}
		for i, a := range args {
			verb := "%?"
			if i < len(verbs) {
				verb = verbs[i]
			}
			if verb == "%p" {
				set["%p"] = true
				continue
			}
			if verb == "%T" {
				continue
			}
			var t types.Type
			if tv, ok := info.Types[a]; ok {
				t = tv.Type
			}
			if k := c05_addrKind(t); k != "" {
				set[k+":"+verb] = true
			}
		}
		return true
	})
	var out []string
	for k := range set {
		out = append(out, k)
	}
	sort.Strings(out)
	return strings.Join(out, ",")
}

func c05_objectTypes(im *c05_repoImporter, sb *strings.Builder) {
	path := c05_risorModule + "/object"
	pkg := im.cache[path]
	info := im.infos[path]
	if pkg == nil || info == nil {
		panic("package object was not type-checked")
	}
	objTN, _ := pkg.Scope().Lookup("Object").(*types.TypeName)
	if objTN == nil {
		panic("object.Object not found")
	}
	iface, ok := objTN.Type().Underlying().(*types.Interface)
	if !ok {
		panic("object.Object is not an interface")
	}
	bodies := map[string]*ast.BlockStmt{} // "Type.Method"
	for _, f := range im.files[path] {
		for _, d := range f.Decls {
			fd, ok := d.(*ast.FuncDecl)
			if !ok || fd.Body == nil || fd.Recv == nil {
				continue
			}
			if fd.Name.Name == "Inspect" || fd.Name.Name == "String" {
				bodies[c05_recvName(fd)+"."+fd.Name.Name] = fd.Body
			}
		}
	}
	type row struct {
		name            string
		hasString       bool
		inspOps, strOps string
	}
	var rows []row
	names := pkg.Scope().Names()
	sort.Strings(names)
	for _, n := range names {
		tn, ok := pkg.Scope().Lookup(n).(*types.TypeName)
		if !ok || tn.IsAlias() {
			continue
		}
		named, ok := tn.Type().(*types.Named)
		if !ok {
			continue
		}
		if _, isIface := named.Underlying().(*types.Interface); isIface {
			continue
		}
		ptr := types.NewPointer(named)
		if !types.Implements(ptr, iface) && !types.Implements(named, iface) {
			continue
		}
		r := row{name: n}
		ms := types.NewMethodSet(ptr)
		for i := 0; i < ms.Len(); i++ {
			m := ms.At(i).Obj()
			if m.Name() != "String" {
				continue
			}
			if sig, ok := m.Type().(*types.Signature); ok && sig.Params().Len() == 0 && sig.Results().Len() == 1 {
				if b, ok := sig.Results().At(0).Type().(*types.Basic); ok && b.Kind() == types.String {
					r.hasString = true
				}
			}
		}
		if b := bodies[n+".Inspect"]; b != nil {
			r.inspOps = c05_fmtOperands(info, b)
		} else {
			r.inspOps = "no-own-Inspect"
		}
		if b := bodies[n+".String"]; b != nil {
			r.strOps = c05_fmtOperands(info, b)
		} else if r.hasString {
			r.strOps = "promoted"
		}
		rows = append(rows, r)
	}
	if len(rows) < 20 {
		panic(fmt.Sprintf("only %d types implementing object.Object found: the type information is incomplete", len(rows)))
	}
	sb.WriteString("\n/-- every type of package object that implements object.Object:\n")
	sb.WriteString("    (type, has a String() string method, address-capable fmt operands in Inspect(), the same in String()) -/\n")
	sb.WriteString("def objectTypes : List (String × Bool × String × String) := [\n")
	for i, r := range rows {
		sep := ","
		if i == len(rows)-1 {
			sep = ""
		}
		fmt.Fprintf(sb, "  (%s, %v, %s, %s)%s\n", leanStr(r.name), r.hasString, leanStr(r.inspOps), leanStr(r.strOps), sep)
	}
	sb.WriteString("]\n")
}

// the dispatch of object.PrintableValue: every case of its type switches in order (types, the
// returned expression), then every return statement at the top level of the body
func c05_printableDispatch(im *c05_repoImporter, sb *strings.Builder) {
	path := c05_risorModule + "/object"
	var rows [][2]string
	found := false
	for _, f := range im.files[path] {
		for _, d := range f.Decls {
			fd, ok := d.(*ast.FuncDecl)
			if !ok || fd.Body == nil || fd.Recv != nil || fd.Name.Name != "PrintableValue" {
				continue
			}
			found = true
			retText := func(stmts []ast.Stmt) string {
				var parts []string
				for _, s := range stmts {
					if r, ok := s.(*ast.ReturnStmt); ok {
						var xs []string
						for _, x := range r.Results {
							xs = append(xs, types.ExprString(x))
						}
						parts = append(parts, strings.Join(xs, ", "))
					} else {
						parts = append(parts, fmt.Sprintf("<%T>", s))
					}
				}
				return strings.Join(parts, "; ")
			}
			for _, s := range fd.Body.List {
				switch x := s.(type) {
				case *ast.TypeSwitchStmt:
					for _, c := range x.Body.List {
						cc := c.(*ast.CaseClause)
						var tys []string
						for _, t := range cc.List {
							tys = append(tys, types.ExprString(t))
						}
						label := strings.Join(tys, ",")
						if cc.List == nil {
							label = "default"
						}
						rows = append(rows, [2]string{label, retText(cc.Body)})
					}
				case *ast.ReturnStmt:
					rows = append(rows, [2]string{"return", retText([]ast.Stmt{x})})
				default:
					rows = append(rows, [2]string{fmt.Sprintf("<%T>", s), ""})
				}
			}
		}
	}
	if !found {
		panic("object.PrintableValue not found")
	}
	sb.WriteString("\n/-- object.PrintableValue: the cases of its type switches in order (types, returned expression),\n")
	sb.WriteString("    then any statement at the top level of its body -/\n")
	sb.WriteString("def printableDispatch : List (String × String) := [\n")
	for i, r := range rows {
		sep := ","
		if i == len(rows)-1 {
			sep = ""
		}
		fmt.Fprintf(sb, "  (%s, %s)%s\n", leanStr(r[0]), leanStr(r[1]), sep)
	}
	sb.WriteString("]\n")
}

// the functions of builtins, modules/fmt and modules/errors that turn script values into fmt
// operands, and how: through object.PrintableValue or through Object.Interface()
func c05_formatSites(repo string, sb *strings.Builder) {
	var rows [][2]string
	for _, rel := range []string{"builtins", "modules/errors", "modules/fmt"} {
		dir := filepath.Join(repo, rel)
		ents, err := os.ReadDir(dir)
		if err != nil {
			panic(err)
		}
		fset := token.NewFileSet()
		for _, e := range ents {
			name := e.Name()
			if e.IsDir() || !strings.HasSuffix(name, ".go") || strings.HasSuffix(name, "_test.go") {
				continue
			}
			f, err := parser.ParseFile(fset, filepath.Join(dir, name), nil, 0)
			if err != nil {
				panic(err)
			}
			for _, d := range f.Decls {
				fd, ok := d.(*ast.FuncDecl)
				if !ok || fd.Body == nil {
					continue
				}
				how := map[string]bool{}
				fmtCall := false
				ast.Inspect(fd.Body, func(n ast.Node) bool {
					call, ok := n.(*ast.CallExpr)
					if !ok {
						return true
					}
					sel, ok := call.Fun.(*ast.SelectorExpr)
					if !ok {
						return true
					}
					if id, ok := sel.X.(*ast.Ident); ok {
						if id.Name == "object" && sel.Sel.Name == "PrintableValue" {
							how["PrintableValue"] = true
						}
						if call.Ellipsis.IsValid() && (id.Name == "fmt" || (id.Name == "object" && strings.HasSuffix(sel.Sel.Name, "rrorf"))) {
							fmtCall = true
						}
					}
					if sel.Sel.Name == "Interface" && len(call.Args) == 0 {
						how["Interface"] = true
					}
					return true
				})
				if how["PrintableValue"] || (how["Interface"] && fmtCall) {
					var hs []string
					for k := range how {
						hs = append(hs, k)
					}
					sort.Strings(hs)
					fn := filepath.Base(rel) + "." + fd.Name.Name
					if r := c05_recvName(fd); r != "" {
						fn = filepath.Base(rel) + "." + r + "." + fd.Name.Name
					}
					rows = append(rows, [2]string{fn, strings.Join(hs, ",")})
				}
			}
		}
	}
	sort.Slice(rows, func(i, j int) bool { return rows[i][0] < rows[j][0] })
	sb.WriteString("\n/-- the functions of builtins, modules/fmt, modules/errors that hand script values to a fmt verb,\n")
	sb.WriteString("    and through what: object.PrintableValue or Object.Interface() -/\n")
	sb.WriteString("def formatSites : List (String × String) := [\n")
	for i, r := range rows {
		sep := ","
		if i == len(rows)-1 {
			sep = ""
		}
		fmt.Fprintf(sb, "  (%s, %s)%s\n", leanStr(r[0]), leanStr(r[1]), sep)
	}
	sb.WriteString("]\n")
}
