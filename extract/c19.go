package main

// C19: the inventory of generated wrappers of modules/strings, regenerated from
// strings.go (which Go function each exported function calls, in which order it passes
// its parameters, and which tests it makes on them before the call) and strings_gen.go
// (arity check, argument converters, error result handed back as an error value, result
// constructor,
// registered name).  Anything that does not have the expected shape makes the extractor
// fail loudly, so the tie is reported broken instead of being silently wrong.

import (
	"fmt"
	"go/ast"
	"go/parser"
	"go/token"
	"go/types"
	"path/filepath"
	"strconv"
	"strings"
)

func c19Fail(format string, a ...any) { panic("C19 inventory: " + fmt.Sprintf(format, a...)) }

func c19_selName(e ast.Expr) string {
	if s, ok := e.(*ast.SelectorExpr); ok {
		if x, ok := s.X.(*ast.Ident); ok {
			return x.Name + "." + s.Sel.Name
		}
	}
	if id, ok := e.(*ast.Ident); ok {
		return id.Name
	}
	return ""
}

type c19Inner struct {
	goFunc string
	pass   []int
	nParam int
	pre    []string // the tests made before the call (Lean `Check` terms), in source order
	retErr bool     // the function returns (T, error)
}

// c19_check: the Lean `Check` term of a test `if cond { return <zero>, <error> }` an exported
// function makes on its parameters before it calls the Go function.  Only the two shapes the
// model knows are accepted; anything else makes the extractor fail.
func c19_check(fn string, cond ast.Expr, params []string) string {
	text := types.ExprString(cond)
	for i, a := range params {
		if text == a+" < 0" {
			return fmt.Sprintf(".neg %d", i)
		}
		for j, b := range params {
			if text == fmt.Sprintf("len(%s) > 0 && %s > math.MaxInt / len(%s)", a, b, a) {
				return fmt.Sprintf(".lenMulOverflows %d %d", i, j)
			}
		}
	}
	c19Fail("%s: test %q before the call has no counterpart in the model", fn, text)
	return ""
}

func init() {
	generators = append(generators, generator{"C19", func(repo string) string {
		fset := token.NewFileSet()
		parse := func(rel string) *ast.File {
			f, err := parser.ParseFile(fset, filepath.Join(repo, rel), nil, parser.ParseComments)
			if err != nil {
				c19Fail("%v", err)
			}
			return f
		}
		// 1. strings.go: func name(params) T { return strings.X(params…) }
		inner := map[string]c19Inner{}
		for _, d := range parse("modules/strings/strings.go").Decls {
			fd, ok := d.(*ast.FuncDecl)
			if !ok || fd.Doc == nil || !strings.Contains(fd.Doc.Text()+c19_commentText(fd.Doc), "risor:export") {
				continue
			}
			var params []string
			for _, fl := range fd.Type.Params.List {
				for _, n := range fl.Names {
					params = append(params, n.Name)
				}
			}
			// the body is `return strings.X(params…)`, or — for a function that returns
			// (T, error) — tests `if cond { return <zero>, <error> }` followed by
			// `return strings.X(params…), nil`
			nRes := 0
			if fd.Type.Results != nil {
				for _, fl := range fd.Type.Results.List {
					nRes += max(1, len(fl.Names))
				}
			}
			retErr := nRes == 2 && c19_selName(fd.Type.Results.List[len(fd.Type.Results.List)-1].Type) == "error"
			if nRes != 1 && !retErr {
				c19Fail("%s: returns neither T nor (T, error)", fd.Name.Name)
			}
			if len(fd.Body.List) == 0 || (!retErr && len(fd.Body.List) != 1) {
				c19Fail("%s: body is not a single return", fd.Name.Name)
			}
			var pre []string
			for _, st := range fd.Body.List[:len(fd.Body.List)-1] {
				is, ok := st.(*ast.IfStmt)
				if !ok || is.Init != nil || is.Else != nil || len(is.Body.List) != 1 {
					c19Fail("%s: a statement before the final return is not `if cond { return zero, err }`", fd.Name.Name)
				}
				r, ok := is.Body.List[0].(*ast.ReturnStmt)
				if !ok || len(r.Results) != 2 || c19_selName(r.Results[1]) == "nil" {
					c19Fail("%s: a test before the call does not return an error", fd.Name.Name)
				}
				if lit, ok := r.Results[0].(*ast.BasicLit); !ok || lit.Value != `""` {
					c19Fail("%s: a test before the call returns a value beside its error", fd.Name.Name)
				}
				pre = append(pre, c19_check(fd.Name.Name, is.Cond, params))
			}
			ret, ok := fd.Body.List[len(fd.Body.List)-1].(*ast.ReturnStmt)
			if !ok || len(ret.Results) != nRes || (retErr && c19_selName(ret.Results[1]) != "nil") {
				c19Fail("%s: body does not end in `return strings.X(…)` / `return strings.X(…), nil`", fd.Name.Name)
			}
			call, ok := ret.Results[0].(*ast.CallExpr)
			if !ok || !strings.HasPrefix(c19_selName(call.Fun), "strings.") {
				c19Fail("%s: does not return a call of a strings function", fd.Name.Name)
			}
			in := c19Inner{goFunc: c19_selName(call.Fun), nParam: len(params), pre: pre, retErr: retErr}
			for _, a := range call.Args {
				id, ok := a.(*ast.Ident)
				idx := -1
				if ok {
					for i, p := range params {
						if p == id.Name {
							idx = i
						}
					}
				}
				if idx < 0 {
					c19Fail("%s: argument of %s is not a parameter", fd.Name.Name, in.goFunc)
				}
				in.pass = append(in.pass, idx)
			}
			inner[fd.Name.Name] = in
		}
		// 2. strings_gen.go
		type wrapper struct {
			arity int
			convs []string
			inner string
			res   string
			// `result, resultErr := inner(…)` followed by `if resultErr != nil { return object.NewError(resultErr) }`
			retErr bool
		}
		wrappers := map[string]wrapper{}
		var order [][2]string // exported name, wrapper func
		gen := parse("modules/strings/strings_gen.go")
		convOf := map[string]string{"object.AsString": ".str", "object.AsInt": ".int", "object.AsStringSlice": ".strList",
			"object.AsBool": ".bool", "object.AsBytes": ".bytes"}
		resOf := map[string]string{"object.NewBool": ".bool", "object.NewInt": ".int", "object.NewString": ".str", "object.NewStringList": ".strList"}
		for _, d := range gen.Decls {
			fd, ok := d.(*ast.FuncDecl)
			if !ok {
				continue
			}
			if fd.Name.Name == "addGeneratedBuiltins" {
				for _, st := range fd.Body.List {
					as, ok := st.(*ast.AssignStmt)
					if !ok {
						continue
					}
					ix, ok := as.Lhs[0].(*ast.IndexExpr)
					if !ok {
						continue
					}
					key, _ := strconv.Unquote(ix.Index.(*ast.BasicLit).Value)
					call := as.Rhs[0].(*ast.CallExpr)
					if c19_selName(call.Fun) != "object.NewBuiltin" || len(call.Args) != 2 {
						c19Fail("registration of %s is not object.NewBuiltin(name, fn)", key)
					}
					order = append(order, [2]string{key, c19_selName(call.Args[1])})
				}
				continue
			}
			if fd.Type.Params == nil || len(fd.Type.Params.List) != 2 || fd.Name.Name == "Module" {
				continue
			}
			w := wrapper{arity: -1}
			argIdx := 0
			ast.Inspect(fd.Body, func(n ast.Node) bool {
				switch x := n.(type) {
				case *ast.BinaryExpr: // len(args) != N
					if c, ok := x.X.(*ast.CallExpr); ok && c19_selName(c.Fun) == "len" && x.Op == token.NEQ {
						if lit, ok := x.Y.(*ast.BasicLit); ok {
							w.arity, _ = strconv.Atoi(lit.Value)
						}
					}
				case *ast.CallExpr:
					name := c19_selName(x.Fun)
					if c, ok := convOf[name]; ok {
						// the converter must read args[argIdx]
						ix, ok := x.Args[0].(*ast.IndexExpr)
						if !ok || c19_selName(ix.X) != "args" || ix.Index.(*ast.BasicLit).Value != strconv.Itoa(argIdx) {
							c19Fail("%s: converter %d does not read args[%d]", fd.Name.Name, argIdx, argIdx)
						}
						w.convs = append(w.convs, c)
						argIdx++
					}
					if r, ok := resOf[name]; ok {
						w.res = r
					}
				case *ast.AssignStmt: // result := inner(p0, p1, …)   or   result, resultErr := inner(p0, p1, …)
					if len(x.Lhs) == 2 && c19_selName(x.Lhs[0]) == "result" && c19_selName(x.Lhs[1]) == "resultErr" {
						w.retErr = true
					}
					if len(x.Lhs) >= 1 && len(x.Lhs) <= 2 && c19_selName(x.Lhs[0]) == "result" {
						if c, ok := x.Rhs[0].(*ast.CallExpr); ok {
							w.inner = c19_selName(c.Fun)
							// parameters must be passed in argument order: xParam, yParam… are
							// declared in that order, so check the identifiers are distinct and
							// appear in declaration order
							if len(c.Args) != len(w.convs) {
								c19Fail("%s: passes %d values for %d converted arguments", fd.Name.Name, len(c.Args), len(w.convs))
							}
						}
					}
				}
				return true
			})
			// declaration order of the …Param variables vs. the order they are passed in
			var declared, passed []string
			ast.Inspect(fd.Body, func(n ast.Node) bool {
				if as, ok := n.(*ast.AssignStmt); ok && as.Tok == token.DEFINE {
					if id, ok := as.Lhs[0].(*ast.Ident); ok && strings.HasSuffix(id.Name, "Param") {
						declared = append(declared, id.Name)
					}
					if len(as.Lhs) <= 2 && c19_selName(as.Lhs[0]) == "result" {
						for _, a := range as.Rhs[0].(*ast.CallExpr).Args {
							passed = append(passed, c19_selName(a))
						}
					}
				}
				return true
			})
			// AsInt arguments are declared as xParamRaw first, then xParam := int(xParamRaw)
			if strings.Join(declared, ",") != strings.Join(passed, ",") {
				c19Fail("%s: arguments are not passed on in order (%v vs %v)", fd.Name.Name, declared, passed)
			}
			if w.arity != len(w.convs) || w.inner == "" || w.res == "" {
				c19Fail("%s: unexpected wrapper shape (arity %d, %d converters, inner %q, result %q)", fd.Name.Name, w.arity, len(w.convs), w.inner, w.res)
			}
			if w.retErr {
				// the error of the exported function must come back as an error VALUE:
				// `if resultErr != nil { return object.NewError(resultErr) }` right after the call
				found := false
				for i, st := range fd.Body.List {
					as, ok := st.(*ast.AssignStmt)
					if !ok || len(as.Lhs) != 2 || c19_selName(as.Lhs[1]) != "resultErr" || i+1 >= len(fd.Body.List) {
						continue
					}
					if is, ok := fd.Body.List[i+1].(*ast.IfStmt); ok && types.ExprString(is.Cond) == "resultErr != nil" && len(is.Body.List) == 1 {
						if r, ok := is.Body.List[0].(*ast.ReturnStmt); ok && len(r.Results) == 1 && types.ExprString(r.Results[0]) == "object.NewError(resultErr)" {
							found = true
						}
					}
				}
				if !found {
					c19Fail("%s: resultErr is not returned as object.NewError(resultErr) right after the call", fd.Name.Name)
				}
			}
			wrappers[fd.Name.Name] = w
		}
		if len(order) == 0 {
			c19Fail("no registrations found in addGeneratedBuiltins")
		}
		var rows []string
		for _, o := range order {
			w, ok := wrappers[o[1]]
			if !ok {
				c19Fail("registered wrapper %s not found", o[1])
			}
			in, ok := inner[w.inner]
			if !ok {
				c19Fail("inner function %s of %s not found in strings.go", w.inner, o[1])
			}
			if in.nParam != w.arity {
				c19Fail("%s: %d parameters but arity %d", w.inner, in.nParam, w.arity)
			}
			if in.retErr != w.retErr {
				c19Fail("%s: the exported function and its generated wrapper disagree about an error result", w.inner)
			}
			pass := make([]string, len(in.pass))
			for i, p := range in.pass {
				pass[i] = strconv.Itoa(p)
			}
			rows = append(rows, fmt.Sprintf("  ⟨%q, %q, [%s], [%s], %s, [%s]⟩", o[0], in.goFunc, strings.Join(w.convs, ", "), strings.Join(pass, ", "), w.res, strings.Join(in.pre, ", ")))
		}
		s := "import RisorModel.C19.Model\nnamespace Risor.Generated.C19\nopen Risor.C19\n\n"
		s += "/-- regenerated from modules/strings/strings.go and strings_gen.go -/\n"
		s += "def stringsSigs : List Sig := [\n" + strings.Join(rows, ",\n") + " ]\n"
		// 3. object/typeconv.go: the type switches of AsBytes and AsString — per case, in source
		// order, the types it lists and HOW the case gets at the bytes: by looking at the object
		// (`.look`), by reading it as a stream (`.readAll`: the case body calls io.ReadAll / Read /
		// ReadFrom / Next / WriteTo / io.Copy …), or not at all (`.reject`: the default case)
		tc := parse("object/typeconv.go")
		for _, fname := range []string{"AsBytes", "AsString"} {
			s += "\n/-- regenerated from object/typeconv.go: the type switch of " + fname + " -/\n"
			s += "def " + strings.ToLower(fname[:1]) + fname[1:] + "Cases : List (String × Access) := [" + strings.Join(c19_switchCases(tc, fname), ", ") + "]\n"
		}
		s += "\nend Risor.Generated.C19\n"
		return s
	}})
}

func c19_commentText(g *ast.CommentGroup) string {
	var sb strings.Builder
	for _, c := range g.List {
		sb.WriteString(c.Text)
		sb.WriteString("\n")
	}
	return sb.String()
}

// c19_typeText renders the type expression of a case clause: *T, pkg.T, T.
func c19_typeText(e ast.Expr) string {
	switch x := e.(type) {
	case *ast.StarExpr:
		return "*" + c19_typeText(x.X)
	case *ast.SelectorExpr:
		return c19_typeText(x.X) + "." + x.Sel.Name
	case *ast.Ident:
		return x.Name
	}
	c19Fail("unexpected type expression in a case clause: %T", e)
	return ""
}

var c19_consuming = map[string]bool{"ReadAll": true, "Read": true, "ReadFrom": true, "ReadByte": true, "ReadBytes": true, "ReadString": true,
	"ReadRune": true, "Next": true, "WriteTo": true, "Copy": true, "CopyN": true, "ReadFull": true, "ReadAtLeast": true, "Reset": true, "Truncate": true}

// c19_switchCases: the single type switch in the body of the converter `fname`.
func c19_switchCases(f *ast.File, fname string) []string {
	var fd *ast.FuncDecl
	for _, d := range f.Decls {
		if x, ok := d.(*ast.FuncDecl); ok && x.Recv == nil && x.Name.Name == fname {
			fd = x
		}
	}
	if fd == nil {
		c19Fail("object/typeconv.go: func %s not found", fname)
	}
	var sw *ast.TypeSwitchStmt
	n := 0
	ast.Inspect(fd.Body, func(nd ast.Node) bool {
		if x, ok := nd.(*ast.TypeSwitchStmt); ok {
			sw = x
			n++
		}
		return true
	})
	if n != 1 {
		c19Fail("%s: expected exactly one type switch, found %d", fname, n)
	}
	if len(fd.Body.List) != 1 {
		c19Fail("%s: the type switch is not the whole body (something runs before or after it)", fname)
	}
	var rows []string
	for _, st := range sw.Body.List {
		cc := st.(*ast.CaseClause)
		access := ".look"
		for _, b := range cc.Body {
			ast.Inspect(b, func(nd ast.Node) bool {
				if call, ok := nd.(*ast.CallExpr); ok {
					if sel, ok := call.Fun.(*ast.SelectorExpr); ok && c19_consuming[sel.Sel.Name] {
						access = ".readAll"
					}
				}
				return true
			})
		}
		if cc.List == nil {
			if access != ".look" {
				c19Fail("%s: the default case reads its argument", fname)
			}
			rows = append(rows, `("default", .reject)`)
			continue
		}
		for _, t := range cc.List {
			rows = append(rows, fmt.Sprintf("(%q, %s)", c19_typeText(t), access))
		}
	}
	return rows
}
