package main

// C19: the inventory of generated wrappers of modules/strings, regenerated from
// strings.go (which Go function each exported function calls, and in which order it passes
// its parameters) and strings_gen.go (arity check, argument converters, result constructor,
// registered name).  Anything that does not have the expected shape makes the extractor
// fail loudly, so the tie is reported broken instead of being silently wrong.

import (
	"fmt"
	"go/ast"
	"go/parser"
	"go/token"
	"path/filepath"
	"strconv"
	"strings"
)

func c19Fail(format string, a ...any) { panic("C19 inventory: " + fmt.Sprintf(format, a...)) }

func c19_selName(e ast.Expr) string {
	if s, ok := e.(*ast.SelectorExpr); ok {
		if x, ok := s.X.(*ast.Ident); ok {
			return x.Name + "." + s.Sel.Name
		}
	}
	if id, ok := e.(*ast.Ident); ok {
		return id.Name
	}
	return ""
}

type c19Inner struct {
	goFunc string
	pass   []int
	nParam int
}

func init() {
	generators = append(generators, generator{"C19", func(repo string) string {
		fset := token.NewFileSet()
		parse := func(rel string) *ast.File {
			f, err := parser.ParseFile(fset, filepath.Join(repo, rel), nil, parser.ParseComments)
			if err != nil {
				c19Fail("%v", err)
			}
			return f
		}
		// 1. strings.go: func name(params) T { return strings.X(params…) }
		inner := map[string]c19Inner{}
		for _, d := range parse("modules/strings/strings.go").Decls {
			fd, ok := d.(*ast.FuncDecl)
			if !ok || fd.Doc == nil || !strings.Contains(fd.Doc.Text()+c19_commentText(fd.Doc), "risor:export") {
				continue
			}
			var params []string
			for _, fl := range fd.Type.Params.List {
				for _, n := range fl.Names {
					params = append(params, n.Name)
				}
			}
			if len(fd.Body.List) != 1 {
				c19Fail("%s: body is not a single return", fd.Name.Name)
			}
			ret, ok := fd.Body.List[0].(*ast.ReturnStmt)
			if !ok || len(ret.Results) != 1 {
				c19Fail("%s: body is not a single return", fd.Name.Name)
			}
			call, ok := ret.Results[0].(*ast.CallExpr)
			if !ok || !strings.HasPrefix(c19_selName(call.Fun), "strings.") {
				c19Fail("%s: does not return a call of a strings function", fd.Name.Name)
			}
			in := c19Inner{goFunc: c19_selName(call.Fun), nParam: len(params)}
			for _, a := range call.Args {
				id, ok := a.(*ast.Ident)
				idx := -1
				if ok {
					for i, p := range params {
						if p == id.Name {
							idx = i
						}
					}
				}
				if idx < 0 {
					c19Fail("%s: argument of %s is not a parameter", fd.Name.Name, in.goFunc)
				}
				in.pass = append(in.pass, idx)
			}
			inner[fd.Name.Name] = in
		}
		// 2. strings_gen.go
		type wrapper struct {
			arity int
			convs []string
			inner string
			res   string
		}
		wrappers := map[string]wrapper{}
		var order [][2]string // exported name, wrapper func
		gen := parse("modules/strings/strings_gen.go")
		convOf := map[string]string{"object.AsString": ".str", "object.AsInt": ".int", "object.AsStringSlice": ".strList",
			"object.AsBool": ".bool", "object.AsBytes": ".bytes"}
		resOf := map[string]string{"object.NewBool": ".bool", "object.NewInt": ".int", "object.NewString": ".str", "object.NewStringList": ".strList"}
		for _, d := range gen.Decls {
			fd, ok := d.(*ast.FuncDecl)
			if !ok {
				continue
			}
			if fd.Name.Name == "addGeneratedBuiltins" {
				for _, st := range fd.Body.List {
					as, ok := st.(*ast.AssignStmt)
					if !ok {
						continue
					}
					ix, ok := as.Lhs[0].(*ast.IndexExpr)
					if !ok {
						continue
					}
					key, _ := strconv.Unquote(ix.Index.(*ast.BasicLit).Value)
					call := as.Rhs[0].(*ast.CallExpr)
					if c19_selName(call.Fun) != "object.NewBuiltin" || len(call.Args) != 2 {
						c19Fail("registration of %s is not object.NewBuiltin(name, fn)", key)
					}
					order = append(order, [2]string{key, c19_selName(call.Args[1])})
				}
				continue
			}
			if fd.Type.Params == nil || len(fd.Type.Params.List) != 2 || fd.Name.Name == "Module" {
				continue
			}
			w := wrapper{arity: -1}
			argIdx := 0
			ast.Inspect(fd.Body, func(n ast.Node) bool {
				switch x := n.(type) {
				case *ast.BinaryExpr: // len(args) != N
					if c, ok := x.X.(*ast.CallExpr); ok && c19_selName(c.Fun) == "len" && x.Op == token.NEQ {
						if lit, ok := x.Y.(*ast.BasicLit); ok {
							w.arity, _ = strconv.Atoi(lit.Value)
						}
					}
				case *ast.CallExpr:
					name := c19_selName(x.Fun)
					if c, ok := convOf[name]; ok {
						// the converter must read args[argIdx]
						ix, ok := x.Args[0].(*ast.IndexExpr)
						if !ok || c19_selName(ix.X) != "args" || ix.Index.(*ast.BasicLit).Value != strconv.Itoa(argIdx) {
							c19Fail("%s: converter %d does not read args[%d]", fd.Name.Name, argIdx, argIdx)
						}
						w.convs = append(w.convs, c)
						argIdx++
					}
					if r, ok := resOf[name]; ok {
						w.res = r
					}
				case *ast.AssignStmt: // result := inner(p0, p1, …)
					if len(x.Lhs) == 1 && c19_selName(x.Lhs[0]) == "result" {
						if c, ok := x.Rhs[0].(*ast.CallExpr); ok {
							w.inner = c19_selName(c.Fun)
							// parameters must be passed in argument order: xParam, yParam… are
							// declared in that order, so check the identifiers are distinct and
							// appear in declaration order
							if len(c.Args) != len(w.convs) {
								c19Fail("%s: passes %d values for %d converted arguments", fd.Name.Name, len(c.Args), len(w.convs))
							}
						}
					}
				}
				return true
			})
			// declaration order of the …Param variables vs. the order they are passed in
			var declared, passed []string
			ast.Inspect(fd.Body, func(n ast.Node) bool {
				if as, ok := n.(*ast.AssignStmt); ok && as.Tok == token.DEFINE {
					if id, ok := as.Lhs[0].(*ast.Ident); ok && strings.HasSuffix(id.Name, "Param") {
						declared = append(declared, id.Name)
					}
					if len(as.Lhs) == 1 && c19_selName(as.Lhs[0]) == "result" {
						for _, a := range as.Rhs[0].(*ast.CallExpr).Args {
							passed = append(passed, c19_selName(a))
						}
					}
				}
				return true
			})
			// AsInt arguments are declared as xParamRaw first, then xParam := int(xParamRaw)
			if strings.Join(declared, ",") != strings.Join(passed, ",") {
				c19Fail("%s: arguments are not passed on in order (%v vs %v)", fd.Name.Name, declared, passed)
			}
			if w.arity != len(w.convs) || w.inner == "" || w.res == "" {
				c19Fail("%s: unexpected wrapper shape (arity %d, %d converters, inner %q, result %q)", fd.Name.Name, w.arity, len(w.convs), w.inner, w.res)
			}
			wrappers[fd.Name.Name] = w
		}
		if len(order) == 0 {
			c19Fail("no registrations found in addGeneratedBuiltins")
		}
		var rows []string
		for _, o := range order {
			w, ok := wrappers[o[1]]
			if !ok {
				c19Fail("registered wrapper %s not found", o[1])
			}
			in, ok := inner[w.inner]
			if !ok {
				c19Fail("inner function %s of %s not found in strings.go", w.inner, o[1])
			}
			if in.nParam != w.arity {
				c19Fail("%s: %d parameters but arity %d", w.inner, in.nParam, w.arity)
			}
			pass := make([]string, len(in.pass))
			for i, p := range in.pass {
				pass[i] = strconv.Itoa(p)
			}
			rows = append(rows, fmt.Sprintf("  ⟨%q, %q, [%s], [%s], %s⟩", o[0], in.goFunc, strings.Join(w.convs, ", "), strings.Join(pass, ", "), w.res))
		}
		s := "import RisorModel.C19.Model\nnamespace Risor.Generated.C19\nopen Risor.C19\n\n"
		s += "/-- regenerated from modules/strings/strings.go and strings_gen.go -/\n"
		s += "def stringsSigs : List Sig := [\n" + strings.Join(rows, ",\n") + " ]\n"
		// 3. object/typeconv.go: the type switches of AsBytes and AsString — per case, in source
		// order, the types it lists and HOW the case gets at the bytes: by looking at the object
		// (`.look`), by reading it as a stream (`.readAll`: the case body calls io.ReadAll / Read /
		// ReadFrom / Next / WriteTo / io.Copy …), or not at all (`.reject`: the default case)
		tc := parse("object/typeconv.go")
		for _, fname := range []string{"AsBytes", "AsString"} {
			s += "\n/-- regenerated from object/typeconv.go: the type switch of " + fname + " -/\n"
			s += "def " + strings.ToLower(fname[:1]) + fname[1:] + "Cases : List (String × Access) := [" + strings.Join(c19_switchCases(tc, fname), ", ") + "]\n"
		}
		s += "\nend Risor.Generated.C19\n"
		return s
	}})
}

func c19_commentText(g *ast.CommentGroup) string {
	var sb strings.Builder
	for _, c := range g.List {
		sb.WriteString(c.Text)
		sb.WriteString("\n")
	}
	return sb.String()
}

// c19_typeText renders the type expression of a case clause: *T, pkg.T, T.
func c19_typeText(e ast.Expr) string {
	switch x := e.(type) {
	case *ast.StarExpr:
		return "*" + c19_typeText(x.X)
	case *ast.SelectorExpr:
		return c19_typeText(x.X) + "." + x.Sel.Name
	case *ast.Ident:
		return x.Name
	}
	c19Fail("unexpected type expression in a case clause: %T", e)
	return ""
}

var c19_consuming = map[string]bool{"ReadAll": true, "Read": true, "ReadFrom": true, "ReadByte": true, "ReadBytes": true, "ReadString": true,
	"ReadRune": true, "Next": true, "WriteTo": true, "Copy": true, "CopyN": true, "ReadFull": true, "ReadAtLeast": true, "Reset": true, "Truncate": true}

// c19_switchCases: the single type switch in the body of the converter `fname`.
func c19_switchCases(f *ast.File, fname string) []string {
	var fd *ast.FuncDecl
	for _, d := range f.Decls {
		if x, ok := d.(*ast.FuncDecl); ok && x.Recv == nil && x.Name.Name == fname {
			fd = x
		}
	}
	if fd == nil {
		c19Fail("object/typeconv.go: func %s not found", fname)
	}
	var sw *ast.TypeSwitchStmt
	n := 0
	ast.Inspect(fd.Body, func(nd ast.Node) bool {
		if x, ok := nd.(*ast.TypeSwitchStmt); ok {
			sw = x
			n++
		}
		return true
	})
	if n != 1 {
		c19Fail("%s: expected exactly one type switch, found %d", fname, n)
	}
	if len(fd.Body.List) != 1 {
		c19Fail("%s: the type switch is not the whole body (something runs before or after it)", fname)
	}
	var rows []string
	for _, st := range sw.Body.List {
		cc := st.(*ast.CaseClause)
		access := ".look"
		for _, b := range cc.Body {
			ast.Inspect(b, func(nd ast.Node) bool {
				if call, ok := nd.(*ast.CallExpr); ok {
					if sel, ok := call.Fun.(*ast.SelectorExpr); ok && c19_consuming[sel.Sel.Name] {
						access = ".readAll"
					}
				}
				return true
			})
		}
		if cc.List == nil {
			if access != ".look" {
				c19Fail("%s: the default case reads its argument", fname)
			}
			rows = append(rows, `("default", .reject)`)
			continue
		}
		for _, t := range cc.List {
			rows = append(rows, fmt.Sprintf("(%q, %s)", c19_typeText(t), access))
		}
	}
	return rows
}
