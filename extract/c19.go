package main

// C19: the inventory of generated wrappers of modules/strings, regenerated from
// strings.go (which Go function each exported function calls, in which order it passes
// its parameters, and which tests it makes on them before the call) and strings_gen.go
// (arity check, argument converters, error result handed back as an error value, result
// constructor,
// registered name).  Anything that does not have the expected shape makes the extractor
// fail loudly, so the tie is reported broken instead of being silently wrong.

import (
	"fmt"
	"go/ast"
	"go/parser"
	"go/token"
	"go/types"
	"path/filepath"
	"strconv"
	"strings"
)

func c19Fail(format string, a ...any) { panic("C19 inventory: " + fmt.Sprintf(format, a...)) }

func c19_selName(e ast.Expr) string {
	if s, ok := e.(*ast.SelectorExpr); ok {
		if x, ok := s.X.(*ast.Ident); ok {
			return x.Name + "." + s.Sel.Name
		}
	}
	if id, ok := e.(*ast.Ident); ok {
		return id.Name
	}
	return ""
}

type c19Inner struct {
	goFunc string
	pass   []int
	nParam int
	pre    []string // the tests made before the call (Lean `Check` terms), in source order
	retErr bool     // the function returns (T, error)
}

// c19_check: the Lean `Check` term of a test `if cond { return <zero>, <error> }` an exported
// function makes on its parameters before it calls the Go function.  Only the two shapes the
// model knows are accepted; anything else makes the extractor fail.
func c19_check(fn string, cond ast.Expr, params []string) string {
	text := types.ExprString(cond)
	for i, a := range params {
		if text == a+" < 0" {
			return fmt.Sprintf(".neg %d", i)
		}
		for j, b := range params {
			if text == fmt.Sprintf("len(%s) > 0 && %s > math.MaxInt / len(%s)", a, b, a) {
				return fmt.Sprintf(".lenMulOverflows %d %d", i, j)
			}
		}
	}
	c19Fail("%s: test %q before the call has no counterpart in the model", fn, text)
	return ""
}

func init() {
	generators = append(generators, generator{"C19", func(repo string) string {
		fset := token.NewFileSet()
		parse := func(rel string) *ast.File {
			f, err := parser.ParseFile(fset, filepath.Join(repo, rel), nil, parser.ParseComments)
			if err != nil {
				c19Fail("%v", err)
			}
			return f
		}
		// 1. strings.go: func name(params) T { return strings.X(params…) }
		inner := map[string]c19Inner{}
		for _, d := range parse("modules/strings/strings.go").Decls {
			fd, ok := d.(*ast.FuncDecl)
			if !ok || fd.Doc == nil || !strings.Contains(fd.Doc.Text()+c19_commentText(fd.Doc), "risor:export") {
				continue
			}
			var params []string
			for _, fl := range fd.Type.Params.List {
				for _, n := range fl.Names {
					params = append(params, n.Name)
				}
			}
			// the body is `return strings.X(params…)`, or — for a function that returns
			// (T, error) — tests `if cond { return <zero>, <error> }` followed by
			// `return strings.X(params…), nil`
			nRes := 0
			if fd.Type.Results != nil {
				for _, fl := range fd.Type.Results.List {
					nRes += max(1, len(fl.Names))
				}
			}
			retErr := nRes == 2 && c19_selName(fd.Type.Results.List[len(fd.Type.Results.List)-1].Type) == "error"
			if nRes != 1 && !retErr {
				c19Fail("%s: returns neither T nor (T, error)", fd.Name.Name)
			}
			if len(fd.Body.List) == 0 || (!retErr && len(fd.Body.List) != 1) {
				c19Fail("%s: body is not a single return", fd.Name.Name)
			}
			var pre []string
			for _, st := range fd.Body.List[:len(fd.Body.List)-1] {
				is, ok := st.(*ast.IfStmt)
				if !ok || is.Init != nil || is.Else != nil || len(is.Body.List) != 1 {
					c19Fail("%s: a statement before the final return is not `if cond { return zero, err }`", fd.Name.Name)
				}
				r, ok := is.Body.List[0].(*ast.ReturnStmt)
				if !ok || len(r.Results) != 2 || c19_selName(r.Results[1]) == "nil" {
					c19Fail("%s: a test before the call does not return an error", fd.Name.Name)
				}
				if lit, ok := r.Results[0].(*ast.BasicLit); !ok || lit.Value != `""` {
					c19Fail("%s: a test before the call returns a value beside its error", fd.Name.Name)
				}
				pre = append(pre, c19_check(fd.Name.Name, is.Cond, params))
			}
			ret, ok := fd.Body.List[len(fd.Body.List)-1].(*ast.ReturnStmt)
			if !ok || len(ret.Results) != nRes || (retErr && c19_selName(ret.Results[1]) != "nil") {
				c19Fail("%s: body does not end in `return strings.X(…)` / `return strings.X(…), nil`", fd.Name.Name)
			}
			call, ok := ret.Results[0].(*ast.CallExpr)
			if !ok || !strings.HasPrefix(c19_selName(call.Fun), "strings.") {
				c19Fail("%s: does not return a call of a strings function", fd.Name.Name)
			}
			in := c19Inner{goFunc: c19_selName(call.Fun), nParam: len(params), pre: pre, retErr: retErr}
			for _, a := range call.Args {
				id, ok := a.(*ast.Ident)
				idx := -1
				if ok {
					for i, p := range params {
						if p == id.Name {
							idx = i
						}
					}
				}
				if idx < 0 {
					c19Fail("%s: argument of %s is not a parameter", fd.Name.Name, in.goFunc)
				}
				in.pass = append(in.pass, idx)
			}
			inner[fd.Name.Name] = in
		}
		// 2. strings_gen.go
		type wrapper struct {
			arity int
			convs []string
			inner string
			res   string
			// `result, resultErr := inner(…)` followed by `if resultErr != nil { return object.NewError(resultErr) }`
			retErr bool
		}
		wrappers := map[string]wrapper{}
		var order [][2]string // exported name, wrapper func
		gen := parse("modules/strings/strings_gen.go")
		convOf := map[string]string{"object.AsString": ".str", "object.AsInt": ".int", "object.AsStringSlice": ".strList",
			"object.AsBool": ".bool", "object.AsBytes": ".bytes"}
		resOf := map[string]string{"object.NewBool": ".bool", "object.NewInt": ".int", "object.NewString": ".str", "object.NewStringList": ".strList"}
		for _, d := range gen.Decls {
			fd, ok := d.(*ast.FuncDecl)
			if !ok {
				continue
			}
			if fd.Name.Name == "addGeneratedBuiltins" {
				for _, st := range fd.Body.List {
					as, ok := st.(*ast.AssignStmt)
					if !ok {
						continue
					}
					ix, ok := as.Lhs[0].(*ast.IndexExpr)
					if !ok {
						continue
					}
					key, _ := strconv.Unquote(ix.Index.(*ast.BasicLit).Value)
					call := as.Rhs[0].(*ast.CallExpr)
					if c19_selName(call.Fun) != "object.NewBuiltin" || len(call.Args) != 2 {
						c19Fail("registration of %s is not object.NewBuiltin(name, fn)", key)
					}
					order = append(order, [2]string{key, c19_selName(call.Args[1])})
				}
				continue
			}
			if fd.Type.Params == nil || len(fd.Type.Params.List) != 2 || fd.Name.Name == "Module" {
				continue
			}
			w := wrapper{arity: -1}
			argIdx := 0
			ast.Inspect(fd.Body, func(n ast.Node) bool {
				switch x := n.(type) {
				case *ast.BinaryExpr: // len(args) != N
					if c, ok := x.X.(*ast.CallExpr); ok && c19_selName(c.Fun) == "len" && x.Op == token.NEQ {
						if lit, ok := x.Y.(*ast.BasicLit); ok {
							w.arity, _ = strconv.Atoi(lit.Value)
						}
					}
				case *ast.CallExpr:
					name := c19_selName(x.Fun)
					if c, ok := convOf[name]; ok {
						// the converter must read args[argIdx]
						ix, ok := x.Args[0].(*ast.IndexExpr)
						if !ok || c19_selName(ix.X) != "args" || ix.Index.(*ast.BasicLit).Value != strconv.Itoa(argIdx) {
							c19Fail("%s: converter %d does not read args[%d]", fd.Name.Name, argIdx, argIdx)
						}
						w.convs = append(w.convs, c)
						argIdx++
					}
					if r, ok := resOf[name]; ok {
						w.res = r
					}
				case *ast.AssignStmt: // result := inner(p0, p1, …)   or   result, resultErr := inner(p0, p1, …)
					if len(x.Lhs) == 2 && c19_selName(x.Lhs[0]) == "result" && c19_selName(x.Lhs[1]) == "resultErr" {
						w.retErr = true
					}
					if len(x.Lhs) >= 1 && len(x.Lhs) <= 2 && c19_selName(x.Lhs[0]) == "result" {
						if c, ok := x.Rhs[0].(*ast.CallExpr); ok {
							w.inner = c19_selName(c.Fun)
							// parameters must be passed in argument order: xParam, yParam… are
							// declared in that order, so check the identifiers are distinct and
							// appear in declaration order
							if len(c.Args) != len(w.convs) {
								c19Fail("%s: passes %d values for %d converted arguments", fd.Name.Name, len(c.Args), len(w.convs))
							}
						}
					}
				}
				return true
			})
			// declaration order of the …Param variables vs. the order they are passed in
			var declared, passed []string
			ast.Inspect(fd.Body, func(n ast.Node) bool {
				if as, ok := n.(*ast.AssignStmt); ok && as.Tok == token.DEFINE {
					if id, ok := as.Lhs[0].(*ast.Ident); ok && strings.HasSuffix(id.Name, "Param") {
						declared = append(declared, id.Name)
					}
					if len(as.Lhs) <= 2 && c19_selName(as.Lhs[0]) == "result" {
						for _, a := range as.Rhs[0].(*ast.CallExpr).Args {
							passed = append(passed, c19_selName(a))
						}
					}
				}
				return true
			})
			// AsInt arguments are declared as xParamRaw first, then xParam := int(xParamRaw)
			if strings.Join(declared, ",") != strings.Join(passed, ",") {
				c19Fail("%s: arguments are not passed on in order (%v vs %v)", fd.Name.Name, declared, passed)
			}
			if w.arity != len(w.convs) || w.inner == "" || w.res == "" {
				c19Fail("%s: unexpected wrapper shape (arity %d, %d converters, inner %q, result %q)", fd.Name.Name, w.arity, len(w.convs), w.inner, w.res)
			}
			if w.retErr {
				// the error of the exported function must come back as an error VALUE:
				// `if resultErr != nil { return object.NewError(resultErr) }` right after the call
				found := false
				for i, st := range fd.Body.List {
					as, ok := st.(*ast.AssignStmt)
					if !ok || len(as.Lhs) != 2 || c19_selName(as.Lhs[1]) != "resultErr" || i+1 >= len(fd.Body.List) {
						continue
					}
					if is, ok := fd.Body.List[i+1].(*ast.IfStmt); ok && types.ExprString(is.Cond) == "resultErr != nil" && len(is.Body.List) == 1 {
						if r, ok := is.Body.List[0].(*ast.ReturnStmt); ok && len(r.Results) == 1 && types.ExprString(r.Results[0]) == "object.NewError(resultErr)" {
							found = true
						}
					}
				}
				if !found {
					c19Fail("%s: resultErr is not returned as object.NewError(resultErr) right after the call", fd.Name.Name)
				}
			}
			wrappers[fd.Name.Name] = w
		}
		if len(order) == 0 {
			c19Fail("no registrations found in addGeneratedBuiltins")
		}
		var rows []string
		for _, o := range order {
			w, ok := wrappers[o[1]]
			if !ok {
				c19Fail("registered wrapper %s not found", o[1])
			}
			in, ok := inner[w.inner]
			if !ok {
				c19Fail("inner function %s of %s not found in strings.go", w.inner, o[1])
			}
			if in.nParam != w.arity {
				c19Fail("%s: %d parameters but arity %d", w.inner, in.nParam, w.arity)
			}
			if in.retErr != w.retErr {
				c19Fail("%s: the exported function and its generated wrapper disagree about an error result", w.inner)
			}
			pass := make([]string, len(in.pass))
			for i, p := range in.pass {
				pass[i] = strconv.Itoa(p)
			}
			rows = append(rows, fmt.Sprintf("  ⟨%q, %q, [%s], [%s], %s, [%s]⟩", o[0], in.goFunc, strings.Join(w.convs, ", "), strings.Join(pass, ", "), w.res, strings.Join(in.pre, ", ")))
		}
		s := "import RisorModel.C19.Model\nnamespace Risor.Generated.C19\nopen Risor.C19\n\n"
		s += "/-- regenerated from modules/strings/strings.go and strings_gen.go -/\n"
		s += "def stringsSigs : List Sig := [\n" + strings.Join(rows, ",\n") + " ]\n"
		// 3. object/typeconv.go: the type switches of AsBytes and AsString — per case, in source
		// order, the types it lists and HOW the case gets at the bytes: by looking at the object
		// (`.look`), by reading it as a stream (`.readAll`: the case body calls io.ReadAll / Read /
		// ReadFrom / Next / WriteTo / io.Copy …), or not at all (`.reject`: the default case)
		tc := parse("object/typeconv.go")
		for _, fname := range []string{"AsBytes", "AsString"} {
			s += "\n/-- regenerated from object/typeconv.go: the type switch of " + fname + " -/\n"
			s += "def " + strings.ToLower(fname[:1]) + fname[1:] + "Cases : List (String × Access) := [" + strings.Join(c19_switchCases(tc, fname), ", ") + "]\n"
		}
		// 4. modules/regexp: the hand-written wrappers (module functions and the methods of a
		// compiled pattern)
		s += "\n/-- regenerated from modules/regexp/regexp.go and regexp_object.go -/\n"
		s += "def rxSigs : List RxSig := [\n" + strings.Join(c19_rxInventory(parse("modules/regexp/regexp.go"), parse("modules/regexp/regexp_object.go")), ",\n") + " ]\n"
		s += "\nend Risor.Generated.C19\n"
		return s
	}})
}

func c19_commentText(g *ast.CommentGroup) string {
	var sb strings.Builder
	for _, c := range g.List {
		sb.WriteString(c.Text)
		sb.WriteString("\n")
	}
	return sb.String()
}

// c19_typeText renders the type expression of a case clause: *T, pkg.T, T.
func c19_typeText(e ast.Expr) string {
	switch x := e.(type) {
	case *ast.StarExpr:
		return "*" + c19_typeText(x.X)
	case *ast.SelectorExpr:
		return c19_typeText(x.X) + "." + x.Sel.Name
	case *ast.Ident:
		return x.Name
	}
	c19Fail("unexpected type expression in a case clause: %T", e)
	return ""
}

var c19_consuming = map[string]bool{"ReadAll": true, "Read": true, "ReadFrom": true, "ReadByte": true, "ReadBytes": true, "ReadString": true,
	"ReadRune": true, "Next": true, "WriteTo": true, "Copy": true, "CopyN": true, "ReadFull": true, "ReadAtLeast": true, "Reset": true, "Truncate": true}

// c19_switchCases: the single type switch in the body of the converter `fname`.
func c19_switchCases(f *ast.File, fname string) []string {
	var fd *ast.FuncDecl
	for _, d := range f.Decls {
		if x, ok := d.(*ast.FuncDecl); ok && x.Recv == nil && x.Name.Name == fname {
			fd = x
		}
	}
	if fd == nil {
		c19Fail("object/typeconv.go: func %s not found", fname)
	}
	var sw *ast.TypeSwitchStmt
	n := 0
	ast.Inspect(fd.Body, func(nd ast.Node) bool {
		if x, ok := nd.(*ast.TypeSwitchStmt); ok {
			sw = x
			n++
		}
		return true
	})
	if n != 1 {
		c19Fail("%s: expected exactly one type switch, found %d", fname, n)
	}
	if len(fd.Body.List) != 1 {
		c19Fail("%s: the type switch is not the whole body (something runs before or after it)", fname)
	}
	var rows []string
	for _, st := range sw.Body.List {
		cc := st.(*ast.CaseClause)
		access := ".look"
		for _, b := range cc.Body {
			ast.Inspect(b, func(nd ast.Node) bool {
				if call, ok := nd.(*ast.CallExpr); ok {
					if sel, ok := call.Fun.(*ast.SelectorExpr); ok && c19_consuming[sel.Sel.Name] {
						access = ".readAll"
					}
				}
				return true
			})
		}
		if cc.List == nil {
			if access != ".look" {
				c19Fail("%s: the default case reads its argument", fname)
			}
			rows = append(rows, `("default", .reject)`)
			continue
		}
		for _, t := range cc.List {
			rows = append(rows, fmt.Sprintf("(%q, %s)", c19_typeText(t), access))
		}
	}
	return rows
}

// ------------------------------------------------------------------ modules/regexp
//
// Every wrapper of modules/regexp is written by hand: an arity test, `object.As…` converters on
// args[i] in order, ONE call into Go's package regexp (a package function, or a method of the
// compiled pattern r.value) on the converted values, a constructor around its result.  The
// extractor reads off, per wrapper: registered name, the Go function, converters, the order in
// which the converted values are passed on, the result constructor, an optional trailing int
// with its default, whether an `error` result is handed back as object.NewError — and the fact
// the theorems need: is the body that one call and NOTHING else (`.direct`)?  Any other call,
// any branch that is not the arity test / an `err != nil` test / the test for the optional
// argument, any second way to a result, any statement of another kind makes the body `.other`
// (the tie then fails).  What cannot be read at all makes the extractor fail loudly.

type c19rxWrapper struct {
	name, goFn string
	convs      []string
	pass       []int
	res        string
	recv       bool
	opt        string // "none" or "some (d)"
	retErr     bool
	compiled   bool
	direct     bool
	why        []string // why the body is not direct (diagnostics, written as a comment)
}

var c19rxGlue = map[string]bool{"len": true, "int": true, "append": true, "make": true, "arg.Require": true, "object.AsString": true, "object.AsInt": true,
	"object.NewArgsError": true, "object.NewArgsRangeError": true, "object.NewError": true, "object.NewBool": true, "object.NewString": true,
	"object.NewList": true, "NewRegexp": true}

func c19_callName(c *ast.CallExpr) string {
	if n := c19_selName(c.Fun); n != "" {
		return n
	}
	return types.ExprString(c.Fun)
}

func c19_rxBody(name string, recv bool, body *ast.BlockStmt) c19rxWrapper {
	w := c19rxWrapper{name: name, recv: recv, opt: "none", direct: true}
	not := func(format string, a ...any) { w.direct = false; w.why = append(w.why, fmt.Sprintf(format, a...)) }
	if recv {
		w.convs = append(w.convs, ".str") // the receiver: the compiled pattern, identified by its source
	}
	base := len(w.convs)
	if len(body.List) == 0 {
		c19Fail("%s: empty body", name)
	}
	// (a) the arity test is the first statement
	arityMin, arityMax := -1, -1
	first, ok := body.List[0].(*ast.IfStmt)
	if !ok {
		c19Fail("%s: the first statement is not the arity test", name)
	}
	atoi := func(e ast.Expr) int {
		lit, ok := e.(*ast.BasicLit)
		if !ok {
			c19Fail("%s: a number was expected, found %s", name, types.ExprString(e))
		}
		n, _ := strconv.Atoi(lit.Value)
		return n
	}
	arityCond := types.ExprString(first.Cond)
	switch {
	case first.Init != nil && arityCond == "err != nil":
		as, ok := first.Init.(*ast.AssignStmt)
		if !ok || len(as.Rhs) != 1 {
			c19Fail("%s: unexpected arity test", name)
		}
		call, ok := as.Rhs[0].(*ast.CallExpr)
		if !ok || c19_selName(call.Fun) != "arg.Require" || len(call.Args) != 3 || types.ExprString(call.Args[2]) != "args" {
			c19Fail("%s: unexpected arity test", name)
		}
		arityMin = atoi(call.Args[1])
		arityMax = arityMin
	case first.Init == nil:
		if be, ok := first.Cond.(*ast.BinaryExpr); ok && be.Op == token.NEQ && types.ExprString(be.X) == "len(args)" {
			arityMin = atoi(be.Y)
			arityMax = arityMin
		} else if ok && be.Op == token.LOR {
			l, lok := be.X.(*ast.BinaryExpr)
			r, rok := be.Y.(*ast.BinaryExpr)
			if !lok || !rok || l.Op != token.LSS || r.Op != token.GTR || types.ExprString(l.X) != "len(args)" || types.ExprString(r.X) != "len(args)" {
				c19Fail("%s: unexpected arity test %s", name, arityCond)
			}
			arityMin, arityMax = atoi(l.Y), atoi(r.Y)
		} else {
			c19Fail("%s: unexpected arity test %s", name, arityCond)
		}
	default:
		c19Fail("%s: unexpected arity test %s", name, arityCond)
	}
	if len(first.Body.List) != 1 || first.Else != nil {
		c19Fail("%s: the arity test does more than return an error", name)
	}
	if r, ok := first.Body.List[0].(*ast.ReturnStmt); !ok || len(r.Results) != 1 ||
		!(types.ExprString(r.Results[0]) == "err" || strings.HasPrefix(types.ExprString(r.Results[0]), "object.NewArgs")) {
		c19Fail("%s: the arity test does not return an args error", name)
	}
	if arityMax != arityMin && arityMax != arityMin+1 {
		c19Fail("%s: more than one optional argument", name)
	}
	// (b) everything after it
	vars := map[string]int{} // converted variable -> position among the converted values
	rawInt := map[string]int{} // i64 of `i64, err := object.AsInt(args[k])` -> k
	optVar := ""
	var libCalls []*ast.CallExpr
	libSrc := map[string]bool{}  // identifiers bound to the result of the library call
	built := map[string]string{} // slice identifiers filled element by element -> "" (declared) / source identifier
	errIfs, resultReturns := 0, 0
	var resultExpr ast.Expr
	isLib := func(c *ast.CallExpr) bool {
		n := types.ExprString(c.Fun)
		return strings.HasPrefix(n, "regexp.") || strings.HasPrefix(n, "r.value.")
	}
	var walk func(list []ast.Stmt, top bool)
	walk = func(list []ast.Stmt, top bool) {
		for i, st := range list {
			switch x := st.(type) {
			case *ast.AssignStmt:
				lhs0 := c19_selName(x.Lhs[0])
				if len(x.Rhs) != 1 {
					not("assignment with %d right-hand sides", len(x.Rhs))
					continue
				}
				call, isCall := x.Rhs[0].(*ast.CallExpr)
				switch {
				case isCall && (c19_selName(call.Fun) == "object.AsString" || c19_selName(call.Fun) == "object.AsInt"):
					ix, ok := call.Args[0].(*ast.IndexExpr)
					if !ok || len(x.Lhs) != 2 || c19_selName(x.Lhs[1]) != "err" || c19_selName(ix.X) != "args" {
						c19Fail("%s: converter not of the form `v, err := object.AsX(args[i])`", name)
					}
					k := atoi(ix.Index)
					if c19_selName(call.Fun) == "object.AsString" {
						if k != len(w.convs)-base {
							c19Fail("%s: converters do not read args[0], args[1], … in order", name)
						}
						vars[lhs0] = len(w.convs)
						w.convs = append(w.convs, ".str")
					} else {
						rawInt[lhs0] = k
					}
					// followed by `if err != nil { return err }`
					if i+1 >= len(list) {
						c19Fail("%s: converter result is not tested", name)
					}
					is, ok := list[i+1].(*ast.IfStmt)
					if !ok || types.ExprString(is.Cond) != "err != nil" || is.Init != nil || len(is.Body.List) != 1 {
						c19Fail("%s: converter is not followed by `if err != nil { return err }`", name)
					}
				case !isCall && x.Tok == token.DEFINE && len(x.Lhs) == 1 && top:
					// n := -1   (the default of the optional argument)
					d, err := strconv.ParseInt(types.ExprString(x.Rhs[0]), 10, 64)
					if err != nil || optVar != "" {
						not("assignment %s", types.ExprString(x.Rhs[0]))
						continue
					}
					optVar = lhs0
					w.opt = fmt.Sprintf("some (%d)", d)
				case isCall && c19_selName(call.Fun) == "int" && x.Tok == token.ASSIGN && lhs0 == optVar && optVar != "":
					// n = int(i64)
					k, ok := rawInt[c19_selName(call.Args[0])]
					if !ok || k != len(w.convs)-base {
						c19Fail("%s: the optional argument is not the next argument", name)
					}
					vars[optVar] = len(w.convs)
					w.convs = append(w.convs, ".int")
				case isCall && isLib(call):
					for _, l := range x.Lhs {
						_ = l
					}
					libSrc[lhs0] = true
					if len(x.Lhs) == 2 {
						if c19_selName(x.Lhs[1]) != "rErr" {
							not("second result of the library call is called %s", c19_selName(x.Lhs[1]))
						}
						w.retErr = true
					}
				case isCall && c19_selName(call.Fun) == "make" && x.Tok == token.DEFINE:
					built[lhs0] = ""
				case isCall && c19_selName(call.Fun) == "append" && x.Tok == token.ASSIGN && !top:
					// matches = append(matches, object.NewString(match))
					if _, ok := built[lhs0]; !ok || len(call.Args) != 2 || c19_selName(call.Args[0]) != lhs0 {
						not("append to %s", lhs0)
					}
				default:
					not("assignment %s", types.ExprString(x.Rhs[0]))
				}
			case *ast.DeclStmt: // var matches []object.Object
				gd, ok := x.Decl.(*ast.GenDecl)
				if !ok || gd.Tok != token.VAR || len(gd.Specs) != 1 {
					not("declaration")
					continue
				}
				vs := gd.Specs[0].(*ast.ValueSpec)
				if len(vs.Names) != 1 || len(vs.Values) != 0 || types.ExprString(vs.Type) != "[]object.Object" {
					not("declaration of %s", vs.Names[0].Name)
					continue
				}
				built[vs.Names[0].Name] = ""
			case *ast.IfStmt:
				cond := types.ExprString(x.Cond)
				switch {
				case x == first:
				case cond == "err != nil" && x.Init == nil && x.Else == nil:
					errIfs++
					if r, ok := x.Body.List[0].(*ast.ReturnStmt); !ok || len(x.Body.List) != 1 || len(r.Results) != 1 || types.ExprString(r.Results[0]) != "err" {
						not("`if err != nil` does more than return err")
					}
				case cond == "rErr != nil" && x.Init == nil && x.Else == nil:
					if r, ok := x.Body.List[0].(*ast.ReturnStmt); !ok || len(x.Body.List) != 1 || len(r.Results) != 1 || types.ExprString(r.Results[0]) != "object.NewError(rErr)" {
						not("`if rErr != nil` does not return object.NewError(rErr)")
					}
				case cond == fmt.Sprintf("len(args) == %d", arityMax) && arityMax == arityMin+1 && x.Init == nil && x.Else == nil && top:
					walk(x.Body.List, false)
				default:
					not("branch on `%s`", cond)
				}
			case *ast.RangeStmt: // for _, m := range <library call | its result> { out = append(out, object.NewString(m)) }
				src := ""
				if c, ok := x.X.(*ast.CallExpr); ok && isLib(c) {
					src = "call"
				} else if id := c19_selName(x.X); libSrc[id] {
					src = id
				}
				elem := c19_selName(x.Value)
				if src == "" || !top || len(x.Body.List) != 1 || c19_selName(x.Key) != "_" {
					not("loop over %s", types.ExprString(x.X))
					continue
				}
				as, ok := x.Body.List[0].(*ast.AssignStmt)
				if !ok || len(as.Rhs) != 1 {
					not("loop body")
					continue
				}
				ap, ok := as.Rhs[0].(*ast.CallExpr)
				if !ok || c19_selName(ap.Fun) != "append" || len(ap.Args) != 2 || types.ExprString(ap.Args[1]) != "object.NewString("+elem+")" {
					not("loop body %s", types.ExprString(as.Rhs[0]))
					continue
				}
				dst := c19_selName(as.Lhs[0])
				if prev, ok := built[dst]; !ok || prev != "" || c19_selName(ap.Args[0]) != dst {
					not("loop fills %s", dst)
					continue
				}
				built[dst] = "lib"
			case *ast.ReturnStmt:
				if len(x.Results) != 1 {
					not("return of %d values", len(x.Results))
					continue
				}
				t := types.ExprString(x.Results[0])
				if t == "err" || t == "object.NewError(rErr)" || strings.HasPrefix(t, "object.NewArgs") {
					continue
				}
				resultReturns++
				resultExpr = x.Results[0]
				if !top || i != len(list)-1 {
					not("a result is returned before the end of the body")
				}
			default:
				not("statement %T", st)
			}
		}
	}
	walk(body.List, true)
	// (c) every call in the body: glue, or THE library call
	ast.Inspect(body, func(n ast.Node) bool {
		if fl, ok := n.(*ast.FuncLit); ok && fl.Body != body {
			not("nested function literal")
			return false
		}
		c, ok := n.(*ast.CallExpr)
		if !ok {
			return true
		}
		switch {
		case isLib(c):
			libCalls = append(libCalls, c)
		case c19rxGlue[c19_callName(c)]:
		default:
			not("call of %s", c19_callName(c))
		}
		return true
	})
	if len(libCalls) != 1 {
		not("%d calls into package regexp", len(libCalls))
	}
	if len(libCalls) >= 1 {
		c := libCalls[0]
		fn := types.ExprString(c.Fun)
		if strings.HasPrefix(fn, "r.value.") {
			if !recv {
				c19Fail("%s: r.value outside a method", name)
			}
			w.goFn = "Regexp." + strings.TrimPrefix(fn, "r.value.")
			w.pass = append(w.pass, 0)
		} else {
			w.goFn = fn
		}
		for _, a := range c.Args {
			k, ok := vars[c19_selName(a)]
			if !ok {
				not("argument %s of %s is not a converted argument", types.ExprString(a), fn)
				continue
			}
			w.pass = append(w.pass, k)
		}
	}
	// (d) the one result: a constructor around the library call's result
	if resultReturns != 1 || resultExpr == nil {
		not("%d returns of a result", resultReturns)
		w.res = ".str"
	} else {
		rc, ok := resultExpr.(*ast.CallExpr)
		if !ok || len(rc.Args) != 1 {
			c19Fail("%s: the result is not a constructor call", name)
		}
		fromLib := func(e ast.Expr) bool {
			if c, ok := e.(*ast.CallExpr); ok {
				return len(libCalls) == 1 && c == libCalls[0]
			}
			return libSrc[c19_selName(e)]
		}
		switch c19_selName(rc.Fun) {
		case "object.NewBool":
			w.res = ".bool"
			if !fromLib(rc.Args[0]) {
				not("the result does not come from the library call")
			}
		case "object.NewString":
			w.res = ".str"
			if !fromLib(rc.Args[0]) {
				not("the result does not come from the library call")
			}
		case "NewRegexp":
			w.res = ".str"
			w.compiled = true
			if !fromLib(rc.Args[0]) {
				not("the result does not come from the library call")
			}
		case "object.NewList":
			w.res = ".strList"
			if built[c19_selName(rc.Args[0])] != "lib" {
				not("the list is not built from the library call's result")
			}
		default:
			c19Fail("%s: unknown result constructor %s", name, c19_selName(rc.Fun))
		}
	}
	nConv := len(w.convs) - base
	if nConv != arityMax {
		c19Fail("%s: %d converters for at most %d arguments", name, nConv, arityMax)
	}
	if (arityMax == arityMin+1) != (w.opt != "none") {
		c19Fail("%s: arity range and optional argument disagree", name)
	}
	wantErrIfs := nConv
	if errIfs != wantErrIfs {
		not("%d `err != nil` tests for %d converters", errIfs, nConv)
	}
	return w
}

func c19_rxInventory(mod, obj *ast.File) []string {
	funcs := map[string]*ast.FuncDecl{}
	for _, f := range []*ast.File{mod, obj} {
		for _, d := range f.Decls {
			if fd, ok := d.(*ast.FuncDecl); ok {
				key := fd.Name.Name
				if fd.Recv != nil {
					key = "(method)." + key
				}
				funcs[key] = fd
			}
		}
	}
	var ws []c19rxWrapper
	// module functions: Module() returns object.NewBuiltinsModule("regexp", map[string]object.Object{ "name": object.NewBuiltin("name", Fn), … }, Compile)
	m := funcs["Module"]
	if m == nil {
		c19Fail("modules/regexp: func Module not found")
	}
	found := false
	ast.Inspect(m.Body, func(n ast.Node) bool {
		cl, ok := n.(*ast.CompositeLit)
		if !ok {
			return true
		}
		found = true
		for _, el := range cl.Elts {
			kv := el.(*ast.KeyValueExpr)
			key, _ := strconv.Unquote(kv.Key.(*ast.BasicLit).Value)
			call, ok := kv.Value.(*ast.CallExpr)
			if !ok || c19_selName(call.Fun) != "object.NewBuiltin" || len(call.Args) != 2 {
				c19Fail("regexp.%s is not registered as object.NewBuiltin(name, fn)", key)
			}
			fd := funcs[c19_selName(call.Args[1])]
			if fd == nil {
				c19Fail("regexp.%s: function %s not found", key, c19_selName(call.Args[1]))
			}
			ws = append(ws, c19_rxBody("regexp."+key, false, fd.Body))
		}
		return false
	})
	if !found {
		c19Fail("modules/regexp: no registration table in Module()")
	}
	// methods: the switch of (*Regexp).GetAttr
	ga := funcs["(method).GetAttr"]
	if ga == nil {
		c19Fail("modules/regexp: (*Regexp).GetAttr not found")
	}
	if len(ga.Body.List) != 2 {
		c19Fail("(*Regexp).GetAttr is not `switch name {…}; return nil, false`")
	}
	sw, ok := ga.Body.List[0].(*ast.SwitchStmt)
	if !ok || types.ExprString(sw.Tag) != "name" {
		c19Fail("(*Regexp).GetAttr does not start with `switch name`")
	}
	for _, st := range sw.Body.List {
		cc := st.(*ast.CaseClause)
		if len(cc.List) != 1 || len(cc.Body) != 1 {
			c19Fail("(*Regexp).GetAttr: a case is not `case \"name\": return object.NewBuiltin(…), true`")
		}
		key, _ := strconv.Unquote(cc.List[0].(*ast.BasicLit).Value)
		r, ok := cc.Body[0].(*ast.ReturnStmt)
		if !ok || len(r.Results) != 2 || types.ExprString(r.Results[1]) != "true" {
			c19Fail("(*Regexp).GetAttr case %q does not return (builtin, true)", key)
		}
		call, ok := r.Results[0].(*ast.CallExpr)
		if !ok || c19_selName(call.Fun) != "object.NewBuiltin" || len(call.Args) != 2 {
			c19Fail("(*Regexp).GetAttr case %q does not return object.NewBuiltin(name, fn)", key)
		}
		fl, ok := call.Args[1].(*ast.FuncLit)
		if !ok {
			c19Fail("(*Regexp).GetAttr case %q: the builtin is not a function literal", key)
		}
		ws = append(ws, c19_rxBody(key, true, fl.Body))
	}
	var rows []string
	for _, w := range ws {
		pass := make([]string, len(w.pass))
		for i, p := range w.pass {
			pass[i] = strconv.Itoa(p)
		}
		body := ".direct"
		if !w.direct {
			body = ".other /- " + strings.ReplaceAll(strings.Join(w.why, "; "), "-/", "- /") + " -/"
		}
		rows = append(rows, fmt.Sprintf("  ⟨⟨%q, %q, [%s], [%s], %s, []⟩, %v, %s, %v, %v, %s⟩", w.name, w.goFn, strings.Join(w.convs, ", "),
			strings.Join(pass, ", "), w.res, w.recv, w.opt, w.retErr, w.compiled, body))
	}
	return rows
}
