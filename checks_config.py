"""Per-property configuration of ./check (modules, extractor generators, trusted base)."""

COMMON_TRUSTED = [
    "Lean 4.33.0 kernel (thorough tier: re-checked by leanchecker); axioms limited to propext, Classical.choice, Quot.sound",
    "the extractor /verif/extract (Go, stdlib go/ast) reads the tables/functions it claims to read",
    "the correspondence harness /verif/harness and its canonicalisation; generator quality bounds what it sees",
    "Go toolchain, runtime and standard library",
]

CHECKS = {
    "C13": {
        "level": "proof",
        "extract": ["C13"],
        "models": ["RisorModel.C13.Model"],
        "lemmas": ["RisorModel.C13.Lemmas"],
        "ties": ["RisorModel.C13.Ties"],
        "props": ["RisorModel.C13.Props"],
        "trusted": [
            "path/filepath.Clean/Join/IsAbs and strings.HasPrefix/TrimPrefix are modelled by hand (C13.cleanStr, join2, ...) and compared with the real functions exhaustively over the property's path alphabet on every run, not verified",
            "that each localfs method passes every path argument through resolvePath is established by the sentinel-tree correspondence, not by proof",
            "host-kernel symlink traversal is outside the (lexical) property",
        ],
        "assumptions": ["mount targets are clean absolute paths and mount keys equal Mount.Target", "Unix path separator"],
        "level_text": "Lean 4 theorems over all path byte strings (resolvePath_confined, findMount_order_independent, counterexample for the string-prefix defect) about a model whose ResolvePath is regenerated from os/os.go on every run (tie by rfl) and whose Clean/Join/findMount are compared with the real code exhaustively over the property's alphabet; every localfs operation is run against a sentinel tree",
        "level_note": "trusted: Lean kernel; hand model of filepath.Clean/Join tied by exhaustive correspondence only; localfs methods' use of resolvePath tied by sentinel-tree runs; symlinks out of scope",
        "technique": "Lean 4 proof over a component-stack model of path cleaning + regenerated ResolvePath + exhaustive Go/Lean correspondence",
        "fragment": "resolvePath_confined / findMount_order_independent: all byte strings, unbounded length",
    },
}

MANIFEST_BASE = {
    "version": 1,
    "setup_cmd": "./check setup",
    "hooks": {
        "guard": "verif",
        "enable": "go build -tags verif (the harness module replaces github.com/risor-io/risor with /repo)",
        "baseline_off_cmd": "cd /repo && go build ./... && go test -vet=off -count=1 ./...",
        "source_commits": [],
        "add_only": True,
    },
    "engines": [
        {"name": "lean-model", "path": "/verif/lean", "serves_properties": sorted(CHECKS), "kind_free_text": "Lean 4 (core only) models, theorems, ties and the compiled line-protocol oracle"},
        {"name": "extractor", "path": "/verif/extract", "serves_properties": sorted(k for k, v in CHECKS.items() if v.get("extract")), "kind_free_text": "Go program (go/ast) regenerating Lean tables and translated functions from /repo on every run"},
        {"name": "harness", "path": "/verif/harness", "serves_properties": sorted(CHECKS), "kind_free_text": "Go correspondence harness calling the real risor packages in-process (replace => /repo, -tags verif)"},
    ],
    "notes": "All checks: ./check <Cnn> quick|thorough. See DESIGN.md.",
}

# properties not (yet) claimed; each must carry a reason
NOT_APPLICABLE = {
}
for _i in range(1, 21):
    _k = "C%02d" % _i
    if _k not in CHECKS:
        NOT_APPLICABLE.setdefault(_k, "check not built yet in this session (work in progress; see DESIGN.md section 5 for the planned model and theorems)")
