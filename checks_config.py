"""Per-property configuration of ./check (modules, extractor generators, trusted base)."""

COMMON_TRUSTED = [
    "Lean 4.33.0 kernel (thorough tier: re-checked by leanchecker); axioms limited to propext, Classical.choice, Quot.sound",
    "the extractor /verif/extract (Go, stdlib go/ast) reads the tables/functions it claims to read",
    "the correspondence harness /verif/harness and its canonicalisation; generator quality bounds what it sees",
    "Go toolchain, runtime and standard library",
]

import glob as _glob, json as _json, os as _os

# one JSON file per claimed property: checks/Cnn.json
CHECKS = {}
for _p in sorted(_glob.glob(_os.path.join(_os.path.dirname(_os.path.abspath(__file__)), "checks", "C*.json"))):
    CHECKS[_os.path.basename(_p)[:-5]] = _json.load(open(_p))

MANIFEST_BASE = {
    "version": 1,
    "setup_cmd": "./check setup",
    "hooks": {
        "guard": "verif",
        "enable": "go build -tags verif (the harness module replaces github.com/risor-io/risor with /repo)",
        "baseline_off_cmd": "for m in $(cat /w/out/gomods.txt); do MF=$(cd /repo/$m && . /w/out/goenv.sh && gomodflag); (cd /repo/$m && go test $MF -json -vet=off -count=1 -timeout 25m ./...); done",
        "source_commits": ["baec371", "1f7de65", "b197f03"],
        "add_only": True,
    },
    "engines": [
        {"name": "lean-model", "path": "/verif/lean", "serves_properties": sorted(CHECKS), "kind_free_text": "Lean 4 (core only) models, theorems, ties and the compiled line-protocol oracle"},
        {"name": "extractor", "path": "/verif/extract", "serves_properties": sorted(k for k, v in CHECKS.items() if v.get("extract")), "kind_free_text": "Go program (go/ast) regenerating Lean tables and translated functions from /repo on every run"},
        {"name": "harness", "path": "/verif/harness", "serves_properties": sorted(CHECKS), "kind_free_text": "Go correspondence harness calling the real risor packages in-process (replace => /repo, -tags verif)"},
    ],
    "notes": "All checks: ./check <Cnn> quick|thorough. See DESIGN.md.",
}

# properties not (yet) claimed; each must carry a reason
NOT_APPLICABLE = {
}
for _i in range(1, 21):
    _k = "C%02d" % _i
    if _k not in CHECKS:
        NOT_APPLICABLE.setdefault(_k, "check not built yet in this session (work in progress; see DESIGN.md section 5 for the planned model and theorems)")
