#!/usr/bin/env python3
"""
recheck_mutant.py <seeded id> [<check ids, comma separated>] [tier]

Re-runs our check(s) against an already confirmed seeded change (/verif/seeded/<id>/patch.diff)
after the checks were strengthened, without touching /repo:
  1. fresh git worktree of /repo's HEAD under /tmp/mw-<id>; apply the patch; go build;
  2. VERIF_REPO=<worktree> ./check <Cnn> quick in a private copy of /verif (/tmp/vmut-<id>);
  3. updates verdict / our_checks in /verif/seeded/<id>/meta.json, records the /verif commit.
The worktree and the private copy are removed afterwards.
"""
import json, os, re, shutil, subprocess, sys, time

ENV = dict(os.environ, GOFLAGS="-mod=mod", GOPROXY="off", GOSUMDB="off", GOTOOLCHAIN="local")


def sh(cmd, cwd=None, timeout=7200, env=ENV):
    p = subprocess.run(cmd, shell=True, cwd=cwd, env=env, stdout=subprocess.PIPE, stderr=subprocess.STDOUT, text=True, timeout=timeout, errors="replace")
    return p.returncode, p.stdout


def main():
    sid = sys.argv[1]
    sdir = "/verif/seeded/" + sid
    meta = json.load(open(sdir + "/meta.json"))
    checks = (sys.argv[2] if len(sys.argv) > 2 and sys.argv[2] else ",".join(meta["verdict"].keys())).split(",")
    tier = sys.argv[3] if len(sys.argv) > 3 else "quick"
    w = "/tmp/mw-" + sid
    vm = "/tmp/vmut-" + sid
    sh("git -C /repo worktree remove --force %s" % w)
    sh("rm -rf %s" % vm)
    sh("git -C /repo worktree add --detach %s HEAD" % w)
    try:
        rc, out = sh("git apply %s/patch.diff" % sdir, cwd=w)
        if rc != 0:
            print(sid, "PATCH DOES NOT APPLY", out[-300:])
            return
        rc, out = sh("go build ./...", cwd=w, env=dict(ENV, GOWORK="off"))
        if rc != 0:
            print(sid, "DOES NOT BUILD", out[-300:])
            return
        sh("rsync -a --exclude findings/runs /verif/ %s/" % vm)
        head = sh("git -C /verif rev-parse --short HEAD")[1].strip()
        for cid in checks:
            e2 = dict(ENV, VERIF_REPO=w)
            t0 = time.time()
            rc, out = sh("./check %s %s" % (cid, tier), cwd=vm, env=e2)
            lines = [l for l in out.split("\n") if l.startswith("VIOLATION") or l.startswith(cid + " " + tier)]
            viol = [l for l in lines if l.startswith("VIOLATION")]
            detail = ""
            m = re.search(r"replay=(\S+)", viol[0]) if viol else None
            if m and os.path.exists(m.group(1)):
                try:
                    rp = json.load(open(m.group(1)))
                    detail = json.dumps({k: rp.get(k) for k in ("case", "detail", "broken_obligations")})[:1500]
                except Exception as ex:
                    detail = "unreadable replay: %s" % ex
            v = {"exit": rc, "violation_line": viol[0] if viol else "", "summary": lines[-1] if lines else out[-300:], "replay": detail,
                 "wall_s": round(time.time() - t0), "verif_commit": head, "tier": tier}
            meta.setdefault("our_checks", {})[cid] = v
            meta["verdict"][cid] = ("caught" + (" (no-failing-input-found)" if "no-failing-input-found" in v["violation_line"] else " with a concrete replay")) if v["violation_line"] else "MISSED"
            meta.setdefault("what_was_run", []).append("VERIF_REPO=<worktree with patch> ./check %s %s   (rc=%d, /verif at %s)" % (cid, tier, rc, head))
            print("%s check %s: %s | %s" % (sid, cid, v["violation_line"] or "NO VIOLATION", v["summary"][:200]))
            print("    " + detail[:600])
        json.dump(meta, open(sdir + "/meta.json", "w"), indent=1)
    finally:
        sh("git -C /repo worktree remove --force %s" % w)
        sh("rm -rf %s" % vm)


if __name__ == "__main__":
    main()
