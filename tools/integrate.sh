#!/bin/bash
# integrate.sh Cnn : copy a builder agent's owned files from /tmp/w-Cnn into /verif and show diffs of shared files
set -e
ID=$1; L=$(echo $ID | tr 'A-Z' 'a-z'); W=/tmp/w-$ID; V=/verif
[ -d $W ] || { echo "no $W"; exit 1; }
rsync -a --delete $W/lean/RisorModel/$ID/ $V/lean/RisorModel/$ID/
for f in $W/lean/RisorModel/Generated/$ID*.lean; do [ -f "$f" ] && cp "$f" $V/lean/RisorModel/Generated/; done
for f in $W/extract/$L*.go $W/harness/$L*.go; do [ -f "$f" ] && cp "$f" $V/${f#$W/}; done
[ -f $W/checks/$ID.json ] && cp $W/checks/$ID.json $V/checks/
for f in $W/findings/known/$ID-*; do [ -f "$f" ] && cp "$f" $V/findings/known/; done
[ -f $W/findings/proposed-$ID.json ] && cp $W/findings/proposed-$ID.json $V/findings/
echo "== shared files that differ from /verif (review by hand):"
for f in check checks_config.py harness/common.go harness/main.go harness/lang.go harness/gen.go extract/main.go extract/translate.go lean/Oracle/Main.lean lean/lakefile.toml lean/RisorModel/Util.lean AGENT_GUIDE.md; do
  cmp -s $W/$f $V/$f || echo "  DIFF $f"
done
echo "== new files in agent copy not present in /verif (outside owned set):"
(cd $W && find harness extract lean/RisorModel lean/Oracle checks tools -type f 2>/dev/null | grep -v "/.lake/" ) | while read f; do [ -e $V/$f ] || echo "  NEW $f"; done
cd $V && ./check manifest
