#!/bin/bash
# core_suite.sh <repo dir> [go test args…]
# Runs the test packages of risor's ROOT module (the core: lexer, parser, compiler, vm, object, os,
# builtins, importer, modules/* that live in the root module, tests/…) in <repo dir> with
# github.com/stretchr/testify replaced by /verif/tools/testify-shim.  Development aid only (used to
# confirm that a seeded change or a fix passes the existing tests after this sandbox lost its Go
# module cache); the sub-modules with third-party dependencies cannot be built here any more.
set -u
R=$(cd "$1" && pwd); shift
D=$(mktemp -d /tmp/coresuite-XXXXXX)
trap 'rm -rf "$D"' EXIT
cat > $D/go.mod <<EOF
module github.com/risor-io/risor

go 1.23.0

require github.com/stretchr/testify v1.10.0

replace github.com/stretchr/testify => /verif/tools/testify-shim
EOF
: > $D/go.sum
cd "$R"
export GOFLAGS=-mod=mod GOPROXY=off GOSUMDB=off GOTOOLCHAIN=local GOWORK=off
if [ $# -eq 0 ]; then set -- ./...; fi
# the real testify is used when the module cache has it (a restored sandbox); the stand-in otherwise
if [ -d "$(go env GOMODCACHE)/github.com/stretchr/testify@v1.10.0" ]; then
  exec go test -vet=off -count=1 "$@"
fi
go test -modfile=$D/go.mod -vet=off -count=1 "$@"
