#!/bin/bash
# sweep_some.sh <tier> <seed> <check...> : like sweep.sh for the named checks only
tier=$1; seed=$2; shift 2
./check setup > /dev/null 2>&1
for c in "$@"; do
  out=$(VERIF_SEED=$seed ./check $c $tier 2>&1)
  echo "seed=$seed $(echo "$out" | grep "^$c $tier" | cut -c1-200)"
  echo "$out" | grep "^VIOLATION" | cut -c1-300
done
