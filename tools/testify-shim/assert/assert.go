// Package assert is a small stand-in for github.com/stretchr/testify/assert covering the
// functions risor's tests use.  It exists because this sandbox lost its Go module cache (see
// DESIGN.md, "Incident"); it is used ONLY to run risor's core test packages against seeded
// changes through `go test -modfile=…` with a replace directive, never by a registered check.
// Semantics follow testify v1.10.0 (ObjectsAreEqual, isNil, isEmpty, includeElement, compare).
package assert

import (
	"bytes"
	"errors"
	"fmt"
	"reflect"
	"strings"
)

type TestingT interface {
	Errorf(format string, args ...interface{})
}

type tHelper interface{ Helper() }

func msg(msgAndArgs ...interface{}) string {
	if len(msgAndArgs) == 0 {
		return ""
	}
	if len(msgAndArgs) == 1 {
		if s, ok := msgAndArgs[0].(string); ok {
			return s
		}
		return fmt.Sprintf("%+v", msgAndArgs[0])
	}
	if f, ok := msgAndArgs[0].(string); ok {
		return fmt.Sprintf(f, msgAndArgs[1:]...)
	}
	return fmt.Sprint(msgAndArgs...)
}

func Fail(t TestingT, failure string, msgAndArgs ...interface{}) bool {
	if h, ok := t.(tHelper); ok {
		h.Helper()
	}
	m := msg(msgAndArgs...)
	if m != "" {
		t.Errorf("\n\tError: %s\n\tMessages: %s", failure, m)
	} else {
		t.Errorf("\n\tError: %s", failure)
	}
	return false
}

func ObjectsAreEqual(expected, actual interface{}) bool {
	if expected == nil || actual == nil {
		return expected == actual
	}
	exp, ok := expected.([]byte)
	if !ok {
		return reflect.DeepEqual(expected, actual)
	}
	act, ok := actual.([]byte)
	if !ok {
		return false
	}
	if exp == nil || act == nil {
		return exp == nil && act == nil
	}
	return bytes.Equal(exp, act)
}

func isFunction(arg interface{}) bool {
	if arg == nil {
		return false
	}
	return reflect.TypeOf(arg).Kind() == reflect.Func
}

func Equal(t TestingT, expected, actual interface{}, msgAndArgs ...interface{}) bool {
	if h, ok := t.(tHelper); ok {
		h.Helper()
	}
	if isFunction(expected) || isFunction(actual) {
		return Fail(t, "cannot take func type as argument", msgAndArgs...)
	}
	if !ObjectsAreEqual(expected, actual) {
		return Fail(t, fmt.Sprintf("Not equal: \n\texpected: %#v\n\tactual  : %#v", expected, actual), msgAndArgs...)
	}
	return true
}

func NotEqual(t TestingT, expected, actual interface{}, msgAndArgs ...interface{}) bool {
	if h, ok := t.(tHelper); ok {
		h.Helper()
	}
	if isFunction(expected) || isFunction(actual) {
		return Fail(t, "cannot take func type as argument", msgAndArgs...)
	}
	if ObjectsAreEqual(expected, actual) {
		return Fail(t, fmt.Sprintf("Should not be: %#v", actual), msgAndArgs...)
	}
	return true
}

func isNil(object interface{}) bool {
	if object == nil {
		return true
	}
	value := reflect.ValueOf(object)
	switch value.Kind() {
	case reflect.Chan, reflect.Func, reflect.Interface, reflect.Map, reflect.Ptr, reflect.Slice, reflect.UnsafePointer:
		return value.IsNil()
	}
	return false
}

func Nil(t TestingT, object interface{}, msgAndArgs ...interface{}) bool {
	if h, ok := t.(tHelper); ok {
		h.Helper()
	}
	if isNil(object) {
		return true
	}
	return Fail(t, fmt.Sprintf("Expected nil, but got: %#v", object), msgAndArgs...)
}

func NotNil(t TestingT, object interface{}, msgAndArgs ...interface{}) bool {
	if h, ok := t.(tHelper); ok {
		h.Helper()
	}
	if !isNil(object) {
		return true
	}
	return Fail(t, "Expected value not to be nil.", msgAndArgs...)
}

func True(t TestingT, value bool, msgAndArgs ...interface{}) bool {
	if h, ok := t.(tHelper); ok {
		h.Helper()
	}
	if !value {
		return Fail(t, "Should be true", msgAndArgs...)
	}
	return true
}

func False(t TestingT, value bool, msgAndArgs ...interface{}) bool {
	if h, ok := t.(tHelper); ok {
		h.Helper()
	}
	if value {
		return Fail(t, "Should be false", msgAndArgs...)
	}
	return true
}

func NoError(t TestingT, err error, msgAndArgs ...interface{}) bool {
	if h, ok := t.(tHelper); ok {
		h.Helper()
	}
	if err != nil {
		return Fail(t, fmt.Sprintf("Received unexpected error:\n%+v", err), msgAndArgs...)
	}
	return true
}

func Error(t TestingT, err error, msgAndArgs ...interface{}) bool {
	if h, ok := t.(tHelper); ok {
		h.Helper()
	}
	if err == nil {
		return Fail(t, "An error is expected but got nil.", msgAndArgs...)
	}
	return true
}

func Errorf(t TestingT, err error, m string, args ...interface{}) bool {
	return Error(t, err, append([]interface{}{m}, args...)...)
}

func ErrorContains(t TestingT, theError error, contains string, msgAndArgs ...interface{}) bool {
	if h, ok := t.(tHelper); ok {
		h.Helper()
	}
	if !Error(t, theError, msgAndArgs...) {
		return false
	}
	if !strings.Contains(theError.Error(), contains) {
		return Fail(t, fmt.Sprintf("Error %#v does not contain %#v", theError.Error(), contains), msgAndArgs...)
	}
	return true
}

func ErrorIs(t TestingT, err, target error, msgAndArgs ...interface{}) bool {
	if errors.Is(err, target) {
		return true
	}
	return Fail(t, fmt.Sprintf("Target error should be in err chain: %v vs %v", err, target), msgAndArgs...)
}

func getLen(x interface{}) (l int, ok bool) {
	v := reflect.ValueOf(x)
	defer func() { ok = recover() == nil }()
	return v.Len(), true
}

func Len(t TestingT, object interface{}, length int, msgAndArgs ...interface{}) bool {
	if h, ok := t.(tHelper); ok {
		h.Helper()
	}
	l, ok := getLen(object)
	if !ok {
		return Fail(t, fmt.Sprintf("\"%v\" could not be applied builtin len()", object), msgAndArgs...)
	}
	if l != length {
		return Fail(t, fmt.Sprintf("\"%v\" should have %d item(s), but has %d", object, length, l), msgAndArgs...)
	}
	return true
}

func isEmpty(object interface{}) bool {
	if object == nil {
		return true
	}
	objValue := reflect.ValueOf(object)
	switch objValue.Kind() {
	case reflect.Chan, reflect.Map, reflect.Slice:
		return objValue.Len() == 0
	case reflect.Ptr:
		if objValue.IsNil() {
			return true
		}
		return isEmpty(objValue.Elem().Interface())
	default:
		zero := reflect.Zero(objValue.Type())
		return reflect.DeepEqual(object, zero.Interface())
	}
}

func Empty(t TestingT, object interface{}, msgAndArgs ...interface{}) bool {
	if h, ok := t.(tHelper); ok {
		h.Helper()
	}
	if !isEmpty(object) {
		return Fail(t, fmt.Sprintf("Should be empty, but was %v", object), msgAndArgs...)
	}
	return true
}

func NotEmpty(t TestingT, object interface{}, msgAndArgs ...interface{}) bool {
	if h, ok := t.(tHelper); ok {
		h.Helper()
	}
	if isEmpty(object) {
		return Fail(t, fmt.Sprintf("Should NOT be empty, but was %v", object), msgAndArgs...)
	}
	return true
}

func containsElement(list interface{}, element interface{}) (ok, found bool) {
	listValue := reflect.ValueOf(list)
	listType := reflect.TypeOf(list)
	if listType == nil {
		return false, false
	}
	listKind := listType.Kind()
	defer func() {
		if e := recover(); e != nil {
			ok = false
			found = false
		}
	}()
	if listKind == reflect.String {
		elementValue := reflect.ValueOf(element)
		return true, strings.Contains(listValue.String(), elementValue.String())
	}
	if listKind == reflect.Map {
		mapKeys := listValue.MapKeys()
		for i := 0; i < len(mapKeys); i++ {
			if ObjectsAreEqual(mapKeys[i].Interface(), element) {
				return true, true
			}
		}
		return true, false
	}
	for i := 0; i < listValue.Len(); i++ {
		if ObjectsAreEqual(listValue.Index(i).Interface(), element) {
			return true, true
		}
	}
	return true, false
}

func Contains(t TestingT, s, contains interface{}, msgAndArgs ...interface{}) bool {
	if h, ok := t.(tHelper); ok {
		h.Helper()
	}
	ok, found := containsElement(s, contains)
	if !ok {
		return Fail(t, fmt.Sprintf("%#v could not be applied builtin len()", s), msgAndArgs...)
	}
	if !found {
		return Fail(t, fmt.Sprintf("%#v does not contain %#v", s, contains), msgAndArgs...)
	}
	return true
}

func NotContains(t TestingT, s, contains interface{}, msgAndArgs ...interface{}) bool {
	ok, found := containsElement(s, contains)
	if !ok {
		return Fail(t, fmt.Sprintf("%#v could not be applied builtin len()", s), msgAndArgs...)
	}
	if found {
		return Fail(t, fmt.Sprintf("%#v should not contain %#v", s, contains), msgAndArgs...)
	}
	return true
}

func IsType(t TestingT, expectedType interface{}, object interface{}, msgAndArgs ...interface{}) bool {
	if h, ok := t.(tHelper); ok {
		h.Helper()
	}
	if !ObjectsAreEqual(reflect.TypeOf(object), reflect.TypeOf(expectedType)) {
		return Fail(t, fmt.Sprintf("Object expected to be of type %v, but was %v", reflect.TypeOf(expectedType), reflect.TypeOf(object)), msgAndArgs...)
	}
	return true
}

func toFloat(v reflect.Value) (float64, bool) {
	switch v.Kind() {
	case reflect.Int, reflect.Int8, reflect.Int16, reflect.Int32, reflect.Int64:
		return float64(v.Int()), true
	case reflect.Uint, reflect.Uint8, reflect.Uint16, reflect.Uint32, reflect.Uint64, reflect.Uintptr:
		return float64(v.Uint()), true
	case reflect.Float32, reflect.Float64:
		return v.Float(), true
	}
	return 0, false
}

// compare: -1, 0, 1 for ordered kinds of the SAME type (as testify requires)
func compare(a, b interface{}) (int, bool) {
	va, vb := reflect.ValueOf(a), reflect.ValueOf(b)
	if !va.IsValid() || !vb.IsValid() || va.Type() != vb.Type() {
		return 0, false
	}
	switch va.Kind() {
	case reflect.Int, reflect.Int8, reflect.Int16, reflect.Int32, reflect.Int64:
		x, y := va.Int(), vb.Int()
		if x < y {
			return -1, true
		} else if x > y {
			return 1, true
		}
		return 0, true
	case reflect.Uint, reflect.Uint8, reflect.Uint16, reflect.Uint32, reflect.Uint64, reflect.Uintptr:
		x, y := va.Uint(), vb.Uint()
		if x < y {
			return -1, true
		} else if x > y {
			return 1, true
		}
		return 0, true
	case reflect.Float32, reflect.Float64:
		x, y := va.Float(), vb.Float()
		if x < y {
			return -1, true
		} else if x > y {
			return 1, true
		}
		return 0, true
	case reflect.String:
		return strings.Compare(va.String(), vb.String()), true
	}
	return 0, false
}

func Greater(t TestingT, e1, e2 interface{}, msgAndArgs ...interface{}) bool {
	if h, ok := t.(tHelper); ok {
		h.Helper()
	}
	c, ok := compare(e1, e2)
	if !ok {
		return Fail(t, fmt.Sprintf("Can not compare %T with %T", e1, e2), msgAndArgs...)
	}
	if c <= 0 {
		return Fail(t, fmt.Sprintf("\"%v\" is not greater than \"%v\"", e1, e2), msgAndArgs...)
	}
	return true
}

func GreaterOrEqual(t TestingT, e1, e2 interface{}, msgAndArgs ...interface{}) bool {
	c, ok := compare(e1, e2)
	if !ok {
		return Fail(t, fmt.Sprintf("Can not compare %T with %T", e1, e2), msgAndArgs...)
	}
	if c < 0 {
		return Fail(t, fmt.Sprintf("\"%v\" is not greater than or equal to \"%v\"", e1, e2), msgAndArgs...)
	}
	return true
}

func Less(t TestingT, e1, e2 interface{}, msgAndArgs ...interface{}) bool {
	c, ok := compare(e1, e2)
	if !ok {
		return Fail(t, fmt.Sprintf("Can not compare %T with %T", e1, e2), msgAndArgs...)
	}
	if c >= 0 {
		return Fail(t, fmt.Sprintf("\"%v\" is not less than \"%v\"", e1, e2), msgAndArgs...)
	}
	return true
}

func LessOrEqual(t TestingT, e1, e2 interface{}, msgAndArgs ...interface{}) bool {
	c, ok := compare(e1, e2)
	if !ok {
		return Fail(t, fmt.Sprintf("Can not compare %T with %T", e1, e2), msgAndArgs...)
	}
	if c > 0 {
		return Fail(t, fmt.Sprintf("\"%v\" is not less than or equal to \"%v\"", e1, e2), msgAndArgs...)
	}
	return true
}

func InDelta(t TestingT, expected, actual interface{}, delta float64, msgAndArgs ...interface{}) bool {
	a, ok1 := toFloat(reflect.ValueOf(expected))
	b, ok2 := toFloat(reflect.ValueOf(actual))
	if !ok1 || !ok2 {
		return Fail(t, "Parameters must be numerical", msgAndArgs...)
	}
	d := a - b
	if d < -delta || d > delta {
		return Fail(t, fmt.Sprintf("Max difference between %v and %v allowed is %v, but difference was %v", expected, actual, delta, d), msgAndArgs...)
	}
	return true
}

func Panics(t TestingT, f func(), msgAndArgs ...interface{}) (ok bool) {
	defer func() {
		if r := recover(); r == nil {
			ok = Fail(t, "func should panic", msgAndArgs...)
		} else {
			ok = true
		}
	}()
	f()
	return
}

func NotPanics(t TestingT, f func(), msgAndArgs ...interface{}) (ok bool) {
	defer func() {
		if r := recover(); r != nil {
			ok = Fail(t, fmt.Sprintf("func should not panic: %v", r), msgAndArgs...)
		}
	}()
	f()
	return true
}

func FailNow(t TestingT, failure string, msgAndArgs ...interface{}) bool {
	Fail(t, failure, msgAndArgs...)
	if f, ok := t.(interface{ FailNow() }); ok {
		f.FailNow()
	}
	return false
}
