module github.com/stretchr/testify

go 1.17
