// Package require: see package assert in this shim.  Every function fails the test at once.
package require

import "github.com/stretchr/testify/assert"

type TestingT interface {
	Errorf(format string, args ...interface{})
	FailNow()
}

type tHelper interface{ Helper() }

func Equal(t TestingT, expected, actual interface{}, msgAndArgs ...interface{}) {
	if h, ok := t.(tHelper); ok {
		h.Helper()
	}
	if assert.Equal(t, expected, actual, msgAndArgs...) {
		return
	}
	t.FailNow()
}

func NotEqual(t TestingT, expected, actual interface{}, msgAndArgs ...interface{}) {
	if h, ok := t.(tHelper); ok {
		h.Helper()
	}
	if assert.NotEqual(t, expected, actual, msgAndArgs...) {
		return
	}
	t.FailNow()
}

func Nil(t TestingT, object interface{}, msgAndArgs ...interface{}) {
	if h, ok := t.(tHelper); ok {
		h.Helper()
	}
	if assert.Nil(t, object, msgAndArgs...) {
		return
	}
	t.FailNow()
}

func NotNil(t TestingT, object interface{}, msgAndArgs ...interface{}) {
	if h, ok := t.(tHelper); ok {
		h.Helper()
	}
	if assert.NotNil(t, object, msgAndArgs...) {
		return
	}
	t.FailNow()
}

func True(t TestingT, value bool, msgAndArgs ...interface{}) {
	if h, ok := t.(tHelper); ok {
		h.Helper()
	}
	if assert.True(t, value, msgAndArgs...) {
		return
	}
	t.FailNow()
}

func False(t TestingT, value bool, msgAndArgs ...interface{}) {
	if h, ok := t.(tHelper); ok {
		h.Helper()
	}
	if assert.False(t, value, msgAndArgs...) {
		return
	}
	t.FailNow()
}

func NoError(t TestingT, err error, msgAndArgs ...interface{}) {
	if h, ok := t.(tHelper); ok {
		h.Helper()
	}
	if assert.NoError(t, err, msgAndArgs...) {
		return
	}
	t.FailNow()
}

func Error(t TestingT, err error, msgAndArgs ...interface{}) {
	if h, ok := t.(tHelper); ok {
		h.Helper()
	}
	if assert.Error(t, err, msgAndArgs...) {
		return
	}
	t.FailNow()
}

func Errorf(t TestingT, err error, m string, args ...interface{}) {
	if h, ok := t.(tHelper); ok {
		h.Helper()
	}
	if assert.Errorf(t, err, m, args...) {
		return
	}
	t.FailNow()
}

func ErrorContains(t TestingT, theError error, contains string, msgAndArgs ...interface{}) {
	if h, ok := t.(tHelper); ok {
		h.Helper()
	}
	if assert.ErrorContains(t, theError, contains, msgAndArgs...) {
		return
	}
	t.FailNow()
}

func ErrorIs(t TestingT, err, target error, msgAndArgs ...interface{}) {
	if h, ok := t.(tHelper); ok {
		h.Helper()
	}
	if assert.ErrorIs(t, err, target, msgAndArgs...) {
		return
	}
	t.FailNow()
}

func Len(t TestingT, object interface{}, length int, msgAndArgs ...interface{}) {
	if h, ok := t.(tHelper); ok {
		h.Helper()
	}
	if assert.Len(t, object, length, msgAndArgs...) {
		return
	}
	t.FailNow()
}

func Empty(t TestingT, object interface{}, msgAndArgs ...interface{}) {
	if h, ok := t.(tHelper); ok {
		h.Helper()
	}
	if assert.Empty(t, object, msgAndArgs...) {
		return
	}
	t.FailNow()
}

func NotEmpty(t TestingT, object interface{}, msgAndArgs ...interface{}) {
	if h, ok := t.(tHelper); ok {
		h.Helper()
	}
	if assert.NotEmpty(t, object, msgAndArgs...) {
		return
	}
	t.FailNow()
}

func Contains(t TestingT, s, contains interface{}, msgAndArgs ...interface{}) {
	if h, ok := t.(tHelper); ok {
		h.Helper()
	}
	if assert.Contains(t, s, contains, msgAndArgs...) {
		return
	}
	t.FailNow()
}

func NotContains(t TestingT, s, contains interface{}, msgAndArgs ...interface{}) {
	if h, ok := t.(tHelper); ok {
		h.Helper()
	}
	if assert.NotContains(t, s, contains, msgAndArgs...) {
		return
	}
	t.FailNow()
}

func IsType(t TestingT, expectedType interface{}, object interface{}, msgAndArgs ...interface{}) {
	if h, ok := t.(tHelper); ok {
		h.Helper()
	}
	if assert.IsType(t, expectedType, object, msgAndArgs...) {
		return
	}
	t.FailNow()
}

func Greater(t TestingT, e1, e2 interface{}, msgAndArgs ...interface{}) {
	if h, ok := t.(tHelper); ok {
		h.Helper()
	}
	if assert.Greater(t, e1, e2, msgAndArgs...) {
		return
	}
	t.FailNow()
}

func GreaterOrEqual(t TestingT, e1, e2 interface{}, msgAndArgs ...interface{}) {
	if h, ok := t.(tHelper); ok {
		h.Helper()
	}
	if assert.GreaterOrEqual(t, e1, e2, msgAndArgs...) {
		return
	}
	t.FailNow()
}

func Less(t TestingT, e1, e2 interface{}, msgAndArgs ...interface{}) {
	if h, ok := t.(tHelper); ok {
		h.Helper()
	}
	if assert.Less(t, e1, e2, msgAndArgs...) {
		return
	}
	t.FailNow()
}

func LessOrEqual(t TestingT, e1, e2 interface{}, msgAndArgs ...interface{}) {
	if h, ok := t.(tHelper); ok {
		h.Helper()
	}
	if assert.LessOrEqual(t, e1, e2, msgAndArgs...) {
		return
	}
	t.FailNow()
}

func InDelta(t TestingT, expected, actual interface{}, delta float64, msgAndArgs ...interface{}) {
	if h, ok := t.(tHelper); ok {
		h.Helper()
	}
	if assert.InDelta(t, expected, actual, delta, msgAndArgs...) {
		return
	}
	t.FailNow()
}

func Panics(t TestingT, f func(), msgAndArgs ...interface{}) {
	if h, ok := t.(tHelper); ok {
		h.Helper()
	}
	if assert.Panics(t, f, msgAndArgs...) {
		return
	}
	t.FailNow()
}

func NotPanics(t TestingT, f func(), msgAndArgs ...interface{}) {
	if h, ok := t.(tHelper); ok {
		h.Helper()
	}
	if assert.NotPanics(t, f, msgAndArgs...) {
		return
	}
	t.FailNow()
}

func FailNow(t TestingT, failure string, msgAndArgs ...interface{}) {
	assert.Fail(t, failure, msgAndArgs...)
	t.FailNow()
}

func Fail(t TestingT, failure string, msgAndArgs ...interface{}) {
	assert.Fail(t, failure, msgAndArgs...)
	t.FailNow()
}
