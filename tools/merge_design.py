#!/usr/bin/env python3
"""merge_design.py Cnn [copy dir] : take property Cnn's section-5 entry (`### Cnn …`) and appendix-D
paragraph (`**Cnn** …`) of DESIGN.md from the agent's copy (default /tmp/w-Cnn) into /verif/DESIGN.md."""
import sys, re
P = sys.argv[1]; W = sys.argv[2] if len(sys.argv) > 2 else f"/tmp/w-{P}"
a = open("/verif/DESIGN.md").read(); b = open(f"{W}/DESIGN.md").read()
def sec5(s):
    i = s.index(f"\n### {P} "); j = s.index("\n### ", i + 5) if s.find("\n### ", i + 5) >= 0 and s.find("\n### ", i + 5) < s.index("\n## 6.") else s.index("\n## 6.")
    return i, j
def appd(s):
    i0 = s.index("## Appendix D."); i = s.index(f"\n**{P}**", i0); j = s.index("\n\n", i + 2)
    return i, j
changed = []
for name, f in (("section 5", sec5), ("appendix D", appd)):
    ia, ja = f(a); ib, jb = f(b)
    if a[ia:ja] != b[ib:jb]:
        a = a[:ia] + b[ib:jb] + a[ja:]; changed.append(name)
open("/verif/DESIGN.md", "w").write(a)
print("DESIGN.md:", P, "took", changed or "nothing (identical)")
