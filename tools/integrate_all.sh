#!/bin/bash
# integrate_all.sh Cnn : integrate a builder agent's copy /tmp/w-Cnn (owned files, DESIGN entries, proposed findings),
# run the property's quick check in /verif on the unchanged tree and print its result line
set -e; set +e
ID=$1
cd /verif
tools/integrate.sh $ID
python3 tools/merge_design.py $ID || echo "merge_design failed"
# proposed findings are merged BY HAND (the proposed file also lists findings that were repaired since): show what changed
git diff --stat -- findings/proposed-$ID.json findings/known | tail -5
./check manifest > /dev/null
out=$(./check $ID quick 2>&1) ; rc=$?
echo "$out" | grep -E "^$ID quick|^VIOLATION|^KNOWN-FINDING" | cut -c1-260
echo "rc=$rc"
