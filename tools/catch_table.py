#!/usr/bin/env python3
"""Prints the markdown table "which checks catch which seeded changes" from seeded/*/meta.json."""
import json, glob, os
rows = []
neutral = []
for f in sorted(glob.glob('/verif/seeded/*/meta.json')):
    m = json.load(open(f))
    name = os.path.basename(os.path.dirname(f))
    verdict = "; ".join("%s: %s" % (k, v) for k, v in m["verdict"].items())
    if m.get("neutralised"):
        neutral.append("%s — %s" % (name, m["neutralised"]))
        continue
    files = ", ".join(m.get("files_changed") or [])
    summ = (m.get("summary") or "").replace("|", "/").replace("\n", " ")
    if len(summ) > 230:
        summ = summ[:227] + "…"
    rows.append("| %s | %s | %s | %s |" % (name, files, summ, verdict))
import sys, io
_buf = io.StringIO()
_real = sys.stdout
sys.stdout = _buf
print("| seeded change | files | what it does | verdict of our checks (quick tier, seed 1) |")
print("|---|---|---|---|")
print("\n".join(rows))
tot = len(rows)
conc = sum(1 for r in rows if "concrete replay" in r)
noin = sum(1 for r in rows if "no-failing-input-found" in r and "concrete replay" not in r)
miss = tot - conc - noin
print("\n%d seeded changes confirmed (each compiles, passes the pinned suite, and its demonstration fails with it and passes without): %d reported with a concrete replay, %d reported through a broken tie/correspondence only (no-failing-input-found), %d not detected." % (tot, conc, noin, miss))

if neutral:
    print("\nNot counted (a later repair of /repo made the change harmless): " + "; ".join(neutral))
sys.stdout = _real
text = _buf.getvalue()
if len(sys.argv) > 1 and sys.argv[1] == "--splice":   # SPLICE into DESIGN.md between the markers
    d = open('/verif/DESIGN.md').read()
    a, b = '<!-- CATCH-TABLE-BEGIN -->', '<!-- CATCH-TABLE-END -->'
    i, j = d.index(a) + len(a), d.index(b)
    open('/verif/DESIGN.md', 'w').write(d[:i] + "\n" + text + d[j:])
    print("DESIGN.md appendix E updated")
else:
    print(text)
