#!/usr/bin/env python3
"""Prints the markdown table "which checks catch which seeded changes" from seeded/*/meta.json."""
import json, glob, os
rows = []
for f in sorted(glob.glob('/verif/seeded/*/meta.json')):
    m = json.load(open(f))
    name = os.path.basename(os.path.dirname(f))
    verdict = "; ".join("%s: %s" % (k, v) for k, v in m["verdict"].items())
    files = ", ".join(m.get("files_changed") or [])
    summ = (m.get("summary") or "").replace("|", "/").replace("\n", " ")
    if len(summ) > 230:
        summ = summ[:227] + "…"
    rows.append("| %s | %s | %s | %s |" % (name, files, summ, verdict))
print("| seeded change | files | what it does | verdict of our checks (quick tier, seed 1) |")
print("|---|---|---|---|")
print("\n".join(rows))
tot = len(rows)
conc = sum(1 for r in rows if "concrete replay" in r)
noin = sum(1 for r in rows if "no-failing-input-found" in r and "concrete replay" not in r)
miss = tot - conc - noin
print("\n%d seeded changes confirmed (each compiles, passes the pinned suite, and its demonstration fails with it and passes without): %d reported with a concrete replay, %d reported through a broken tie/correspondence only (no-failing-input-found), %d not detected." % (tot, conc, noin, miss))
