#!/usr/bin/env python3
"""sync_proposed.py Cnn : update known_findings.json's entries of Cnn from findings/proposed-Cnn.json
(same id: text replaced; new id: ADDED and printed for review; ids missing from proposed are kept)."""
import json, sys
P = sys.argv[1]
k = json.load(open("/verif/known_findings.json")); pr = json.load(open(f"/verif/findings/proposed-{P}.json"))
prf = pr["findings"] if isinstance(pr, dict) else pr
byid = {f["id"]: f for f in prf if f.get("property") == P}
seen = set()
for i, f in enumerate(k["findings"]):
    if f["property"] == P and f["id"] in byid:
        if f != byid[f["id"]]: print("updated", f["id"])
        k["findings"][i] = byid[f["id"]]; seen.add(f["id"])
for id_, f in byid.items():
    if id_ not in seen:
        print("NEW", id_, "—", f.get("what", "")[:300]); k["findings"].append(f)
json.dump(k, open("/verif/known_findings.json", "w"), indent=1)
