#!/usr/bin/env python3
"""
try_mutant.py <Cnn> <mutant dir> [<check ids, comma separated>]

Confirms a seeded change (patch.diff + demo + meta.json produced by an independent
sub-agent) and runs our check(s) against it, without touching /repo:
  1. fresh git worktree of /repo's HEAD under /tmp/mw-*;
  2. demo at HEAD must PASS; apply patch; go build; demo must FAIL; full test suite must PASS;
  3. VERIF_REPO=<worktree> ./check <id> quick   in a private copy of /verif (/tmp/vmut), so
     that generated files and binaries of /verif are not disturbed;
  4. writes /verif/seeded/<Cnn>-<name>/{patch.diff,demo/,meta.json} with what was run and the outcome.
"""
import json, os, re, shutil, subprocess, sys, time

ENV = dict(os.environ, GOFLAGS="-mod=mod", GOPROXY="off", GOSUMDB="off", GOTOOLCHAIN="local", GOWORK="off")


def sh(cmd, cwd=None, timeout=3600, env=ENV):
    p = subprocess.run(cmd, shell=True, cwd=cwd, env=env, stdout=subprocess.PIPE, stderr=subprocess.STDOUT, text=True, timeout=timeout, errors="replace")
    return p.returncode, p.stdout


def main():
    pid, mdir = sys.argv[1], sys.argv[2].rstrip("/")
    checks = (sys.argv[3] if len(sys.argv) > 3 else pid).split(",")
    name = os.path.basename(mdir)
    if "/mut2-" in mdir:
        name = "r2" + name      # second round of independently seeded changes
    if "/mut3-" in mdir:
        name = "r3" + name      # third round
    if "/mut4-" in mdir:
        name = "r4" + name      # fourth round
    if "/mut5-" in mdir:
        name = "r5" + name      # fifth round
    if "/mut6-" in mdir:
        name = "r6" + name      # sixth round
    if "/mut7-" in mdir:
        name = "r7" + name      # seventh round
    meta = json.load(open(os.path.join(mdir, "meta.json")))
    readme = open(os.path.join(mdir, "demo", "README.txt")).read() if os.path.exists(os.path.join(mdir, "demo", "README.txt")) else ""
    orig_repo = os.path.dirname(os.path.dirname(mdir)) + "/repo"
    w = "/tmp/mw-%s-%s" % (pid, name)
    sh("git -C /repo worktree remove --force %s" % w)
    rc, out = sh("git -C /repo worktree add --detach %s HEAD" % w)
    res = {"property": pid, "mutant": name, "summary": meta.get("summary"), "needs_to_manifest": meta.get("needs_to_manifest"), "ran": []}
    try:
        # locate the demonstration: a Go test file (copied into the package the README names) or a
        # main package (copied to <repo>/cmd-demo-<name>/)
        import glob
        demo = os.path.join(mdir, "demo")
        tests = glob.glob(os.path.join(demo, "*_test.go"))
        mains = glob.glob(os.path.join(demo, "main.go")) + glob.glob(os.path.join(demo, "cmd-demo-*", "main.go")) + glob.glob(os.path.join(demo, "*", "main.go"))
        cps, run_cmd, cwd = [], None, w
        if tests:
            t = tests[0]
            m = re.search(r"cp\s+\S*" + re.escape(os.path.basename(t)) + r"\s+(\S+)", readme)
            target = m.group(1).replace(orig_repo, w).replace("<repo>", w).replace("$REPO", w) if m else w
            if not target.startswith(w):
                m2 = re.search(r"[Cc]opy\S*\s+.*?(?:to|into)\s+[`'\"]?(\S*?repo/\S*?)[`'\" ,)]", readme)
                target = m2.group(1).replace(orig_repo, w) if m2 else w
            if target.endswith(".go"):
                target = os.path.dirname(target)
            target = target.rstrip("/") or w
            if not os.path.isdir(target):
                target = w
            cps = ["cp %s %s/" % (t, target)]
            names = re.findall(r"^func (Test\w+)\(", open(t).read(), re.M)
            rel = os.path.relpath(target, w)
            run_cmd = "/verif/tools/core_suite.sh %s -run '^(%s)$' ./%s" % (w, "|".join(names), rel if rel != "." else "")
        elif mains:
            d = "%s/cmd-demo-%s" % (w, name)
            cps = ["mkdir -p %s" % d, "cp %s %s/main.go" % (mains[0], d)]
            run_cmd = "go run ./cmd-demo-%s" % name
        else:
            res["error"] = "no demonstration found"
        for c in cps:
            sh(c, cwd=w)
        rc0, out0 = sh(run_cmd, cwd=cwd) if run_cmd else (99, "")
        res["demo_at_head"] = "pass" if rc0 == 0 else "FAIL"
        res["ran"].append("%s   (HEAD: rc=%d)" % (run_cmd, rc0))
        rc, out = sh("git apply %s/patch.diff" % mdir, cwd=w)
        res["patch_applies"] = rc == 0
        if rc != 0:
            res["error"] = "patch does not apply to current HEAD: " + out[-300:]
            return res
        rcb, outb = sh("go build ./...", cwd=w)
        res["builds"] = rcb == 0
        rc1, out1 = sh(run_cmd, cwd=cwd) if run_cmd else (99, "")
        res["demo_with_patch"] = "fail (as required)" if rc1 != 0 else "PASSES (mutant not demonstrated)"
        res["demo_output_with_patch"] = out1[-1500:]
        res["ran"].append("%s   (patched: rc=%d)" % (run_cmd, rc1))
        # remove demo files before the suite so that the suite is the unedited one
        sh("git clean -fdq", cwd=w)
        # since the incident of 2026-09-26 (DESIGN.md section 4) the module cache is gone: the ROOT
        # module's test packages are run with a stand-in for testify (tools/core_suite.sh)
        rct, outt = sh("/verif/tools/core_suite.sh %s 2>&1 | grep -v '^ok\\|no test files'" % w, cwd=w, timeout=3000)
        bad = [l for l in outt.split("\n") if l.strip()]
        if any("TestSince" in l for l in bad):  # known timing flake under load: re-run alone
            rc2, out2 = sh("go test -vet=off -count=1 ./modules/time/", cwd=w)
            if rc2 == 0:
                bad = [l for l in bad if "modules/time" not in l and "TestSince" not in l and "time_test.go" not in l and l.strip() not in ("FAIL",) and "Error" not in l and "Should be true" not in l and "Test:" not in l]
        res["suite_with_patch"] = "pass" if not bad else "FAIL: " + " | ".join(bad[:6])
        res["ran"].append("go build ./... && tools/core_suite.sh <worktree>   (patched; root-module test packages with the testify stand-in)")
        # our checks
        vm = os.environ.get("VMUT", "/tmp/vmut-%s-%s" % (pid, name))
        if not os.path.isdir(vm):
            sh("cp -r /verif %s" % vm)
        else:
            sh("rsync -a --delete --exclude .build --exclude lean/.lake --exclude findings/runs /verif/ %s/" % vm)
        res["checks"] = {}
        for cid in checks:
            e2 = dict(ENV, VERIF_REPO=w)
            e2.pop("GOWORK", None)
            t0 = time.time()
            rc, out = sh("./check %s quick" % cid, cwd=vm, env=e2, timeout=3000)
            lines = [l for l in out.split("\n") if l.startswith("VIOLATION") or l.startswith(cid + " quick")]
            viol = [l for l in lines if l.startswith("VIOLATION")]
            detail = ""
            m = re.search(r"replay=(\S+)", viol[0]) if viol else None
            if m and os.path.exists(m.group(1)):
                rp = json.load(open(m.group(1)))
                detail = json.dumps({k: rp.get(k) for k in ("case", "detail", "broken_obligations")})[:1500]
            res["checks"][cid] = {"exit": rc, "violation_line": viol[0] if viol else "", "summary": lines[-1] if lines else out[-300:], "replay": detail, "wall_s": round(time.time() - t0)}
            res["ran"].append("VERIF_REPO=%s ./check %s quick   (rc=%d)" % (w, cid, rc))
        return res
    finally:
        sh("git -C /repo worktree remove --force %s" % w)
        sh("rm -rf /tmp/vmut-%s-%s" % (pid, name))
        ok = res.get("builds") and res.get("demo_at_head") == "pass" and str(res.get("demo_with_patch", "")).startswith("fail") and res.get("suite_with_patch") == "pass"
        res["confirmed"] = bool(ok)
        out_dir = "/verif/seeded/%s-%s" % (pid, name)
        if ok:
            os.makedirs(out_dir, exist_ok=True)
            shutil.copy(os.path.join(mdir, "patch.diff"), out_dir)
            if os.path.isdir(os.path.join(out_dir, "demo")):
                shutil.rmtree(os.path.join(out_dir, "demo"))
            shutil.copytree(os.path.join(mdir, "demo"), os.path.join(out_dir, "demo"))
            caught = {c: ("caught" + (" (no-failing-input-found)" if "no-failing-input-found" in v["violation_line"] else " with a concrete replay")) if v["violation_line"] else "MISSED" for c, v in res.get("checks", {}).items()}
            json.dump({"breaks_property": pid, "summary": meta.get("summary"), "needs_to_manifest": meta.get("needs_to_manifest"),
                       "why_tests_miss_it": meta.get("why_tests_miss_it"), "files_changed": meta.get("files_changed"),
                       "confirmed_by_owner": {"builds": res.get("builds"), "existing_suite_passes": res.get("suite_with_patch"), "demo_at_head": res.get("demo_at_head"), "demo_with_patch": res.get("demo_with_patch")},
                       "what_was_run": res["ran"], "our_checks": res.get("checks"), "verdict": caught}, open(os.path.join(out_dir, "meta.json"), "w"), indent=1)
        print(json.dumps({k: res.get(k) for k in ("property", "mutant", "confirmed", "builds", "demo_at_head", "demo_with_patch", "suite_with_patch", "error")}))
        for c, v in res.get("checks", {}).items():
            print("  check %s: %s | %s" % (c, v["violation_line"] or "NO VIOLATION", v["summary"][:200]))


if __name__ == "__main__":
    main()
