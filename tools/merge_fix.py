#!/usr/bin/env python3
"""merge_fix.py Cnn <finding-id>=<commit> ...  : take the Cnn entries of known_findings.json from the
fix agent's copy /tmp/w-Cnn (findings of Cnn replaced; its new `fixed` lines appended with the
commit hashes filled in, matched by the finding id in the line), and rename the replays."""
import json, sys, os, re, shutil, glob
P = sys.argv[1]; commits = dict(a.split("=") for a in sys.argv[2:])
base = json.load(open("/verif/known_findings.json")); w = json.load(open(f"/tmp/w-{P}/known_findings.json"))
newf = [f for f in w["findings"] if f["property"] == P]
out = []; done = False
for f in base["findings"]:
    if f["property"] == P:
        if not done: out += newf; done = True
        continue
    out.append(f)
if not done: out += newf
base["findings"] = out
for line in w["fixed"]:
    if f"property={P} " not in line or "<commit>" not in line: continue
    ids = [i for i in commits if i in line]
    assert len(ids) == 1, (line[:80], ids)
    base["fixed"].append(line.replace("<commit>", commits[ids[0]]))
    old = f"/verif/findings/known/{ids[0]}.replay"
    if os.path.exists(old): os.remove(old)
    src = f"/tmp/w-{P}/findings/known/FIXED-{ids[0]}.replay"
    if os.path.exists(src): shutil.copy(src, "/verif/findings/known/")
    else: print("no FIXED replay for", ids[0])
for f in newf:
    src = f"/tmp/w-{P}/" + f["replay"]
    if os.path.exists(src): shutil.copy(src, "/verif/" + f["replay"])
json.dump(base, open("/verif/known_findings.json", "w"), indent=1)
print("findings of", P, [f["id"] for f in newf])
