#!/usr/bin/env python3
import json, sys
k = json.load(open('/verif/known_findings.json'))
ids = {f['id'] for f in k['findings']}
for pid in sys.argv[1:]:
    p = json.load(open(f'/verif/findings/proposed-{pid}.json'))
    ents = p.get('findings', p) if isinstance(p, dict) else p
    for f in ents:
        if f['id'] in ids:
            continue
        k['findings'].append({x: f.get(x, '') for x in ('property', 'id', 'guard', 'what', 'replay')})
        ids.add(f['id'])
        print('added', f['id'])
json.dump(k, open('/verif/known_findings.json', 'w'), indent=1)
