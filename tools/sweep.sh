#!/bin/bash
# sweep.sh <tier> <seed...> : run every claimed check on the unchanged tree for the given seeds; print one line per run
tier=$1; shift
./check setup > /dev/null 2>&1
for s in "$@"; do
  for c in $(ls checks | sed 's/.json//'); do
    out=$(VERIF_SEED=$s ./check $c $tier 2>&1)
    echo "seed=$s $(echo "$out" | grep "^$c $tier" | cut -c1-200)"
    echo "$out" | grep "^VIOLATION" | cut -c1-300
  done
done
