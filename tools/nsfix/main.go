package main

// nsfix <file.go> <prefix>: give every top-level func/type/var/const declared in the file the
// prefix (unless it already has it), renaming all uses inside that file.  Used when
// integrating harness/extractor files written independently into one `package main`.

import (
	"bytes"
	"fmt"
	"go/ast"
	"go/format"
	"go/parser"
	"go/token"
	"os"
	"strings"
)

func main() {
	file, prefix := os.Args[1], os.Args[2]
	fset := token.NewFileSet()
	f, err := parser.ParseFile(fset, file, nil, parser.ParseComments)
	if err != nil {
		panic(err)
	}
	rename := map[string]string{}
	valueNames := map[string]bool{}
	has := func(n string) bool {
		l := strings.ToLower(n)
		return strings.HasPrefix(l, strings.ToLower(prefix))
	}
	add := func(n string) {
		if n == "_" || n == "init" || n == "main" || has(n) {
			return
		}
		rename[n] = prefix + "_" + n
	}
	for _, d := range f.Decls {
		switch x := d.(type) {
		case *ast.FuncDecl:
			if x.Recv == nil {
				add(x.Name.Name)
			}
		case *ast.GenDecl:
			for _, s := range x.Specs {
				switch y := s.(type) {
				case *ast.TypeSpec:
					add(y.Name.Name)
				case *ast.ValueSpec:
					for _, n := range y.Names {
						add(n.Name)
						valueNames[n.Name] = true
					}
				}
			}
		}
	}
	// identifiers that must not be renamed: selector fields, struct field names, composite-literal keys
	skip := map[*ast.Ident]bool{}
	ast.Inspect(f, func(n ast.Node) bool {
		switch x := n.(type) {
		case *ast.SelectorExpr:
			skip[x.Sel] = true
		case *ast.Field:
			// struct fields / params: field names in struct types only
		case *ast.StructType:
			for _, fl := range x.Fields.List {
				for _, nm := range fl.Names {
					skip[nm] = true
				}
			}
		case *ast.KeyValueExpr:
			if id, ok := x.Key.(*ast.Ident); ok {
				// key of a struct literal is a field name; key of a map literal is an expression.
				// heuristic: a key that names a top-level const/var of this file is a map key
				if !valueNames[id.Name] {
					skip[id] = true
				}
			}
		case *ast.InterfaceType:
			for _, fl := range x.Methods.List {
				for _, nm := range fl.Names {
					skip[nm] = true
				}
			}
		}
		return true
	})
	n := 0
	ast.Inspect(f, func(nd ast.Node) bool {
		if id, ok := nd.(*ast.Ident); ok && !skip[id] {
			if r, ok := rename[id.Name]; ok {
				id.Name = r
				n++
			}
		}
		return true
	})
	var buf bytes.Buffer
	if err := format.Node(&buf, fset, f); err != nil {
		panic(err)
	}
	os.WriteFile(file, buf.Bytes(), 0o644)
	fmt.Printf("%s: %d top-level names prefixed, %d identifiers rewritten\n", file, len(rename), n)
}
