module verif/tools/nsfix

go 1.23.0
