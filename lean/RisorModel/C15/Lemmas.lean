import RisorModel.C15.Model
set_option linter.unusedSimpArgs false
set_option linter.unnecessarySimpa false
/-! Helper lemmas for C15: three-way comparisons on Int / F / byte strings, the rounding
`toF`, and the scalar layer of `Compare`/`Equals`. -/
namespace Risor.C15

/-! ### cmpInt -/

theorem cmpInt_self (a : Int) : cmpInt a a = 0 := by simp [cmpInt]

theorem cmpInt_eq_zero {a b : Int} : cmpInt a b = 0 ↔ a = b := by
  unfold cmpInt; split <;> (try split) <;> omega

theorem cmpInt_antisymm (a b : Int) : cmpInt b a = -cmpInt a b := by
  unfold cmpInt; split <;> split <;> (try split) <;> (try split) <;> omega

theorem cmpInt_range (a b : Int) : cmpInt a b = -1 ∨ cmpInt a b = 0 ∨ cmpInt a b = 1 := by
  unfold cmpInt; split <;> (try split) <;> omega

theorem cmpInt_lt {a b : Int} : cmpInt a b = -1 ↔ a < b := by
  unfold cmpInt; split <;> (try split) <;> omega

theorem cmpInt_gt {a b : Int} : cmpInt a b = 1 ↔ a > b := by
  unfold cmpInt; split <;> (try split) <;> omega

/-! ### cmpF -/

theorem F.eq_of_rank_mag {a b : F} (h1 : a.rank = b.rank) (h2 : a.mag = b.mag) : a = b := by
  cases a <;> cases b <;> simp_all [F.rank, F.mag]

theorem cmpF_self (a : F) : cmpF a a = 0 := by simp [cmpF, cmpInt_self]

theorem cmpF_eq_zero {a b : F} : cmpF a b = 0 ↔ a = b := by
  constructor
  · intro h
    unfold cmpF at h
    split at h
    · exact F.eq_of_rank_mag (by assumption) (cmpInt_eq_zero.1 h)
    · split at h <;> omega
  · intro h; subst h; exact cmpF_self a

theorem cmpF_antisymm (a b : F) : cmpF b a = -cmpF a b := by
  unfold cmpF
  split <;> split <;> (try split) <;> (try split) <;> first | omega | exact cmpInt_antisymm _ _

theorem cmpF_range (a b : F) : cmpF a b = -1 ∨ cmpF a b = 0 ∨ cmpF a b = 1 := by
  unfold cmpF
  split
  · exact cmpInt_range _ _
  · split <;> omega

theorem cmpF_lt_trans {a b c : F} (h1 : cmpF a b = -1) (h2 : cmpF b c = -1) : cmpF a c = -1 := by
  unfold cmpF at *
  split at h1 <;> split at h2
  · rw [if_pos (by omega)]; rw [cmpInt_lt] at *; omega
  · split at h2
    · omega
    · rw [if_neg (by omega), if_neg (by omega)]
  · split at h1
    · omega
    · rw [if_neg (by omega), if_neg (by omega)]
  · split at h1
    · omega
    · split at h2
      · omega
      · rw [if_neg (by omega), if_neg (by omega)]

/-! ### cmpBytes -/

theorem cmpBytes_self : ∀ s, cmpBytes s s = 0
  | [] => rfl
  | a :: as => by simp [cmpBytes, cmpBytes_self as]

theorem cmpBytes_eq_zero : ∀ {s t}, cmpBytes s t = 0 ↔ s = t
  | [], [] => by simp [cmpBytes]
  | [], _ :: _ => by simp [cmpBytes]
  | _ :: _, [] => by simp [cmpBytes]
  | a :: as, b :: bs => by
    unfold cmpBytes
    split
    · rename_i h; subst h; simp [cmpBytes_eq_zero (s := as) (t := bs)]
    · rename_i h; split <;> simp [h]

theorem cmpBytes_antisymm : ∀ s t, cmpBytes t s = -cmpBytes s t
  | [], [] => by simp [cmpBytes]
  | [], _ :: _ => by simp [cmpBytes]
  | _ :: _, [] => by simp [cmpBytes]
  | a :: as, b :: bs => by
    unfold cmpBytes
    split <;> split <;> (try split) <;> (try split) <;>
      first | omega | exact cmpBytes_antisymm as bs | (exfalso; omega)

theorem cmpBytes_range : ∀ s t, cmpBytes s t = -1 ∨ cmpBytes s t = 0 ∨ cmpBytes s t = 1
  | [], [] => by simp [cmpBytes]
  | [], _ :: _ => by simp [cmpBytes]
  | _ :: _, [] => by simp [cmpBytes]
  | a :: as, b :: bs => by
    unfold cmpBytes
    split
    · exact cmpBytes_range as bs
    · split <;> omega

theorem cmpBytes_lt_trans : ∀ {s t u}, cmpBytes s t = -1 → cmpBytes t u = -1 → cmpBytes s u = -1
  | [], [], _ => by simp [cmpBytes]
  | [], _ :: _, [] => by simp [cmpBytes]
  | [], _ :: _, _ :: _ => by simp [cmpBytes]
  | _ :: _, [], _ => by simp [cmpBytes]
  | _ :: _, _ :: _, [] => by simp [cmpBytes]
  | a :: as, b :: bs, c :: cs => by
    unfold cmpBytes
    intro h1 h2
    split at h1 <;> split at h2
    · rw [if_pos (by omega)]; exact cmpBytes_lt_trans h1 h2
    · split at h2
      · omega
      · rw [if_neg (by omega), if_neg (by omega)]
    · split at h1
      · omega
      · rw [if_neg (by omega), if_neg (by omega)]
    · split at h1
      · omega
      · split at h2
        · omega
        · rw [if_neg (by omega), if_neg (by omega)]

end Risor.C15

namespace Risor.C15

/-! ### scale, exactF, toF -/

theorem scale_pos : 0 < scale := by decide +kernel

theorem scale_ne : scale ≠ 0 := by decide +kernel

theorem cmpInt_mul_scale (a b : Int) : cmpInt (a * scale) (b * scale) = cmpInt a b := by
  unfold cmpInt
  have h1 : a * scale = b * scale ↔ a = b := Int.mul_eq_mul_right_iff scale_ne
  have h2 : b * scale < a * scale ↔ b < a := Int.mul_lt_mul_right scale_pos
  by_cases e : a = b
  · simp [e]
  · rw [if_neg (by rw [h1]; exact e), if_neg e]
    by_cases g : a > b
    · rw [if_pos (h2.2 g), if_pos g]
    · rw [if_neg (fun h => g (h2.1 h)), if_neg g]

theorem cmpF_exactF (a b : Int) : cmpF (exactF a) (exactF b) = cmpInt a b := by
  simp [cmpF, exactF, F.rank, F.mag, cmpInt_mul_scale]

theorem toF_of_exact {i : Int} (h : exactInt i = true) : toF i = exactF i := by
  simp [exactInt] at h
  simp [toF, exactF, h]

/-! ### bool and error comparison -/

theorem boolCmp_self (x : Bool) : boolCmp x x = 0 := by simp [boolCmp]
theorem boolCmp_eq_zero {x y : Bool} : boolCmp x y = 0 ↔ x = y := by
  cases x <;> cases y <;> simp [boolCmp]
theorem boolCmp_antisymm (x y : Bool) : boolCmp y x = -boolCmp x y := by
  cases x <;> cases y <;> simp [boolCmp]
theorem boolCmp_range (x y : Bool) : boolCmp x y = -1 ∨ boolCmp x y = 0 ∨ boolCmp x y = 1 := by
  cases x <;> cases y <;> simp [boolCmp]
theorem boolCmp_lt_trans {x y z : Bool} : boolCmp x y = -1 → boolCmp y z = -1 → boolCmp x z = -1 := by
  cases x <;> cases y <;> cases z <;> simp [boolCmp]

/-- `Error.Compare` is the lexicographic comparison of (message, raised) -/
theorem errCmp_lex (m : List Nat) (r : Bool) (m' : List Nat) (r' : Bool) :
    errCmp m r m' r' = if cmpBytes m m' = 0 then boolCmp r r' else cmpBytes m m' := by
  unfold errCmp
  rcases cmpBytes_range m m' with h | h | h
  · have hne : m ≠ m' := fun e => by rw [cmpBytes_eq_zero.2 e] at h; omega
    simp [h, hne]
  · have he : m = m' := cmpBytes_eq_zero.1 h
    subst he
    cases r <;> cases r' <;> simp [h, boolCmp]
  · have hne : m ≠ m' := fun e => by rw [cmpBytes_eq_zero.2 e] at h; omega
    simp [h, hne]

theorem errCmp_eq_zero {m r m' r'} : errCmp m r m' r' = 0 ↔ m = m' ∧ r = r' := by
  rw [errCmp_lex]
  split
  · rename_i h; rw [boolCmp_eq_zero]; simp [cmpBytes_eq_zero.1 h]
  · rename_i h
    constructor
    · intro g; exact absurd g h
    · intro g; exact absurd (cmpBytes_eq_zero.2 g.1) h

theorem errCmp_antisymm (m r m' r') : errCmp m' r' m r = -errCmp m r m' r' := by
  rw [errCmp_lex, errCmp_lex, cmpBytes_antisymm m m', boolCmp_antisymm r r']
  split <;> split <;> omega

theorem errCmp_range (m r m' r') :
    errCmp m r m' r' = -1 ∨ errCmp m r m' r' = 0 ∨ errCmp m r m' r' = 1 := by
  rw [errCmp_lex]
  split
  · exact boolCmp_range _ _
  · exact cmpBytes_range _ _

theorem errCmp_lt_trans {m r m' r' m'' r''} :
    errCmp m r m' r' = -1 → errCmp m' r' m'' r'' = -1 → errCmp m r m'' r'' = -1 := by
  rw [errCmp_lex, errCmp_lex, errCmp_lex]
  intro h1 h2
  split at h1 <;> split at h2
  · rename_i e1 e2
    have := cmpBytes_eq_zero.1 e1; subst this
    rw [if_pos e2]; exact boolCmp_lt_trans h1 h2
  · rename_i e1 e2
    have := cmpBytes_eq_zero.1 e1; subst this
    rw [if_neg e2]; exact h2
  · rename_i e1 e2
    have := cmpBytes_eq_zero.1 e2; subst this
    rw [if_neg e1]; exact h1
  · have := cmpBytes_lt_trans h1 h2
    rw [if_neg (by omega)]; exact this

end Risor.C15

namespace Risor.C15

/-! ### the scalar layer -/

theorem scalarCompare_antisymm (conv : Int → F) (a b : Val) :
    scalarCompare conv b a = (scalarCompare conv a b).map (fun c => -c) := by
  cases a <;> cases b <;> simp only [scalarCompare, Option.map] <;>
    first
    | rfl
    | exact congrArg some (cmpInt_antisymm _ _)
    | exact congrArg some (cmpF_antisymm _ _)
    | exact congrArg some (cmpBytes_antisymm _ _)
    | exact congrArg some (boolCmp_antisymm _ _)
    | exact congrArg some (errCmp_antisymm _ _ _ _)

theorem scalarCompare_range {conv : Int → F} {a b : Val} {c : Int}
    (h : scalarCompare conv a b = some c) : c = -1 ∨ c = 0 ∨ c = 1 := by
  cases a <;> cases b <;> simp only [scalarCompare, Option.some.injEq] at h <;>
    first
    | contradiction
    | (subst h; first
        | exact cmpInt_range _ _ | exact cmpF_range _ _ | exact cmpBytes_range _ _
        | exact boolCmp_range _ _ | exact errCmp_range _ _ _ _ | simp)

theorem scalarCompare_zero_iff {conv : Int → F} {a b : Val} {c : Int}
    (h : scalarCompare conv a b = some c) : c = 0 ↔ scalarEquals conv a b = true := by
  cases a <;> cases b <;> simp only [scalarCompare, Option.some.injEq] at h <;>
    first
    | contradiction
    | (subst h; simp [scalarEquals, cmpInt_eq_zero, cmpBytes_eq_zero, boolCmp_eq_zero, errCmp_eq_zero] <;> omega)

theorem scalarEquals_refl (conv : Int → F) (a : Val) (h : isScalar a = true) :
    scalarEquals conv a a = true := by
  cases a <;> simp_all [scalarEquals, isScalar, cmpF_self]

theorem cmpF_beq_zero_comm (x y : F) : (cmpF x y == 0) = (cmpF y x == 0) := by
  rw [Bool.eq_iff_iff]; simp only [beq_iff_eq]; rw [cmpF_eq_zero, cmpF_eq_zero]; exact eq_comm

theorem scalarEquals_symm (conv : Int → F) (a b : Val) :
    scalarEquals conv a b = scalarEquals conv b a := by
  cases a <;> cases b <;> simp only [scalarEquals] <;>
    first
    | rfl
    | exact cmpF_beq_zero_comm _ _
    | exact BEq.comm
    | (rw [BEq.comm (a := (_ : List Nat)), BEq.comm (a := (_ : Bool))])

theorem scalarEquals_eq_compare (conv : Int → F) (a b : Val) :
    scalarEquals conv a b = (scalarCompare conv a b == some 0) := by
  cases a <;> cases b <;> simp only [scalarEquals, scalarCompare] <;>
    first
    | rfl
    | (rw [Bool.eq_iff_iff]; simp [cmpInt_eq_zero, cmpBytes_eq_zero, boolCmp_eq_zero, errCmp_eq_zero]; done)
    | (rw [Bool.eq_iff_iff]; simp [cmpInt_eq_zero]; omega)

/-! #### Spec (conv = exactF): congruence and transitivity on scalars -/

theorem scalarCompare_spec_congr {a b : Val} (h : scalarCompare exactF a b = some 0) (x : Val) :
    scalarCompare exactF a x = scalarCompare exactF b x := by
  cases a <;> cases b <;> simp only [scalarCompare, Option.some.injEq] at h <;>
    first | contradiction | skip
  case nil.nil => rfl
  case bool.bool => have e := boolCmp_eq_zero.1 h; subst e; rfl
  case int.int => have e := cmpInt_eq_zero.1 h; subst e; rfl
  case int.float => have e := cmpF_eq_zero.1 h; subst e; cases x <;> simp [scalarCompare, cmpF_exactF]
  case int.byte => have e := cmpInt_eq_zero.1 h; subst e; cases x <;> rfl
  case float.int => have e := cmpF_eq_zero.1 h; subst e; cases x <;> simp [scalarCompare, cmpF_exactF]
  case float.float => have e := cmpF_eq_zero.1 h; subst e; rfl
  case float.byte => have e := cmpF_eq_zero.1 h; subst e; cases x <;> simp [scalarCompare, cmpF_exactF]
  case byte.int => have e := cmpInt_eq_zero.1 h; subst e; cases x <;> rfl
  case byte.float => have e := cmpF_eq_zero.1 h; subst e; cases x <;> simp [scalarCompare, cmpF_exactF]
  case byte.byte =>
    have e := cmpInt_eq_zero.1 h
    have e' := Int.ofNat.inj e
    subst e'; rfl
  case str.str => have e := cmpBytes_eq_zero.1 h; subst e; rfl
  case err.err => have e := errCmp_eq_zero.1 h; obtain ⟨e1, e2⟩ := e; subst e1; subst e2; rfl

theorem scalarCompare_spec_lt_trans {a b c : Val} (h1 : scalarCompare exactF a b = some (-1))
    (h2 : scalarCompare exactF b c = some (-1)) : scalarCompare exactF a c = some (-1) := by
  cases a <;> cases b <;> simp only [scalarCompare, Option.some.injEq] at h1 <;>
    first | contradiction | skip
  all_goals
    cases c <;> simp only [scalarCompare, Option.some.injEq] at h2 <;>
      first | contradiction | skip
  all_goals simp only [scalarCompare, ← cmpF_exactF] at *
  all_goals
    first
    | exact congrArg some (cmpF_lt_trans h1 h2)
    | exact congrArg some (cmpBytes_lt_trans h1 h2)
    | exact congrArg some (boolCmp_lt_trans h1 h2)
    | exact congrArg some (errCmp_lt_trans h1 h2)
    | omega

/-! #### agreement of Impl and Spec outside the guard, on scalars -/

theorem scalarCompare_agree {a b : Val} (h : lossy a b = false) :
    scalarCompare toF a b = scalarCompare exactF a b := by
  cases a <;> cases b <;> simp only [lossy, Bool.not_eq_eq_eq_not, Bool.not_false] at h <;>
    simp only [scalarCompare] <;> first | rfl | rw [toF_of_exact h]

end Risor.C15

namespace Risor.C15

/-! ### induction over nested values -/

mutual
theorem Val.induct {P : Val → Prop} {Q : List Val → Prop}
    (scalar : ∀ v, isScalar v = true → P v)
    (list : ∀ xs, Q xs → P (.list xs))
    (map : ∀ ks vs, Q vs → P (.map ks vs))
    (set : ∀ xs, Q xs → P (.set xs))
    (nil : Q [])
    (cons : ∀ x xs, P x → Q xs → Q (x :: xs)) : ∀ v, P v
  | .nil => scalar _ rfl
  | .bool _ => scalar _ rfl
  | .int _ => scalar _ rfl
  | .float _ => scalar _ rfl
  | .byte _ => scalar _ rfl
  | .str _ => scalar _ rfl
  | .err _ _ => scalar _ rfl
  | .list xs => list xs (Val.inductL scalar list map set nil cons xs)
  | .map ks vs => map ks vs (Val.inductL scalar list map set nil cons vs)
  | .set xs => set xs (Val.inductL scalar list map set nil cons xs)
theorem Val.inductL {P : Val → Prop} {Q : List Val → Prop}
    (scalar : ∀ v, isScalar v = true → P v)
    (list : ∀ xs, Q xs → P (.list xs))
    (map : ∀ ks vs, Q vs → P (.map ks vs))
    (set : ∀ xs, Q xs → P (.set xs))
    (nil : Q [])
    (cons : ∀ x xs, P x → Q xs → Q (x :: xs)) : ∀ vs, Q vs
  | [] => nil
  | x :: xs => cons x xs (Val.induct scalar list map set nil cons x) (Val.inductL scalar list map set nil cons xs)
end

theorem compareG_scalar {conv : Int → F} {a : Val} (h : isScalar a = true) (b : Val) :
    compareG conv a b = scalarCompare conv a b := by
  cases a <;> simp_all [compareG, isScalar]

theorem equalsG_scalar {conv : Int → F} {a : Val} (h : isScalar a = true) (b : Val) :
    equalsG conv a b = scalarEquals conv a b := by
  cases a <;> simp_all [equalsG, isScalar]

theorem scalarCompare_nonscalar_right {conv : Int → F} (a : Val) {b : Val} (h : isScalar b = false) :
    scalarCompare conv a b = none := by
  cases b <;> simp_all [isScalar] <;> cases a <;> rfl

theorem scalarEquals_nonscalar_right {conv : Int → F} (a : Val) {b : Val} (h : isScalar b = false) :
    scalarEquals conv a b = false := by
  cases b <;> simp_all [isScalar] <;> cases a <;> rfl

theorem compareG_nonscalar_scalar {conv : Int → F} {a b : Val} (ha : isScalar a = false)
    (hb : isScalar b = true) : compareG conv a b = none := by
  cases a <;> simp_all [isScalar, compareG] <;> cases b <;> simp_all

theorem equalsG_nonscalar_scalar {conv : Int → F} {a b : Val} (ha : isScalar a = false)
    (hb : isScalar b = true) : equalsG conv a b = false := by
  cases a <;> simp_all [isScalar, equalsG] <;> cases b <;> simp_all

/-! ### laws that hold for every conversion (hence for Impl and Spec alike) -/

theorem equalsG_refl (conv : Int → F) : ∀ v, equalsG conv v v = true := by
  refine Val.induct (P := fun v => equalsG conv v v = true) (Q := fun vs => equalsLG conv vs vs = true)
    ?_ ?_ ?_ ?_ ?_ ?_
  · intro v h; rw [equalsG_scalar h]; exact scalarEquals_refl conv v h
  · intro xs h; simp [equalsG, h]
  · intro ks vs h; simp [equalsG, h]
  · intro xs h; simp [equalsG, h]
  · simp [equalsLG]
  · intro x xs h1 h2; simp [equalsLG, h1, h2]

theorem decide_eq_comm {α : Type} [DecidableEq α] (a b : α) : decide (a = b) = decide (b = a) := by
  by_cases h : a = b
  · subst h; rfl
  · have h' : ¬ b = a := fun e => h e.symm
    simp [h, h']

theorem equalsG_symm (conv : Int → F) : ∀ a b, equalsG conv a b = equalsG conv b a := by
  refine Val.induct (P := fun a => ∀ b, equalsG conv a b = equalsG conv b a)
    (Q := fun xs => ∀ ys, equalsLG conv xs ys = equalsLG conv ys xs) ?_ ?_ ?_ ?_ ?_ ?_
  · intro a h b
    rw [equalsG_scalar h]
    cases hb : isScalar b
    · rw [scalarEquals_nonscalar_right a hb, equalsG_nonscalar_scalar hb h]
    · rw [equalsG_scalar hb, scalarEquals_symm]
  · intro xs ih b
    cases b <;> simp [equalsG, scalarEquals]
    rename_i ys
    rw [ih ys, BEq.comm (a := xs.length)]
  · intro ks vs ih b
    cases b <;> simp [equalsG, scalarEquals]
    rename_i ks' vs'
    rw [ih vs', decide_eq_comm ks]
  · intro xs ih b
    cases b <;> simp [equalsG, scalarEquals]
    rename_i ys
    rw [ih ys, decide_eq_comm (hashKeys xs)]
  · intro ys; cases ys <;> simp [equalsLG]
  · intro x xs h1 h2 ys
    cases ys with
    | nil => simp [equalsLG]
    | cons y ys => simp [equalsLG, h1 y, h2 ys]


theorem compareG_antisymm (conv : Int → F) :
    ∀ a b, compareG conv b a = (compareG conv a b).map (fun c => -c) := by
  refine Val.induct (P := fun a => ∀ b, compareG conv b a = (compareG conv a b).map (fun c => -c))
    (Q := fun xs => ∀ ys, compareLG conv ys xs = (compareLG conv xs ys).map (fun c => -c)) ?_ ?_ ?_ ?_ ?_ ?_
  · intro a h b
    rw [compareG_scalar h]
    cases hb : isScalar b
    · rw [scalarCompare_nonscalar_right a hb, compareG_nonscalar_scalar hb h]; rfl
    · rw [compareG_scalar hb, scalarCompare_antisymm]
  · intro xs ih b
    cases b <;> simp only [compareG, scalarCompare, Option.map_none]
    rename_i ys
    by_cases h1 : xs.length > ys.length
    · simp [h1, show ¬ ys.length > xs.length by omega, show ys.length < xs.length by omega]
    · by_cases h2 : xs.length < ys.length
      · simp [h1, h2, show ys.length > xs.length by omega]
      · simp [h1, h2, show ¬ ys.length > xs.length by omega, show ¬ ys.length < xs.length by omega, ih ys]
  · intro ks vs _ b
    cases b <;> simp only [compareG, scalarCompare, Option.map_none]
  · intro xs _ b
    cases b <;> simp only [compareG, scalarCompare, Option.map_none]
  · intro ys; cases ys <;> simp [compareLG]
  · intro x xs h1 h2 ys
    cases ys with
    | nil => simp [compareLG]
    | cons y ys =>
      simp only [compareLG]
      rw [h1 y]
      cases compareG conv x y with
      | none => rfl
      | some c =>
        simp only [Option.map]
        by_cases hc : c = 0
        · rw [if_pos hc, if_pos (by omega)]; exact h2 ys
        · rw [if_neg hc, if_neg (by omega)]

mutual
theorem compareG_range (conv : Int → F) : ∀ (a b : Val) (c : Int),
    compareG conv a b = some c → c = -1 ∨ c = 0 ∨ c = 1
  | .list xs, b, c => by
    cases b <;> simp only [compareG] <;> try (intro h; contradiction)
    rename_i ys
    intro h
    split at h
    · simp at h; omega
    · split at h
      · simp at h; omega
      · exact compareLG_range conv xs ys c h
  | .map _ _, _, _ => by simp [compareG]
  | .set _, _, _ => by simp [compareG]
  | .nil, b, c => by simp only [compareG]; exact scalarCompare_range
  | .bool _, b, c => by simp only [compareG]; exact scalarCompare_range
  | .int _, b, c => by simp only [compareG]; exact scalarCompare_range
  | .float _, b, c => by simp only [compareG]; exact scalarCompare_range
  | .byte _, b, c => by simp only [compareG]; exact scalarCompare_range
  | .str _, b, c => by simp only [compareG]; exact scalarCompare_range
  | .err _ _, b, c => by simp only [compareG]; exact scalarCompare_range
theorem compareLG_range (conv : Int → F) : ∀ (xs ys : List Val) (c : Int),
    compareLG conv xs ys = some c → c = -1 ∨ c = 0 ∨ c = 1
  | [], _, c => by simp [compareLG]; omega
  | _ :: _, [], c => by simp [compareLG]; omega
  | x :: xs, y :: ys, c => by
    simp only [compareLG]
    cases h : compareG conv x y with
    | none => simp
    | some d =>
      simp only
      split
      · exact compareLG_range conv xs ys c
      · intro e; simp at e; subst e; exact compareG_range conv x y d h
end

end Risor.C15

namespace Risor.C15

theorem compareG_zero_iff_equals (conv : Int → F) :
    ∀ a b c, compareG conv a b = some c → (c = 0 ↔ equalsG conv a b = true) := by
  refine Val.induct
    (P := fun a => ∀ b c, compareG conv a b = some c → (c = 0 ↔ equalsG conv a b = true))
    (Q := fun xs => ∀ ys c, xs.length = ys.length → compareLG conv xs ys = some c →
      (c = 0 ↔ equalsLG conv xs ys = true)) ?_ ?_ ?_ ?_ ?_ ?_
  · intro a h b c hc
    rw [compareG_scalar h] at hc
    rw [equalsG_scalar h]
    exact scalarCompare_zero_iff hc
  · intro xs ih b c hc
    cases b <;> simp only [compareG] at hc <;> try contradiction
    rename_i ys
    simp only [equalsG]
    split at hc
    · have : c = 1 := by simp at hc; omega
      subst this
      simp; intro e; omega
    · split at hc
      · have : c = -1 := by simp at hc; omega
        subst this
        simp; intro e; omega
      · have hl : xs.length = ys.length := by omega
        rw [ih ys c hl hc]; simp [hl]
  · intro ks vs _ b c hc; simp [compareG] at hc
  · intro xs _ b c hc; simp [compareG] at hc
  · intro ys c hl hc
    cases ys with
    | nil => simp [compareLG] at hc; simp [equalsLG]; omega
    | cons y ys => simp at hl
  · intro x xs h1 h2 ys c hl hc
    cases ys with
    | nil => simp at hl
    | cons y ys =>
      simp only [compareLG] at hc
      simp only [equalsLG]
      cases hd : compareG conv x y with
      | none => rw [hd] at hc; contradiction
      | some d =>
        rw [hd] at hc
        simp only at hc
        have hx := h1 y d hd
        split at hc
        · rename_i hd0
          have hl' : xs.length = ys.length := by simpa using hl
          rw [h2 ys c hl' hc]
          simp [hx.1 hd0]
        · rename_i hd0
          have : c = d := by simp at hc; omega
          subst this
          have : equalsG conv x y = false := by
            cases he : equalsG conv x y
            · rfl
            · exact absurd (hx.2 he) hd0
          simp [this, hd0]

/-! ### Spec (`conv := exactF`): `compare = 0` is a congruence; `<` is transitive; `==` is a congruence -/

theorem xcompare_congr : ∀ a b, compareG exactF a b = some 0 →
    ∀ x, compareG exactF a x = compareG exactF b x := by
  refine Val.induct
    (P := fun a => ∀ b, compareG exactF a b = some 0 → ∀ x, compareG exactF a x = compareG exactF b x)
    (Q := fun xs => ∀ ys, xs.length = ys.length → compareLG exactF xs ys = some 0 →
      ∀ zs, compareLG exactF xs zs = compareLG exactF ys zs) ?_ ?_ ?_ ?_ ?_ ?_
  · intro a h b hab x
    rw [compareG_scalar h] at hab
    cases hb : isScalar b
    · rw [scalarCompare_nonscalar_right a hb] at hab; contradiction
    · rw [compareG_scalar h, compareG_scalar hb]
      exact scalarCompare_spec_congr hab x
  · intro xs ih b hab x
    cases b <;> simp only [compareG] at hab <;> try contradiction
    rename_i ys
    split at hab
    · simp at hab
    · split at hab
      · simp at hab
      · have hl : xs.length = ys.length := by omega
        cases x <;> simp only [compareG]
        rename_i zs
        rw [hl, ih ys hl hab zs]
  · intro ks vs _ b hab; simp [compareG] at hab
  · intro xs _ b hab; simp [compareG] at hab
  · intro ys hl _ zs
    cases ys with
    | nil => rfl
    | cons y ys => simp at hl
  · intro x xs h1 h2 ys hl hab zs
    cases ys with
    | nil => simp at hl
    | cons y ys =>
      simp only [compareLG] at hab
      cases hd : compareG exactF x y with
      | none => rw [hd] at hab; contradiction
      | some d =>
        rw [hd] at hab
        simp only at hab
        split at hab
        · rename_i hd0
          subst hd0
          cases zs with
          | nil => rfl
          | cons z zs =>
            simp only [compareLG]
            rw [h1 y hd z, h2 ys (by simpa using hl) hab zs]
        · rename_i hd0
          simp at hab; exact absurd hab hd0

theorem xcompare_congr_right {a b : Val} (h : compareG exactF a b = some 0) (x : Val) :
    compareG exactF x a = compareG exactF x b := by
  rw [compareG_antisymm exactF a x, compareG_antisymm exactF b x, xcompare_congr a b h x]

theorem xcompare_lt_trans : ∀ a b c, compareG exactF a b = some (-1) →
    compareG exactF b c = some (-1) → compareG exactF a c = some (-1) := by
  refine Val.induct
    (P := fun a => ∀ b c, compareG exactF a b = some (-1) → compareG exactF b c = some (-1) →
      compareG exactF a c = some (-1))
    (Q := fun xs => ∀ ys zs, xs.length = ys.length → ys.length = zs.length →
      compareLG exactF xs ys = some (-1) → compareLG exactF ys zs = some (-1) →
      compareLG exactF xs zs = some (-1)) ?_ ?_ ?_ ?_ ?_ ?_
  · intro a h b c hab hbc
    rw [compareG_scalar h] at hab
    cases hb : isScalar b
    · rw [scalarCompare_nonscalar_right a hb] at hab; contradiction
    · rw [compareG_scalar hb] at hbc
      cases hc : isScalar c
      · rw [scalarCompare_nonscalar_right b hc] at hbc; contradiction
      · rw [compareG_scalar h]; exact scalarCompare_spec_lt_trans hab hbc
  · intro xs ih b c hab hbc
    cases b <;> simp only [compareG] at hab <;> try contradiction
    rename_i ys
    cases c <;> simp only [compareG] at hbc <;> try contradiction
    rename_i zs
    simp only [compareG]
    split at hab
    · simp at hab
    · split at hbc
      · simp at hbc
      · split at hab
        · rw [if_neg (by omega), if_pos (by omega)]
        · split at hbc
          · rw [if_neg (by omega), if_pos (by omega)]
          · rw [if_neg (by omega), if_neg (by omega)]
            exact ih ys zs (by omega) (by omega) hab hbc
  · intro ks vs _ b c hab; simp [compareG] at hab
  · intro xs _ b c hab; simp [compareG] at hab
  · intro ys zs hl _ hab
    cases ys with
    | nil => simp [compareLG] at hab
    | cons y ys => simp at hl
  · intro x xs h1 h2 ys zs hl1 hl2 hab hbc
    cases ys with
    | nil => simp at hl1
    | cons y ys =>
      cases zs with
      | nil => simp at hl2
      | cons z zs =>
        simp only [compareLG] at hab hbc ⊢
        cases hd1 : compareG exactF x y with
        | none => rw [hd1] at hab; contradiction
        | some d1 =>
          cases hd2 : compareG exactF y z with
          | none => rw [hd2] at hbc; contradiction
          | some d2 =>
            rw [hd1] at hab; rw [hd2] at hbc
            simp only at hab hbc
            split at hab
            · rename_i e1; subst e1
              rw [xcompare_congr x y hd1 z, hd2]
              simp only
              split at hbc
              · rename_i e2; subst e2
                simp only [if_true]
                exact h2 ys zs (by simpa using hl1) (by simpa using hl2) hab hbc
              · rename_i e2
                rw [if_neg e2]; exact hbc
            · rename_i e1
              have : d1 = -1 := by simp at hab; exact hab
              subst this
              split at hbc
              · rename_i e2; subst e2
                rw [← xcompare_congr_right hd2 x, hd1]; rfl
              · rename_i e2
                have : d2 = -1 := by simp at hbc; exact hbc
                subst this
                rw [h1 y z hd1 hd2]; rfl

theorem scalarEquals_spec_congr {a b : Val} (h : scalarEquals exactF a b = true) (x : Val) :
    scalarEquals exactF a x = scalarEquals exactF b x := by
  rw [scalarEquals_eq_compare] at h
  rw [scalarEquals_eq_compare, scalarEquals_eq_compare, scalarCompare_spec_congr (by simpa using h) x]

theorem xequals_congr : ∀ a b, equalsG exactF a b = true →
    ∀ x, equalsG exactF a x = equalsG exactF b x := by
  refine Val.induct
    (P := fun a => ∀ b, equalsG exactF a b = true → ∀ x, equalsG exactF a x = equalsG exactF b x)
    (Q := fun xs => ∀ ys, equalsLG exactF xs ys = true →
      ∀ zs, equalsLG exactF xs zs = equalsLG exactF ys zs) ?_ ?_ ?_ ?_ ?_ ?_
  · intro a h b hab x
    rw [equalsG_scalar h] at hab
    cases hb : isScalar b
    · rw [scalarEquals_nonscalar_right a hb] at hab; contradiction
    · rw [equalsG_scalar h, equalsG_scalar hb]
      exact scalarEquals_spec_congr hab x
  · intro xs ih b hab x
    cases b <;> simp only [equalsG] at hab <;> try contradiction
    rename_i ys
    simp only [Bool.and_eq_true, beq_iff_eq] at hab
    cases x <;> simp only [equalsG]
    rename_i zs
    rw [hab.1, ih ys hab.2 zs]
  · intro ks vs ih b hab x
    cases b <;> simp only [equalsG] at hab <;> try contradiction
    rename_i ks' vs'
    simp only [Bool.and_eq_true, decide_eq_true_eq] at hab
    cases x <;> simp only [equalsG]
    rename_i ks'' vs''
    rw [hab.1, ih vs' hab.2 vs'']
  · intro xs ih b hab x
    cases b <;> simp only [equalsG] at hab <;> try contradiction
    rename_i ys
    simp only [Bool.and_eq_true, decide_eq_true_eq] at hab
    cases x <;> simp only [equalsG]
    rename_i zs
    rw [hab.1, ih ys hab.2 zs]
  · intro ys hab zs
    cases ys with
    | nil => rfl
    | cons y ys => simp [equalsLG] at hab
  · intro x xs h1 h2 ys hab zs
    cases ys with
    | nil => simp [equalsLG] at hab
    | cons y ys =>
      simp only [equalsLG, Bool.and_eq_true] at hab
      cases zs with
      | nil => rfl
      | cons z zs =>
        simp only [equalsLG]
        rw [h1 y hab.1 z, h2 ys hab.2 zs]

/-! ### Impl = Spec outside the guard -/

theorem scalarEquals_agree {a b : Val} (h : lossy a b = false) :
    scalarEquals toF a b = scalarEquals exactF a b := by
  rw [scalarEquals_eq_compare, scalarEquals_eq_compare, scalarCompare_agree h]

theorem agree_outside_guard : ∀ a b, lossy a b = false →
    compareG toF a b = compareG exactF a b ∧ equalsG toF a b = equalsG exactF a b := by
  refine Val.induct
    (P := fun a => ∀ b, lossy a b = false →
      compareG toF a b = compareG exactF a b ∧ equalsG toF a b = equalsG exactF a b)
    (Q := fun xs => ∀ ys, lossyL xs ys = false →
      compareLG toF xs ys = compareLG exactF xs ys ∧ equalsLG toF xs ys = equalsLG exactF xs ys)
    ?_ ?_ ?_ ?_ ?_ ?_
  · intro a h b hl
    rw [compareG_scalar h, compareG_scalar h, equalsG_scalar h, equalsG_scalar h]
    exact ⟨scalarCompare_agree hl, scalarEquals_agree hl⟩
  · intro xs ih b hl
    cases b <;> simp only [compareG, equalsG, and_self]
    rename_i ys
    simp only [lossy] at hl
    rw [(ih ys hl).1, (ih ys hl).2]
    exact ⟨rfl, rfl⟩
  · intro ks vs ih b hl
    cases b <;> simp only [compareG, equalsG, and_self]
    rename_i ks' vs'
    simp only [lossy] at hl
    rw [(ih vs' hl).2]
    simp
  · intro xs ih b hl
    cases b <;> simp only [compareG, equalsG, and_self]
    rename_i ys
    simp only [lossy] at hl
    by_cases hk : hashKeys xs = hashKeys ys
    · simp only [hk, decide_true, Bool.true_and] at hl ⊢
      rw [(ih ys hl).2]
      simp
    · simp [hk]
  · intro ys _
    cases ys <;> simp [compareLG, equalsLG]
  · intro x xs h1 h2 ys hl
    cases ys with
    | nil => simp [compareLG, equalsLG]
    | cons y ys =>
      simp only [lossyL, Bool.or_eq_false_iff] at hl
      simp only [compareLG, equalsLG]
      rw [(h1 y hl.1).1, (h1 y hl.1).2, (h2 ys hl.2).1, (h2 ys hl.2).2]
      exact ⟨rfl, rfl⟩

end Risor.C15

namespace Risor.C15

/-! ### the stable insertion sort, for any `lt` -/

section SortSec
variable {α : Type} (lt : α → α → Bool)

theorem insR_perm (x : α) : ∀ l : List α, (insR lt x l).Perm (x :: l)
  | [] => List.Perm.refl _
  | y :: rest => by
    unfold insR
    split
    · exact ((insR_perm x rest).cons y).trans (List.Perm.swap x y rest)
    · exact List.Perm.refl _

theorem mem_insR {x w : α} {l : List α} (h : w ∈ insR lt x l) : w = x ∨ w ∈ l := by
  have := (insR_perm lt x l).mem_iff.1 h
  simpa using this

theorem foldl_insR_perm : ∀ (xs acc : List α),
    (xs.foldl (fun acc x => insR lt x acc) acc).Perm (xs ++ acc)
  | [], acc => List.Perm.refl _
  | x :: xs, acc => by
    simp only [List.foldl_cons]
    refine (foldl_insR_perm xs (insR lt x acc)).trans ?_
    refine ((insR_perm lt x acc).append_left xs).trans ?_
    simpa using (List.perm_middle (a := x) (l₁ := xs) (l₂ := acc))

theorem sortBy_perm (xs : List α) : (sortBy lt xs).Perm xs := by
  unfold sortBy sortRev
  refine (List.reverse_perm _).trans ?_
  simpa using foldl_insR_perm lt xs []

/-- carrier-relative strict-weak-order facts used below -/
structure SWO (S : α → Prop) : Prop where
  asym : ∀ a b, S a → S b → lt a b = true → lt b a = false
  negtrans : ∀ a b c, S a → S b → S c → lt a b = false → lt b c = false → lt a c = false

variable {lt}

theorem insR_sorted {S : α → Prop} (h : SWO lt S) {x : α} (hx : S x) :
    ∀ {l : List α}, (∀ y ∈ l, S y) → l.Pairwise (fun a b => lt a b = false) →
      (insR lt x l).Pairwise (fun a b => lt a b = false)
  | [], _, _ => by simp [insR]
  | y :: rest, hS, hp => by
    have hy : S y := hS y (by simp)
    have hrest : ∀ z ∈ rest, S z := fun z hz => hS z (by simp [hz])
    rw [List.pairwise_cons] at hp
    unfold insR
    split
    · rename_i hlt
      rw [List.pairwise_cons]
      refine ⟨?_, insR_sorted h hx hrest hp.2⟩
      intro w hw
      rcases mem_insR lt hw with e | e
      · subst e; exact h.asym _ _ hx hy hlt
      · exact hp.1 w e
    · rename_i hlt
      have hxy : lt x y = false := by simpa using hlt
      rw [List.pairwise_cons]
      refine ⟨?_, List.pairwise_cons.2 hp⟩
      intro w hw
      rcases List.mem_cons.1 hw with e | e
      · subst e; exact hxy
      · exact h.negtrans x y w hx hy (hrest w e) hxy (hp.1 w e)

theorem foldl_insR_sorted {S : α → Prop} (h : SWO lt S) : ∀ (xs acc : List α),
    (∀ y ∈ xs, S y) → (∀ y ∈ acc, S y) → acc.Pairwise (fun a b => lt a b = false) →
    (xs.foldl (fun acc x => insR lt x acc) acc).Pairwise (fun a b => lt a b = false)
  | [], _, _, _, hp => hp
  | x :: xs, acc, hxs, hacc, hp => by
    simp only [List.foldl_cons]
    have hx : S x := hxs x (by simp)
    refine foldl_insR_sorted h xs _ (fun y hy => hxs y (by simp [hy])) ?_ (insR_sorted h hx hacc hp)
    intro y hy
    rcases mem_insR lt hy with e | e
    · subst e; exact hx
    · exact hacc y e

/-- the output is ordered: no later item is `lt` an earlier one -/
theorem sortBy_sorted {S : α → Prop} (h : SWO lt S) (xs : List α) (hxs : ∀ y ∈ xs, S y) :
    (sortBy lt xs).Pairwise (fun a b => lt b a = false) := by
  unfold sortBy sortRev
  rw [List.pairwise_reverse]
  exact foldl_insR_sorted h xs [] hxs (by simp) List.Pairwise.nil

theorem insR_filter {S : α → Prop} (p : α → Bool) {x : α}
    (hc : ∀ y, S y → p x = true → lt x y = true → p y = false) :
    ∀ {l : List α}, (∀ y ∈ l, S y) →
      (insR lt x l).filter p = if p x then x :: l.filter p else l.filter p
  | [], _ => by cases h : p x <;> simp [insR, List.filter, h]
  | y :: rest, hS => by
    have hy : S y := hS y (by simp)
    have hrest : ∀ z ∈ rest, S z := fun z hz => hS z (by simp [hz])
    unfold insR
    split
    · rename_i hlt
      rw [List.filter_cons, insR_filter p hc hrest]
      by_cases hpx : p x = true
      · have hpy : p y = false := hc y hy hpx hlt
        simp [hpx, hpy]
      · simp [hpx, List.filter_cons]
    · simp [List.filter_cons]

theorem foldl_insR_filter {S : α → Prop} (p : α → Bool)
    (hc : ∀ x y, S x → S y → p x = true → lt x y = true → p y = false) : ∀ (xs acc : List α),
    (∀ y ∈ xs, S y) → (∀ y ∈ acc, S y) →
    (xs.foldl (fun acc x => insR lt x acc) acc).filter p = (xs.filter p).reverse ++ acc.filter p
  | [], acc, _, _ => by simp
  | x :: xs, acc, hxs, hacc => by
    simp only [List.foldl_cons]
    have hx : S x := hxs x (by simp)
    have hacc' : ∀ y ∈ insR lt x acc, S y := by
      intro y hy
      rcases mem_insR lt hy with e | e
      · subst e; exact hx
      · exact hacc y e
    rw [foldl_insR_filter p hc xs _ (fun y hy => hxs y (by simp [hy])) hacc',
      insR_filter p (fun y hy => hc x y hx hy) hacc]
    by_cases hpx : p x = true
    · simp [hpx, List.filter_cons]
    · simp [hpx, List.filter_cons]

/-- stability: every class `p` that `lt` cannot split keeps its input order -/
theorem sortBy_stable {S : α → Prop} (p : α → Bool)
    (hc : ∀ x y, S x → S y → p x = true → lt x y = true → p y = false)
    (xs : List α) (hxs : ∀ y ∈ xs, S y) : (sortBy lt xs).filter p = xs.filter p := by
  unfold sortBy sortRev
  rw [List.filter_reverse, foldl_insR_filter p hc xs [] hxs (by simp)]
  simp

theorem foldl_insR_of_sorted : ∀ (xs acc : List α),
    (acc.reverse ++ xs).Pairwise (fun a b => lt b a = false) →
    xs.foldl (fun acc x => insR lt x acc) acc = xs.reverse ++ acc
  | [], acc, _ => by simp
  | x :: xs, acc, hp => by
    simp only [List.foldl_cons]
    have hins : insR lt x acc = x :: acc := by
      cases acc with
      | nil => rfl
      | cons y rest =>
        have : lt x y = false := by
          rw [List.pairwise_append] at hp
          exact hp.2.2 y (by simp) x (by simp)
        simp [insR, this]
    rw [hins, foldl_insR_of_sorted xs (x :: acc) (by simpa using hp)]
    simp

/-- an ordered list is a fixed point -/
theorem sortBy_of_sorted (xs : List α) (h : xs.Pairwise (fun a b => lt b a = false)) :
    sortBy lt xs = xs := by
  unfold sortBy sortRev
  rw [foldl_insR_of_sorted xs [] (by simpa using h)]
  simp

/-! the same pass with a comparison that may fail -/

theorem insRM_eq {cmp : α → α → Option Bool} {x : α} :
    ∀ {l : List α}, (∀ y ∈ l, cmp x y = some (lt x y)) → insRM cmp x l = some (insR lt x l)
  | [], _ => rfl
  | y :: rest, h => by
    unfold insRM insR
    rw [h y (by simp)]
    cases hlt : lt x y
    · simp
    · simp [insRM_eq (l := rest) (fun z hz => h z (by simp [hz]))]

theorem sortRevM_eq {cmp : α → α → Option Bool} : ∀ (xs acc : List α),
    (∀ a ∈ xs ++ acc, ∀ b ∈ xs ++ acc, cmp a b = some (lt a b)) →
    sortRevM cmp acc xs = some (xs.foldl (fun acc x => insR lt x acc) acc)
  | [], acc, _ => rfl
  | x :: xs, acc, h => by
    unfold sortRevM
    rw [insRM_eq (lt := lt) (fun y hy => h x (by simp) y (by simp [hy]))]
    simp only [List.foldl_cons]
    apply sortRevM_eq xs (insR lt x acc)
    intro a ha b hb
    have mem : ∀ w, w ∈ xs ++ insR lt x acc → w ∈ x :: xs ++ acc := by
      intro w hw
      rcases List.mem_append.1 hw with e | e
      · simp [e]
      · rcases mem_insR lt e with e' | e'
        · simp [e']
        · simp [e']
    exact h a (mem a ha) b (mem b hb)

theorem sortM_eq {cmp : α → α → Option Bool} (xs : List α)
    (h : ∀ a ∈ xs, ∀ b ∈ xs, cmp a b = some (lt a b)) : sortM cmp xs = some (sortBy lt xs) := by
  unfold sortM sortBy sortRev
  rw [sortRevM_eq xs [] (by simpa using h)]
  rfl

theorem insRM_perm {cmp : α → α → Option Bool} {x : α} :
    ∀ {l r : List α}, insRM cmp x l = some r → r.Perm (x :: l)
  | [], r, h => by simp [insRM] at h; subst h; exact List.Perm.refl _
  | y :: rest, r, h => by
    unfold insRM at h
    split at h
    · contradiction
    · cases hr : insRM cmp x rest with
      | none => rw [hr] at h; contradiction
      | some r' =>
        rw [hr] at h
        simp at h; subst h
        exact ((insRM_perm hr).cons y).trans (List.Perm.swap x y rest)
    · simp at h; subst h; exact List.Perm.refl _

theorem sortRevM_perm {cmp : α → α → Option Bool} : ∀ {xs acc r : List α},
    sortRevM cmp acc xs = some r → r.Perm (xs ++ acc)
  | [], acc, r, h => by simp [sortRevM] at h; subst h; exact List.Perm.refl _
  | x :: xs, acc, r, h => by
    unfold sortRevM at h
    split at h
    · contradiction
    · rename_i acc' hacc
      refine (sortRevM_perm h).trans ?_
      refine ((insRM_perm hacc).append_left xs).trans ?_
      simpa using (List.perm_middle (a := x) (l₁ := xs) (l₂ := acc))

/-- whenever the failing-comparison sort returns, it returns a permutation of its input -/
theorem sortM_perm {cmp : α → α → Option Bool} {xs r : List α} (h : sortM cmp xs = some r) :
    r.Perm xs := by
  unfold sortM at h
  cases hr : sortRevM cmp [] xs with
  | none => rw [hr] at h; contradiction
  | some r' =>
    rw [hr] at h
    simp at h; subst h
    refine (List.reverse_perm _).trans ?_
    simpa using sortRevM_perm hr

end SortSec
end Risor.C15

namespace Risor.C15

/-! ### hash keys and sets -/

theorem hashKey_eq_iff (conv : Int → F) {a b : Val} {ka kb : HashKey}
    (ha : hashKey a = some ka) (hb : hashKey b = some kb) :
    ka = kb ↔ (ty a = ty b ∧ equalsG conv a b = true) := by
  cases a <;> simp only [hashKey, Option.some.injEq] at ha <;> try contradiction
  all_goals (cases b <;> simp only [hashKey, Option.some.injEq] at hb <;> try contradiction)
  all_goals (subst ha; subst hb)
  all_goals simp [ty, equalsG, scalarEquals, cmpF_eq_zero]
  all_goals (first | omega | (rename_i x y; cases x <;> cases y <;> simp))

theorem hashable_of_ty {a b : Val} (h : ty a = ty b) : (hashKey a).isSome = (hashKey b).isSome := by
  cases a <;> cases b <;> simp_all [ty, hashKey]

section SetSec
variable {α : Type} (key : α → HashKey)

theorem replaceKey_keys (x : α) : ∀ l : List α, (replaceKey key x l).map key = l.map key
  | [] => rfl
  | y :: rest => by
    unfold replaceKey
    split
    · rename_i h; simp [h]
    · simp [replaceKey_keys x rest]

theorem insertByKey_perm (x : α) : ∀ l : List α, (insertByKey key x l).Perm (x :: l)
  | [] => List.Perm.refl _
  | y :: rest => by
    unfold insertByKey
    split
    · exact List.Perm.refl _
    · exact ((insertByKey_perm x rest).cons y).trans (List.Perm.swap x y rest)

theorem setInsert_mem_keys (x : α) (l : List α) (k : HashKey) :
    k ∈ (setInsert key x l).map key ↔ k = key x ∨ k ∈ l.map key := by
  unfold setInsert
  split
  · rename_i h
    rw [replaceKey_keys]
    constructor
    · intro hk; exact Or.inr hk
    · intro hk
      rcases hk with e | e
      · subst e
        simp only [List.any_eq_true, decide_eq_true_eq] at h
        obtain ⟨y, hy, hyk⟩ := h
        exact List.mem_map.2 ⟨y, hy, hyk⟩
      · exact e
  · rw [((insertByKey_perm key x l).map key).mem_iff]
    simp

theorem setInsert_nodup (x : α) (l : List α) (h : (l.map key).Nodup) :
    ((setInsert key x l).map key).Nodup := by
  unfold setInsert
  split
  · rw [replaceKey_keys]; exact h
  · rename_i hn
    rw [((insertByKey_perm key x l).map key).nodup_iff]
    simp only [List.map_cons, List.nodup_cons]
    refine ⟨?_, h⟩
    intro hk
    apply hn
    obtain ⟨y, hy, hyk⟩ := List.mem_map.1 hk
    simp only [List.any_eq_true, decide_eq_true_eq]
    exact ⟨y, hy, hyk⟩

theorem replaceKey_mem {x w : α} : ∀ {l : List α}, w ∈ replaceKey key x l → w = x ∨ w ∈ l
  | [], h => by simp [replaceKey] at h
  | y :: rest, h => by
    unfold replaceKey at h
    split at h
    · rcases List.mem_cons.1 h with e | e
      · exact Or.inl e
      · exact Or.inr (by simp [e])
    · rcases List.mem_cons.1 h with e | e
      · exact Or.inr (by simp [e])
      · rcases replaceKey_mem e with e' | e'
        · exact Or.inl e'
        · exact Or.inr (by simp [e'])

theorem setInsert_mem {x w : α} {l : List α} (h : w ∈ setInsert key x l) : w = x ∨ w ∈ l := by
  unfold setInsert at h
  split at h
  · exact replaceKey_mem key h
  · have := (insertByKey_perm key x l).mem_iff.1 h
    simpa using this

theorem foldl_setInsert (xs : List α) : ∀ (acc : List α), (acc.map key).Nodup →
    (((xs.foldl (fun acc x => setInsert key x acc) acc).map key).Nodup) ∧
    (∀ k, k ∈ (xs.foldl (fun acc x => setInsert key x acc) acc).map key ↔ k ∈ xs.map key ∨ k ∈ acc.map key) ∧
    (∀ w, w ∈ xs.foldl (fun acc x => setInsert key x acc) acc → w ∈ xs ∨ w ∈ acc) := by
  induction xs with
  | nil => intro acc h; simp [h]
  | cons x xs ih =>
    intro acc h
    simp only [List.foldl_cons]
    obtain ⟨h1, h2, h3⟩ := ih (setInsert key x acc) (setInsert_nodup key x acc h)
    refine ⟨h1, ?_, ?_⟩
    · intro k
      rw [h2 k, setInsert_mem_keys]
      simp only [List.map_cons, List.mem_cons]
      constructor
      · rintro (e | e | e)
        · exact Or.inl (Or.inr e)
        · exact Or.inl (Or.inl e)
        · exact Or.inr e
      · rintro ((e | e) | e)
        · exact Or.inr (Or.inl e)
        · exact Or.inl e
        · exact Or.inr (Or.inr e)
    · intro w hw
      rcases h3 w hw with e | e
      · exact Or.inl (by simp [e])
      · rcases setInsert_mem key e with e' | e'
        · exact Or.inl (by simp [e'])
        · exact Or.inr e'

theorem buildSet_nodup (xs : List α) : ((buildSet key xs).map key).Nodup :=
  (foldl_setInsert key xs [] (by simp)).1

theorem buildSet_mem_keys (xs : List α) (k : HashKey) :
    k ∈ (buildSet key xs).map key ↔ k ∈ xs.map key := by
  have := (foldl_setInsert key xs [] (by simp)).2.1 k
  simpa [buildSet] using this

theorem buildSet_mem (xs : List α) {w : α} (h : w ∈ buildSet key xs) : w ∈ xs := by
  have := (foldl_setInsert key xs [] (by simp)).2.2 w h
  simpa using this

end SetSec

theorem allHashable_mem : ∀ {xs : List Val}, allHashable xs = true → ∀ x ∈ xs, hashKey x = some (keyOf x)
  | [], _, _, hx => by simp at hx
  | y :: rest, h, x, hx => by
    simp only [allHashable, Bool.and_eq_true] at h
    rcases List.mem_cons.1 hx with e | e
    · subst e
      unfold keyOf
      cases hk : hashKey x with
      | none => rw [hk] at h; simp at h
      | some k => rfl
    · exact allHashable_mem h.2 x e

end Risor.C15

namespace Risor.C15

/-! ### `<=` in the Spec is transitive (with the exact result) -/

theorem xcompare_le_trans {a b c : Val} {d1 d2 : Int}
    (h1 : compareG exactF a b = some d1) (h2 : compareG exactF b c = some d2)
    (l1 : d1 ≤ 0) (l2 : d2 ≤ 0) :
    ∃ d3, compareG exactF a c = some d3 ∧ d3 ≤ 0 ∧ (d3 = 0 ↔ d1 = 0 ∧ d2 = 0) := by
  have r1 := compareG_range exactF a b d1 h1
  have r2 := compareG_range exactF b c d2 h2
  by_cases e1 : d1 = 0
  · subst e1
    refine ⟨d2, ?_, l2, by omega⟩
    rw [xcompare_congr a b h1 c]; exact h2
  · have e1' : d1 = -1 := by omega
    subst e1'
    by_cases e2 : d2 = 0
    · subst e2
      refine ⟨-1, ?_, by omega, by omega⟩
      rw [← xcompare_congr_right h2 a]; exact h1
    · have e2' : d2 = -1 := by omega
      subst e2'
      exact ⟨-1, xcompare_lt_trans a b c h1 h2, by omega, by omega⟩

/-- `lossy` is symmetric -/
theorem lossy_symm : ∀ a b, lossy a b = lossy b a := by
  refine Val.induct (P := fun a => ∀ b, lossy a b = lossy b a)
    (Q := fun xs => ∀ ys, lossyL xs ys = lossyL ys xs) ?_ ?_ ?_ ?_ ?_ ?_
  · intro a hs b; cases a <;> simp [isScalar] at hs <;> cases b <;> simp [lossy]
  · intro xs ih b; cases b <;> simp [lossy]; rename_i ys; exact ih ys
  · intro ks vs ih b; cases b <;> simp [lossy]; rename_i ks' vs'; exact ih vs'
  · intro xs ih b
    cases b <;> simp [lossy]
    rename_i ys
    rw [ih ys, decide_eq_comm (hashKeys xs)]
  · intro ys; cases ys <;> simp [lossyL]
  · intro x xs h1 h2 ys
    cases ys with
    | nil => simp [lossyL]
    | cons y ys => simp [lossyL, h1 y, h2 ys]

theorem lossy_scalar_same_ty {a b : Val} (hs : isScalar a = true) (ht : ty a = ty b) :
    lossy a b = false := by
  cases a <;> cases b <;> simp_all [isScalar, ty, lossy]

/-- `less` is asymmetric on all values -/
theorem less_asymm (a b : Val) (h : less a b = true) : less b a = false := by
  unfold less compare at *
  rw [compareG_antisymm toF a b]
  have : compareG toF a b = some (-1) := by simpa using h
  rw [this]; simp

/-- outside the guard and among mutually comparable values `less` is negatively transitive -/
theorem less_negtrans {a b c : Val}
    (hab : compare a b ≠ none) (hbc : compare b c ≠ none)
    (lab : lossy a b = false) (lbc : lossy b c = false) (lac : lossy a c = false)
    (h1 : less a b = false) (h2 : less b c = false) : less a c = false := by
  unfold less compare at *
  cases e1 : compareG toF a b with
  | none => exact absurd e1 hab
  | some d1 =>
  cases e2 : compareG toF b c with
  | none => exact absurd e2 hbc
  | some d2 =>
  rw [e1] at h1; rw [e2] at h2
  have r1 := compareG_range toF a b d1 e1
  have r2 := compareG_range toF b c d2 e2
  have n1 : d1 ≠ -1 := by intro e; subst e; simp at h1
  have n2 : d2 ≠ -1 := by intro e; subst e; simp at h2
  -- move to the Spec, reversed direction
  have x1 : compareG exactF b a = some (-d1) := by
    rw [compareG_antisymm exactF a b, ← (agree_outside_guard a b lab).1, e1]; rfl
  have x2 : compareG exactF c b = some (-d2) := by
    rw [compareG_antisymm exactF b c, ← (agree_outside_guard b c lbc).1, e2]; rfl
  obtain ⟨d3, h3, l3, _⟩ := xcompare_le_trans x2 x1 (by omega) (by omega)
  rw [(agree_outside_guard a c lac).1, compareG_antisymm exactF c a, h3]
  have r3 := compareG_range exactF c a d3 h3
  simp; omega

end Risor.C15

namespace Risor.C15

/-! ### `float64(int64)` is monotone -/

/-- rounding to a multiple of `d`, ties to the even multiple -/
def roundD (q d : Nat) : Nat :=
  if 2 * (q % d) > d ∨ (2 * (q % d) = d ∧ (q / d) % 2 = 1) then (q / d + 1) * d else (q / d) * d

theorem roundTo_eq (q k : Nat) : roundTo q k = roundD q (2 ^ k) := rfl

theorem roundD_lo (q d : Nat) : (q / d) * d ≤ roundD q d := by
  unfold roundD; split
  · exact Nat.mul_le_mul_right d (Nat.le_succ _)
  · exact Nat.le_refl _

theorem roundD_hi (q d : Nat) : roundD q d ≤ (q / d + 1) * d := by
  unfold roundD; split
  · exact Nat.le_refl _
  · exact Nat.mul_le_mul_right d (Nat.le_succ _)

theorem roundD_mono {d q1 q2 : Nat} (_hd : 0 < d) (h : q1 ≤ q2) : roundD q1 d ≤ roundD q2 d := by
  have hm : q1 / d ≤ q2 / d := Nat.div_le_div_right h
  rcases Nat.lt_or_eq_of_le hm with hlt | heq
  · exact Nat.le_trans (roundD_hi q1 d) (Nat.le_trans (Nat.mul_le_mul_right d hlt) (roundD_lo q2 d))
  · have e1 := Nat.div_add_mod q1 d
    have e2 := Nat.div_add_mod q2 d
    rw [heq] at e1
    have hr : q1 % d ≤ q2 % d := by omega
    unfold roundD
    rw [heq]
    split <;> split
    · exact Nat.le_refl _
    · exfalso; omega
    · exact Nat.mul_le_mul_right d (Nat.le_succ _)
    · exact Nat.le_refl _

theorem roundD_mul (m : Nat) {d : Nat} (hd : 0 < d) : roundD (m * d) d = m * d := by
  unfold roundD
  rw [Nat.mul_mod_left, Nat.mul_div_cancel m hd]
  rw [if_neg (by omega)]

theorem log2_mono {a b : Nat} (ha : a ≠ 0) (h : a ≤ b) : a.log2 ≤ b.log2 := by
  have hb : b ≠ 0 := by omega
  apply Nat.le_of_not_lt
  intro hlt
  have h1 : b < 2 ^ a.log2 := (Nat.log2_lt hb).1 hlt
  have h2 : 2 ^ a.log2 ≤ a := Nat.log2_self_le ha
  omega

theorem roundNat_mono {q1 q2 : Nat} (h : q1 ≤ q2) : roundNat q1 ≤ roundNat q2 := by
  unfold roundNat
  rw [roundTo_eq, roundTo_eq]
  by_cases h0 : q1 = 0
  · subst h0
    have : roundD 0 (2 ^ shiftOf 0) = 0 := by unfold roundD; simp
    rw [this]; exact Nat.zero_le _
  · have hq2 : q2 ≠ 0 := by omega
    have hL : q1.log2 ≤ q2.log2 := log2_mono h0 h
    have hk : shiftOf q1 ≤ shiftOf q2 := by unfold shiftOf; omega
    rcases Nat.lt_or_eq_of_le hk with hlt | heq
    · -- different binades: separated by a power of two
      have hpos1 : 0 < 2 ^ shiftOf q1 := Nat.two_pow_pos _
      have hpos2 : 0 < 2 ^ shiftOf q2 := Nat.two_pow_pos _
      have up : roundD q1 (2 ^ shiftOf q1) ≤ 2 ^ 53 * 2 ^ shiftOf q1 := by
        have hq : q1 ≤ 2 ^ 53 * 2 ^ shiftOf q1 := by
          rw [← Nat.pow_add]
          have h1 : q1 < 2 ^ (q1.log2 + 1) := Nat.lt_log2_self
          have h2 : 2 ^ (q1.log2 + 1) ≤ 2 ^ (53 + shiftOf q1) :=
            Nat.pow_le_pow_right (by omega) (by unfold shiftOf; omega)
          omega
        have := roundD_mono hpos1 hq
        rwa [roundD_mul _ hpos1] at this
      have lo : 2 ^ 52 * 2 ^ shiftOf q2 ≤ roundD q2 (2 ^ shiftOf q2) := by
        have hq : 2 ^ 52 * 2 ^ shiftOf q2 ≤ q2 := by
          rw [← Nat.pow_add]
          have h1 : 2 ^ q2.log2 ≤ q2 := Nat.log2_self_le hq2
          have h2 : 52 + shiftOf q2 = q2.log2 := by unfold shiftOf at *; omega
          rw [h2]; exact h1
        have := roundD_mono hpos2 hq
        rwa [roundD_mul _ hpos2] at this
      have mid : 2 ^ 53 * 2 ^ shiftOf q1 ≤ 2 ^ 52 * 2 ^ shiftOf q2 := by
        rw [← Nat.pow_add, ← Nat.pow_add]
        exact Nat.pow_le_pow_right (by omega) (by omega)
      exact Nat.le_trans up (Nat.le_trans mid lo)
    · rw [heq]; exact roundD_mono (Nat.two_pow_pos _) h

theorem roundInt_mono {i j : Int} (h : i ≤ j) : roundInt i ≤ roundInt j := by
  unfold roundInt
  by_cases hi : i < 0
  · by_cases hj : j < 0
    · rw [if_pos hi, if_pos hj]
      have : roundNat j.natAbs ≤ roundNat i.natAbs := roundNat_mono (by omega)
      simp only [Int.ofNat_eq_natCast]; omega
    · rw [if_pos hi, if_neg hj]
      simp only [Int.ofNat_eq_natCast]; omega
  · have hj : ¬ j < 0 := by omega
    rw [if_neg hi, if_neg hj]
    have : roundNat i.natAbs ≤ roundNat j.natAbs := roundNat_mono (by omega)
    simp only [Int.ofNat_eq_natCast]; omega

theorem toF_mono {i j : Int} (h : i ≤ j) : cmpF (toF i) (toF j) ≤ 0 := by
  have hr := roundInt_mono h
  have hs : roundInt i * scale ≤ roundInt j * scale :=
    Int.mul_le_mul_of_nonneg_right hr (Int.le_of_lt scale_pos)
  simp only [toF, cmpF, F.rank, F.mag, if_true]
  unfold cmpInt
  split
  · omega
  · split <;> omega

theorem cmpF_lt_of_lt_of_le {a b c : F} (h1 : cmpF a b = -1) (h2 : cmpF b c ≤ 0) : cmpF a c = -1 := by
  rcases cmpF_range b c with h | h | h
  · exact cmpF_lt_trans h1 h
  · have := cmpF_eq_zero.1 h; subst this; exact h1
  · omega


theorem roundNat_small {q : Nat} (h : q ≤ 2 ^ 53) : roundNat q = q := by
  rcases Nat.lt_or_eq_of_le h with hlt | heq
  · have hs : shiftOf q = 0 := by
      unfold shiftOf
      by_cases h0 : q = 0
      · subst h0; decide
      · have : q.log2 < 53 := (Nat.log2_lt h0).2 hlt
        omega
    unfold roundNat roundTo
    rw [hs]
    simp [Nat.mod_one]
  · subst heq; decide

theorem exactInt_of_abs_le {i : Int} (h : i.natAbs ≤ 2 ^ 53) : exactInt i = true := by
  unfold exactInt roundInt
  rw [roundNat_small h]
  split <;> simp <;> omega


end Risor.C15

namespace Risor.C15

/-! ### helpers for the statements in Props -/

theorem isScalar_of_ty {a b : Val} (h : ty a = ty b) (hs : isScalar a = true) : isScalar b = true := by
  cases a <;> cases b <;> simp_all [isScalar, ty]

theorem isScalar_of_ordered {a : Val} (h : orderedScalar (ty a) = true) : isScalar a = true := by
  cases a <;> simp_all [isScalar, ty, orderedScalar]

theorem Sortable.comparable {xs : List Val} (h : Sortable xs) : Comparable xs :=
  fun a ha b hb => (h a ha b hb).1

theorem lessM_eq {xs : List Val} (h : Comparable xs) :
    ∀ a ∈ xs, ∀ b ∈ xs, lessM a b = some (less a b) := by
  intro a ha b hb
  have := h a ha b hb
  unfold lessM less
  cases hc : compare a b with
  | none => exact absurd hc this
  | some c => simp

theorem less_swo {xs : List Val} (h : Sortable xs) : SWO less (fun v => v ∈ xs) where
  asym := fun a b _ _ hab => less_asymm a b hab
  negtrans := fun a b c ha hb hc h1 h2 =>
    less_negtrans (h a ha b hb).1 (h b hb c hc).1 (h a ha b hb).2 (h b hb c hc).2 (h a ha c hc).2 h1 h2

theorem orderedB_iff : ∀ ys : List Val, orderedB ys = true ↔ ys.Pairwise (fun a b => less b a = false)
  | [] => by simp [orderedB]
  | a :: rest => by simp [orderedB, orderedB_iff rest, List.pairwise_cons]


end Risor.C15
